"""Demonstrations of rendering defects #9 #10 #11 #12 and json_safe handling (DESIGN.md section 8)."""
import io, json, logging
import openhtf as htf
from openhtf.core import phase_branches, measurements
from openhtf.output.callbacks import json_factory
from openhtf.util import data
logging.disable(logging.CRITICAL)
from openhtf.util import console_output
console_output.banner_print = lambda *a, **k: None
console_output.error_print = lambda *a, **k: None

@htf.measures(htf.Measurement('d').with_dimensions('x').with_transform(lambda v: v * 100))
def dim_phase(test):
  test.measurements.d[1] = 1
  live.append(json.dumps(test.measurements._measurements['d'].as_base_types(), default=str))
live = []

@htf.measures(htf.Measurement('n'))
def nan_phase(test):
  test.measurements.n = {'k': float('nan')}
  test.attach('a.txt', b'hello')

recs = []
t = htf.Test(dim_phase, phase_branches.PhaseFailureCheckpoint.last('cp'), nan_phase)
t.add_output_callbacks(recs.append)
t.execute()
r = recs[0]
b = r.as_base_types()
print('#9  stored', r.phases[0].measurements['d'].measured_value.value, 'rendered', b['phases'][0]['measurements']['d']['measured_value'])
print('#12 live view while PARTIALLY_SET:', live[0])
print('#10 checkpoints recorded:', len(r.checkpoints), 'rendered key present:', 'checkpoints' in b)
js = data.convert_to_base_types({'k': float('nan')}, json_safe=True)
print('json_safe inside a dict:', js)
out = io.BytesIO()
try:
  json_factory.OutputToJSON(out, inline_attachments=True)(r)
  print('json ok, NaN token present:', b'NaN' in out.getvalue())
except Exception as e:
  print('OutputToJSON raised', type(e).__name__, e)
b2 = r.as_base_types()
print('#11 after convert_test_record_to_json(inline): attachment in cached dict is',
      type(b2['phases'][1]['attachments']['a.txt']).__name__)
