"""Demonstrations of executor defects #1 #2 #4 #6 (DESIGN.md section 8). Each prints what the real code does.
Run: PYTHONPATH=/repo /venv/bin/python findings/executor_defects_demo.py"""
import logging, sys, threading
import openhtf as htf
from openhtf.core import phase_executor, diagnoses_lib
from openhtf.util import configuration
logging.disable(logging.CRITICAL)
phase_executor._JOIN_TRY_INTERVAL_SECONDS = 0.01
crashes = []
threading.excepthook = lambda a: crashes.append(a.exc_type.__name__)


def run(nodes, **opts):
  recs = []
  t = htf.Test(*nodes)
  t.configure(**opts)
  t.add_output_callbacks(recs.append)
  del crashes[:]
  ret = t.execute()
  r = recs[0]
  return ret, r.outcome.name, [(p.name, p.outcome.name) for p in r.phases], list(crashes)

log = []
@htf.PhaseOptions(run_if=lambda: False)
def never(test): log.append('never')
def td(test): log.append('td')
print('#1 run_if=False first phase + stop_on_first_failure, in a group with teardown:')
print('  ', run([htf.PhaseGroup(main=[never], teardown=[td])], stop_on_first_failure=True), 'teardown ran:', 'td' in log)

n = [0]
@htf.PhaseOptions(force_repeat=True, repeat_limit=2)
def flaky(test):
  n[0] += 1
  if n[0] == 1: raise RuntimeError('boom')
print('#2 force_repeat swallows an exception of a non-final invocation:')
print('  ', run([flaky]))

class R(diagnoses_lib.DiagResultEnum):
  BAD = 'bad'
@diagnoses_lib.TestDiagnoser(R)
def tdiag(test_record, store):
  return diagnoses_lib.Diagnosis(R.BAD, 'bad', is_failure=True)
t = htf.Test(never)
t.add_test_diagnosers(tdiag)
recs = []
t.add_output_callbacks(recs.append)
ret = t.execute()
print('#4 zero phase records + failure diagnosis from a test diagnoser:')
print('  ', ret, recs[0].outcome.name, [(d.result.name, d.is_failure) for d in recs[0].diagnoses])

log2 = []
def mk(name):
  def f(test): log2.append(name)
  f.__name__ = name
  return htf.PhaseOptions(name=name)(f)
def fail_sub(test): return htf.PhaseResult.FAIL_SUBTEST
inner = htf.PhaseGroup(setup=[mk('i_setup')], main=[mk('i_main')], teardown=[mk('i_td')])
outer = htf.PhaseGroup(main=[fail_sub], teardown=[mk('o_td1'), inner, mk('o_td2')])
print('#6 group nested in the teardown of an entered group of a failed subtest:')
print('  ', run([htf.Subtest('st', outer)]), 'bodies run:', log2)
