"""Shared machinery of the /verif checks (see DESIGN.md section 2).

Every check does, in this order:
  1. regenerate lean/OpenHTF/Gen/Constants.lean from the repository source (AST, no import)
  2. lake build of the proof module of the property and of the driver
  3. audit: forbidden tokens in the Lean sources, `#print axioms` of every registered theorem
  4. correspondence: run the real code on generated cases, pipe the cases and the real
     observations to the Lean driver, which evaluates the model and the spec
  5. verdict, evidence file, exit code
"""
import fcntl
import hashlib
import json
import os
import random
import re
import subprocess
import sys
import time

VERIF = os.path.dirname(os.path.dirname(os.path.abspath(__file__)))
REPO = os.environ.get('VERIF_REPO', '/repo')
LEAN_DIR = os.path.join(VERIF, 'lean')
EVIDENCE_DIR = os.environ.get('VERIF_EVIDENCE_DIR') or os.path.join(VERIF, 'evidence')
REPLAY_DIR = os.path.join(EVIDENCE_DIR, 'replays')
KNOWN_FILE = os.path.join(VERIF, 'known_findings.json')
ALLOWED_AXIOMS = {'propext', 'Classical.choice', 'Quot.sound'}
FORBIDDEN = re.compile(
    r'\b(sorry|admit|native_decide|bv_decide|implemented_by|unsafe)\b|^\s*axiom\s|maxHeartbeats\s+0\b',
    re.M)

os.environ.setdefault('GOOGLE_OPENHTF_VERIF', '1')


def seed_from_env():
  try:
    return int(os.environ.get('VERIF_SEED', '0'))
  except ValueError:
    return 0


def log(msg):
  sys.stderr.write('[verif] %s\n' % msg)
  sys.stderr.flush()


# ---------------------------------------------------------------------------
# Lean side

class _Lock(object):
  """exclusive use of the Lean directory (generated constants, build products); re-entrant within one process"""
  depth = 0
  f = None

  def __enter__(self):
    if _Lock.depth == 0:
      os.makedirs(os.path.join(LEAN_DIR, '.lake'), exist_ok=True)
      _Lock.f = open(os.path.join(LEAN_DIR, '.lake', 'verif.lock'), 'w')
      fcntl.flock(_Lock.f, fcntl.LOCK_EX)
    _Lock.depth += 1
    return self

  def __exit__(self, *a):
    _Lock.depth -= 1
    if _Lock.depth == 0:
      fcntl.flock(_Lock.f, fcntl.LOCK_UN)
      _Lock.f.close()
      _Lock.f = None


lean_lock = _Lock

_PRIVATE_DRIVER = [None]


def snapshot_driver():
  """Copies the driver built for THIS run's constants to a private file: another check running at the same time (on
  another tree: bin/selftest) regenerates the constants and rebuilds the shared binary."""
  import atexit
  import shutil
  import tempfile
  src = os.path.join(LEAN_DIR, '.lake', 'build', 'bin', 'driver')
  fd, dst = tempfile.mkstemp(prefix='verif-driver.')
  os.close(fd)
  shutil.copy2(src, dst)
  os.chmod(dst, 0o755)
  cleanup_private_driver()
  _PRIVATE_DRIVER[0] = dst
  atexit.register(cleanup_private_driver)


def cleanup_private_driver():
  dst, _PRIVATE_DRIVER[0] = _PRIVATE_DRIVER[0], None
  if dst and os.path.exists(dst):
    os.remove(dst)


def regen_constants():
  """Step 1. Returns (drift list, constants dict)."""
  from harness import gen_constants
  with _Lock():
    return gen_constants.regenerate(REPO, LEAN_DIR)


def lake_build(targets, timeout=1500):
  """Step 2. Returns (ok, output)."""
  with _Lock():
    try:
      p = subprocess.run(['lake', 'build'] + list(targets), cwd=LEAN_DIR,
                         stdout=subprocess.PIPE, stderr=subprocess.STDOUT,
                         timeout=timeout)
    except subprocess.TimeoutExpired:
      return False, 'lake build timed out'
    return p.returncode == 0, p.stdout.decode('utf-8', 'replace')


def strip_comments(src):
  # remove /- ... -/ (nested not handled beyond one level, good enough for the grep) and -- ...
  src = re.sub(r'/-.*?-/', ' ', src, flags=re.S)
  src = re.sub(r'--[^\n]*', ' ', src)
  # string literals may mention the words (driver messages)
  src = re.sub(r'"(?:[^"\\]|\\.)*"', '""', src)
  return src


def grep_forbidden():
  hits = []
  for root, _, files in os.walk(os.path.join(LEAN_DIR, 'OpenHTF')):
    for fn in files:
      if not fn.endswith('.lean'):
        continue
      path = os.path.join(root, fn)
      with open(path) as f:
        src = strip_comments(f.read())
      for m in FORBIDDEN.finditer(src):
        hits.append('%s: %s' % (os.path.relpath(path, LEAN_DIR), m.group(0).strip()))
  return hits


def print_axioms(module, theorems, timeout=900):
  """Returns {theorem: sorted axiom list} or {theorem: None} if unknown/not compiled."""
  os.makedirs(os.path.join(LEAN_DIR, '.lake', 'audit'), exist_ok=True)
  path = os.path.join(LEAN_DIR, '.lake', 'audit', module.replace('.', '_') + '.lean')
  with open(path, 'w') as f:
    f.write('import %s\n' % module)
    for t in theorems:
      f.write('#print axioms %s\n' % t)
  try:
    p = subprocess.run(['lake', 'env', 'lean', path], cwd=LEAN_DIR, stdout=subprocess.PIPE,
                       stderr=subprocess.STDOUT, timeout=timeout)
  except subprocess.TimeoutExpired:
    return {t: None for t in theorems}, 'audit timed out'
  out = p.stdout.decode('utf-8', 'replace')
  res = {t: None for t in theorems}
  flat = re.sub(r'\s+', ' ', out)
  for t in theorems:
    m = re.search(r"'%s' depends on axioms: \[([^\]]*)\]" % re.escape(t), flat)
    if m:
      res[t] = sorted(a.strip() for a in m.group(1).split(',') if a.strip())
      continue
    if re.search(r"'%s' does not depend on any axioms" % re.escape(t), flat):
      res[t] = []
  return res, out


def run_driver(lines, timeout=1800):
  """Step 4 (Lean half). One output line per input line."""
  exe = _PRIVATE_DRIVER[0] or os.path.join(LEAN_DIR, '.lake', 'build', 'bin', 'driver')
  data = ('\n'.join(lines) + '\n').encode()
  p = subprocess.run([exe], input=data, stdout=subprocess.PIPE, stderr=subprocess.PIPE,
                     timeout=timeout)
  if p.returncode != 0:
    raise RuntimeError('driver failed: %s' % p.stderr.decode('utf-8', 'replace')[:2000])
  out = p.stdout.decode('utf-8', 'replace').split('\n')
  if out and out[-1] == '':
    out.pop()
  if len(out) != len(lines):
    raise RuntimeError('driver returned %d lines for %d inputs' % (len(out), len(lines)))
  return out


# ---------------------------------------------------------------------------
# known findings

def load_known(prop):
  if not os.path.exists(KNOWN_FILE):
    return []
  with open(KNOWN_FILE) as f:
    data = json.load(f)
  return [e for e in data.get('findings', []) if e.get('property') == prop and e.get('status') == 'known']


# ---------------------------------------------------------------------------
# evidence / verdict

def write_replay(prop, payload):
  os.makedirs(REPLAY_DIR, exist_ok=True)
  h = hashlib.sha1(json.dumps(payload, sort_keys=True, default=str).encode()).hexdigest()[:12]
  path = os.path.join(REPLAY_DIR, '%s-%s.json' % (prop, h))
  with open(path, 'w') as f:
    json.dump(payload, f, indent=1, sort_keys=True, default=str)
  return os.path.relpath(path, VERIF)


def write_evidence(prop, tier, seed, coverage, assumptions, wall, violations, level='proof'):
  os.makedirs(EVIDENCE_DIR, exist_ok=True)
  ev = {
      'property_id': prop,
      'tier': tier,
      'seed': seed,
      'level': level,
      'coverage': coverage,
      'assumptions': assumptions,
      'wall_s': round(wall, 3),
      'violations': violations,
  }
  tmp = os.path.join(EVIDENCE_DIR, '.%s.json.tmp' % prop)
  with open(tmp, 'w') as f:
    json.dump(ev, f, indent=1, default=str)
  os.replace(tmp, os.path.join(EVIDENCE_DIR, '%s.json' % prop))


class Rng(random.Random):
  """Single PRNG every random choice derives from."""

  def derive(self, tag):
    return Rng('%s/%s' % (self.getrandbits(64), tag))


def make_rng(prop, extra=0):
  return Rng('%s/%d/%d' % (prop, seed_from_env(), extra))
