"""Entry point: python -m harness.check <quick|thorough|replay> <Cxx> [--replay file]."""
import importlib
import os
import sys
import time


def _arm_watchdog(seconds):
  """a check that does not come back (changed code that deadlocks on a real lock, a transfer that never ends) is a
  time-out: exit 2, not a hang"""
  import multiprocessing
  import threading
  seconds = int(os.environ.get('VERIF_WATCHDOG_S', seconds))

  def fire():
    sys.stdout.write('ERROR: check timed out after %d s (exit 2)\n' % seconds)
    sys.stdout.flush()
    for c in multiprocessing.active_children():
      try:
        c.terminate()
      except Exception:  # pylint: disable=broad-except
        pass
    try:
      from harness import common
      common.cleanup_private_driver()
    except Exception:  # pylint: disable=broad-except
      pass
    os._exit(2)
  t = threading.Timer(seconds, fire)
  t.daemon = True
  t.start()


def main(argv):
  if len(argv) < 3 or argv[1] not in ('quick', 'thorough', 'replay'):
    print('usage: bin/check <quick|thorough|replay> <Cxx> [--replay file]')
    return 2
  tier, prop = argv[1], argv[2]
  os.environ['VERIF_TIER'] = tier
  _arm_watchdog(3000 if tier == 'quick' else 10800)
  from harness import engine
  try:
    mod = importlib.import_module('harness.props.%s' % prop.lower())
  except ImportError as e:
    print('ERROR: no check for %s (%s)' % (prop, e))
    return 2
  if tier == 'replay':
    path = argv[argv.index('--replay') + 1] if '--replay' in argv else argv[3]
    return engine.replay(mod, path)
  if hasattr(mod, 'check'):
    return mod.check(tier)
  return engine.check(mod, tier)


if __name__ == '__main__':
  try:
    rc = main(sys.argv)
  except KeyboardInterrupt:
    rc = 2
  except Exception:  # pylint: disable=broad-except
    import traceback
    traceback.print_exc()
    rc = 2
  sys.stdout.flush()
  sys.stderr.flush()
  from harness import common
  common.cleanup_private_driver()
  os._exit(rc)
