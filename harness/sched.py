"""Controlled (cooperative) scheduler for real threads (DESIGN 3.3).

Real OS threads are still created, but exactly one runs between *visible actions* (lock acquire/release,
event set/clear/is_set/wait, condition wait/notify, queue put/get, thread start/join/is_alive, clock
read, sleep, async-exception request). Which thread runs next is decided by a `choose` function, so a
schedule is reproducible. Time is virtual: it advances only when no thread is runnable and some thread
waits with a timeout. The synchronisation primitives of the modules under test are replaced from
outside (module attribute patching); nothing in /repo is changed.

This is the sampling engine of the tie and of the failing-input search only: "for all interleavings"
is carried by the Lean invariant proofs.
"""
import ctypes as _ctypes
import collections
import logging
import queue as _queue
import sys
import threading as _th
import time as _time
import types
import weakref as _weakref

_real_start = _th.Thread.start
_real_join = _th.Thread.join
_real_is_alive = _th.Thread.is_alive
_RealLock = _th.Lock
_RealEvent = _th.Event


class Deadlock(Exception):
  pass


class SchedulerStuck(Exception):
  pass


class TS(object):
  """per-thread scheduler state"""

  def __init__(self, tid, thread, name):
    self.tid = tid
    self.thread = thread
    self.name = name
    self.gate = _th.Semaphore(0)
    self.started = False
    self.finished = False
    self.wake = None
    self.deadline = None
    self.timed_out = False
    self.pending_exc = None
    self.pending_call = None
    self.wait_dur = None
    self.steps = 0


class Sched(object):

  def __init__(self, choose=None, max_steps=200000, names=None):
    self.now = 1000.0
    self.threads = []
    self.choose = choose or (lambda s, runnable, cur: cur if cur in runnable else runnable[0])
    self.step = 0
    self.max_steps = max_steps
    self.trace = []
    self.tls = _th.local()
    self.deadlock = None
    self.names = names or {}
    main = TS(0, _th.current_thread(), 'main')
    main.started = True
    self.threads.append(main)
    self.tls.ts = main
    self.counter = collections.Counter()
    self.failed = None
    self.events = []
    # adversarial timers: (rng, probability, max duration): a SHORT timed wait (a polling interval) may expire although
    # other threads are runnable - in real time a poll can fire while another thread is active
    self.early_timers = None

  def me(self):
    return getattr(self.tls, 'ts', None)

  def _runnable(self):
    return [t for t in self.threads if t.started and not t.finished and
            (t.wake is None or t.pending_call is not None or t.wake())]

  def _switch(self, me):
    if self.failed is not None and me is not None and not me.finished:
      raise self.failed
    while True:
      r = self._runnable()
      if r:
        break
      # (deadlines are read once: a thread that is leaving its wait clears its own deadline)
      dl = [(d, t.tid, t) for t in self.threads for d in [t.deadline] if t.started and not t.finished and d is not None]
      if not dl:
        names = ', '.join(t.name for t in self.threads if t.started and not t.finished)
        self.deadlock = names
        self.failed = Deadlock('deadlock: ' + names)
        # wake everybody so that the run can be torn down
        for t in self.threads:
          if t.started and not t.finished and t is not me:
            t.wake = None
            t.gate.release()
        raise self.failed
      d, _, t = min(dl, key=lambda x: (x[0], x[1]))
      self.now = max(self.now, d)
      t.timed_out = True
      t.wake = None
      t.deadline = None
    if self.early_timers is not None:
      rng, prob, maxdur = self.early_timers
      cands = [t for t in self.threads if t.started and not t.finished and t.deadline is not None and
               t.wait_dur is not None and t.wait_dur <= maxdur and t not in r]
      if cands and rng.random() < prob:
        t = cands[rng.randrange(len(cands))]
        self.now = max(self.now, t.deadline if t.deadline is not None else self.now)
        t.timed_out = True
        t.wake = None
        t.deadline = None
        r = self._runnable()
    self.step += 1
    if self.step > self.max_steps:
      self.failed = SchedulerStuck('more than %d scheduling steps' % self.max_steps)
      for t in self.threads:
        if t.started and not t.finished and t is not me:
          t.gate.release()
      raise self.failed
    nxt = self.choose(self, r, me if (me in r) else None)
    if nxt is me:
      return
    nxt.gate.release()
    if me is not None and not me.finished:
      me.gate.acquire()
      if self.failed is not None:
        raise self.failed

  def yield_point(self, what=None):
    me = self.me()
    if me is None:
      return
    me.steps += 1
    self.trace.append((me.name, what))
    self._switch(me)
    self._run_pending_call(me)
    self._deliver(me)

  def interrupt(self, ts, fn):
    """simulates a signal handler: fn() runs in thread ts the next time it is scheduled, also when it is
    blocked in a wait (the wait is interrupted, and resumed if fn returns normally)"""
    ts.pending_call = fn

  def _run_pending_call(self, me):
    if me.pending_call is not None:
      fn = me.pending_call
      me.pending_call = None
      self.events.append((me.name, 'signal-handler', None, None))
      try:
        fn()
      except BaseException:
        me.handler_raised = True
        raise

  def _deliver(self, me):
    if me.pending_exc is not None:
      e = me.pending_exc
      me.pending_exc = None
      self.events.append((me.name, 'deliver', me.thread, type(e).__name__))
      raise e

  def block(self, wake, timeout=None, what=None):
    """Scheduling point + wait: returns True once wake() holds *at the moment this thread is scheduled*
    (nothing else runs between that moment and the caller's next visible action), False on timeout."""
    me = self.me()
    if me is None:
      # unmanaged thread (e.g. harness watchdog): spin politely
      end = None if timeout is None else _time.time() + timeout
      while not wake():
        if end is not None and _time.time() > end:
          return False
        _time.sleep(0.001)
      return True
    me.steps += 1
    deadline = None if timeout is None else self.now + max(0, timeout)
    while True:
      me.wake = wake
      me.timed_out = False
      me.deadline = deadline
      me.wait_dur = timeout
      self.trace.append((me.name, ('block', what)))
      try:
        self._switch(me)
      finally:
        ok = not me.timed_out
        me.wake = None
        me.deadline = None
        me.timed_out = False
      if me.pending_call is not None:
        # a simulated signal handler interrupts the wait; if it returns normally the wait resumes
        self._run_pending_call(me)
        if ok and wake():
          break
        if not ok:
          break
        continue
      break
    self._deliver(me)
    return ok

  def log(self, op, obj=None, extra=None):
    """records an effect at the moment it takes place (the calling thread keeps running until its next
    scheduling point, so the event log is a linearisation)"""
    me = self.me()
    self.events.append((me.name if me else '?', op, obj, extra))

  def register_thread(self, thread):
    name = self.names.get(getattr(thread, '_name', None)) or getattr(thread, '_cosched_name', None)
    if name is None:
      base = type(thread).__name__
      self.counter[base] += 1
      name = '%s#%d' % (base, self.counter[base])
    ts = TS(len(self.threads), thread, name)
    self.threads.append(ts)
    thread._cosched_ts = ts
    return ts

  def thread_begin(self, ts):
    ts.gate.acquire()
    self.tls.ts = ts

  def thread_end(self, ts):
    ts.finished = True
    self.trace.append((ts.name, 'end'))
    self.events.append((ts.name, 'finish', ts.thread, None))
    try:
      self._switch(ts)
    except (Deadlock, SchedulerStuck):
      pass


SCHED = None


def _start(self):
  s = SCHED
  if s is None or s.me() is None:
    return _real_start(self)
  ts = s.register_thread(self)
  orig_run = self.run

  def gated_run():
    s.thread_begin(ts)
    try:
      if s.failed is None:
        s._deliver(ts)
        orig_run()
    except (Deadlock, SchedulerStuck):
      pass
    finally:
      s.thread_end(ts)
  self.run = gated_run
  _real_start(self)
  ts.started = True
  s.log('start', self)
  s.yield_point(('start', ts.name))


def _interrupted_join_marks_thread_stopped():
  """CPython 3.9.8 - 3.12 (bpo-45274 handling in Thread._wait_for_tstate_lock): when join() is left by an exception
  raised from a signal handler while the target still holds its tstate lock, the except-branch finds `lock.locked()`
  true, releases the lock and calls `_stop()`: the target is from then on reported as not alive and every later join()
  returns at once although the thread keeps running. The scheduler reproduces what the installed interpreter does."""
  import inspect
  f = getattr(_th.Thread, '_wait_for_tstate_lock', None)
  if f is None:
    return False
  try:
    return 'lock.locked()' in inspect.getsource(f)
  except (OSError, TypeError):
    return False


JOIN_INTERRUPT_BUG = _interrupted_join_marks_thread_stopped()


def _join(self, timeout=None):
  s = SCHED
  ts = getattr(self, '_cosched_ts', None)
  if s is None or ts is None or s.me() is None:
    return _real_join(self, timeout)
  me = s.me()
  me.handler_raised = False
  try:
    s.block(lambda: ts.finished or getattr(ts, 'fake_stopped', False), timeout, ('join', ts.name))
  except (Deadlock, SchedulerStuck):
    raise
  except BaseException:
    if JOIN_INTERRUPT_BUG and getattr(me, 'handler_raised', False) and not ts.finished:
      ts.fake_stopped = True
      s.log('join-interrupted-marks-stopped', self)
    raise


def _is_alive(self):
  ts = getattr(self, '_cosched_ts', None)
  if SCHED is None or ts is None:
    if SCHED is not None and SCHED.me() is not None and getattr(self, '_started', None) is not None \
        and not self._started.is_set():
      SCHED.yield_point(('is_alive', None))
      SCHED.log('is_alive', self, False)
      return False
    return _real_is_alive(self)
  s = SCHED
  if s.me() is not None:
    s.yield_point(('is_alive', ts.name))
  r = ts.started and not ts.finished and not getattr(ts, 'fake_stopped', False)
  if s.me() is not None:
    s.log('is_alive', self, r)
  return r


def _managed():
  s = SCHED
  return s if (s is not None and s.me() is not None) else None


def _abandoned():
  """the calling thread belonged to a scheduler that has ended (deadlock, step limit, run finished): it is let go so
  that it can run to its end - nothing it does may block any more"""
  return getattr(_th.current_thread(), '_cosched_ts', None) is not None


class CoLock(object):
  """every visible action = [scheduling point][atomic effect + event-log entry]"""

  def __init__(self):
    self.owner = None
    self.role = None
    self._real = _th.Lock()     # used outside scheduled runs (worker processes keep the patched modules)

  def acquire(self, blocking=True, timeout=-1):
    s = _managed()
    if s is None:
      if _abandoned():
        return True
      got = self._real.acquire(blocking, -1 if timeout is None else timeout)
      if got:
        self.owner = 'unmanaged'
      return got
    me = s.me()
    if not blocking:
      s.yield_point(('tryacquire', self.role))
      if self.owner is None:
        self.owner = me
        s.log('acq', self)
        return True
      s.log('tryacq-failed', self)
      return False
    ok = s.block(lambda: self.owner is None, None if timeout is None or timeout < 0 else timeout, ('acquire', self.role))
    if ok:
      self.owner = me
      s.log('acq', self)
    return ok

  def release(self):
    # the release itself is atomic and cannot be interrupted by an asynchronous exception (it is C code in
    # CPython): effect first, scheduling point (and possible delivery) afterwards
    s = _managed()
    if self.owner == 'unmanaged':
      self.owner = None
      self._real.release()
      return
    self.owner = None
    if s is not None:
      s.log('rel', self)
      s.yield_point(('release', self.role))

  def locked(self):
    s = _managed()
    if s is not None:
      s.yield_point(('locked', self.role))
      s.log('locked', self, self.owner is not None)
    return self.owner is not None

  def _at_fork_reinit(self):
    self.owner = None
    self._real = _th.Lock()

  def __enter__(self):
    self.acquire()
    return self

  def __exit__(self, *a):
    self.release()


class CoRLock(object):

  def __init__(self):
    self.owner = None
    self.count = 0
    self.role = None
    self._real = _th.RLock()

  def acquire(self, blocking=True, timeout=-1):
    s = _managed()
    if s is None:
      if _abandoned():
        return True
      return self._real.acquire(blocking, -1 if timeout is None else timeout)
    me = s.me()
    if self.owner is me:
      self.count += 1
      s.log('reacq', self)
      return True
    if not blocking:
      s.yield_point(('tryacquire', self.role))
      if self.owner is None:
        self.owner, self.count = me, 1
        s.log('acq', self)
        return True
      s.log('tryacq-failed', self)
      return False
    ok = s.block(lambda: self.owner is None, None if timeout is None or timeout < 0 else timeout, ('acquire', self.role))
    if ok:
      self.owner, self.count = me, 1
      s.log('acq', self)
    return ok

  def release(self):
    s = _managed()
    if s is None:
      try:
        self._real.release()
      except RuntimeError:
        pass            # acquired inside a scheduled run that has ended
      return
    if self.count > 1:
      self.count -= 1
      s.log('rerel', self)
      return
    self.owner, self.count = None, 0
    s.log('rel', self)
    s.yield_point(('release', self.role))

  def _is_owned(self):
    return SCHED is not None and self.owner is SCHED.me()

  def _at_fork_reinit(self):
    self.owner, self.count = None, 0
    self._real = _th.RLock()

  def __enter__(self):
    self.acquire()
    return self

  def __exit__(self, *a):
    self.release()


class CoEvent(object):

  def __init__(self):
    self.flag = False
    self.role = None

  def is_set(self):
    s = _managed()
    if s is not None:
      s.yield_point(('is_set', self.role))
      s.log('is_set', self, self.flag)
    return self.flag

  isSet = is_set

  def set(self):
    s = _managed()
    if s is not None:
      s.yield_point(('set', self.role))
      s.log('set', self)
    self.flag = True

  def clear(self):
    s = _managed()
    if s is not None:
      s.yield_point(('clear', self.role))
      s.log('clear', self)
    self.flag = False

  def wait(self, timeout=None):
    s = _managed()
    if s is None:
      # outside a scheduled run (a worker process that ran scheduled cases before keeps the patched modules): behave as
      # threading.Event does, in real time
      if _abandoned():
        return self.flag
      end = None if timeout is None else _time.time() + timeout
      while not self.flag:
        if end is not None and _time.time() >= end:
          break
        _time.sleep(0.0005)
      return self.flag
    ok = s.block(lambda: self.flag, timeout, ('wait', self.role))
    s.log('waited', self, ok)
    return self.flag


class CoCondition(object):

  def __init__(self, lock=None):
    self.lock = lock if lock is not None else CoRLock()
    self.waiters = []
    self.role = None
    self.acquire = self.lock.acquire
    self.release = self.lock.release

  def __enter__(self):
    self.lock.acquire()
    return self

  def __exit__(self, *a):
    self.lock.release()

  def wait(self, timeout=None):
    s = SCHED
    me = s.me()
    token = [False]
    self.waiters.append(token)
    # release the lock completely (atomically with joining the waiters, as threading.Condition does)
    saved_count = 1
    if isinstance(self.lock, CoRLock):
      saved_count = self.lock.count
      self.lock.owner, self.lock.count = None, 0
    else:
      self.lock.owner = None
    s.log('cond_wait', self)
    ok = s.block(lambda: token[0], timeout, ('cond_wait', self.role))
    if not ok and token in self.waiters:
      self.waiters.remove(token)
    # re-acquire
    s.block(lambda: self.lock.owner is None, None, ('cond_reacquire', self.role))
    if isinstance(self.lock, CoRLock):
      self.lock.owner, self.lock.count = me, saved_count
    else:
      self.lock.owner = me
    s.log('cond_woke', self, ok)
    return ok

  def notify(self, n=1):
    s = _managed()
    if s is not None:
      s.yield_point(('notify', self.role))
      s.log('notify', self, min(n, len(self.waiters)))
    for token in self.waiters[:n]:
      token[0] = True
    del self.waiters[:n]

  def notify_all(self):
    s = _managed()
    if s is not None:
      s.yield_point(('notify_all', self.role))
      s.log('notify', self, len(self.waiters))
    for token in self.waiters:
      token[0] = True
    del self.waiters[:]

  notifyAll = notify_all


class CoQueue(object):

  def __init__(self, maxsize=0):
    self.items = collections.deque()
    self.role = None

  def put(self, item, block=True, timeout=None):
    s = _managed()
    if s is not None:
      s.yield_point(('put', self.role))
      s.log('put', self, item)
    self.items.append(item)

  def put_nowait(self, item):
    self.put(item)

  def get(self, block=True, timeout=None):
    s = SCHED
    if not block:
      s.yield_point(('get_nowait', self.role))
      if not self.items:
        s.log('get-empty', self)
        raise _queue.Empty()
      item = self.items.popleft()
      s.log('get', self, item)
      return item
    ok = s.block(lambda: bool(self.items), timeout, ('get', self.role))
    if not ok or not self.items:
      s.log('get-empty', self)
      raise _queue.Empty()
    item = self.items.popleft()
    s.log('get', self, item)
    return item

  def get_nowait(self):
    return self.get(False)

  def empty(self):
    return not self.items

  def qsize(self):
    return len(self.items)


class TracedWeakSet(_weakref.WeakSet):
  """weakref.WeakSet whose add / iteration / clear are visible actions"""

  def add(self, item):
    s = _managed()
    if s is not None:
      s.yield_point(('wadd', None))
    _weakref.WeakSet.add(self, item)
    if s is not None:
      s.log('wadd', self, item)

  def __iter__(self):
    s = _managed()
    if s is not None:
      s.yield_point(('witer', None))
    items = list(_weakref.WeakSet.__iter__(self))
    if s is not None:
      s.log('witer', self, tuple(items))
    return iter(items)

  def clear(self):
    s = _managed()
    if s is not None:
      s.yield_point(('wclear', None))
    _weakref.WeakSet.clear(self)
    if s is not None:
      s.log('wclear', self)


def shim_weakref():
  ns = types.SimpleNamespace(**{k: getattr(_weakref, k) for k in dir(_weakref) if not k.startswith('__')})
  ns.WeakSet = TracedWeakSet
  return ns


class VTime(object):
  """virtual clock seen by the modules under test"""

  def time(self):
    if SCHED is not None and SCHED.me() is not None:
      SCHED.yield_point('time')
      return SCHED.now
    return _time.time()

  def monotonic(self):
    if SCHED is not None and SCHED.me() is not None:
      SCHED.yield_point('monotonic')
      return SCHED.now
    return _time.monotonic()

  def sleep(self, dt):
    if SCHED is not None and SCHED.me() is not None:
      SCHED.block(lambda: False, dt, ('sleep', dt))
    else:
      _time.sleep(dt)

  def __getattr__(self, name):
    return getattr(_time, name)


class _PyApi(object):
  """PyThreadState_SetAsyncExc replacement: the exception becomes pending and is raised in the target at
  one of its next visible actions (which one is a scheduling choice)"""

  def PyThreadState_SetAsyncExc(self, tid, exc):
    s = _managed()
    if s is None:
      return _ctypes.pythonapi.PyThreadState_SetAsyncExc(tid, exc)     # outside scheduled runs: the real thing
    tidv = tid.value if hasattr(tid, 'value') else tid
    for t in s.threads:
      if t.thread.ident == tidv and not t.finished:
        if exc is None:
          t.pending_exc = None
          return 1
        e = exc.value if hasattr(exc, 'value') else exc
        s.yield_point(('async_raise', t.name))
        if t.finished:
          s.log('async_raise', t.thread, False)
          return 0
        t.pending_exc = e() if isinstance(e, type) else e
        s.log('async_raise', t.thread, True)
        return 1
    s.log('async_raise', None, False)
    return 0


class CoCtypes(object):
  pythonapi = _PyApi()
  c_long = _ctypes.c_long
  py_object = _ctypes.py_object


def shim_threading():
  ns = types.SimpleNamespace(**{k: getattr(_th, k) for k in dir(_th) if not k.startswith('__')})
  ns.Lock = CoLock
  ns.RLock = CoRLock
  ns.Event = CoEvent
  ns.Condition = CoCondition
  return ns


def shim_queue():
  ns = types.SimpleNamespace(**{k: getattr(_queue, k) for k in dir(_queue) if not k.startswith('__')})
  ns.Queue = CoQueue
  return ns


_INSTALLED = {}


def _patch(mod, name, value):
  key = (mod.__name__, name)
  if key not in _INSTALLED:
    _INSTALLED[key] = (mod, name, getattr(mod, name, None), hasattr(mod, name))
  setattr(mod, name, value)


def install_threads():
  _th.Thread.start = _start
  _th.Thread.join = _join
  _th.Thread.is_alive = _is_alive


def install_core():
  """executor, phase executor, test state, util, plugs: cooperative primitives and the virtual clock"""
  install_threads()
  from openhtf.util import threads, timeouts, configuration, logs
  from openhtf import util, plugs
  from openhtf.core import phase_executor, test_executor, test_descriptor, test_state
  sh, vt = shim_threading(), VTime()
  for m in (threads, util, phase_executor, test_executor, test_descriptor, plugs):
    _patch(m, 'threading', sh)
  _patch(util, 'weakref', shim_weakref())
  _patch(threads, 'ctypes', CoCtypes)
  for m in (phase_executor, timeouts, util, test_executor, test_descriptor):
    if hasattr(m, 'time'):
      _patch(m, 'time', vt)
  if hasattr(plugs, 'time'):
    _patch(plugs, 'time', vt)
  object.__setattr__(configuration.CONF, '_lock', CoRLock())
  if hasattr(logs, '_RECORD_HANDLERS_LOCK'):
    _patch(logs, '_RECORD_HANDLERS_LOCK', CoLock())
  if hasattr(plugs, '_PLUG_LOGGER_LOCK'):
    _patch(plugs, '_PLUG_LOGGER_LOCK', CoRLock())
  logging._lock = CoRLock()
  logging.Handler.createLock = lambda self: setattr(self, 'lock', CoRLock())
  for lg in [logging.getLogger()] + [l for l in logging.Logger.manager.loggerDict.values() if isinstance(l, logging.Logger)]:
    for h in lg.handlers:
      if getattr(h, 'lock', None) is not None:
        h.lock = CoRLock()


def install_subscribe():
  """only what util.SubscribableStateMixin touches"""
  install_threads()
  from openhtf import util
  _patch(util, 'threading', shim_threading())
  _patch(util, 'weakref', shim_weakref())


def install_adb():
  install_threads()
  from harness import usbstub
  usbstub.install()
  from openhtf.plugs.usb import adb_message, adb_protocol
  from openhtf.util import timeouts
  sh, vt = shim_threading(), VTime()
  _patch(adb_message, 'threading', sh)
  _patch(adb_protocol, 'threading', sh)
  _patch(adb_protocol, 'queue', shim_queue())
  _patch(timeouts, 'time', vt)


TRACE_OPCODES = False


def _line_tracer(codes):
  """sys.settrace function: every source line of the designated functions becomes a scheduling point, so that two
  threads can be interleaved inside code that performs no synchronisation action at all (plain attribute reads and
  writes, set / dict updates) - CPython may switch threads between any two bytecodes"""
  def local(frame, event, arg):
    if event == 'opcode' or (event == 'line' and not frame.f_trace_opcodes):
      s = SCHED
      if s is not None and s.failed is None and s.me() is not None:
        s.yield_point(('line', frame.f_code.co_name, frame.f_lineno))
    return local

  def tracer(frame, event, arg):
    if event == 'call' and frame.f_code in codes:
      # Granularity = source lines, the granularity the properties quantify over ("line-level interleavings").
      # Bytecode granularity (trace_opcodes=True) is finer than the points at which CPython 3.12 actually switches
      # threads (eval-breaker checks at calls and backward jumps): with it the unchanged tree shows lost updates in
      # PhaseState._notify vs as_base_types (LOAD_ATTR of the pending set / the set.add call split by a swap of the
      # set) that the interpreter cannot produce. It is therefore used only where the unchanged code is protected by
      # a lock (logs.initialize_record_handler / remove_record_handler), where finer can only mean stronger.
      if TRACE_OPCODES:
        frame.f_trace_opcodes = True
      return local
    return None
  return tracer


def codes_of(*funcs):
  out = set()
  for f in funcs:
    f = getattr(f, '__func__', f)
    f = getattr(f, 'fget', f) or f
    out.add(f.__code__)
  return out


def run(choose, body, max_steps=200000, names=None, watchdog_s=30.0, early_timers=None, trace_lines=None,
        trace_opcodes=False):
  """Runs body() under a fresh scheduler on the calling thread. Returns (result, sched).
  trace_lines: set of code objects (codes_of(f, g, ...)) whose source lines are scheduling points."""
  global SCHED
  s = Sched(choose, max_steps=max_steps, names=names)
  s.early_timers = early_timers
  SCHED = s
  box = {}
  old_trace, old_ttrace = sys.gettrace(), getattr(_th, '_trace_hook', None)
  global TRACE_OPCODES
  if trace_lines:
    TRACE_OPCODES = bool(trace_opcodes)
    tr = _line_tracer(set(trace_lines))
    _th.settrace(tr)
    sys.settrace(tr)
  try:
    try:
      box['ret'] = body(s)
    except (Deadlock, SchedulerStuck) as e:
      box['sched_error'] = e
  finally:
    if trace_lines:
      sys.settrace(old_trace)
      _th.settrace(old_ttrace)
    # let the remaining threads run to completion (or give up) without control
    SCHED_done = s
    s.failed = s.failed or SchedulerStuck('run finished')
    for t in s.threads:
      if t.started and not t.finished and t.tid != 0:
        t.wake = None
        t.gate.release()
    SCHED = None
    # the calling thread goes on to run other cases: it is not an abandoned thread of this scheduler
    _th.current_thread().__dict__.pop('_cosched_ts', None)
  return box, s



class Explorer(object):
  """Stateless exploration of the schedules of a deterministic multi-threaded body.

  A schedule is a list of choice indices; at every scheduling step the alternatives are ordered
  [default] + the other runnable threads by tid, where default = keep running the current thread if it
  is runnable, else the runnable thread with the smallest tid. Index 0 everywhere = the non-preemptive
  run. `preemption_bound` limits the number of steps at which a runnable current thread is switched out.
  """

  def __init__(self, preemption_bound=None):
    self.bound = preemption_bound
    self.prefix = []
    self.record = []     # (n_alternatives, chosen, is_preemptive_choice_possible)

  def choose(self, s, runnable, cur):
    order = sorted(runnable, key=lambda t: t.tid)
    if cur is not None and cur in order:
      order.remove(cur)
      order.insert(0, cur)
    k = len(self.record)
    idx = self.prefix[k] if k < len(self.prefix) else 0
    if idx >= len(order):
      idx = 0
    self.record.append((len(order), idx, cur is not None and cur in runnable))
    return order[idx]

  def next_prefix(self):
    """the next schedule in DFS order, or None"""
    rec = self.record
    for k in range(len(rec) - 1, -1, -1):
      n, idx, preemptible = rec[k]
      if idx + 1 >= n:
        continue
      if self.bound is not None and preemptible:
        used = sum(1 for (_, i, p) in rec[:k] if p and i > 0)
        if used >= self.bound:
          continue
      return [r[1] for r in rec[:k]] + [idx + 1]
    return None


def explore(body, preemption_bound=None, limit=None, max_steps=20000, names=None, trace_lines=None, trace_opcodes=False):
  """yields (box, sched, choices) for every schedule of body (a callable taking the scheduler)"""
  prefix = []
  n = 0
  while prefix is not None and (limit is None or n < limit):
    ex = Explorer(preemption_bound)
    ex.prefix = prefix
    box, s = run(ex.choose, body, max_steps=max_steps, names=names, trace_lines=trace_lines, trace_opcodes=trace_opcodes)
    yield box, s, [r[1] for r in ex.record]
    n += 1
    prefix = ex.next_prefix()


def pct_chooser(rng, depth=2, horizon=300):
  """PCT-style schedules (Burckhardt et al.): random thread priorities, the highest-priority runnable thread runs; at
  depth-1 random step indices the running thread drops below everybody else. A window of the form 'thread A pauses
  right after action x, thread B runs until it blocks' is hit with probability ~1/horizon instead of switch_prob^len."""
  prio = {}
  changes = sorted(rng.randrange(horizon) for _ in range(max(0, depth - 1)))
  state = {'n': 0, 'low': 0.0}

  def choose(s, runnable, cur):
    for t in sorted(runnable, key=lambda t: t.tid):
      if t.name not in prio:
        prio[t.name] = 1.0 + rng.random()
    state['n'] += 1
    while changes and state['n'] >= changes[0]:
      changes.pop(0)
      if cur is not None:
        state['low'] -= 1.0
        prio[cur.name] = state['low']
    return max(runnable, key=lambda t: (prio[t.name], -t.tid))
  return choose


def chooser_for(case, tag, default_switch=0.4):
  """the schedule generator of a randomly scheduled case: case['pct'] (0 = uniform random with case['switch'], n = PCT of
  depth n over case['horizon'] steps); when the case does not say, a quarter of the cases each use PCT depth 2 and 3"""
  from harness import common
  rseed = case.get('rseed', 0)
  pct = case.get('pct')
  if pct is None:
    pct = [0, 0, 2, 3][int(rseed) % 4] if isinstance(rseed, int) else 0
  rng = common.Rng('%s/%s' % (tag, rseed))
  if pct:
    return pct_chooser(rng, pct, case.get('horizon', [150, 400, 1000][int(rseed) // 4 % 3] if isinstance(rseed, int) else 300))
  return random_chooser(rng, case.get('switch', default_switch))


def random_chooser(rng, switch_prob=0.3):
  def choose(s, runnable, cur):
    order = sorted(runnable, key=lambda t: t.tid)
    if cur is not None and cur in order and rng.random() >= switch_prob:
      return cur
    return order[rng.randrange(len(order))]
  return choose
