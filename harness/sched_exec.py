"""Runs a real htf.Test(...).execute() under the cooperative scheduler (harness/sched.py) with virtual time,
optionally with auxiliary managed threads (aborter, watchers, a second test). Used by C03(abort) C04 C11 C12
C18 C19. Nothing in /repo is changed: module attributes are patched from outside."""
import logging
import threading

from harness import exec_common as ec
from harness import sched

_INSTALLED = False


def install(enable_logging=False):
  global _INSTALLED
  ec.setup()
  if not _INSTALLED:
    _INSTALLED = True
    sched.install_core()
    sched._patch(ec, 'time', sched.VTime())
  logging.disable(logging.NOTSET if enable_logging else logging.CRITICAL)


def _without_monitors(x):
  """monitored phases (exec_common 'mon') start a sampling thread that sleeps in real time: not under the scheduler"""
  if isinstance(x, dict):
    return {k: _without_monitors(v) for k, v in x.items() if k != 'mon'}
  if isinstance(x, list):
    return [_without_monitors(v) for v in x]
  return x


def run_case(case, choose=None, aux=None, max_steps=60000, enable_logging=False, conf=None, prepare=None,
             trace_lines=None, pre_runs=0):
  """Runs the case's test under a fresh scheduler.

  aux: list of (name, fn) — fn(env) runs in its own managed thread started just before execute();
       env is a dict with test, ctx, sched, box (shared scratch), log (list for harness events).
  Returns dict(tokens, ret, record, ctx, test, sched, box, exc, deadlock, stuck, events).
  """
  install(enable_logging)
  from openhtf.util import configuration
  case = _without_monitors(case)
  b = ec.build_test(case)
  test, ctx, recs, start = b['test'], b['ctx'], b['recs'], b['start']
  del ec.CRASHES[:]
  cfg = configuration.CONF
  saved = dict(cfg._loaded_values)
  out = {'ctx': ctx, 'test': test, 'b': b}
  env = {'test': test, 'ctx': ctx, 'box': {}, 'log': [], 'b': b}
  if prepare is not None:
    prepare(env)

  def body(s):
    env['sched'] = s
    s.base_step = None
    for _ in range(pre_runs):
      # earlier, undisturbed executions of the same Test object; the run under test starts from their leftovers
      test.execute(test_start=start) if start is not None else test.execute()
    if pre_runs:
      del ctx.events[:]
      ctx.body_calls.clear()
      ctx.runif_calls.clear()
      del ctx.inst[:], recs[:], b['cb_records'][:]
      s.log('run-under-test-starts')
    s.base_step = s.step
    threads = []
    for name, fn in aux or []:
      def target(fn=fn):
        try:
          fn(env)
        except (sched.Deadlock, sched.SchedulerStuck):
          raise
        except BaseException as e:  # pylint: disable=broad-except
          env['log'].append(('aux-exc', type(e).__name__, str(e)[:200]))
      t = threading.Thread(target=target, name=name)
      t._cosched_name = name
      threads.append(t)
      t.start()
    try:
      ret = test.execute(test_start=start) if start is not None else test.execute()
      env['box']['ret'] = ret
    except (sched.Deadlock, sched.SchedulerStuck):
      raise
    except BaseException as e:  # pylint: disable=broad-except
      env['box']['exc'] = e
    env['log'].append(('execute-returned',))
    for t in threads:
      t.join()
    return env['box'].get('ret')

  try:
    cfg.load(allow_unset_measurements=bool(case.get('allow')), _override=True)
    if case.get('plugs') is not None:
      cfg.load(plug_teardown_timeout_s=0.05, _override=True)
    for k, v in (conf or {}).items():
      cfg.load(**{k: v, '_override': True})
    box, s = sched.run(choose, body, max_steps=max_steps, trace_lines=trace_lines)
  finally:
    cfg._loaded_values.clear()
    cfg._loaded_values.update(saved)
  out['sched'] = s
  out['box'] = env['box']
  out['log'] = env['log']
  out['ret'] = env['box'].get('ret')
  out['exc'] = env['box'].get('exc')
  err = box.get('sched_error')
  out['deadlock'] = s.deadlock if isinstance(err, sched.Deadlock) or s.deadlock else None
  out['stuck'] = isinstance(err, sched.SchedulerStuck)
  rec = recs[0] if recs else None
  out['record'] = rec
  out['recs'] = recs
  try:
    out['tokens'] = ec.canon_record(rec, ctx) if rec is not None else ['O:none']
  except Exception as e:  # pylint: disable=broad-except
    # a record that cannot be canonicalised (e.g. no outcome) is an observation, not a harness error
    import traceback
    tb = traceback.extract_tb(e.__traceback__)
    where = '%s:%d' % (tb[-1].filename.split('/')[-1], tb[-1].lineno) if tb else '?'
    out['tokens'] = ['O:BROKEN-RECORD:%s' % type(e).__name__, 'X:where:%s:%s:crashes=%s:exc=%s' % (where, str(e).replace(' ', '_')[:80], ','.join(ec.LAST_CRASH or ec.CRASHES), type(out.get('exc')).__name__)]
  out['crashes'] = [c for c in ec.CRASHES if c != 'ThreadTerminationError']
  return out
