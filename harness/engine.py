"""Generic check engine: build + audit + correspondence + verdict (DESIGN.md 2.2, 2.4)."""
import collections
import json
import multiprocessing
import os
import sys
import time
import traceback

from harness import common


def _worker(args):
  modname, case = args
  mod = sys.modules.get(modname) or __import__(modname, fromlist=['x'])
  try:
    return mod.run_real(case)
  except BaseException as e:  # pylint: disable=broad-except
    tb = traceback.extract_tb(e.__traceback__)
    in_repo = bool(tb) and os.path.abspath(tb[-1].filename).startswith(os.path.abspath(common.REPO) + os.sep)
    key = 'code_exception' if in_repo else 'harness_error'
    return {key: '%s: %s' % (type(e).__name__, e), 'tb': traceback.format_exc()[-1500:]}


def run_cases(mod, cases, procs=None):
  """Runs the real code on every case (in worker processes) and the driver on the results."""
  if not cases:
    return [], []
  procs = procs or getattr(mod, 'PROCS', 12)
  if procs <= 1 or len(cases) < 8:
    obs = [_worker((mod.__name__, c)) for c in cases]
  else:
    ctx = multiprocessing.get_context('fork')
    chunk = max(1, min(64, len(cases) // (procs * 4) or 1))
    with ctx.Pool(procs) as pool:
      obs = pool.map(_worker, [(mod.__name__, c) for c in cases], chunksize=chunk)
  herr = [(c, o) for c, o in zip(cases, obs) if isinstance(o, dict) and 'harness_error' in o]
  if herr:
    raise HarnessError('harness error on case %r: %s\n%s' % (herr[0][0], herr[0][1]['harness_error'],
                                                             herr[0][1].get('tb', '')))
  crashed = [i for i, o in enumerate(obs) if isinstance(o, dict) and 'code_exception' in o]
  lines = [('!' if i in crashed else mod.encode(c, o)) for i, (c, o) in enumerate(zip(cases, obs))]
  replies = common.run_driver([l for l in lines if l != '!'])
  it = iter(replies)
  replies = [('0 0 unexpected-exception-in-code-under-test ' + obs[i]['code_exception'].replace('\n', ' ')[:200])
             if l == '!' else next(it) for i, l in enumerate(lines)]
  parsed = []
  for r in replies:
    parts = r.split(' ', 2)
    if len(parts) < 2 or parts[0] not in ('0', '1') or parts[1] not in ('0', '1'):
      raise HarnessError('driver protocol error: %r' % r)
    parsed.append((parts[0] == '1', parts[1] == '1', parts[2] if len(parts) > 2 else ''))
  return obs, list(zip(lines, parsed))


class HarnessError(Exception):
  pass


def _shrink(mod, case, pred):
  """Greedy shrinking with the module's `shrink` candidates. pred(case) -> True if still failing."""
  if not hasattr(mod, 'shrink'):
    return case
  improved = True
  rounds = 0
  while improved and rounds < 200:
    improved = False
    rounds += 1
    for cand in mod.shrink(case):
      try:
        if pred(cand):
          case = cand
          improved = True
          break
      except Exception:  # pylint: disable=broad-except
        continue
  return case


def _fails(mod, case):
  obs, res = run_cases(mod, [case], procs=1)
  (_, (agree, holds, _)) = res[0]
  return not holds


def check(mod, tier):
  t0 = time.time()
  prop = mod.PROP
  seed = common.seed_from_env()
  out_lines = []
  violations = []          # (what, replay payload)
  suspicious = []          # proof/tie breakage descriptions -> extended search

  # steps 1-3 use the shared Lean directory exclusively (a selftest on another tree may run at the same time); the
  # driver built for this tree's constants is then copied to a private file
  lean_lock = common.lean_lock()
  lean_lock.__enter__()
  # 1. constants
  try:
    drift, consts = common.regen_constants()
  except Exception as e:  # pylint: disable=broad-except
    drift, consts = ['constants extractor failed: %s' % e], {}
  rel = [d for d in drift if any(d.startswith(p) for p in getattr(mod, 'CONST_PREFIXES', ['']))]
  if rel:
    suspicious.append({'kind': 'constant-drift', 'detail': rel})

  # 2. build
  ok_build, build_out = common.lake_build([mod.PROOF_MODULE, 'driver'])
  proofs_ok = ok_build
  if not ok_build:
    ok_driver, drv_out = common.lake_build(['driver'])
    if not ok_driver:
      common.log(drv_out[-3000:])
      print('ERROR: Lean driver does not build; cannot evaluate model/spec')
      return 2
    suspicious.append({'kind': 'proof-does-not-compile', 'module': mod.PROOF_MODULE,
                       'detail': build_out[-3000:]})

  # 3. audit
  forbidden = common.grep_forbidden()
  if forbidden:
    suspicious.append({'kind': 'forbidden-token', 'detail': forbidden})
  discharged = 0
  axioms = {}
  if proofs_ok:
    axioms, audit_out = common.print_axioms(mod.PROOF_MODULE, mod.THEOREMS)
    for t in mod.THEOREMS:
      ax = axioms.get(t)
      if ax is None:
        suspicious.append({'kind': 'theorem-missing', 'theorem': t, 'detail': audit_out[-1500:]})
      elif not set(ax) <= common.ALLOWED_AXIOMS:
        suspicious.append({'kind': 'axioms-not-allowed', 'theorem': t, 'axioms': ax})
      else:
        discharged += 1
  if tier == 'thorough' and proofs_ok and getattr(mod, 'LEANCHECKER', True):
    import subprocess
    try:
      p = subprocess.run(['lake', 'env', 'leanchecker', mod.PROOF_MODULE], cwd=common.LEAN_DIR,
                         stdout=subprocess.PIPE, stderr=subprocess.STDOUT, timeout=1500)
      if p.returncode != 0:
        suspicious.append({'kind': 'leanchecker-failed', 'detail': p.stdout.decode('utf-8', 'replace')[-2000:]})
      leanchecker = 'ok' if p.returncode == 0 else 'failed'
    except Exception as e:  # pylint: disable=broad-except
      leanchecker = 'not run: %s' % e
  else:
    leanchecker = 'thorough tier only'
  common.snapshot_driver()
  lean_lock.__exit__()

  # 4. correspondence
  rng = common.make_rng(prop)
  cases = list(mod.gen_cases(rng, tier))
  try:
    obs, res = run_cases(mod, cases)
  except HarnessError as e:
    common.log(str(e))
    print('ERROR: %s' % str(e).split('\n')[0])
    return 2

  known = common.load_known(prop)
  known_hit = collections.OrderedDict()
  hist = collections.Counter()
  nontrivial = set()
  disagreements = []
  failing = []
  for case, o, (line, (agree, holds, msg)) in zip(cases, obs, res):
    crashed = isinstance(o, dict) and 'code_exception' in o
    label = 'code-exception' if crashed else (mod.classify(case, o) if hasattr(mod, 'classify') else 'case')
    hist[label] += 1
    key = None if crashed else (mod.nontrivial_key(case, o) if hasattr(mod, 'nontrivial_key') else line)
    if key is not None:
      nontrivial.add(key if isinstance(key, (str, int, tuple)) else json.dumps(key, sort_keys=True))
    if not holds:
      matched = None
      for e in known:
        if not crashed and mod.known_match(e, case, o, msg):
          matched = e
          break
      if matched is not None:
        known_hit.setdefault(matched['id'], matched)
      else:
        failing.append((case, o, line, msg))
    if not agree:
      disagreements.append((case, o, line, msg))

  def report_failing(case, o, line, msg, note=''):
    try:
      small = _shrink(mod, case, lambda c: _fails(mod, c) and not _known(mod, known, c))
    except Exception:  # pylint: disable=broad-except
      small = case
    try:
      sobs, sres = run_cases(mod, [small], procs=1)
      so, sline, smsg = sobs[0], sres[0][0], sres[0][1][2]
    except Exception:  # pylint: disable=broad-except
      so, sline, smsg = o, line, msg
    path = common.write_replay(prop, {
        'property': prop, 'kind': 'spec-fails-on-real-observation', 'case': small,
        'real_observation': so, 'driver_line': sline, 'driver_reply': smsg, 'original_case': case,
        'original_observation': o, 'original_driver_reply': msg, 'note': note})
    violations.append(path)
    out_lines.append('VIOLATION property=%s replay=%s' % (prop, path))

  if failing:
    # group by driver message (which conjunct failed), report one per group, at most 3
    seen = set()
    for case, o, line, msg in failing:
      g = msg.split(' ')[0] if msg else ''
      if g in seen or len(seen) >= 3:
        continue
      seen.add(g)
      report_failing(case, o, line, msg)

  if disagreements:
    suspicious.append({'kind': 'model-implementation-disagreement', 'count': len(disagreements),
                       'first': {'case': disagreements[0][0], 'real_observation': disagreements[0][1],
                                 'driver_line': disagreements[0][2], 'driver_reply': disagreements[0][3]}})

  extended = None
  if suspicious and not failing:
    # extended failing-input search on the real code (DESIGN 2.4)
    found = None
    tried = 0
    seeds = range(1, 9)
    for extra in seeds:
      r2 = common.make_rng(prop, extra)
      c2 = list(mod.gen_cases(r2, tier))
      if hasattr(mod, 'neighbourhood'):
        for d in disagreements[:5]:
          c2 = list(mod.neighbourhood(d[0], r2)) + c2
      try:
        o2, res2 = run_cases(mod, c2)
      except HarnessError as e:
        common.log('extended search: %s' % e)
        break
      tried += len(c2)
      for case, o, (line, (agree, holds, msg)) in zip(c2, o2, res2):
        if not holds and not any(mod.known_match(e, case, o, msg) for e in known):
          found = (case, o, line, msg)
          break
      if found or time.time() - t0 > getattr(mod, 'SEARCH_BUDGET_S', 120 if tier == 'quick' else 900):
        break
    extended = {'cases_tried': tried, 'found': bool(found)}
    if found:
      report_failing(*found, note='found by the extended search after: %s' %
                     ', '.join(s['kind'] for s in suspicious))
    else:
      path = common.write_replay(prop, {
          'property': prop, 'kind': 'proof-or-correspondence-no-longer-checks',
          'what_no_longer_checks': suspicious, 'extended_search': extended})
      violations.append(path)
      out_lines.append('VIOLATION property=%s replay=%s no-failing-input-found' % (prop, path))

  for kid, e in known_hit.items():
    out_lines.append('KNOWN-FINDING: property=%s %s' % (prop, e['what']))

  # 5. evidence
  samples = [l for l, _ in res[:3]] + [l for l, _ in res[len(res) // 2: len(res) // 2 + 2]]
  coverage = {
      'obligations': len(mod.THEOREMS),
      'discharged': discharged,
      'checker_cmd': 'cd lean && lake build %s driver && lake env lean .lake/audit/%s.lean  (#print axioms)' % (
          mod.PROOF_MODULE, mod.PROOF_MODULE.replace('.', '_')),
      'trusted_base': ['Lean 4.33.0 kernel', 'axioms: propext, Classical.choice, Quot.sound (at most)'] +
                      list(getattr(mod, 'TRUSTED', [])),
      'theorems': {t: axioms.get(t) for t in mod.THEOREMS},
      'pending_statements': list(getattr(mod, 'PENDING', [])),
      'leanchecker': leanchecker,
      'evaluations': len(cases),
      'distinct_nontrivial': len(nontrivial),
      'rule': getattr(mod, 'RULE', ''),
      'samples': samples,
      'traces_validated_against_impl': len(cases) - len(disagreements),
      'disagreements_checked': len(disagreements),
      'spec_failures_on_real_code': len(failing),
      'known_findings_hit': list(known_hit.keys()),
      'histogram': dict(hist.most_common(60)),
      'constant_drift': drift,
      'suspicious': [s['kind'] for s in suspicious],
      'extended_search': extended,
  }
  if hasattr(mod, 'extra_coverage'):
    try:
      coverage.update(mod.extra_coverage(cases, obs, res))
    except Exception as e:  # pylint: disable=broad-except
      coverage['extra_coverage_error'] = str(e)
  common.write_evidence(prop, tier, seed, coverage, list(getattr(mod, 'ASSUMPTIONS', [])),
                        time.time() - t0, len(violations))
  for l in out_lines:
    print(l)
  print('%s %s: %d theorems (%d discharged), %d cases, %d nontrivial, %d disagreements, %d spec failures, '
        '%d known findings, %.1fs' % (prop, tier, len(mod.THEOREMS), discharged, len(cases), len(nontrivial),
                                      len(disagreements), len(failing), len(known_hit), time.time() - t0))
  return 1 if violations else 0


def _known(mod, known, case):
  obs, res = run_cases(mod, [case], procs=1)
  (_, (agree, holds, msg)) = res[0]
  return any(mod.known_match(e, case, obs[0], msg) for e in known)


def replay(mod, path):
  with open(path) as f:
    payload = json.load(f)
  case = payload.get('case')
  if case is None:
    print(json.dumps(payload, indent=1))
    print('replay: this file names a theorem/correspondence that no longer checks; re-run the check')
    return 0
  with common.lean_lock():
    common.regen_constants()
    common.lake_build(['driver'])
    common.snapshot_driver()
  obs, res = run_cases(mod, [case], procs=1)
  line, (agree, holds, msg) = res[0]
  print('case            :', json.dumps(case))
  print('real observation:', json.dumps(obs[0], default=str))
  print('driver line     :', line)
  print('model agrees    :', agree)
  print('spec holds      :', holds)
  print('driver reply    :', msg)
  return 0 if holds else 1
