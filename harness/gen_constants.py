"""Translator (small on purpose): regenerates lean/OpenHTF/Gen/Constants.lean from /repo by AST.

Does not import the repository, so it works on a tree that does not even import. A constant that
cannot be extracted (renamed, computed in a way the evaluator does not understand) is emitted with
its last known value and reported as drift; drift is not a violation by itself (DESIGN 2.3-A).
"""
import ast
import json
import os

LAST = os.path.join(os.path.dirname(os.path.abspath(__file__)), 'constants_last.json')


class Missing(Exception):
  pass


def _parse(repo, rel):
  with open(os.path.join(repo, rel)) as f:
    return ast.parse(f.read())


def _eval(node, env=None):
  env = env or {}
  if isinstance(node, ast.Constant):
    return node.value
  if isinstance(node, ast.Name) and node.id in env:
    return env[node.id]
  if isinstance(node, (ast.Tuple, ast.List)):
    return [_eval(e, env) for e in node.elts]
  if isinstance(node, ast.Set):
    return sorted(_eval(e, env) for e in node.elts)
  if isinstance(node, ast.UnaryOp) and isinstance(node.op, ast.USub):
    return -_eval(node.operand, env)
  if isinstance(node, ast.BinOp):
    a, b = _eval(node.left, env), _eval(node.right, env)
    if isinstance(node.op, ast.Add): return a + b
    if isinstance(node.op, ast.Sub): return a - b
    if isinstance(node.op, ast.Mult): return a * b
    if isinstance(node.op, ast.Pow): return a ** b
    if isinstance(node.op, ast.LShift): return a << b
    if isinstance(node.op, ast.FloorDiv): return a // b
  raise Missing('cannot evaluate %s' % ast.dump(node)[:80])


def _assigns(body):
  for st in body:
    if isinstance(st, ast.Assign):
      for t in st.targets:
        if isinstance(t, ast.Name):
          yield t.id, st.value
        elif isinstance(t, ast.Tuple):
          yield tuple(getattr(e, 'id', None) for e in t.elts), st.value
    elif isinstance(st, ast.AnnAssign) and isinstance(st.target, ast.Name) and st.value is not None:
      yield st.target.id, st.value


def _class(tree, name):
  for n in ast.walk(tree):
    if isinstance(n, ast.ClassDef) and n.name == name:
      return n
  raise Missing('class %s' % name)


def module_const(repo, rel, name):
  tree = _parse(repo, rel)
  env = {}
  for k, v in _assigns(tree.body):
    if isinstance(k, str):
      try:
        env[k] = _eval(v, env)
      except Missing:
        pass
  if name not in env:
    raise Missing('%s:%s' % (rel, name))
  return env[name]


def class_const(repo, rel, cls, name):
  c = _class(_parse(repo, rel), cls)
  for k, v in _assigns(c.body):
    if k == name:
      return _eval(v)
  raise Missing('%s:%s.%s' % (rel, cls, name))


def enum_members(repo, rel, cls):
  c = _class(_parse(repo, rel), cls)
  out = []
  for k, v in _assigns(c.body):
    if isinstance(k, str) and k.isupper():
      out.append(k)
  if not out:
    raise Missing('%s:%s has no members' % (rel, cls))
  return out


def wire_commands(repo):
  """Arguments of make_wire_commands(...) in class AdbMessage."""
  c = _class(_parse(repo, 'openhtf/plugs/usb/adb_message.py'), 'AdbMessage')
  for k, v in _assigns(c.body):
    if isinstance(k, tuple) and 'CMD_TO_WIRE' in k and isinstance(v, ast.Call):
      return [_eval(a) for a in v.args]
  raise Missing('AdbMessage.CMD_TO_WIRE')


def conf_default(repo, rel, key):
  """default_value= of CONF.declare('<key>', ...)."""
  for n in ast.walk(_parse(repo, rel)):
    if (isinstance(n, ast.Call) and isinstance(n.func, ast.Attribute) and n.func.attr == 'declare' and n.args
        and isinstance(n.args[0], ast.Constant) and n.args[0].value == key):
      for kw in n.keywords:
        if kw.arg == 'default_value':
          return _eval(kw.value)
      raise Missing('%s has no default' % key)
  raise Missing('declare(%s)' % key)


def kwarg_default(repo, rel, cls, func, arg):
  """Default value of a keyword parameter of a function/method."""
  tree = _parse(repo, rel)
  scope = _class(tree, cls) if cls else tree
  for n in ast.walk(scope):
    if isinstance(n, ast.FunctionDef) and n.name == func:
      names = [a.arg for a in n.args.args]
      defaults = n.args.defaults
      off = len(names) - len(defaults)
      if arg in names and names.index(arg) >= off:
        return _eval(defaults[names.index(arg) - off])
      for a, d in zip(n.args.kwonlyargs, n.args.kw_defaults):
        if a.arg == arg and d is not None:
          return _eval(d)
  raise Missing('%s:%s.%s(%s=)' % (rel, cls, func, arg))


def attr_default(repo, rel, cls, name):
  """default= of an attr.ib(...) field."""
  c = _class(_parse(repo, rel), cls)
  for k, v in _assigns(c.body):
    if k == name and isinstance(v, ast.Call):
      for kw in v.keywords:
        if kw.arg == 'default':
          return _eval(kw.value)
  raise Missing('%s:%s.%s default' % (rel, cls, name))


# name -> (lean type, extractor)
def _specs(repo):
  S = []
  def add(name, kind, fn):
    S.append((name, kind, fn))
  add('c05.phaseResults', 'strs', lambda: enum_members(repo, 'openhtf/core/phase_descriptor.py', 'PhaseResult'))
  add('c05.phaseOutcomes', 'strs', lambda: enum_members(repo, 'openhtf/core/test_record.py', 'PhaseOutcome'))
  add('c01.testOutcomes', 'strs', lambda: enum_members(repo, 'openhtf/core/test_record.py', 'Outcome'))
  add('c06.measOutcomes', 'strs', lambda: enum_members(repo, 'openhtf/core/measurements.py', 'Outcome'))
  add('c02.subtestOutcomes', 'strs', lambda: enum_members(repo, 'openhtf/core/test_record.py', 'SubtestOutcome'))
  add('c02.conditionOn', 'strs', lambda: enum_members(repo, 'openhtf/core/phase_branches.py', 'ConditionOn'))
  add('c02.previousPhases', 'strs', lambda: enum_members(repo, 'openhtf/core/phase_branches.py', 'PreviousPhases'))
  add('c05.defaultRepeatLimit', 'nat', lambda: module_const(repo, 'openhtf/core/phase_descriptor.py', 'DEFAULT_REPEAT_LIMIT'))
  add('c12.defaultPhaseTimeoutS', 'nat', lambda: module_const(repo, 'openhtf/core/phase_executor.py', 'DEFAULT_PHASE_TIMEOUT_S'))
  add('c12.joinTryIntervalMs', 'nat', lambda: int(round(1000 * module_const(repo, 'openhtf/core/phase_executor.py', '_JOIN_TRY_INTERVAL_SECONDS'))))
  add('c13.wireCommands', 'strs', lambda: wire_commands(repo))
  add('c13.headerFormat', 'str', lambda: class_const(repo, 'openhtf/plugs/usb/adb_message.py', 'AdbMessage', 'HEADER_STRUCT_FORMAT'))
  add('c15.maxAdbData', 'nat', lambda: module_const(repo, 'openhtf/plugs/usb/adb_protocol.py', 'MAX_ADB_DATA'))
  add('c15.adbVersion', 'nat', lambda: module_const(repo, 'openhtf/plugs/usb/adb_protocol.py', 'ADB_VERSION'))
  add('c15.streamIdLimit', 'nat', lambda: module_const(repo, 'openhtf/plugs/usb/adb_protocol.py', 'STREAM_ID_LIMIT'))
  add('c15.authToken', 'nat', lambda: class_const(repo, 'openhtf/plugs/usb/adb_protocol.py', 'AdbConnection', 'AUTH_TOKEN'))
  add('c15.authSignature', 'nat', lambda: class_const(repo, 'openhtf/plugs/usb/adb_protocol.py', 'AdbConnection', 'AUTH_SIGNATURE'))
  add('c15.authRsaPublicKey', 'nat', lambda: class_const(repo, 'openhtf/plugs/usb/adb_protocol.py', 'AdbConnection', 'AUTH_RSAPUBLICKEY'))
  add('c16.finalHeaders', 'strs', lambda: class_const(repo, 'openhtf/plugs/usb/fastboot_protocol.py', 'FastbootProtocol', 'FINAL_HEADERS'))
  add('c16.chunkSizeKb', 'nat', lambda: module_const(repo, 'openhtf/plugs/usb/fastboot_protocol.py', 'FASTBOOT_DOWNLOAD_CHUNK_SIZE_KB'))
  add('c04.cancelTimeoutS', 'nat', lambda: conf_default(repo, 'openhtf/core/test_executor.py', 'cancel_timeout_s'))
  add('c01.stopOnFirstFailureDefault', 'bool', lambda: conf_default(repo, 'openhtf/core/test_executor.py', 'stop_on_first_failure'))
  add('c01.allowUnsetMeasurementsDefault', 'bool', lambda: conf_default(repo, 'openhtf/core/test_state.py', 'allow_unset_measurements'))
  return S


def _lean_name(name):
  return name.replace('.', '_')


def _lean_val(kind, v):
  if kind == 'nat':
    if not isinstance(v, int) or isinstance(v, bool) or v < 0:
      raise Missing('not a natural number: %r' % (v,))
    return 'Nat', str(v)
  if kind == 'bool':
    if not isinstance(v, bool):
      raise Missing('not a bool: %r' % (v,))
    return 'Bool', 'true' if v else 'false'
  if kind == 'str':
    if not isinstance(v, str):
      raise Missing('not a str: %r' % (v,))
    return 'String', json.dumps(v)
  if kind == 'strs':
    if not isinstance(v, list) or not all(isinstance(x, str) for x in v):
      raise Missing('not a list of str: %r' % (v,))
    return 'List String', '[' + ', '.join(json.dumps(x) for x in v) + ']'
  raise Missing(kind)


def regenerate(repo, lean_dir):
  try:
    with open(LAST) as f:
      last = json.load(f)
  except (OSError, ValueError):
    last = {}
  drift = []
  values = {}
  lines = ['/- GENERATED by harness/gen_constants.py from the repository source on every run. Do not edit. -/',
           'namespace OpenHTF.Gen', '']
  for name, kind, fn in _specs(repo):
    try:
      v = fn()
      ty, txt = _lean_val(kind, v)
    except (Missing, OSError, SyntaxError, KeyError, TypeError, ValueError) as e:
      if name not in last:
        drift.append('%s: not extractable (%s) and no last known value' % (name, e))
        continue
      v = last[name]
      ty, txt = _lean_val(kind, v)
      drift.append('%s: not extractable (%s); last known value used' % (name, e))
    values[name] = v
    lines.append('def %s : %s := %s' % (_lean_name(name), ty, txt))
  lines += ['', 'end OpenHTF.Gen', '']
  text = '\n'.join(lines)
  path = os.path.join(lean_dir, 'OpenHTF', 'Gen', 'Constants.lean')
  os.makedirs(os.path.dirname(path), exist_ok=True)
  old = None
  if os.path.exists(path):
    with open(path) as f:
      old = f.read()
  if old != text:
    with open(path, 'w') as f:
      f.write(text)
  return drift, values


if __name__ == '__main__':
  import sys
  repo = sys.argv[1] if len(sys.argv) > 1 else '/repo'
  d, v = regenerate(repo, os.path.join(os.path.dirname(os.path.dirname(os.path.abspath(__file__))), 'lean'))
  if '--save-last' in sys.argv:
    with open(LAST, 'w') as f:
      json.dump(v, f, indent=1, sort_keys=True)
  print(json.dumps({'drift': d, 'values': v}, indent=1))
