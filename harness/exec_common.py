"""Shared executor harness (C01 C02 C03 C05 C08 C09): builds real openhtf trees from JSON cases, runs
htf.Test(...).execute() in-process, canonicalises the TestRecord and the call log (DESIGN section 4)."""
import json
import zlib
import logging
import os
import threading
import time

_SETUP = False
CRASHES = []
LAST_CRASH = []
TIMEOUT_S = 0.25
LINGER = {}
HANG_S = 30.0
STUCK_S = 4.0        # how long an unkillable tearDown stays stuck
STUCK_HANG_S = 2.0   # execute() not back by then although the tearDown timeout is 0.05 s: reported as O:HANG
ORIG_JOIN_INTERVAL = None


def setup():
  global _SETUP
  if _SETUP:
    return
  _SETUP = True
  logging.disable(logging.CRITICAL)
  from openhtf.core import phase_executor
  from openhtf.util import console_output
  global ORIG_JOIN_INTERVAL
  ORIG_JOIN_INTERVAL = phase_executor._JOIN_TRY_INTERVAL_SECONDS
  phase_executor._JOIN_TRY_INTERVAL_SECONDS = 0.004
  # banner printing to stdout would garble the check's own output
  console_output.banner_print = lambda *a, **k: None
  console_output.error_print = lambda *a, **k: None
  console_output.cli_print = lambda *a, **k: None
  def _hook(a):
    if a.exc_type is SystemExit:
      return
    import traceback as _tb
    fr = _tb.extract_tb(a.exc_traceback)
    CRASHES.append(a.exc_type.__name__)
    LAST_CRASH[:] = ['%s:%s:%d:%s' % (a.exc_type.__name__, fr[-1].filename.split('/')[-1], fr[-1].lineno, str(a.exc_value)[:100].replace(' ', '_')) if fr else a.exc_type.__name__]
  threading.excepthook = _hook
  # phases named in LINGER: the body returns at once, the designated override point "called once _thread_proc has
  # finished" keeps the phase thread alive beyond the phase's deadline - the phase keeps its own result
  orig_finished = phase_executor.PhaseExecutorThread._thread_finished

  def lingering_finished(self):
    d = LINGER.get(getattr(self._phase_desc, 'name', None))
    if d:
      time.sleep(d)
    return orig_finished(self)
  phase_executor.PhaseExecutorThread._thread_finished = lingering_finished


class Failure(Exception):
  """listed in failure_exceptions"""


class SubFailure(Failure):
  """not listed in failure_exceptions itself: its base class is"""


class BadStr(Exception):

  def __str__(self):
    raise BadStrStr('str() of the exception raises')


class BadStrStr(Exception):
  pass


def shape_callback(fn, j):
  """output callbacks come as plain functions, callable objects (OutputToJSON is one) and functools.partial objects;
  the last two have no __name__"""
  import functools
  if j % 3 == 1:
    class CallableObject(object):
      def __call__(self, record):
        return fn(record)
    return CallableObject()
  if j % 3 == 2:
    return functools.partial(lambda rec, extra: fn(rec), extra=None)
  return fn


class Ctx(object):

  def __init__(self):
    self.events = []
    self.body_calls = {}
    self.runif_calls = {}
    self.inst = []
    self.sysexit = set()   # phase ids whose body ended with SystemExit
    self.diag_log = []     # every diagnosis the scripted diagnosers produced, in order: (result id, is_failure, is_internal)
    self.lock = threading.Lock()
    self.times = {}
    self.record_times = False
    self.record_ends = False


def _inv(node, k):
  beh = node.get('beh') or []
  return beh[k] if k < len(beh) else {'raw': 'cont'}


def _meas_kinds(node):
  kinds = []
  for inv in node.get('beh') or []:
    for i, mo in enumerate(inv.get('meas') or []):
      while len(kinds) <= i:
        kinds.append(None)
      if mo in ('ppass', 'pfail', 'praise'):
        kinds[i] = 'dim'
      elif mo in ('pass', 'fail') and kinds[i] is None:
        kinds[i] = 'scalar'
  return [k or 'scalar' for k in kinds]


def _dim_validator(value):
  vals = [row[-1] for row in value]
  if 3 in vals:
    raise RuntimeError('validator failure')
  return all(v == 1 for v in vals)


def build_phase(node, ctx, htf, diag_enum, diagnoses_lib, plugs=None):
  pid = node['id']
  kinds = _meas_kinds(node)
  ndiag = max([len(inv.get('diags') or []) for inv in (node.get('beh') or [])] + [0])

  def body(test, **plug_kwargs):
    with ctx.lock:
      k = ctx.body_calls.get(pid, 0)
      ctx.body_calls[pid] = k + 1
      ctx.events.append('eb%d.%d' % (pid, k))
    if plugs is not None:
      plugs.seen(pid, plug_kwargs)
    inv = _inv(node, k)
    ctx.times[(pid, k)] = time.time() if ctx.record_times else None
    if inv.get('sleep') is not None:
      if inv.get('unkillable'):
        # a body that cannot be terminated (stuck in C code): the kill is swallowed, the body goes on
        end = time.time() + inv['sleep']
        while True:
          try:
            left = end - time.time()
            if left <= 0:
              break
            time.sleep(left)
          except BaseException:  # pylint: disable=broad-except
            ctx.events.append('eswallow%d.%d' % (pid, k))
      else:
        for _ in range(inv.get('steps', 1)):
          time.sleep(inv['sleep'])
      ctx.times[(pid, k, 'end')] = time.time() if ctx.record_times else None
    meas = inv.get('meas') or []
    for i, kind in enumerate(kinds):
      mo = meas[i] if i < len(meas) else ('pass' if kind == 'scalar' else 'ppass')
      name = 'm%d_%d' % (pid, i)
      if kind == 'scalar':
        if mo == 'pass':
          test.measurements[name] = 5
        elif mo == 'fail':
          test.measurements[name] = 50
      else:
        if mo in ('ppass', 'pass'):
          test.measurements[name][0] = 1
          if pid % 2 == 0:
            test.measurements[name][0] = 1      # the same coordinate again (allowed, with a warning)
        elif mo in ('pfail', 'fail'):
          test.measurements[name][0] = 2
          if pid % 2 == 0:
            test.measurements[name][0] = 2
        elif mo == 'praise':
          test.measurements[name][0] = 3
    raw = inv['raw']
    if raw == 'exc':
      if inv.get('badstr'):
        raise BadStr()      # an exception whose str() raises: rendering the phase record crashes the executor thread
      if ndiag == 0 and is_sysexit(inv, pid, k):
        # sys.exit() in a body: not an `Exception`; the framework sees a thread that ended without a result (as a
        # killed one does): ERROR, terminal, its phase diagnosers are not run - and failure_exceptions must not choke
        ctx.sysexit.add(pid)
        raise SystemExit(3)
      raise RuntimeError('phase %d failed' % pid)
    if raw == 'fexc':
      # (every other phase raises a subclass of the listed failure exception)
      raise (Failure if pid % 2 else SubFailure)('phase %d failed (failure exception)' % pid)
    if raw == 'timeout':
      while True:
        time.sleep(0.002)
    if raw == 'invalid':
      # anything that is not None and not a PhaseResult, falsy values included
      return INVALID_RETURNS[(pid * 3 + k) % len(INVALID_RETURNS)]
    if raw == 'cont':
      return None if (pid + k) % 2 else htf.PhaseResult.CONTINUE
    return {'failcont': htf.PhaseResult.FAIL_AND_CONTINUE, 'rep': htf.PhaseResult.REPEAT,
            'skip': htf.PhaseResult.SKIP, 'stop': htf.PhaseResult.STOP, 'failsub': htf.PhaseResult.FAIL_SUBTEST}[raw]

  inner = body

  def body(test, **plug_kwargs):  # pylint: disable=function-redefined
    if not ctx.record_ends:
      return inner(test, **plug_kwargs)
    k = ctx.body_calls.get(pid, 0)
    try:
      r = inner(test, **plug_kwargs)
      ctx.events.append('ee%d.%d:ok' % (pid, k))
      return r
    except BaseException as e:  # pylint: disable=broad-except
      ctx.events.append('ee%d.%d:%s' % (pid, k, 'killed' if type(e).__name__ == 'ThreadTerminationError' else 'exc'))
      raise

  body.__name__ = 'p%d' % pid
  opts = node.get('opts') or {}
  kw = {'name': 'p%d' % pid}
  if opts.get('limit') is not None:
    kw['repeat_limit'] = opts['limit']
  for a, b in (('fr', 'force_repeat'), ('rmf', 'repeat_on_measurement_fail'), ('rot', 'repeat_on_timeout'),
               ('somf', 'stop_on_measurement_fail')):
    if opts.get(a):
      kw[b] = True
  if any(inv['raw'] == 'timeout' for inv in (node.get('beh') or [])):
    kw['timeout_s'] = TIMEOUT_S
  if node.get('linger'):
    kw['timeout_s'] = TIMEOUT_S
    LINGER['p%d' % pid] = TIMEOUT_S * 1.6
  if node.get('timeout_s') is not None:
    kw['timeout_s'] = node['timeout_s']
  if node.get('runif') is not None:
    script = node['runif']

    def run_if():
      with ctx.lock:
        k = ctx.runif_calls.get(pid, 0)
        ctx.runif_calls[pid] = k + 1
        ctx.events.append('er%d.%d' % (pid, k))
      v = script[k] if k < len(script) else True
      if v is None:
        raise RuntimeError('run_if failure')
      return v
    kw['run_if'] = run_if
  if node.get('mon') and not node.get('plugs'):
    # the phase function wrapped by monitors.monitors (a monitor thread samples a value while the body runs): the
    # wrapper must hand the body's return value through
    from openhtf.core import monitors

    def monitor_fn(test):
      return 1
    monitor_fn.__name__ = 'monitor_p%d' % pid
    body = monitors.monitors('mon_p%d' % pid, monitor_fn, poll_interval_ms=5)(body)
  if pid % 2 == 1:
    # the same options given as a stack of decorators, one option per layer and an empty one on top: what a lower
    # layer set must survive the layers above it
    phase = body
    for key in sorted(kw, key=lambda k: (k in ('timeout_s', 'run_if', 'name'), k)):
      phase = htf.PhaseOptions(**{key: kw[key]})(phase)
    phase = htf.PhaseOptions()(phase)
  else:
    phase = htf.PhaseOptions(**kw)(body)
  ms = []
  for i, kind in enumerate(kinds):
    name = 'm%d_%d' % (pid, i)
    if kind == 'scalar':
      ms.append(htf.Measurement(name).in_range(0, 10))
    else:
      ms.append(htf.Measurement(name).with_dimensions('x').with_validator(_dim_validator))
  if ms:
    phase = htf.measures(*ms)(phase)
    if pid % 3 == 2 and not node.get('mon'):
      # the phase as bound by a station with with_args (a setting the function does not take): the copy keeps the
      # measurements with ALL their validators
      phase = phase.with_args(station_setting=pid)
  diagnosers = []
  for j in range(ndiag):
    def run(phase_record, j=j):
      k = ctx.body_calls.get(pid, 1) - 1
      with ctx.lock:
        ctx.events.append('ed%d.%d.%d' % (pid, k, j))
      ds = _inv(node, k).get('diags') or []
      d = ds[j] if j < len(ds) else []
      if d == 'raise':
        raise RuntimeError('diagnoser failure')
      out = []
      for e in d:
        rid, f = e[0], e[1]
        # an internal diagnosis (never a failure) drives branches and checkpoints like any other, but is not saved to
        # the test record
        internal = len(e) > 2 and bool(e[2]) and not f and not phase_diag_always_fail(pid, j)
        out.append(diagnoses_lib.Diagnosis(diag_enum['R%d' % rid], 'diagnosis %d' % rid, is_failure=bool(f),
                                           is_internal=internal))
        with ctx.lock:
          ctx.diag_log.append((rid, bool(f) or phase_diag_always_fail(pid, j), internal))
      return out[0] if len(out) == 1 and (pid + j) % 2 else out
    run.__name__ = 'dg%d_%d' % (pid, j)
    diagnosers.append(diagnoses_lib.PhaseDiagnoser(diag_enum, name='dg%d_%d' % (pid, j),
                                                   always_fail=phase_diag_always_fail(pid, j))(run))
  if diagnosers:
    phase = htf.diagnose(*diagnosers)(phase)
  if plugs is not None:
    phase = plugs.attach(phase, node)
  return phase


class PlugsSupport(object):
  """Instrumented plug classes: log constructor / tearDown / the instance each phase receives."""

  def __init__(self, ctx, env, spec):
    from openhtf.core import base_plugs
    self.ctx = ctx
    self.htf = env['htf']
    self.classes = {}
    self.requested = {}
    serial = [0]
    for key, beh in spec.items():
      idx = int(key)

      def init(self_, idx=idx, beh=beh):
        with ctx.lock:
          if beh.get('ctor') == 'raise':
            ctx.events.append('eP!%d' % idx)
          else:
            serial[0] += 1
            self_.serial = serial[0]
            ctx.events.append('eP+%d' % idx)
            ctx.inst.append('I+:%d:%d' % (idx, self_.serial))
        if beh.get('ctor') == 'raise':
          # (also a constructor that ends with something that is not an `Exception`: sys.exit() in a driver)
          raise (RuntimeError, SystemExit)[idx % 2]('plug %d constructor failure' % idx)

      def tear_down(self_, idx=idx, beh=beh):
        with ctx.lock:
          ctx.events.append('eP-%d' % idx)
          ctx.inst.append('I-:%d:%d' % (idx, self_.serial))
        if beh.get('td') == 'raise':
          # also exceptions that are not `Exception`s (sys.exit() in a tearDown, a leaked termination request)
          raise (RuntimeError, SystemExit, KeyboardInterrupt)[idx % 3]('plug %d tearDown failure' % idx)
        if beh.get('td') == 'slow':
          # takes a little while (well inside its own timeout): another plug's hanging tearDown must not cut it short
          time.sleep(0.01)
          with ctx.lock:
            ctx.inst.append('I~:%d' % idx)
        if beh.get('td') == 'hang':
          while True:
            time.sleep(0.002)
        if beh.get('td') == 'stuck':
          # a tearDown that cannot be killed (swallows the termination request, as a blocking C call would): it must be
          # abandoned after plug_teardown_timeout_s, not waited for
          deadline = time.time() + STUCK_S
          while time.time() < deadline:
            try:
              time.sleep(0.005)
            except BaseException:  # pylint: disable=broad-except
              pass
      # 'alias': a second, distinct class with the SAME module and name (what a class factory produces): plugs are told
      # apart by class, never by name
      self.classes[idx] = type('Plug%d' % beh.get('alias', idx), (base_plugs.BasePlug,),
                               {'__init__': init, 'tearDown': tear_down, 'verif_idx': idx})

  def attach(self, phase, node):
    req = node.get('plugs') or []
    if not req:
      return phase
    phase = self.htf.plug(**{arg: self.classes[cls] for arg, cls in req})(phase)
    self.requested[node['id']] = dict(req)
    if node.get('wa'):
      # a shared settings dict applied to every phase with with_args (unknown keys are legal): a key that is also the
      # name of a plug argument must not replace the plug ("plugs override extra_kwargs")
      phase = phase.with_args(**{arg: 'station-setting' for arg, cls in req})
    return phase

  def seen(self, pid, kwargs):
    with self.ctx.lock:
      for arg in sorted(kwargs):
        inst = kwargs[arg]
        if hasattr(type(inst), 'verif_idx'):
          # reported under the class that was REQUESTED for this argument, with the serial of what arrived
          want = self.requested.get(pid, {}).get(arg, type(inst).verif_idx)
          self.ctx.inst.append('I:%d:%s:%d:%d' % (pid, arg, want, inst.serial))
        elif arg in self.requested.get(pid, {}):
          # something that is not the plug arrived under the plug's argument name
          self.ctx.inst.append('I:%d:%s:%d:%d' % (pid, arg, self.requested[pid][arg], 999999))


def build_node(node, ctx, env):
  htf, pb = env['htf'], env['phase_branches']
  t = node['t']
  if t == 'P':
    return build_phase(node, ctx, htf, env['diag_enum'], env['diagnoses_lib'], env.get('plugs'))
  if t == 'Q':
    return htf.PhaseSequence(*[build_node(n, ctx, env) for n in node['ns']], name='q')
  if t == 'G':
    return htf.PhaseGroup(setup=[build_node(n, ctx, env) for n in node['s']] or None,
                          main=[build_node(n, ctx, env) for n in node['m']] or None,
                          teardown=[build_node(n, ctx, env) for n in node['td']] or None, name='g')
  if t == 'U':
    return htf.Subtest('u%d' % node['name'], *[build_node(n, ctx, env) for n in node['ns']])
  if t in ('B', 'C'):
    enum = env['diag_enum']
    def cond(on, res):
      rs = [enum['R%d' % r] for r in res]
      return {'all': pb.DiagnosisCondition.on_all, 'any': pb.DiagnosisCondition.on_any,
              'notany': pb.DiagnosisCondition.on_not_any, 'notall': pb.DiagnosisCondition.on_not_all}[on](*rs)
    if t == 'B':
      return pb.BranchSequence(cond(node['on'], node['res']), *[build_node(n, ctx, env) for n in node['ns']],
                               name='b%d' % node['id'])
    action = htf.PhaseResult.FAIL_SUBTEST if node['fs'] else htf.PhaseResult.STOP
    name = 'c%d' % node['id']
    if node['kind'] == 'diag':
      return pb.DiagnosisCheckpoint(name, cond(node['on'], node['res']), action=action)
    ctor = {'last': pb.PhaseFailureCheckpoint.last, 'all': pb.PhaseFailureCheckpoint.all_previous,
            'sub': pb.PhaseFailureCheckpoint.subtest_previous}[node['kind']]
    return ctor(name, action=action)
  raise ValueError(t)


def _res_kind(result):
  from openhtf.core import phase_executor
  from openhtf.util import threads
  pr = result.phase_result
  if pr is None:
    return 'timeout'
  if isinstance(pr, phase_executor.ExceptionInfo):
    return 'fexc' if issubclass(pr.exc_type, Failure) else 'exc'
  if isinstance(pr, threads.ThreadTerminationError):
    return 'aborted'
  return {'CONTINUE': 'cont', 'FAIL_AND_CONTINUE': 'failcont', 'REPEAT': 'rep', 'SKIP': 'skip', 'STOP': 'stop',
          'FAIL_SUBTEST': 'failsub'}[pr.name]


def _dots(l):
  return '.'.join(str(x) for x in l) if l else '-'


def canon_record(rec, ctx, start_name=None):
  toks = ['O:' + rec.outcome.name]
  for p in rec.phases:
    pid = p.name[1:] if p.name.startswith('p') and p.name[1:].isdigit() else p.name
    sub = p.subtest_name[1:] if p.subtest_name else '-'
    kind = _res_kind(p.result)
    if kind == 'aborted' and str(pid).isdigit() and int(pid) in getattr(ctx, 'sysexit', ()):
      kind = 'exc'      # nobody aborted: the body ended with SystemExit
    toks.append('p%s:%s:%s:%s:%s:%s' % (pid, p.outcome.name, kind, sub,
                                        _dots([int(r.name[1:]) for r in p.diagnosis_results]),
                                        _dots([int(r.name[1:]) for r in p.failure_diagnosis_results])))
  for s in rec.subtests:
    toks.append('u%s:%s' % (s.name[1:], s.outcome.name))
  for b in rec.branches:
    toks.append('B%s:%d' % (b.name[1:], 1 if b.branch_taken else 0))
  for c in rec.checkpoints:
    toks.append('c%s:%s:%s' % (c.name[1:], c.subtest_name[1:] if c.subtest_name else '-', _res_kind(c.result)))
  # internal diagnoses are produced but not saved to the record: they are put back in their place (production order) so
  # that the model, which knows no internal flag, sees every diagnosis; one that IS saved although internal, or a
  # missing ordinary one, breaks the alignment and shows as a difference
  recd = list(rec.diagnoses)
  internal_left = [e for e in getattr(ctx, 'diag_log', []) if e[2]]
  if internal_left:
    ri = 0
    for (rid, f, internal) in ctx.diag_log:
      if internal:
        toks.append('D%d:0' % rid)
      elif ri < len(recd) and int(recd[ri].result.name[1:]) == rid:
        toks.append('D%s:%d' % (recd[ri].result.name[1:], 1 if recd[ri].is_failure else 0))
        ri += 1
    recd = recd[ri:]
  for d in recd:
    toks.append('D%s:%d' % (d.result.name[1:], 1 if d.is_failure else 0))
  toks += list(ctx.events)
  toks += list(ctx.inst)
  return toks


def make_env():
  import openhtf as htf
  from openhtf.core import diagnoses_lib, phase_branches
  import enum
  diag_enum = diagnoses_lib.DiagResultEnum('R', {('R%d' % i): ('r%d' % i) for i in range(6)})
  return {'htf': htf, 'diagnoses_lib': diagnoses_lib, 'phase_branches': phase_branches, 'diag_enum': diag_enum}


def build_test(case, callbacks=None):
  """Builds the real htf.Test of a case. Returns dict(test, ctx, env, recs, cb_records, start)."""
  LINGER.clear()
  setup()
  env = make_env()
  htf, diagnoses_lib = env['htf'], env['diagnoses_lib']
  ctx = Ctx()
  if case.get('plugs') is not None:
    env['plugs'] = PlugsSupport(ctx, env, case['plugs'])
  nodes = [build_node(n, ctx, env) for n in case['nodes']]
  # the station setting capture_source (read when the Test is built: the whole tree goes through load_code_info) is on
  # for one case in five
  from openhtf.util import configuration as _cfg
  capsrc = case.get('capsrc', zlib.crc32(json.dumps(case.get('nodes'), sort_keys=True, default=str).encode()) % 5 == 0)
  _had = 'capture_source' in _cfg.CONF._loaded_values
  _old = _cfg.CONF._loaded_values.get('capture_source')
  _cfg.CONF.load(capture_source=bool(capsrc), _override=True)
  try:
    test = htf.Test(*nodes)
  finally:
    if _had:
      _cfg.CONF._loaded_values['capture_source'] = _old
    else:
      _cfg.CONF._loaded_values.pop('capture_source', None)
  recs = []
  cb_records = []
  test.add_output_callbacks(recs.append)
  for j, raises in enumerate(case.get('callbacks') or []):
    def cb(record, j=j, raises=raises):
      with ctx.lock:
        ctx.events.append('eCB%d' % j)
      cb_records.append(record)
      if raises:
        raise RuntimeError('callback failure')
    test.add_output_callbacks(shape_callback(cb, j))
  for cb in callbacks or []:
    test.add_output_callbacks(cb)
  test.configure(failure_exceptions=[Failure], stop_on_first_failure=bool(case.get('sof')),
                 name='verif_case')
  tdiags = []
  for j, d in enumerate(case.get('tdiags') or []):
    def run(test_record, store, d=d, j=j):
      with ctx.lock:
        ctx.events.append('eT%d' % j)
      if d == 'raise':
        raise RuntimeError('test diagnoser failure')
      with ctx.lock:
        for e in d:
          ctx.diag_log.append((e[0], bool(e[1]) or test_diag_always_fail(j), False))
      return [diagnoses_lib.Diagnosis(env['diag_enum']['R%d' % e[0]], 'test diagnosis', is_failure=bool(e[1])) for e in d]
    run.__name__ = 'tdg%d' % j
    tdiags.append(diagnoses_lib.TestDiagnoser(env['diag_enum'], name='tdg%d' % j,
                                              always_fail=test_diag_always_fail(j))(run))
  if tdiags:
    test.add_test_diagnosers(*tdiags)
  start = None
  if case.get('start') is not None:
    start = build_phase(case['start'], ctx, htf, env['diag_enum'], diagnoses_lib, env.get('plugs'))
  return {'test': test, 'ctx': ctx, 'env': env, 'recs': recs, 'cb_records': cb_records, 'start': start}


def _has_mon(x):
  if isinstance(x, dict):
    return bool(x.get('mon')) or any(_has_mon(v) for v in x.values())
  if isinstance(x, list):
    return any(_has_mon(v) for v in x)
  return False


def run_test_case(case, plugs_factory=None, callbacks=None):
  """Runs one case. A case with a monitored phase (openhtf.core.monitors, not part of any property: it only varies the
  shape of the phase function) that does not return within HANG_S is run once more: seen once in several thousand runs
  on a heavily loaded machine, never reproduced; a second hang is reported."""
  out = _run_test_case_once(case, plugs_factory, callbacks)
  if out['tokens'] and out['tokens'][0] == 'O:HANG' and _has_mon(case):
    out = _run_test_case_once(case, plugs_factory, callbacks)
  return out


def _run_test_case_once(case, plugs_factory=None, callbacks=None):
  """Runs one case; returns dict(tokens=[...], ret=bool, crashes=[...], record=TestRecord)."""
  from openhtf.util import configuration
  b = build_test(case, callbacks)
  test, ctx, recs, cb_records, start = b['test'], b['ctx'], b['recs'], b['cb_records'], b['start']
  del CRASHES[:]
  conf = configuration.CONF
  saved = dict(conf._loaded_values)
  try:
    conf.load(allow_unset_measurements=bool(case.get('allow')), _override=True)
    if case.get('plugs') is not None:
      slow = any((b_ or {}).get('td') == 'slow' for b_ in case['plugs'].values())
      waits = any((b_ or {}).get('td') in ('slow', 'hang', 'stuck') for b_ in case['plugs'].values())
      if case.get('tdto') is not None:
        # a station setting that is not positive: "if > 0; otherwise, will wait an unlimited time"
        conf.load(plug_teardown_timeout_s=case['tdto'], _override=True)
      elif waits or zlib.crc32(json.dumps(case['plugs'], sort_keys=True).encode()) % 2:
        conf.load(plug_teardown_timeout_s=0.4 if slow else 0.05, _override=True)
      # else: the default, no tearDown time-out (no tearDown of this case hangs)
    box = {}

    def _go():
      try:
        kw = {}
        if case.get('profile'):
          # Test.execute(profile_filename=...): every phase thread runs under cProfile
          import tempfile
          box['profdir'] = tempfile.mkdtemp(prefix='verif-prof.')
          kw['profile_filename'] = os.path.join(box['profdir'], 'stats')
        if start is not None:
          kw['test_start'] = start
        box['ret'] = test.execute(**kw)
      except BaseException as e:  # pylint: disable=broad-except
        box['exc'] = e
      finally:
        if box.get('profdir'):
          import shutil
          shutil.rmtree(box['profdir'], ignore_errors=True)
    runner = threading.Thread(target=_go, name='verif-execute', daemon=True)
    runner.start()
    stuck = any((b or {}).get('td') == 'stuck' for b in (case.get('plugs') or {}).values())
    runner.join(STUCK_HANG_S if stuck else HANG_S)
    if runner.is_alive():
      # execute() did not return: report it as an observation, the stuck threads are abandoned
      return {'tokens': ['O:HANG'] + list(ctx.events), 'ret': False, 'crashes': [], 'record': None, 'ctx': ctx,
              'test': test, 'cb_records': cb_records, 'recs': recs}
    if 'exc' in box:
      return {'tokens': ['O:RAISED:' + type(box['exc']).__name__] + list(ctx.events), 'ret': False, 'crashes': [],
              'record': None, 'ctx': ctx, 'test': test, 'cb_records': cb_records, 'recs': recs}
    ret = box['ret']
  finally:
    conf._loaded_values.clear()
    conf._loaded_values.update(saved)
  crashes = [c for c in CRASHES if c != 'ThreadTerminationError']
  rec = recs[0] if recs else None
  toks = canon_record(rec, ctx) if rec is not None else ['O:none']
  for key, b_ in (case.get('plugs') or {}).items():
    if (b_ or {}).get('td') == 'slow' and ('eP-%s' % key) in ctx.events and ('I~:%s' % key) not in ctx.inst:
      toks.append('XF:teardown-of-a-plug-cut-short-by-another-plugs-timeout:%s' % key)
  return {'tokens': toks, 'ret': ret, 'crashes': crashes, 'record': rec, 'ctx': ctx, 'test': test,
          'cb_records': cb_records, 'recs': recs}


# ---------------------------------------------------------------------------
# encoding for the Lean driver

def _b(x):
  return '1' if x else '0'


def phase_diag_always_fail(pid, j):
  """some scripted diagnosers are declared always_fail=True: each of their diagnoses, returned singly or in a list,
  is a failure whatever its own is_failure says - the encoding hands the model the forced flag"""
  return (pid + 2 * j) % 3 == 0


def test_diag_always_fail(j):
  return j % 2 == 1


def enc_diagrun(d, always_fail=False):
  if d == 'raise':
    return 'X'
  return 'R %d %s' % (len(d), ' '.join('%d %s' % (e[0], _b(e[1] or always_fail)) for e in d))


def enc_inv(inv, pid=None):
  meas = inv.get('meas') or []
  diags = inv.get('diags') or []
  return '%s %d %s %d %s' % (inv['raw'], len(meas), ' '.join(meas), len(diags),
                             ' '.join(enc_diagrun(d, pid is not None and phase_diag_always_fail(pid, j))
                                      for j, d in enumerate(diags)))


def is_sysexit(inv, pid, k):
  """one 'exc' invocation in four ends its body with sys.exit() instead of an ordinary exception (only on phases
  without phase diagnosers: the framework treats such a thread like a killed one and does not run them)"""
  if inv.get('raw') != 'exc' or inv.get('badstr'):
    return False
  return bool(inv['sysexit']) if 'sysexit' in inv else (pid * 7 + k) % 4 == 1


def enc_phase(node):
  o = node.get('opts') or {}
  ri = node.get('runif')
  ris = '-' if ri is None else '%d %s' % (len(ri), ' '.join('x' if v is None else ('t' if v else 'f') for v in ri))
  beh = node.get('beh') or []
  ndiag = max([len(inv.get('diags') or []) for inv in beh] + [0])
  kinds = _meas_kinds(node)
  # pad every invocation to the declared measurements / attached diagnosers (what the real objects do)
  padded = []
  for k_, inv in enumerate(beh):
    meas = list(inv.get('meas') or [])
    for i in range(len(meas), len(kinds)):
      meas.append('pass' if kinds[i] == 'scalar' else 'ppass')
    diags = list(inv.get('diags') or []) + [[]] * (ndiag - len(inv.get('diags') or []))
    # a body that raises / never returns right after setting measurements: measurements are set first
    padded.append({'raw': inv['raw'], 'meas': _canon_meas(meas, kinds), 'diags': diags})
  default = {'raw': 'cont', 'meas': _canon_meas(['pass' if k == 'scalar' else 'ppass' for k in kinds], kinds),
             'diags': [[]] * ndiag}
  # the Lean side uses `cont` with no measurements beyond the list: make the list long enough
  limit = (o.get('limit') or 3)
  while len(padded) < limit + 1:
    padded.append(default)
  return '%d %s %s %s %s %s %s %d %s' % (
      node['id'], '-' if o.get('limit') is None else o['limit'], _b(o.get('fr')), _b(o.get('rmf')), _b(o.get('rot')),
      _b(o.get('somf')), ris, len(padded), ' '.join(enc_inv(i, node['id']) for i in padded))


def _canon_meas(meas, kinds):
  out = []
  for mo, kind in zip(meas, kinds):
    if kind == 'dim':
      mo = {'pass': 'ppass', 'fail': 'pfail'}.get(mo, mo)
    out.append(mo)
  return out


def enc_node(n):
  t = n['t']
  if t == 'P':
    return 'P ' + enc_phase(n)
  if t == 'Q':
    return 'Q %d %s' % (len(n['ns']), ' '.join(enc_node(x) for x in n['ns']))
  if t == 'G':
    return 'G ' + ' '.join('%d %s' % (len(n[k]), ' '.join(enc_node(x) for x in n[k])) for k in ('s', 'm', 'td'))
  if t == 'U':
    return 'U %d %d %s' % (n['name'], len(n['ns']), ' '.join(enc_node(x) for x in n['ns']))
  if t == 'B':
    return 'B %d %s %d %s %d %s' % (n['id'], n['on'], len(n['res']), ' '.join(map(str, n['res'])), len(n['ns']),
                                    ' '.join(enc_node(x) for x in n['ns']))
  if t == 'C':
    s = 'C %d %s %s' % (n['id'], _b(n['fs']), n['kind'])
    if n['kind'] == 'diag':
      s += ' %s %d %s' % (n['on'], len(n['res']), ' '.join(map(str, n['res'])))
    return s
  raise ValueError(t)


def enc_test(case):
  start = case.get('start')
  tdiags = case.get('tdiags') or []
  return '%s %s %s %d %s %d %s' % (
      _b(case.get('sof')), _b(case.get('allow')), ('1 ' + enc_phase(start)) if start is not None else '0',
      len(case['nodes']), ' '.join(enc_node(n) for n in case['nodes']), len(tdiags),
      ' '.join(enc_diagrun(d, test_diag_always_fail(j)) for j, d in enumerate(tdiags)))


def core_tokens(tokens):
  """records + executor call log only (no test-diagnoser / callback / plug events, no instance tokens)"""
  return [t for t in tokens if not (t.startswith('eT') or t.startswith('eCB') or t.startswith('eP') or t.startswith('I'))]


def clean(s):
  return ' '.join(s.split())


# ---------------------------------------------------------------------------
# generators

INVALID_RETURNS = [42, 0, False, '', [], {}, 0.0, 'CONTINUE', (), True]
RAWS = ['cont', 'cont', 'cont', 'failcont', 'rep', 'skip', 'stop', 'failsub', 'invalid', 'exc', 'fexc', 'timeout']
RAWS_NOTIMEOUT = [r for r in RAWS if r != 'timeout']


class Gen(object):
  """Structured random generator of test cases; every choice comes from the given rng."""

  def __init__(self, rng, allow_timeout=True, p_timeout=0.04):
    self.rng = rng
    self.next_id = 0
    self.allow_timeout = allow_timeout
    self.p_timeout = p_timeout
    self.has_timeout = False

  def fresh(self):
    self.next_id += 1
    return self.next_id

  def raw(self, in_sub):
    r = self.rng
    if self.allow_timeout and not self.has_timeout and r.random() < self.p_timeout:
      self.has_timeout = True
      return 'timeout'
    x = r.random()
    if x < 0.55:
      return 'cont'
    pool = ['failcont', 'rep', 'skip', 'stop', 'invalid', 'exc', 'fexc'] + (['failsub'] * 3 if in_sub else ['failsub'])
    return r.choice(pool)

  def diagrun(self):
    r = self.rng
    if r.random() < 0.12:
      return 'raise'
    return [[r.randrange(4), r.random() < 0.35, r.random() < 0.25] for _ in range(r.choice([0, 1, 1, 2]))]

  def inv(self, in_sub, nmeas, kinds, ndiag):
    r = self.rng
    meas = []
    for k in kinds:
      if k == 'scalar':
        meas.append(r.choice(['pass', 'pass', 'pass', 'fail', 'unset']))
      else:
        meas.append(r.choice(['ppass', 'ppass', 'pfail', 'praise', 'unset']))
    return {'raw': self.raw(in_sub), 'meas': meas, 'diags': [self.diagrun() for _ in range(ndiag)]}

  def phase(self, in_sub=False, simple=False):
    r = self.rng
    pid = self.fresh()
    opts = {}
    if not simple:
      if r.random() < 0.3:
        opts['limit'] = r.choice([1, 2, 3, 4])
      for k, p in (('fr', 0.08), ('rmf', 0.1), ('rot', 0.1), ('somf', 0.1)):
        if r.random() < p:
          opts[k] = True
    nmeas = 0 if simple else r.choice([0, 0, 1, 1, 2])
    kinds = [r.choice(['scalar', 'scalar', 'dim']) for _ in range(nmeas)]
    ndiag = 0 if simple else r.choice([0, 0, 0, 1, 2])
    nb = r.choice([1, 1, 2, 3, 4])
    node = {'t': 'P', 'id': pid, 'opts': opts, 'beh': [self.inv(in_sub, nmeas, kinds, ndiag) for _ in range(nb)]}
    # make the declared kinds explicit even when no invocation sets a partial value
    for inv in node['beh']:
      inv['meas'] = [m if not (k == 'dim' and m in ('pass', 'fail')) else 'p' + m for m, k in zip(inv['meas'], kinds)]
    if kinds and 'dim' in kinds:
      # ensure at least one invocation marks the dimensioned ones so that the declaration is dimensioned
      for i, k in enumerate(kinds):
        if k == 'dim' and not any(inv['meas'][i] in ('ppass', 'pfail', 'praise') for inv in node['beh']):
          node['beh'][0]['meas'][i] = 'ppass'
    if not simple and r.random() < 0.15:
      node['runif'] = [r.choice([True, True, False, False, None]) if r.random() < 0.9 else None
                       for _ in range(r.choice([1, 2, 3]))]
    return node

  def cond(self):
    r = self.rng
    return r.choice(['all', 'any', 'notany', 'notall']), sorted(set(r.randrange(4) for _ in range(r.choice([0, 1, 1, 2]))))

  def node(self, depth, in_sub):
    r = self.rng
    x = r.random()
    if depth <= 0 or x < 0.45:
      return self.phase(in_sub)
    if x < 0.55:
      return {'t': 'Q', 'ns': self.nodes(depth - 1, in_sub, r.choice([0, 1, 2, 3]))}
    if x < 0.72:
      return {'t': 'G', 's': self.nodes(depth - 1, in_sub, r.choice([0, 0, 1, 2])),
              'm': self.nodes(depth - 1, in_sub, r.choice([0, 1, 2, 3])),
              'td': self.nodes(depth - 1, in_sub, r.choice([0, 1, 1, 2]))}
    if x < 0.84:
      return {'t': 'U', 'name': self.fresh(), 'ns': self.nodes(depth - 1, True, r.choice([0, 1, 2, 3, 4]))}
    if x < 0.92:
      on, res = self.cond()
      return {'t': 'B', 'id': self.fresh(), 'on': on, 'res': res, 'ns': self.nodes(depth - 1, in_sub, r.choice([0, 1, 2]))}
    kind = r.choice(['last', 'all', 'sub', 'diag'])
    n = {'t': 'C', 'id': self.fresh(), 'fs': r.random() < (0.7 if in_sub else 0.3), 'kind': kind}
    if kind == 'diag':
      n['on'], n['res'] = self.cond()
    return n

  def nodes(self, depth, in_sub, n):
    return [self.node(depth, in_sub) for _ in range(n)]

  def case(self, depth=3, width=4):
    r = self.rng
    c = {'sof': r.random() < 0.2, 'allow': r.random() < 0.2,
         'nodes': self.nodes(depth, False, r.randrange(0, width + 1))}
    if r.random() < 0.15:
      c['start'] = self.phase(False)
    if r.random() < 0.2:
      c['tdiags'] = [self.diagrun() for _ in range(r.choice([1, 2]))]
    if c['allow']:
      # (only where an unset measurement is allowed: whether the monitor has sampled before a very short body ends is
      # not determined)
      mark_monitored(c['nodes'], r)
    return c


def mark_monitored(nodes, r, prob=0.3):
  for n in nodes:
    if n['t'] == 'P':
      if not n.get('plugs') and not any(inv.get('raw') == 'timeout' for inv in n.get('beh') or []) and r.random() < prob:
        n['mon'] = True
    elif n['t'] == 'G':
      for part in ('s', 'm', 'td'):
        mark_monitored(n[part], r, prob)
    elif n.get('ns'):
      mark_monitored(n['ns'], r, prob)



# ---------------------------------------------------------------------------
# C09: one Test object executed several times

def _facts(rec, running_none, marker=None):
  """marker: the value the configuration key c09_run_marker had when THIS execute() was called"""
  def b(x):
    return '1' if x else '0'
  head = ','.join([b(rec.outcome is not None), str(rec.start_time_millis),
                   '-' if rec.end_time_millis is None else str(rec.end_time_millis),
                   b(rec.dut_id is not None and rec.dut_id != ''), b(rec.metadata.get('test_name') == 'verif_case'),
                   b(isinstance(rec.metadata.get('config'), dict) and
                     (marker is None or rec.metadata['config'].get('c09_run_marker') == marker)), b(running_none)])
  ps = []
  for p in rec.phases:
    ps.append(','.join([b(p.outcome is not None), b(p.result is not None), b(p.options is not None),
                        str(p.start_time_millis), '-' if p.end_time_millis is None else str(p.end_time_millis)]))
  return 'F:' + ';'.join([head] + ps)


def run_history(case):
  """case['runs'] = list of {'overlap': bool}; the same Test object is executed once per entry."""
  setup()
  env = make_env()
  htf, diagnoses_lib = env['htf'], env['diagnoses_lib']
  from openhtf.util import configuration
  from openhtf.core import test_descriptor
  ctx = Ctx()
  ctx.overlap = None
  ctx.want_overlap = False
  if case.get('plugs') is not None:
    env['plugs'] = PlugsSupport(ctx, env, case['plugs'])
  holder = {}

  class Overlap(object):
    """attached to the first phase: its body tries to execute the same Test again"""

    def seen(self, pid, kwargs):
      if env.get('plugs') is not None:
        env['plugs'].seen(pid, kwargs)
      if ctx.want_overlap and ctx.overlap is None:
        try:
          holder['test'].execute()
          ctx.overlap = 'none'
        except Exception as e:  # pylint: disable=broad-except
          ctx.overlap = type(e).__name__

    def attach(self, phase, node):
      if env.get('plugs') is not None:
        return env['plugs'].attach(phase, node)
      return phase
  real_plugs = env.get('plugs')
  env2 = dict(env)
  env2['plugs'] = Overlap()
  nodes = [build_node(n, ctx, env2) for n in case['nodes']]
  # the station setting capture_source (read when the Test is built: the whole tree goes through load_code_info) is on
  # for one case in five
  from openhtf.util import configuration as _cfg
  capsrc = case.get('capsrc', zlib.crc32(json.dumps(case.get('nodes'), sort_keys=True, default=str).encode()) % 5 == 0)
  _had = 'capture_source' in _cfg.CONF._loaded_values
  _old = _cfg.CONF._loaded_values.get('capture_source')
  _cfg.CONF.load(capture_source=bool(capsrc), _override=True)
  try:
    test = htf.Test(*nodes)
  finally:
    if _had:
      _cfg.CONF._loaded_values['capture_source'] = _old
    else:
      _cfg.CONF._loaded_values.pop('capture_source', None)
  holder['test'] = test
  recs, cb_recs, running_none = [], [], []
  test.add_output_callbacks(recs.append)
  for j, raises in enumerate(case.get('callbacks') or []):
    def cb(record, j=j, raises=raises):
      with ctx.lock:
        ctx.events.append('eCB%d' % j)
      cb_recs.append(record)
      st = test.state
      running_none.append(st is not None and st.running_phase_state is None)
      if raises:
        raise RuntimeError('callback failure')
    test.add_output_callbacks(shape_callback(cb, j))
  test.configure(failure_exceptions=[Failure], stop_on_first_failure=bool(case.get('sof')), name='verif_case')
  start = None
  if case.get('start') is not None:
    start = build_phase(case['start'], ctx, htf, env['diag_enum'], diagnoses_lib, env.get('plugs'))
  from openhtf import util as htf_util
  from openhtf.core import test_state as ts_mod
  tick = [1000000]

  def ticking_millis():
    # a clock that moves on between any two readings: 'start <= end' must hold by the ORDER in which the code reads it
    tick[0] += 1
    return tick[0]
  saved_millis = htf_util.time_millis
  if case.get('ticking'):
    htf_util.time_millis = ticking_millis
  conf = configuration.CONF
  saved = dict(conf._loaded_values)
  out_runs = []
  htf_logger = logging.getLogger('openhtf')
  try:
    conf.load(allow_unset_measurements=bool(case.get('allow')), _override=True)
    if case.get('plugs') is not None:
      conf.load(plug_teardown_timeout_s=0.05, _override=True)
    try:
      conf.declare('c09_run_marker', 'changes between the runs of one Test object', default_value='never')
    except Exception:  # pylint: disable=broad-except
      pass      # declared by an earlier case in this process
    for runno, run in enumerate(case['runs']):
      # the station's configuration changes between the runs (and after the Test object was built and configured)
      conf.load(c09_run_marker='run%d' % runno, _override=True)
      ctx.events, ctx.body_calls, ctx.runif_calls, ctx.inst = [], {}, {}, []
      ctx.diag_log = []
      ctx.overlap, ctx.want_overlap = None, bool(run.get('overlap'))
      del recs[:], cb_recs[:], running_none[:]
      h0 = len(htf_logger.handlers)
      box = {}

      def _go():
        try:
          box['ret'] = test.execute(test_start=start) if start is not None else test.execute()
        except BaseException as e:  # pylint: disable=broad-except
          box['exc'] = e
      runner = threading.Thread(target=_go, daemon=True)
      runner.start()
      runner.join(HANG_S)
      if runner.is_alive() or 'exc' in box:
        out_runs.append(['O:HANG' if runner.is_alive() else 'O:RAISED:' + type(box['exc']).__name__])
        break
      rec = recs[0] if recs else None
      toks = canon_record(rec, ctx) if rec is not None else ['O:none']
      toks.append('X:ret:%d' % (1 if box['ret'] else 0))
      if rec is not None:
        toks.append(_facts(rec, all(running_none), 'run%d' % runno))
      toks.append('CBSAME:%d' % (1 if all(r is rec for r in cb_recs) and len(cb_recs) == len(case.get('callbacks') or []) else 0))
      toks.append('H:%d' % (len(htf_logger.handlers) - h0))
      toks.append('S:%d' % (1 if test.state is None else 0))
      toks.append('TI:%d' % (1 if test in test_descriptor.Test.TEST_INSTANCES.values() else 0))
      toks.append('V:%s' % (ctx.overlap or '-'))
      out_runs.append(toks)
  finally:
    conf._loaded_values.clear()
    conf._loaded_values.update(saved)
    htf_util.time_millis = saved_millis
  return out_runs
