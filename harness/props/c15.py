"""C15 — ADB connection lifecycle: real AdbConnection over a scripted fake device vs Lean model `OpenHTF.AdbConn`."""
import itertools
import logging
import struct

from harness import usbstub

PROP = 'C15'
PROOF_MODULE = 'OpenHTF.Proofs.C15'
THEOREMS = [
    'OpenHTF.AdbConn.c15_handshake',
    'OpenHTF.AdbConn.c15_noise_ignored_before_cnxn',
    'OpenHTF.AdbConn.connectE_never_expiring',
    'OpenHTF.AdbConn.c15_deadline_never_connects_without_cnxn',
    'OpenHTF.AdbConn.c15_ids_distinct_nonzero_below_limit',
    'OpenHTF.AdbConn.c15_exactly_one_clse_and_id_released',
    'OpenHTF.AdbConn.c15_illegal_midsession_raises',
    'OpenHTF.AdbConn.c15_open_result',
    'OpenHTF.AdbConn.c15_buffered_data_is_handed_out_first',
    'OpenHTF.AdbConn.c15_read_leaves_the_rest_buffered',
    'OpenHTF.AdbConn.c15_close_keeps_buffer',
]
PENDING = ['drain-then-closed and routing of other streams\' packets are carried by the model (readForStream/readStream) and '
           'the tie; their invariants are part of C14']
RULE = ('H: every device reply sequence of length<=4 (quick) / <=5 (thorough) over {CNXN ok, CNXN bad banner, AUTH token, '
        'AUTH other, noise} with 0-2 keys, without a deadline and with the handshake time-out (fake clock in openhtf.util.timeouts) running out while the e-th message is read; I: id allocation with the limit patched to 8 and to the real value, every '
        '_last_id_used and live subsets incl. exhaustion and wrap-around; S: open/close/read(length)/remote-close histories of '
        'length<=4 over 1-2 streams with device scripts of OKAY/WRTE/CLSE/illegal packets (limit patched to 8); observed: '
        'packets received by the fake device, return values/exceptions')
ASSUMPTIONS = ['single host thread (thread interleavings are C14)', 'a blocked read ends because the scripted device runs out of data (UsbReadFailedError), never by real-time expiry (timeouts are 600 s)']
TRUSTED = ['harness/props/c15.py (fake device)', 'lean/OpenHTF/Driver/C15.lean']
CONST_PREFIXES = ['c15.']
PROCS = 12


class _UsbErr(object):
  value = -7


class Device(object):
  """scripted device: frames to deliver in order; records what the host sends"""

  def __init__(self, frames, clock=None, jump_after=None):
    self.chunks = []
    self.jump_at = None      # number of chunks left when the clock jumps past every deadline
    for i, (hdr, data) in enumerate(frames):
      self.chunks.append(hdr)
      if data:
        self.chunks.append(data)
      if jump_after is not None and i + 1 == jump_after:
        self.jump_at = len(self.chunks)
    self.total = len(self.chunks)
    self.clock = clock
    self.sent = []
    self._pending_hdr = None

  def read(self, length, timeout_ms=None):
    from openhtf.plugs.usb import usb_exceptions as ue
    if not self.chunks:
      raise ue.UsbReadFailedError(_UsbErr(), 'no more data')
    c = self.chunks.pop(0)
    if self.jump_at is not None and self.total - len(self.chunks) == self.jump_at:
      # the last chunk of that message arrives as the handshake time-out runs out
      self.clock.now += 10 ** 7
    return c

  def write(self, data, timeout_ms=None):
    if isinstance(data, bytes):
      self._pending_hdr = struct.unpack('<6I', data)
    else:
      cmd, a0, a1 = self._pending_hdr[0], self._pending_hdr[1], self._pending_hdr[2]
      name = ''.join(chr((cmd >> (8 * i)) & 0xFF) for i in range(4))
      self.sent.append((name, a0, a1, data))

  def close(self):
    pass


def _frame(cmd, a0=0, a1=0, data=''):
  w = sum(ord(c) << (8 * i) for i, c in enumerate(cmd))
  return (struct.pack('<6I', w, a0, a1, len(data), sum(ord(c) for c in data) & 0xFFFFFFFF, w ^ 0xFFFFFFFF), data)


class FakeClock(object):
  """stands in for the `time` module inside openhtf.util.timeouts"""

  def __init__(self):
    self.now = 1000.0

  def time(self):
    return self.now

  def monotonic(self):
    return self.now

  def sleep(self, s):
    self.now += s


class Key(object):

  def __init__(self, k):
    self.k = k

  def sign(self, data):
    return 'S%d:%s' % (self.k, data)

  def get_public_key(self):
    return 'PK%d' % self.k


def _setup():
  usbstub.install()
  from openhtf.plugs.usb import adb_protocol as ap
  from openhtf.plugs.usb import adb_message as am
  logging.getLogger(ap.__name__).disabled = True
  logging.getLogger(am.__name__).disabled = True
  return ap


def _errkind(e, ue):
  if isinstance(e, ue.AdbProtocolError):
    return 'proto'
  if isinstance(e, ue.AdbStreamClosedError):
    return 'closed'
  if isinstance(e, (ue.AdbTimeoutError, ue.UsbReadFailedError)):
    return 'timeout'
  if isinstance(e, ue.AdbStreamUnavailableError):
    return 'unavailable'
  if isinstance(e, ue.DeviceAuthError):
    return 'auth'
  return 'other:' + type(e).__name__


def run_real(case):
  ap = _setup()
  from openhtf.plugs.usb import usb_exceptions as ue
  k = case['kind']
  if k == 'H':
    frames = []
    for r in case['replies']:
      if r[0] == 'C':
        frames.append(_frame('CNXN', 0x01000000, r[1], 'device:SER:banner' if r[2] else 'nobanner'))
      elif r[0] == 'T':
        frames.append(_frame('AUTH', 1, 0, 'tok%d' % r[1]))
      elif r[0] == 'A':
        frames.append(_frame('AUTH', 2, 0, 'x'))
      elif r[1] >= 10:
        # an unrelated packet that would make a plausible CNXN if it were taken for one
        frames.append(_frame('WRTE', 0x01000000, 777, 'device:SER:banner'))
      else:
        frames.append(_frame(['OKAY', 'WRTE', 'CLSE', 'SYNC', 'OPEN'][r[1] % 5], 3, 4, 'n' if r[1] % 2 else ''))
    from openhtf.util import timeouts
    clock = FakeClock()
    dev = Device(frames, clock, case.get('exp'))
    keys = [Key(i) for i in range(case['nkeys'])]
    real_time = timeouts.time
    timeouts.time = clock
    try:
      conn = ap.AdbConnection.connect(dev, rsa_keys=keys, timeout_ms=600000, auth_timeout_ms=600000)
      res = 'R:conn:%d' % conn.maxdata
      if not (conn.systemtype == 'device' and conn.serial == 'SER' and conn.banner == 'banner'):
        res = 'R:conn-bad-fields'
    except Exception as e:  # pylint: disable=broad-except
      res = 'R:' + _errkind(e, ue)
    finally:
      timeouts.time = real_time
    sent = []
    for name, a0, a1, data in dev.sent:
      if name == 'CNXN':
        sent.append('cnxn' if (a0 == ap.ADB_VERSION and a1 == ap.MAX_ADB_DATA) else 'cnxn-bad-args')
      elif name == 'AUTH' and a0 == 2:
        kk, tok = data[1:].split(':', 1)
        sent.append('sig:%s:%s' % (kk, tok[3:]))
      elif name == 'AUTH' and a0 == 3:
        sent.append('pub:%s' % data[2:].rstrip('\0'))
      else:
        sent.append('?%s' % name)
    return sent + [res]
  if k == 'I':
    old = ap.STREAM_ID_LIMIT
    ap.STREAM_ID_LIMIT = case['limit']
    try:
      conn = ap.AdbConnection(None, 4096, 'device:SER:banner')
      conn._last_id_used = case['last']
      for l in case['live']:
        conn._stream_transport_map[l] = object()
      try:
        st = conn._make_stream_transport()
        return [str(st.local_id)]
      except ue.AdbStreamUnavailableError:
        return ['unavailable']
    finally:
      ap.STREAM_ID_LIMIT = old
  if k == 'S':
    old = ap.STREAM_ID_LIMIT
    ap.STREAM_ID_LIMIT = case['limit']
    try:
      frames = []
      for m in case['dev']:
        if m[0] == 'K':
          frames.append(_frame('OKAY', m[1], m[2]))
        elif m[0] == 'W':
          frames.append(_frame('WRTE', m[1], m[2], chr(65 + m[3])))
        elif m[0] == 'Z':
          frames.append(_frame('CLSE', m[1], m[2]))
        else:
          frames.append(_frame('CNXN', 1, 2, 'device:x:y'))
      dev = Device(frames)
      from openhtf.plugs.usb import adb_message as am
      conn = ap.AdbConnection(am.AdbTransportAdapter(dev), 4096, 'device:SER:banner')
      conn._last_id_used = case['last']
      streams = {}
      firsts = {}
      res = []
      for op in case['ops']:
        try:
          if op[0] == 'O':
            s = conn.open_stream('svc:', timeout_ms=600000)
            if s is None:
              res.append('none')
            else:
              firsts.setdefault(s._transport.local_id, s)
              streams[s._transport.local_id] = s
              res.append('s:%d' % s._transport.local_id)
          elif op[0] == 'XS':
            # the handle of the FIRST stream that had this id, after the id went to a later stream
            old_handle = firsts.get(op[1])
            if old_handle is not None and old_handle is not streams.get(op[1]):
              old_handle.close(timeout_ms=600000)
            res.append('ok')
          elif op[0] == 'RS':
            # read() through that stale handle: buffered data, then "closed"; never the packets of the id's new owner
            old_handle = firsts.get(op[1])
            if old_handle is not None and old_handle is not streams.get(op[1]):
              d = old_handle.read(op[2] if len(op) > 2 else 0, timeout_ms=600000)
              res.append('d:' + '.'.join(str(ord(c) - 65) for c in d))
            else:
              res.append('err:closed')
          elif op[0] == 'X':
            if op[1] in streams:
              streams[op[1]].close(timeout_ms=600000)
            res.append('ok')
          elif op[0] == 'R':
            if op[1] in streams:
              d = streams[op[1]].read(op[2] if len(op) > 2 else 0, timeout_ms=600000)
              res.append('d:' + '.'.join(str(ord(c) - 65) for c in d))
            else:
              res.append('err:closed')
        except Exception as e:  # pylint: disable=broad-except
          res.append('err:' + _errkind(e, ue))
      sent = []
      for name, a0, a1, data in dev.sent:
        sent.append('OPEN:%d' % a0 if name == 'OPEN' else '%s:%d:%d' % (name, a0, a1))
      return res + ['|'] + sent
    finally:
      ap.STREAM_ID_LIMIT = old
  raise ValueError(k)


def encode(case, obs):
  k = case['kind']
  if k == 'H':
    def rt(r):
      return {'C': lambda: 'C:%d:%d' % (r[1], 1 if r[2] else 0), 'T': lambda: 'T:%d' % r[1], 'A': lambda: 'A',
              'N': lambda: 'N'}[r[0]]()
    return 'C15 H %d %s %d %s # %s' % (case['nkeys'], case.get('exp') or '-', len(case['replies']),
                                       ' '.join(rt(r) for r in case['replies']), ' '.join(obs))
  if k == 'I':
    return 'C15 I %d %d %d %s # %s' % (case['limit'], case['last'], len(case['live']), ' '.join(map(str, case['live'])), ' '.join(obs))
  ops = ' '.join('O' if o[0] == 'O' else ('R:%d:%d' % (o[1], o[2] if len(o) > 2 else 0) if o[0] == 'R' else '%s:%d' % (o[0], o[1]))
                 for o in case['ops'])
  dev = ' '.join({'K': lambda m: 'K:%d:%d' % (m[1], m[2]), 'W': lambda m: 'W:%d:%d:%d' % (m[1], m[2], m[3]),
                  'Z': lambda m: 'Z:%d:%d' % (m[1], m[2]), 'I': lambda m: 'I'}[m[0]](m) for m in case['dev'])
  line = 'C15 S %d %d %d %s %d %s # %s' % (case['limit'], case['last'], len(case['ops']), ops, len(case['dev']), dev, ' '.join(obs))
  return ' '.join(line.split())


def classify(case, obs):
  if case['kind'] == 'H':
    return 'H/' + obs[-1].split(':')[1] + ('/deadline' if case.get('exp') else '')
  return case['kind']


def nontrivial_key(case, obs):
  return repr(sorted(case.items(), key=str))


def gen_cases(rng, tier):
  cases = []
  alpha = [['C', 4096, True], ['C', 256, False], ['T', 1], ['T', 2], ['A'], ['N', 0], ['N', 1], ['N', 11]]
  maxlen = 4 if tier == 'quick' else 5
  for n in range(0, maxlen + 1):
    for rs in itertools.product(alpha, repeat=n):
      # distinct tokens so that the signed challenge is identifiable
      rs = [list(r) for r in rs]
      t = 0
      for r in rs:
        if r[0] == 'T':
          t += 1
          r[1] = 10 + t
      for nkeys in (0, 1, 2):
        if tier == 'quick' and n == 4 and rng.random() < 0.75:
          continue
        if tier == 'thorough' and n == 5 and rng.random() < 0.9:
          continue
        cases.append({'kind': 'H', 'nkeys': nkeys, 'replies': rs})
        # the handshake time-out runs out while the e-th message is being read
        for e in range(1, n + 1):
          if n >= 3 and rng.random() < 0.5:
            continue
          cases.append({'kind': 'H', 'nkeys': nkeys, 'replies': rs, 'exp': e})
  # id allocation
  for limit in (8, 3, 2):
    for last in range(0, limit + 2):
      ids = list(range(1, limit))
      subsets = [[]] + [list(c) for r in (1, 2, limit - 2, limit - 1) if 0 < r <= len(ids) for c in itertools.combinations(ids, r)]
      for live in subsets:
        cases.append({'kind': 'I', 'limit': limit, 'last': last, 'live': live})
  for last in (0, 1, 65534, 65535, 65536, 70000):
    for live in ([], [1], [65535], [1, 2, 3], list(range(1, 70))):
      cases.append({'kind': 'I', 'limit': 65536, 'last': last, 'live': live})
  for limit in (80, 100):
    # more than 64 consecutive ids in use: the probe budget runs out although free ids exist
    cases.append({'kind': 'I', 'limit': limit, 'last': 0, 'live': list(range(1, 70))})
    cases.append({'kind': 'I', 'limit': limit, 'last': 5, 'live': list(range(6, 70))})
  # two streams: the device closes one of them while the OTHER one is reading (the CLSE is answered by the demultiplexer
  # and parked on the closed stream's queue); its owner then closes / reads / closes it: exactly one CLSE per stream
  for last in (0, 3):
    a = (last % 8) + 1
    b = a + 1 if a + 1 < 8 else 1
    for tail in ([['X', b]], [['X', b], ['X', b]], [['R', b, 0]], [['R', b, 0], ['X', b]], [['X', b], ['R', b, 0]], [['X', a], ['X', b]]):
      for extra in ([], [['W', 20, a, 1]]):
        cases.append({'kind': 'S', 'limit': 8, 'last': last,
                      'ops': [['O'], ['O'], ['R', a, 0]] + tail,
                      'dev': [['K', 20, a], ['K', 30, b], ['Z', 30, b]] + extra + [['W', 20, a, 2]]})
  # id wrap-around: stream 2 is closed by the device while stream 1 reads; a later stream gets id 2; the stale handle of
  # the first stream 2 is then closed by its owner - the live stream 2 must not notice, its id must stay taken
  for tail in ([['XS', 2]], [['XS', 2], ['O']], [['XS', 2], ['R', 2, 0]], [['XS', 2], ['XS', 2], ['O'], ['X', 2]],
               # ... or read through it (fixed 04cae982: it became the connection's reader and took the new stream's WRTE)
               [['RS', 2]], [['RS', 2], ['R', 2, 0]], [['RS', 2], ['RS', 2], ['R', 2, 0], ['X', 2]], [['XS', 2], ['RS', 2], ['R', 2, 0]],
               [['R', 2, 0], ['RS', 2], ['XS', 2]]):
    cases.append({'kind': 'S', 'limit': 4, 'last': 0,
                  'ops': [['O'], ['O'], ['O'], ['R', 1, 0], ['X', 3], ['O'], ['O']] + tail,
                  'dev': [['K', 101, 1], ['K', 102, 2], ['K', 103, 3], ['Z', 102, 2], ['W', 101, 1, 1], ['K', 104, 3], ['K', 105, 2],
                          ['K', 106, 3], ['W', 105, 2, 2]]})
  # stream life cycle
  nS = 500 if tier == 'quick' else 6000
  for i in range(nS):
    r = rng.derive(i)
    last = r.choice([0, 0, 3, 6, 7])
    nxt = (last % 8) + 1
    if nxt >= 8:
      nxt = 1
    nxt2 = nxt + 1 if nxt + 1 < 8 else 1
    ops = [['O']]
    dev = []
    # first open: device answers
    a = r.random()
    if a < 0.6:
      dev.append(['K', 20, nxt])
    elif a < 0.75:
      dev.append(['Z', 0, nxt])
    elif a < 0.85:
      dev.append(['W', 20, nxt, 1])
    elif a < 0.92:
      dev.append(['I'])
    for _ in range(r.randint(0, 3)):
      b = r.random()
      if b < 0.35:
        # read(length): several WRTEs may be needed; what is left over must be handed out by later reads, also after a
        # local close or the device's CLSE (drain, then closed)
        ops.append(['R', nxt, r.choice([0, 0, 1, 2, 3])])
        for _ in range(r.choice([0, 1, 1, 2, 3])):
          dev.append(['W', 20, nxt, r.randrange(5)])
        if r.random() < 0.3:
          dev.append(['Z', 20, nxt])
      elif b < 0.55:
        ops.append(['X', nxt])
      elif b < 0.8:
        ops.append(['O'])
        if r.random() < 0.8:
          dev.append(['K', 30, nxt2])
        if r.random() < 0.4:
          dev.append(['W', 20, nxt, r.randrange(5)])
      else:
        ops.append(['R', nxt2])
        dev.append(r.choice([['W', 30, nxt2, 2], ['W', 20, nxt, 3], ['Z', 30, nxt2], ['K', 20, nxt], ['I']]))
    cases.append({'kind': 'S', 'limit': 8, 'last': last, 'ops': ops, 'dev': dev})
  return cases


def shrink(case):
  if case['kind'] == 'H':
    rs = case['replies']
    for i in range(len(rs)):
      yield dict(case, replies=rs[:i] + rs[i + 1:])
  if case['kind'] == 'S':
    for key in ('ops', 'dev'):
      l = case[key]
      for i in range(len(l)):
        yield dict(case, **{key: l[:i] + l[i + 1:]})


def known_match(entry, case, obs, msg):
  return msg.split(' ')[0] == entry['match']


MANIFEST = {
    'text': 'Proof: Lean theorems for every device reply sequence and key count: connect() yields a connection only '
            'through a CNXN of the script (maxdata from it, well-formed banner), signs only TOKEN challenges the device '
            'sent, uses the keys in order, offers the first public key at most once and only after every key, ignores '
            'noise before CNXN, otherwise ends in an auth/protocol/timeout error; an allocated stream id is unused, '
            'non-zero and below the limit for every limit, _last_id_used and live set (wrap-around, 64-probe budget); '
            'closing releases the id and sends exactly one CLSE, closing again does nothing; an illegal packet is a '
            'protocol error; a stream exists only after OKAY. Tie: real AdbConnection over a scripted fake device: all '
            'reply sequences up to a bound, id allocation with the limit patched, open/close/read/remote-close histories.',
    'note': 'Trusted: Lean kernel + standard axioms; fake device; Lean driver. Single host thread only (interleavings are '
            'C14). Blocked reads end when the scripted device has no more data; real time never decides an outcome. Model follows the tree after fix: commit c2fb3321 (illegal '
            'packet raised TypeError).',
}
