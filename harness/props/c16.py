"""C16 — fastboot: real FastbootCommands over a scripted fake bootloader vs Lean model `OpenHTF.Fastboot`."""
import io
import itertools
import logging
import os
import tempfile

from harness import usbstub

PROP = 'C16'
PROOF_MODULE = 'OpenHTF.Proofs.C16'
THEOREMS = [
    'OpenHTF.Fastboot.c16_accept_eq_spec',
    'OpenHTF.Fastboot.c16_accept_decides',
    'OpenHTF.Fastboot.c16_write_eq_chunks',
    'OpenHTF.Fastboot.c16_chunks_concat',
    'OpenHTF.Fastboot.c16_chunks_le',
    'OpenHTF.Fastboot.c16_progress_prefix_sums',
    'OpenHTF.Fastboot.c16_progress_total',
    'OpenHTF.Fastboot.c16_single_packet_command',
    'OpenHTF.Fastboot.c16_hex8_roundtrip',
    'OpenHTF.Fastboot.c16_download_bytes',
    'OpenHTF.Fastboot.c16_size_mismatch_is_transfer_error',
]
RULE = ('all response scripts of length<=3 (quick) / <=4 (thorough) over {INFO,OKAY,DATA(size),DATA(other),FAIL,garbage,'
        'empty} x the command API (erase/getvar/flash/oem/continue/reboot/reboot-bootloader) and downloads with image '
        'sizes {0,1,c-1,c,c+1,2c-1,2c,2c+1,3c} at chunk size c=1KiB (module constant patched to 1) plus the default '
        'constant, progress callback present/absent/raising, source given as file object / path; then seeded random; '
        'non-trivial = distinct case whose script contains a terminating response')
ASSUMPTIONS = [
    'DATA replies carry 8 hex digits (other DATA texts are exercised: model result badSize = binascii/struct error)',
    'the source holds exactly source_len bytes (a shorter source makes the real loop spin forever; outside the property)',
]
TRUSTED = ['harness/props/c16.py (FakeUsb, canonicalisation)', 'lean/OpenHTF/Driver/C16.lean',
           'modelled not verified: io.StringIO.read, os.stat, binascii.unhexlify, struct.unpack(">I")']
CONST_PREFIXES = ['c16.']


class Exhausted(Exception):
  pass


class Runaway(Exception):
  pass


class FakeUsb(object):

  def __init__(self, script):
    self.script = list(script)
    self.written = []

  def read(self, n, timeout_ms=None):
    if not self.script:
      raise Exhausted()
    return self.script.pop(0)[:n]

  def write(self, data, timeout_ms=None):
    self.written.append(data)
    if len(self.written) > 20000:
      # a transfer that does not end (more packets than any case needs): stop it, the observation says so
      raise Runaway()

  def close(self):
    pass


def _resp_str(r):
  kind, text = r
  return {'I': 'INFO', 'O': 'OKAY', 'D': 'DATA', 'F': 'FAIL'}.get(kind, '') + text if kind != 'X' else text


def _classify_hdr(s):
  h = s[:4]
  return {'INFO': 'I', 'OKAY': 'O', 'DATA': 'D', 'FAIL': 'F'}.get(h, 'X'), s[4:]


def _image(n, seed):
  return ''.join(chr(32 + (i * 7 + seed * 13 + (i >> 8)) % 95) for i in range(n))


def run_real(case):
  usbstub.install()
  from openhtf.plugs.usb import fastboot_protocol as fp
  from openhtf.plugs.usb import usb_exceptions as ue
  logging.getLogger(fp.__name__).disabled = True
  script = [_resp_str(r) for r in case['resps']]
  usb = FakeUsb(script)
  cmds = fp.FastbootCommands(usb)
  cb, prog = [], []

  def info_cb(m):
    cb.append((m.header, m.message))

  def progress_cb(cur, total):
    prog.append((cur, total))
    if case.get('progress') == 'raises':
      raise RuntimeError('progress callback failure')

  old_kb = fp.FASTBOOT_DOWNLOAD_CHUNK_SIZE_KB
  if case.get('kb') is not None:
    fp.FASTBOOT_DOWNLOAD_CHUNK_SIZE_KB = case['kb']
  chunk = fp.FASTBOOT_DOWNLOAD_CHUNK_SIZE_KB * 1024
  tmpname = None
  try:
    try:
      if case['kind'] == 'S':
        api, arg = case['api'], case.get('arg')
        if api == 'erase':
          ret = cmds.erase(arg)
          ret = None   # erase returns nothing
          res = 'erase-done'
        elif api == 'getvar':
          ret = cmds.get_var(arg, info_cb=info_cb)
        elif api == 'flash':
          ret = cmds.flash(arg, info_cb=info_cb)
        elif api == 'oem':
          ret = cmds.oem(arg, info_cb=info_cb)
        elif api == 'continue':
          ret = cmds.continue_()
        elif api == 'reboot':
          ret = cmds.reboot(arg)
        elif api == 'reboot-bootloader':
          ret = cmds.reboot_bootloader()
        else:
          raise ValueError(api)
      else:
        img = _image(case['size'], case.get('seed', 0))
        kw = {'info_cb': info_cb}
        if case.get('progress'):
          kw['progress_callback'] = progress_cb
        if case.get('source') == 'path':
          fd, tmpname = tempfile.mkstemp(prefix='verif-c16-')
          with os.fdopen(fd, 'w', newline='') as f:
            f.write(img)
          # download() opens a path in text mode with the default encoding; the image is ASCII-safe for this variant
          ret = cmds.download(tmpname, **kw)
        elif case.get('source') == 'nolen':
          ret = cmds.download(io.StringIO(img), **kw)
        elif case.get('source') == 'nolenpos':
          # a stream of unknown length whose container header the caller has already skipped: the image is what is
          # left to read
          f = io.StringIO('HEADER-17-BYTES!!' + img)
          f.read(17)
          ret = cmds.download(f, **kw)
        else:
          ret = cmds.download(io.StringIO(img), source_len=len(img), **kw)
      result = 'Rok:' + usbstub.hexs(ret) if isinstance(ret, str) else 'Rok:?'
    except Runaway:
      result = 'Rother:transfer-does-not-end'
      del usb.written[64:]
    except ue.FastbootStateMismatchError:
      result = 'Rmismatch'
    except ue.FastbootRemoteFailureError as e:
      msg = e.args[0] if e.args else ''
      result = 'Rfail:' + usbstub.hexs(msg[len('FAIL: '):]) if isinstance(msg, str) and msg.startswith('FAIL: ') else 'Rfail:?'
    except ue.FastbootInvalidResponseError:
      result = 'Rinvalid'
    except ue.FastbootTransferError:
      result = 'Rtransfer'
    except Exhausted:
      result = 'Rexhausted'
    except (ValueError, TypeError) as e:   # binascii.Error is a ValueError; struct.error
      result = 'Rbadsize' if type(e).__name__ in ('Error', 'error') else 'Rother:' + type(e).__name__
    except Exception as e:  # pylint: disable=broad-except
      result = 'Rbadsize' if type(e).__name__ == 'error' else 'Rother:' + type(e).__name__
  finally:
    fp.FASTBOOT_DOWNLOAD_CHUNK_SIZE_KB = old_kb
    if tmpname:
      os.remove(tmpname)
  obs = {'chunk': chunk, 'packets': [usbstub.hexs(p) for p in usb.written],
         'cb': [(_classify_hdr(h)[0], usbstub.hexs(m)) for h, m in cb], 'result': result,
         'progress': [c for c, t in prog],
         'progress_total_ok': all(t == case.get('size') for c, t in prog)}
  if case['kind'] == 'S' and case['api'] in ('erase', 'continue', 'reboot', 'reboot-bootloader'):
    # these use the default info callback (logging): the callback log is not observable
    obs['cb'] = None
  return obs


API_CMD = {'erase': 'erase', 'getvar': 'getvar', 'flash': 'flash', 'oem': None, 'continue': 'continue',
           'reboot': 'reboot', 'reboot-bootloader': 'reboot-bootloader'}


def _cmd_arg(case):
  api, arg = case['api'], case.get('arg')
  if api == 'oem':
    return 'oem %s' % arg, None
  if api in ('continue', 'reboot-bootloader'):
    return API_CMD[api], None
  return API_CMD[api], arg


def _enc_resps(resps):
  return '%d %s' % (len(resps), ' '.join('%s:%s' % (_classify_hdr(_resp_str(r))[0], usbstub.hexs(_classify_hdr(_resp_str(r))[1][:60]))
                                          for r in resps))


def encode(case, obs):
  real = ['P' + p for p in obs['packets']]
  if case['kind'] == 'S':
    cmd, arg = _cmd_arg(case)
    head = 'C16 S %d %s %s %s' % (obs['chunk'], usbstub.hexs(cmd) or '-', '-' if arg is None else 'a' + usbstub.hexs(arg),
                                  _enc_resps(case['resps']))
    if obs['cb'] is None:
      # not observable through this API: echo what the spec expects would need the model; mark with '?'
      real.append('C?')
    else:
      real += ['C%s:%s' % c for c in obs['cb']]
    res = obs['result']
    real.append(res)
  else:
    img = _image(case['size'], case.get('seed', 0))
    head = 'C16 D %d %s %s' % (obs['chunk'], usbstub.hexs(img) or '-', _enc_resps(case['resps']))
    real += ['C%s:%s' % c for c in obs['cb']]
    real.append(obs['result'])
    if case.get('progress'):
      real += ['G%d' % g for g in obs['progress']]
      if not obs['progress_total_ok']:
        real.append('Gbad-total')
    else:
      real.append('G?')
  return head + ' # ' + ' '.join(real)


def classify(case, obs):
  return '%s/%s/%s' % (case['kind'], case.get('api', case.get('source', 'file')), obs['result'].split(':')[0])


def nontrivial_key(case, obs):
  if obs['result'] != 'Rexhausted':
    return repr(sorted(case.items(), key=str))
  return None


def _resp_alphabet(size):
  return [('I', 'msg one'), ('I', ''), ('O', 'done'), ('O', ''), ('D', '%08x' % size), ('D', '%08x' % (size + 1)),
          ('F', 'no such partition'), ('X', 'WXYZjunk'), ('X', ''), ('X', 'OK')]


# device texts that are not verbatim-safe for careless handling: format characters, white space at the edges
_ODD_TEXTS = ['battery 5% - charge', '%s', '100%%', ' lead', 'trail ', 'line\n', '\ttab\t', ' ', '%(x)s', '%d%d']


def _odd_alphabet():
  return [(k, t) for t in _ODD_TEXTS for k in ('I', 'O', 'F', 'X')]


def gen_cases(rng, tier):
  cases = []
  maxlen = 3 if tier == 'quick' else 4
  apis = [('erase', 'boot'), ('getvar', 'version'), ('flash', 'system'), ('flash', ''), ('oem', 'poweroff'),
          ('continue', None), ('reboot', None), ('reboot', 'recovery'), ('reboot-bootloader', None)]
  alpha = _resp_alphabet(12)
  scripts = [list(s) for n in range(0, maxlen + 1) for s in itertools.product(alpha, repeat=n)]
  # simple commands: every script with a rotating API (each API sees many scripts), chunk = default and 1 KiB
  for i, s in enumerate(scripts):
    api, arg = apis[i % len(apis)]
    cases.append({'kind': 'S', 'api': api, 'arg': arg, 'resps': s, 'kb': [None, 1][(i // len(apis)) % 2]})
  for i, (k, t) in enumerate(_odd_alphabet()):
    api, arg = apis[i % len(apis)]
    for s in ([(k, t)], [('I', t), (k, t), ('O', t)], [(k, t), ('O', 'fin')]):
      cases.append({'kind': 'S', 'api': api, 'arg': arg, 'resps': s, 'kb': None})
    if i % 4 == 0:
      cases.append({'kind': 'D', 'size': 5, 'seed': 1, 'resps': [('I', t), ('D', '%08x' % 5), ('I', t), (k, t), ('O', t)], 'kb': 1,
                    'progress': 'ok', 'source': 'file'})
  # a command longer than the chunk size cannot be built with kb>=1 (1 KiB); long oem commands are tried anyway
  cases.append({'kind': 'S', 'api': 'oem', 'arg': 'x' * 1500, 'resps': [('O', '')], 'kb': 1})
  cases.append({'kind': 'S', 'api': 'getvar', 'arg': 'y' * 1024, 'resps': [('I', 'a'), ('O', 'v')], 'kb': 1})
  c = 1024
  sizes = [0, 1, c - 1, c, c + 1, 2 * c - 1, 2 * c, 2 * c + 1, 3 * c]
  dscripts = lambda size: [list(s) for n in range(0, 4) for s in itertools.product(
      [('I', 'wait'), ('O', 'fin'), ('D', '%08x' % size), ('D', '%08x' % (size + 1)), ('D', '%08X' % size), ('D', 'zz'),
       ('F', 'too large'), ('X', 'junk')], repeat=n)]
  k = 0
  for size in sizes:
    for s in dscripts(size):
      k += 1
      if tier == 'quick' and k % 3 != rng.randrange(3) and not (len(s) == 2 and s[0][0] == 'D' and s[1][0] == 'O'):
        continue
      cases.append({'kind': 'D', 'size': size, 'seed': k % 7, 'resps': s, 'kb': 1,
                    'progress': [None, 'ok', 'raises'][k % 3], 'source': ['file', 'nolenpos', 'nolen', 'path'][k % 4]})
  # default chunk constant (1 MiB): a few large images
  for size in ([5, 70000] if tier == 'quick' else [5, 70000, 1024 * 1024 + 3]):
    cases.append({'kind': 'D', 'size': size, 'seed': 1, 'resps': [('I', 'x'), ('D', '%08x' % size), ('O', '')],
                  'kb': None, 'progress': 'ok', 'source': 'file'})
  for _ in range(300 if tier == 'quick' else 3000):
    size = rng.choice(sizes + [rng.randrange(0, 4000)])
    n = rng.randrange(0, 6)
    s = [rng.choice(_resp_alphabet(size) + [('D', '%08x' % size)] * 4 + [('I', 'p')] * 3 + _odd_alphabet()[::7]) for _ in range(n)]
    if rng.random() < 0.5:
      api, arg = rng.choice(apis)
      cases.append({'kind': 'S', 'api': api, 'arg': arg, 'resps': s, 'kb': rng.choice([None, 1, 2])})
    else:
      cases.append({'kind': 'D', 'size': size, 'seed': rng.randrange(7), 'resps': s, 'kb': rng.choice([1, 1, 2]),
                    'progress': rng.choice([None, 'ok', 'raises']), 'source': rng.choice(['file', 'nolen', 'path', 'nolenpos'])})
  return cases


def shrink(case):
  r = case['resps']
  for i in range(len(r)):
    c = dict(case); c['resps'] = r[:i] + r[i + 1:]
    yield c
  if case['kind'] == 'D' and case['size'] > 0:
    for s in (0, 1, case['size'] // 2, case['size'] - 1):
      c = dict(case); c['size'] = s
      c['resps'] = [(k, ('%08x' % s) if (k == 'D' and t == '%08x' % case['size']) else t) for k, t in r]
      yield c


def known_match(entry, case, obs, msg):
  return msg.split(' ')[0] == entry['match']


MANIFEST = {
    'text': 'Proof: 11 Lean theorems for every response script, command string, image and chunk size>0: the coded '
            'response loop equals the declarative state machine (INFO* then one final: OKAY payload / FAIL text / '
            'state mismatch / invalid), the coded write loop yields the consecutive chunks whose concatenation is the '
            'image with every chunk <= chunk size, progress = prefix sums ending at the image size, commands that fit '
            'are a single packet, %08x round-trips, and no image byte is sent unless DATA announced exactly the size. '
            'Tie: real FastbootCommands over a scripted fake bootloader on exhaustive short scripts x image sizes '
            'around chunk multiples, compared packet-for-packet with the model; the Lean spec is evaluated on the real '
            'observations.',
    'note': 'Trusted: Lean kernel + standard axioms; FakeUsb and canonicalisation in harness/props/c16.py; Lean driver. '
            'Modelled not verified: StringIO.read/os.stat/binascii/struct. Outside the quantifier: source shorter than '
            'source_len (real loop does not terminate), empty command string.',
}
