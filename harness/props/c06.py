"""C06 — measurement outcome = all validators on the recorded (transformed) value.
Real Measurement / Collection / PhaseState objects inside a real TestState vs Lean model `OpenHTF.Meas`."""
import copy
import itertools
import logging
import math

PROP = 'C06'
PROOF_MODULE = 'OpenHTF.Proofs.C06'
THEOREMS = [
    'OpenHTF.Meas.c06_outcome_iff_all_validators',
    'OpenHTF.Meas.c06_scalar_assignment',
    'OpenHTF.Meas.c06_scalar_invariant',
    'OpenHTF.Meas.c06_rejected_ops_change_nothing',
    'OpenHTF.Meas.c06_dim_order_is_first_assignment',
    'OpenHTF.Meas.c06_never_partially_set_after_phase',
    'OpenHTF.Meas.c06_dim_outcome',
    'OpenHTF.Meas.c06_dim_outcome_iff_all_validators',
]
RULE = ('2 scalar + 1 dimensioned measurement; assignment histories (set / override / per-coordinate set and override / '
        'undeclared name / dimensioned without coordinates / wrong arity / interleaved) exhaustive to length 3 (quick) / 4 '
        '(thorough) + random to length 12; values {1,5,9,50,None,NaN,"s",2.5}; validators from {in_range with marginal '
        'band, equals, custom raising, custom accepting, conditional on a diagnosis result present / absent at phase '
        'start / present only in an EARLIER run of the same Test / added mid-phase}; several marginal-aware validators in '
        'both orders; transforms {none, with_precision, lambda x: x*2}; the harness evaluates transform and '
        'each validator on each pool value with the REAL objects and sends the verdict tables; the model supplies the '
        'bookkeeping; non-trivial = distinct history with at least one successful assignment')
ASSUMPTIONS = ['validators are deterministic functions of the value (their verdict table is measured once per case)',
               'dimensioned validators are row-wise (dimension-pivot style)']
TRUSTED = ['harness/props/c06.py (pool construction, verdict tables)', 'lean/OpenHTF/Driver/C06.lean']
CONST_PREFIXES = ['c06.']
PROCS = 12

NAN = float('nan')
BASE = [1, 5, 9, 50, None, NAN, 's', 2.5]


def _key(v):
  if isinstance(v, float) and math.isnan(v):
    return ('nan',)
  return (type(v).__name__, repr(v))


class Raising(object):

  def __call__(self, value):
    raise RuntimeError('validator failure')

  def __str__(self):
    return 'raising'


class RaiseOn(object):
  """accepts everything except one value, on which it raises"""

  def __init__(self, bad):
    self.bad = bad

  def __call__(self, value):
    if _key(value) == _key(self.bad):
      raise RuntimeError('validator failure')
    return True


def _double(x):
  return x * 2


def _mk_validator(spec):
  from openhtf.util import validators
  k = spec[0]
  if k == 'range':
    return validators.in_range(spec[1], spec[2], marginal_minimum=spec[3], marginal_maximum=spec[4])
  if k == 'equals':
    return validators.equals(spec[1])
  if k == 'raising':
    return Raising()
  if k == 'raise_on':
    return RaiseOn(spec[1])
  if k == 'accept':
    return lambda v: True
  if k == 'pivot_range':
    return validators.in_range(spec[1], spec[2], marginal_maximum=spec[3])
  raise ValueError(spec)


def _mk_transform(name):
  if name == 'double':
    return _double
  return None


def _build(case):
  import openhtf as htf
  from openhtf.util import validators as _v
  ms = []
  for i, d in enumerate(case['decls']):
    m = htf.Measurement('m%d' % i)
    if d.get('arity'):
      m = m.with_dimensions(*['d%d' % j for j in range(d['arity'])])
    if d.get('transform') == 'precision':
      m = m.with_precision(0)
    elif d.get('transform'):
      m = m.with_transform(_mk_transform(d['transform']))
    wrap = (lambda x: _v.dimension_pivot_validate(x)) if d.get('arity') else (lambda x: x)
    for v in d.get('validators', []):
      m = m.with_validator(wrap(_mk_validator(v)))
    if d.get('conds') and i != 0 and len({r for r, _ in d['conds']}) == len(d['conds']):
      # one validate_on() call per entry: a later call adds to what the earlier ones declared
      for r, v in d['conds']:
        m = m.validate_on({('R%d' % r): wrap(_mk_validator(v))})
    elif d.get('conds'):
      m = m.validate_on({('R%d' % r): wrap(_mk_validator(v)) for r, v in d['conds']})
    ms.append(m)
  return ms


def _apply_transform(d, v):
  """real transform on a pool value -> value or raises"""
  import functools
  if d.get('transform') == 'precision':
    return functools.partial(round, ndigits=0)(v)
  if d.get('transform') == 'double':
    return _double(v)
  return v


def _verdict(validator, value):
  try:
    ok = validator(value)
  except Exception:  # pylint: disable=broad-except
    return 'x'
  if not ok:
    return 'r'
  try:
    if hasattr(validator, 'is_marginal') and validator.is_marginal(value):
      return 'm'
  except Exception:  # pylint: disable=broad-except
    return 'a'
  return 'a'


def _pool_and_tables(case):
  """pool = base values plus every transform image; per declaration: transform table and verdict tables"""
  pool = list(BASE)
  index = {_key(v): i for i, v in enumerate(pool)}

  def idx(v):
    k = _key(v)
    if k not in index:
      index[k] = len(pool)
      pool.append(v)
    return index[k]
  trs = []
  for d in case['decls']:
    row = []
    for v in list(BASE):
      try:
        row.append(idx(_apply_transform(d, v)))
      except Exception:  # pylint: disable=broad-except
        row.append(None)
    trs.append(row)
  # transforms are only ever applied to base values (assigned values come from BASE)
  tables = []
  for d, tr in zip(case['decls'], trs):
    tr = tr + [None] * (len(pool) - len(tr))
    # a dimension pivot validator applies the sub-validator row by row and has no notion of marginal
    fix = (lambda ch: 'a' if ch == 'm' else ch) if d.get('arity') else (lambda ch: ch)
    vals = [''.join(fix(_verdict(_mk_validator(v), x)) for x in pool) for v in d.get('validators', [])]
    conds = [(r, ''.join(fix(_verdict(_mk_validator(v), x)) for x in pool)) for r, v in d.get('conds', [])]
    tables.append((tr, vals, conds))
  return pool, tables


def _obs(meas_objs, pool_index):
  out = []
  for m in meas_objs:
    mv = m.measured_value
    if m.dimensions:
      stored = '-'
      entries = ';'.join('%s=%s' % ('.'.join(str(c) for c in (k if isinstance(k, tuple) else ('?%r' % (k,),))), pool_index(v))
                         for k, v in mv.value_dict.items()) or '-'
    else:
      stored = str(pool_index(mv.stored_value)) if mv.is_value_set else '-'
      entries = '-'
    out.append('%s,%s,%s,%d' % (stored, entries, m.outcome.name, 1 if m.marginal else 0))
  return out


def _issue(state, enum, diagnoses_lib, r, desc):
  """a diagnosis result issued the way the framework issues it: a phase diagnoser run by the DiagnosesManager after an
  (earlier) phase; odd result ids are issued as INTERNAL diagnoses, which count for conditional validators like any other"""
  import openhtf as htf
  from openhtf.core import phase_executor, phase_descriptor

  def diag(phase_record):
    return diagnoses_lib.Diagnosis(enum['R%d' % r], desc, is_internal=bool(r % 2))
  diag.__name__ = 'issuer_diag_%d' % r
  diagnoser = diagnoses_lib.PhaseDiagnoser(enum, name='issuer_diag_%d' % r)(diag)

  def issuer(test):
    pass
  issuer.__name__ = 'issuer_%d' % r
  ph = htf.diagnose(diagnoser)(issuer)
  c = state.running_phase_context(ph)
  ps = c.__enter__()
  ps.result = phase_executor.PhaseExecutionOutcome(phase_descriptor.PhaseResult.CONTINUE)
  c.__exit__(None, None, None)


ENDS = ['CONTINUE', 'REPEAT', 'SKIP', 'FAIL_AND_CONTINUE', 'FAIL_SUBTEST', 'STOP', 'TIMEOUT']


def _end_of(case):
  """the phase result the phase ends with: the end-of-phase rule of C06 holds for every one of them"""
  if case.get('end'):
    return case['end']
  h = len(case['ops']) + sum(op[1] for op in case['ops'] if len(op) > 1 and isinstance(op[1], int)) + \
      sum(op[-1] for op in case['ops'] if isinstance(op[-1], int))
  return ENDS[h % len(ENDS)]


class _RecLogger(object):
  def __init__(self):
    self.raised = False

  def exception(self, *a, **k):
    self.raised = True

  def __getattr__(self, name):
    return lambda *a, **k: None


def _end_phase(case, ps, ctxm):
  from openhtf.core import phase_executor, phase_descriptor
  end = _end_of(case)
  ps.result = phase_executor.PhaseExecutionOutcome(None if end == 'TIMEOUT' else phase_descriptor.PhaseResult[end])
  lg = _RecLogger()
  ps.logger = lg          # a validator raising under an already terminal result is only logged
  ctxm.__exit__(None, None, None)
  return 'raised' if (ps.result.raised_exception or lg.raised) else 'ok'


def run_real(case):
  import openhtf as htf
  from openhtf.core import measurements, test_state, diagnoses_lib
  from openhtf.util import configuration
  logging.disable(logging.CRITICAL)
  pool, tables = _pool_and_tables(case)
  index = {_key(v): i for i, v in enumerate(pool)}

  def pidx(v):
    return index.get(_key(v), 99)
  decl_ms = _build(case)

  @htf.measures(*decl_ms)
  def phase(test):
    pass
  t = htf.Test(phase)
  enum = diagnoses_lib.DiagResultEnum('R', {('R%d' % i): ('R%d' % i) for i in range(4)})
  # conditional validators are keyed by the enum members
  for m in phase.measurements:
    m.conditional_validators[:] = [measurements._ConditionalValidator(enum[cv.result], cv.validator)
                                   for cv in m.conditional_validators]
  if case.get('prior') is not None:
    # an earlier run of the same Test in which other diagnosis results were present at phase start: what that run
    # switched on must not be switched on in this one
    st0 = test_state.TestState(t.descriptor, 'verif-c06-prior', t._test_options)
    try:
      for r in case['prior']:
        _issue(st0, enum, diagnoses_lib, r, 'present in the earlier run')
      c0 = st0.running_phase_context(phase)
      p0 = c0.__enter__()
      from openhtf.core import phase_executor, phase_descriptor
      p0.result = phase_executor.PhaseExecutionOutcome(phase_descriptor.PhaseResult.CONTINUE)
      c0.__exit__(None, None, None)
    finally:
      st0.close()
  state = test_state.TestState(t.descriptor, 'verif-c06', t._test_options)
  try:
    for r in case.get('store', []):
      _issue(state, enum, diagnoses_lib, r, 'present at phase start')
    trace = []
    ctxm = state.running_phase_context(phase)
    ps = ctxm.__enter__()
    api = state.test_api
    objs = list(ps.measurements.values())
    ended = False
    for op in case['ops']:
      res = 'ok'
      try:
        if op[0] == 'S':
          api.measurements['m%d' % op[1]] = BASE[op[2]]
        elif op[0] == 'D':
          coords = tuple(op[2]) if len(op[2]) != 1 else op[2][0]
          if op[1] < len(objs) and not objs[op[1]].dimensions:
            # indexing a scalar measurement: m[coords] = v on whatever the attribute returns
            target = api.measurements['m%d' % op[1]]
            target[coords] = BASE[op[3]]
          else:
            api.measurements['m%d' % op[1]][coords] = BASE[op[3]]
        elif op[0] == 'U':
          api.measurements['nope'] = 1
        elif op[0] == 'G':
          # writing into the copy handed out by get_measurement() (this phase's own dimensioned measurement): the
          # measurement itself, its outcome included, is not touched
          _ = api.measurements['m%d' % op[1]]
          cp = api.get_measurement('m%d' % op[1])
          if cp is not None and hasattr(cp.value, 'value_dict'):
            cp.value[0 if (objs[op[1]].dimensions and len(objs[op[1]].dimensions) == 1) else
                     tuple(range(len(objs[op[1]].dimensions or ())))] = BASE[op[2]]
        elif op[0] == 'H':
          # a LATER phase takes get_measurement() of this (finished) phase's dimensioned measurement and writes into the
          # copy: the finished phase's record keeps what that phase assigned
          if ended:
            later = htf.PhaseOptions(name='later_phase')(lambda test: None)
            c2 = state.running_phase_context(later)
            p2 = c2.__enter__()
            try:
              cp = state.test_api.get_measurement('m%d' % op[1])
              if cp is not None and hasattr(cp.value, 'value_dict'):
                nd = len(objs[op[1]].dimensions or ())
                for coords in list(cp.value.value_dict.keys())[:1] + [tuple(range(7, 7 + nd))]:
                  cp.value[coords if nd != 1 or not isinstance(coords, tuple) else coords[0]] = BASE[op[2]]
            finally:
              from openhtf.core import phase_executor as _pe, phase_descriptor as _pd
              p2.result = _pe.PhaseExecutionOutcome(_pd.PhaseResult.CONTINUE)
              c2.__exit__(None, None, None)
        elif op[0] == 'A':
          state.diagnoses_manager.store._add_diagnosis(diagnoses_lib.Diagnosis(enum['R%d' % op[1]], 'added mid-phase'))
        elif op[0] == 'E':
          ended = True
          res = _end_phase(case, ps, ctxm)
      except measurements.NotAMeasurementError:
        res = 'nam'
      except measurements.InvalidDimensionsError:
        res = 'dim'
      except measurements.MeasurementNotSetError:
        res = 'dim'       # indexing an unset scalar measurement
      except TypeError:
        res = 'dim' if op[0] == 'D' else 'raised'
      except Exception:  # pylint: disable=broad-except
        res = 'raised'
      trace.append('/'.join([res] + _obs(objs, pidx)))
    if not ended:
      _end_phase(case, ps, ctxm)
  finally:
    state.close()
  return {'trace': trace}


def encode(case, obs):
  pool, tables = _pool_and_tables(case)
  k = len(pool)
  decls = []
  for d, (tr, vals, conds) in zip(case['decls'], tables):
    decls.append('%s %s %d %s %d %s' % (
        d.get('arity') or '-', ' '.join('x' if t is None else str(t) for t in tr), len(vals), ' '.join(vals), len(conds),
        ' '.join('%d %s' % (r, row) for r, row in conds)))
  ops = []
  for op in case['ops']:
    if op[0] == 'S':
      ops.append('S %d %d' % (op[1], op[2]))
    elif op[0] == 'D':
      ops.append('D %d %d %s %d' % (op[1], len(op[2]), ' '.join(map(str, op[2])), op[3]))
    elif op[0] == 'A':
      ops.append('A %d' % op[1])
    elif op[0] in ('G', 'H'):
      ops.append('G')
    else:
      ops.append(op[0])
  store = case.get('store', [])
  line = 'C06 %d %d %s %d %s %d %s # %s' % (k, len(store), ' '.join(map(str, store)), len(decls), ' '.join(decls), len(ops),
                                          ' '.join(ops), ' '.join(obs['trace']))
  return ' '.join(line.split())


def classify(case, obs):
  return '%s/len%d' % (case.get('src', '?'), len(case['ops']))


def nontrivial_key(case, obs):
  if any(',PASS,' in t or ',FAIL,' in t or 'PARTIALLY' in t for t in obs['trace']):
    return repr(sorted(case.items(), key=str))
  return None


DECLSETS = [
    # scalar in_range with marginal band, scalar with transform + equals, dimensioned pivot range
    [{'validators': [['range', 0, 10, None, 8]]}, {'transform': 'double', 'validators': [['equals', 10]]},
     {'arity': 1, 'validators': [['pivot_range', 0, 10, 8]]}],
    [{'validators': [['range', 2, 10, 5, None], ['accept']]}, {'transform': 'precision', 'validators': [['range', 0, 9, None, None]]},
     {'arity': 2, 'validators': []}],
    [{'validators': [['raise_on', 9], ['range', 0, 10, None, 8]]}, {'validators': []},
     {'arity': 1, 'transform': 'double', 'validators': [['raise_on', 18], ['pivot_range', 0, 20, 15]]}],
    [{'validators': [['range', 0, 10, None, None]], 'conds': [[0, ['range', 0, 4, None, None]], [1, ['raising']]]},
     {'validators': [['raising']]}, {'arity': 1, 'validators': [['pivot_range', 0, 10, None]], 'conds': [[2, ['equals', 5]]]}],
    # several marginal-aware validators on one measurement: marginal iff SOME validator says so, whatever their order
    [{'validators': [['range', 0, 10, None, 8], ['range', 0, 20, None, 15]]},
     {'validators': [['range', 0, 20, None, 15], ['range', 0, 10, None, 8]], 'conds': [[0, ['range', 0, 60, None, 30]]]},
     {'arity': 1, 'validators': [['pivot_range', 0, 10, 8]]}],
    # several conditional validators per measurement, declared by one validate_on() call each
    [{'validators': [['range', 0, 10, None, None]], 'conds': [[2, ['range', 0, 3, None, None]], [0, ['range', 2, 10, None, None]]]},
     {'validators': [['range', 0, 10, None, None]], 'conds': [[0, ['range', 0, 2, None, None]], [1, ['range', 3, 10, None, None]]]},
     {'arity': 1, 'validators': [['pivot_range', 0, 10, None]], 'conds': [[1, ['equals', 3]], [2, ['equals', 1]]]}],
]

# two dimensioned measurements, the earlier-declared one with a validator that raises at phase end on some values
TWO_DIMS = [{'validators': [['range', 0, 10, None, None]]},
            {'arity': 1, 'validators': [['raise_on', 9], ['pivot_range', 0, 10, None]]},
            {'arity': 1, 'validators': [['pivot_range', 0, 4, None]]}]


def _ops_alphabet():
  ops = []
  for i in (0, 1):
    for v in (0, 1, 2, 3, 4, 5, 6, 7):
      ops.append(['S', i, v])
  for c, v in itertools.product([[0], [1], [0, 1]], (0, 1, 2, 3)):
    ops.append(['D', 2, c, v])
  ops += [['U'], ['S', 2, 1], ['D', 0, [0], 1], ['D', 2, [], 1], ['S', 5, 1], ['A', 0], ['A', 2], ['G', 2, 1], ['G', 2, 3]]
  return ops


def gen_cases(rng, tier):
  cases = []
  alpha = _ops_alphabet()
  small = [['S', 0, 2], ['S', 0, 1], ['S', 0, 3], ['S', 0, 5], ['S', 1, 1], ['S', 1, 4], ['D', 2, [0], 1], ['D', 2, [1], 2],
           ['D', 2, [0], 3], ['D', 2, [0, 1], 1], ['U'], ['S', 2, 1], ['A', 0], ['G', 2, 1]]
  maxlen = 3 if tier == 'quick' else 4
  for di, decls in enumerate(DECLSETS):
    for store in ([], [0], [1, 2]):
      for n in range(1, maxlen + 1):
        for ops in itertools.product(small, repeat=n):
          if tier == 'quick' and n == 3 and rng.random() < 0.8:
            continue
          if tier == 'thorough' and n == 4 and rng.random() < 0.93:
            continue
          cases.append({'decls': decls, 'store': store, 'ops': [list(o) for o in ops] + [['E']], 'src': 'exhaustive'})
  two = [['D', 1, [0], 0], ['D', 1, [0], 2], ['D', 1, [1], 2], ['D', 2, [0], 0], ['D', 2, [0], 1], ['D', 2, [1], 3], ['S', 0, 2]]
  for n in (2, 3):
    for ops in itertools.product(two, repeat=n):
      if n == 3 and rng.random() < (0.7 if tier == 'quick' else 0.0):
        continue
      cases.append({'decls': TWO_DIMS, 'store': [], 'ops': [list(o) for o in ops] + [['E']], 'src': 'two-dimensioned'})
  # a later phase writes into its get_measurement() copy of a finished phase's dimensioned measurement
  for decls in DECLSETS[:3] + [TWO_DIMS]:
    for pre in ([['D', 2, [0], 1]], [['D', 2, [0], 1], ['D', 2, [1], 2]], []):
      pre = [p for p in pre if decls[2].get('arity') == 1]
      for v in (1, 3):
        cases.append({'decls': decls, 'store': [], 'ops': [list(p) for p in pre] + [['E'], ['H', 2, v]], 'src': 'later-copy-write'})
  for i in range(2500 if tier == 'quick' else 30000):
    r = rng.derive(i)
    decls = r.choice(DECLSETS)
    ops = [list(r.choice(alpha)) for _ in range(r.randint(1, 12))]
    if r.random() < 0.85:
      ops.append(['E'])
    c = {'decls': decls, 'store': r.choice([[], [0], [1], [2], [0, 1, 2]]), 'ops': ops, 'src': 'random'}
    if r.random() < 0.35:
      c['prior'] = r.choice([[0], [1], [2], [0, 1, 2], [0, 2]])
      c['src'] = 'random/after-an-earlier-run'
    cases.append(c)
  return cases


def shrink(case):
  ops = case['ops']
  for i in range(len(ops)):
    yield dict(case, ops=ops[:i] + ops[i + 1:])


def known_match(entry, case, obs, msg):
  return msg.split(' ')[0] == entry['match']


MANIFEST = {
    'text': 'Proof: Lean theorems parametric in transform, validator set and values, for every assignment history: a '
            'successful scalar assignment records the transform of the assigned value and sets outcome/marginal to the '
            "validators' verdict on THAT value (PASS iff all accept, marginal iff PASS and some validator marginal); the "
            'invariant "UNSET iff never assigned, else outcome = verdict on the recorded value" holds after every '
            'history; rejected operations (undeclared name, missing/wrong coordinates, raising transform) change nothing; '
            'dimensioned values keep first-assignment order with the last value per coordinate; no measurement is '
            'PARTIALLY_SET after the phase; a raising validator gives FAIL and surfaces. Tie: real Measurement/Collection/'
            'PhaseState objects in a real TestState, every op observed; transform and validator verdict tables are '
            'measured with the real validator objects.',
    'note': 'Trusted: Lean kernel + standard axioms; harness (pool and verdict tables); Lean driver. Modelled not '
            'verified: the validators themselves (C07), deepcopy of measurements at phase start. Model follows the tree '
            'after the fix: commit for the sticky marginal flag (known_findings.json).',
}
