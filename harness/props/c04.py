"""C04 — operator abort: run ends ABORTED, nothing new starts, no deadlock (also carries the abort clause of C03).

Tie: real htf.Test(...).execute() under the cooperative scheduler with one or two aborts delivered by another
thread (Test.abort_from_sig_int) or by the SIGINT handler run on the main thread (Test.handle_sig_int) at every
scheduling step of the run. The event log (body start/end, abort call/return, plug ctor/tearDown, callbacks) is
judged by the Lean spec; the synchronisation actions (abort / full-abort / stopping flags, teardown lock, current
phase thread and its lock) are replayed by the Lean interleaving model (Model/Abort.lean)."""
import signal
import threading

from harness import common
from harness import exec_common as ec
from harness import sched

PROP = 'C04'
PROOF_MODULE = 'OpenHTF.Proofs.C04'
THEOREMS = [
    'OpenHTF.Abort.c04_no_start_after_abort_returned',
    'OpenHTF.Abort.c03_single_abort_never_cancels_teardown',
    'OpenHTF.Abort.c03_teardown_runs_with_clear_stop_flag',
    'OpenHTF.Abort.c04_no_teardown_start_after_second_abort_returned',
    'OpenHTF.Abort.c04_aborted_wins',
    'OpenHTF.Abort.c04_no_two_bodies_at_once',
    'OpenHTF.Abort.c04_nothing_starts_after_finalization',
    'OpenHTF.Abort.c04_lock_holder_can_always_move',
    'OpenHTF.Abort.c04_start_needs_clear_stop_flag',
    'OpenHTF.Abort.inv_step',
]
RULE = ('programs: straight line, repeats, group (setup/main/teardown), nested groups, subtest, test_start, plugs; bodies '
        'of three interruptible steps under virtual time; ONE abort at every scheduling step of the run (thread mode: '
        'the aborting thread gets priority from step K on; SIGINT mode: Test.handle_sig_int runs on the main thread at '
        'step K), TWO aborts at sampled pairs of steps, random schedules beyond')
ASSUMPTIONS = ['phase bodies execute Python bytecode, i.e. an asynchronous ThreadTerminationError reaches them at their next '
               'scheduling point (a body stuck in C is "abandoned" after cancel_timeout_s, as the code concedes)',
               'signal delivery is modelled as running the handler on the main thread at a scheduling point of execute()',
               'a run counts as running from the executor thread\'s start to its finalization decision']
TRUSTED = ['harness/sched.py', 'harness/sched_exec.py', 'harness/props/c04.py (event abstraction)',
           'lean/OpenHTF/Driver/C04.lean']
CONST_PREFIXES = ['c04.']
PROCS = 14


def P(i, steps=3, sleep=0.02, **kw):
  return dict({'t': 'P', 'id': i, 'opts': {}, 'beh': [{'raw': 'cont', 'sleep': sleep, 'steps': steps}]}, **kw)


def G(s, m, td):
  return {'t': 'G', 's': s, 'm': m, 'td': td}


PROGRAMS = {
    'line': {'nodes': [P(1), P(2), P(3)]},
    'group': {'nodes': [P(1), G([P(2)], [P(3), P(4)], [P(5), P(6)]), P(7)]},
    'nested': {'nodes': [G([P(1)], [G([P(2)], [P(3)], [P(4)]), P(5)], [G([], [P(6)], [P(7)]), P(8)]), P(9)]},
    'repeat': {'nodes': [dict(P(1), opts={'limit': 3}, beh=[{'raw': 'rep', 'sleep': 0.02, 'steps': 2}] * 2 +
                              [{'raw': 'cont', 'sleep': 0.02, 'steps': 2}]), G([], [P(2)], [P(3)])]},
    'subtest': {'nodes': [{'t': 'U', 'name': 5, 'ns': [P(1), G([P(2)], [P(3)], [P(4)])]}, P(5)]},
    'start': {'nodes': [P(2), G([], [P(3)], [P(4)])], 'start': P(1)},
    'plugs': {'nodes': [dict(P(1), plugs=[['a', 0]]), G([dict(P(2), plugs=[['b', 1]])], [P(3)], [dict(P(4), plugs=[['a', 0]])])],
              'plugs': {'0': {}, '1': {}}},
    # a main body stuck in C code for good (the termination request is swallowed), no patience with it (cancel_timeout_s = 0)
    'stuck': {'nodes': [G([P(1)], [dict(P(2), timeout_s=0.4, beh=[{'raw': 'cont', 'sleep': 1000000.0, 'unkillable': True}])], [P(3)]), P(4)],
              'conf': {'cancel_timeout_s': 0}},
    # phases with phase diagnosers: an invocation cut short by the abort is not diagnosed
    'diag': {'nodes': [dict(P(1), beh=[{'raw': 'cont', 'sleep': 0.02, 'steps': 3, 'diags': [[[1, False]]]}]),
                       G([], [dict(P(2), beh=[{'raw': 'cont', 'sleep': 0.02, 'steps': 3, 'diags': [[[2, False]], [[3, False]]]}])],
                         [P(3)])]},
    'tdrepeat': {'nodes': [G([], [P(1)], [dict(P(2), opts={'limit': 2}, beh=[{'raw': 'rep', 'sleep': 0.02, 'steps': 2},
                                                                                  {'raw': 'cont', 'sleep': 0.02, 'steps': 2}]), P(3)])]},
}


def _kinds(nodes, ctx='m', out=None):
  """phase id -> 's' | 'm' | 't' (teardown context is inherited by everything nested in it)"""
  out = {} if out is None else out
  for n in nodes:
    t = n['t']
    if t == 'P':
      out[n['id']] = ctx
    elif t == 'G':
      _kinds(n['s'], 't' if ctx == 't' else 's', out)
      _kinds(n['m'], 't' if ctx == 't' else 'm', out)
      _kinds(n['td'], 't', out)
    else:
      _kinds(n.get('ns') or [], ctx, out)
  return out


def _groups(nodes, out=None):
  out = [] if out is None else out
  for n in nodes:
    if n['t'] == 'G':
      out.append(n)
      for part in ('s', 'm', 'td'):
        _groups(n[part], out)
    elif n['t'] != 'P':
      _groups(n.get('ns') or [], out)
  return out


def _phase_ids(nodes):
  ids = []
  for n in nodes:
    if n['t'] == 'P':
      ids.append(n['id'])
    elif n['t'] == 'G':
      ids += _phase_ids(n['s']) + _phase_ids(n['m']) + _phase_ids(n['td'])
    else:
      ids += _phase_ids(n.get('ns') or [])
  return ids


def _chooser(case):
  ks = case.get('ks') or []
  rng = common.Rng('c04/%s' % case['rseed']) if case.get('rseed') is not None else None
  mode = case.get('mode', 'thread')
  state = {'fired': 0}

  def choose(s, runnable, cur):
    if mode == 'sigint':
      # deliver the k-th SIGINT at its step: the handler runs on the main thread
      base = getattr(s, 'base_step', 0)
      while base is not None and state['fired'] < len(ks) and s.step - base >= ks[state['fired']]:
        main = s.threads[0]
        if main.pending_call is None and not main.finished:
          from openhtf.core import test_descriptor
          n = state['fired']

          def handler(n=n):
            if not test_descriptor.Test.TEST_INSTANCES:
              # no test is registered (before / after the run): not an abort of a running test - unless the run's
              # executor thread is already (still) going: then the operator's SIGINT is lost on a running test
              if any(t.name.startswith('TestExecutor') and t.started and not t.finished for t in s.threads):
                s.events.append(('main', 'h', None, 'X:sigint-not-routed-to-the-running-test'))
              return
            s.events.append(('main', 'abort-call', None, n + 1))
            try:
              test_descriptor.Test.handle_sig_int(signal.SIGINT, None)
            finally:
              s.events.append(('main', 'abort-ret', None, n + 1))
          s.interrupt(main, handler)
          state['fired'] += 1
        else:
          break
      if s.threads[0].pending_call is not None and s.threads[0] in runnable:
        return s.threads[0]
    ab = [t for t in runnable if t.name.startswith('ab')]
    if ab:
      return sorted(ab, key=lambda t: t.tid)[0]
    if rng is not None and rng.random() < case.get('switch', 0.3):
      return runnable[rng.randrange(len(runnable))]
    return cur if cur in runnable else sorted(runnable, key=lambda t: t.tid)[0]
  return choose


_TRACED = {}


def _install_tracing():
  """from outside: remember the TestExecutor of the run; make `_current_phase_thread` a traced attribute"""
  from openhtf.core import phase_executor, test_executor
  if 'pe' in _TRACED:
    return
  base = phase_executor.PhaseExecutor

  class TracedPhaseExecutor(base):

    @property
    def _current_phase_thread(self):
      return self.__dict__.get('_cpt')

    @_current_phase_thread.setter
    def _current_phase_thread(self, v):
      self.__dict__['_cpt'] = v
      s = sched.SCHED
      if s is not None and s.me() is not None:
        s.log('cur-set', self, v is not None)
  TracedPhaseExecutor.__name__ = 'PhaseExecutor'
  _TRACED['pe'] = TracedPhaseExecutor
  _TRACED['executors'] = []
  orig_init = test_executor.TestExecutor.__init__

  def init(self, *a, **k):
    orig_init(self, *a, **k)
    _TRACED['executors'].append(self)
  test_executor.TestExecutor.__init__ = init
  orig_wait = test_executor.TestExecutor.wait

  def wait(self):
    sc = sched.SCHED
    if sc is not None and sc.me() is not None:
      sc.log('wait-enter', self)
    return orig_wait(self)
  test_executor.TestExecutor.wait = wait
  from openhtf.core import test_descriptor
  orig_abort = test_descriptor.Test.abort_from_sig_int

  def abort_from_sig_int(self):
    sc = sched.SCHED
    managed = sc is not None and sc.me() is not None
    if managed:
      sc.log('abort-enter', self)
    try:
      r = orig_abort(self)
    except BaseException:
      if managed:
        sc.log('abort-exit', self, True)
      raise
    if managed:
      sc.log('abort-exit', self, False)
    return r
  test_descriptor.Test.abort_from_sig_int = abort_from_sig_int
  phase_executor.PhaseExecutor = TracedPhaseExecutor


def _sync_tokens(events, ex, aborters):
  """event log -> actions of Model/Abort.lean (by role of the object acted on)"""
  from openhtf.core import phase_executor
  if ex is None:
    return []
  pe = ex._phase_exec
  stopping = getattr(pe, '_stopping', None)
  curlock = getattr(pe, '_current_phase_thread_lock', None)
  tdlock = ex._teardown_phases_lock
  exname = None
  for (th, op, obj, extra) in events:
    if op == 'start' and obj is ex:
      pass
  toks = []
  seen_exec = False
  hold = False
  started = False
  cur_thread = None
  published_cur = False
  in_abort = {}
  ex_thread_name = getattr(getattr(ex, '_cosched_ts', None), 'name', None)
  for pos, (th, op, obj, extra) in enumerate(events):
    if op == 'wait-enter':
      toks.append((pos, 'W'))
      continue
    if op == 'abort-enter':
      # the call proper begins once Test._lock is held: at its first own action; handlers may nest
      in_abort.setdefault(th, []).append('pending')
      continue
    if op == 'abort-exit':
      st = in_abort.get(th) or ['pending']
      if st.pop() is True:
        toks.append((pos, 'aKI' if extra else 'aFin'))
      continue
    if th == ex_thread_name:
      if op == 'acq' and obj is ex._lock and not seen_exec:
        seen_exec = True
        toks.append((pos, 'eExec'))
      elif op == 'is_set' and obj is ex._abort:
        toks.append((pos, 'eAb'))
      elif op == 'is_set' and stopping is not None and obj is stopping:
        toks.append((pos, 'eS3' if hold else 'eS2'))
      elif op == 'acq' and curlock is not None and obj is curlock:
        hold, started = True, False
        toks.append((pos, 'eCA'))
      elif op == 'rel' and curlock is not None and obj is curlock:
        hold = False
        toks.append((pos, 'eCR' if started else 'eRf'))
      elif op == 'start' and isinstance(obj, phase_executor.PhaseExecutorThread):
        started = True
        cur_thread = obj
        toks.append((pos, 'eSt'))
      elif op == 'cur-set' and extra is False:
        if cur_thread is not None and published_cur:
          toks.append((pos, 'eCl'))
          published_cur = False
      elif op == 'cur-set' and extra is True:
        published_cur = True
      elif op == 'set' and cur_thread is not None and obj is cur_thread._killed:
        toks.append((pos, 'eKT'))
      elif op in ('acq', 'reacq') and obj is tdlock:
        toks.append((pos, 'eTA'))
      elif op in ('rel', 'rerel') and obj is tdlock:
        toks.append((pos, 'eTR'))
      elif op == 'is_set' and obj is ex._full_abort:
        toks.append((pos, 'eFa'))
      elif op == 'clear' and stopping is not None and obj is stopping:
        toks.append((pos, 'eRs'))
      continue
    if op == 'finish' and cur_thread is not None and obj is cur_thread:
      toks.append((pos, 'pDie'))
      continue
    if in_abort.get(th):
      if op == 'is_set' and obj is ex._abort:
        if in_abort[th][-1] == 'pending':
          toks.append((pos, 'aNest' if any(x is True for x in in_abort[th][:-1]) else 'aBegin'))
          in_abort[th][-1] = True
        toks.append((pos, 'aRA'))
      elif op == 'set' and obj is ex._abort:
        toks.append((pos, 'aSA'))
      elif op == 'set' and obj is ex._full_abort:
        toks.append((pos, 'aSF'))
      elif op == 'acq' and obj is ex._lock:
        toks.append((pos, 'aRE'))
      elif op in ('acq', 'tryacq-failed') and obj is tdlock:
        toks.append((pos, 'aTT'))
      elif op == 'set' and stopping is not None and obj is stopping:
        toks.append((pos, 'aSS'))
      elif op == 'acq' and curlock is not None and obj is curlock:
        toks.append((pos, 'aCA'))
      elif op == 'rel' and curlock is not None and obj is curlock:
        toks.append((pos, 'aCR'))
      elif op == 'set' and isinstance(getattr(obj, 'role', None), type(None)) and cur_thread is not None and \
          obj is getattr(cur_thread, '_killed', None):
        toks.append((pos, 'aK'))
  # the last abort check of the executor is the finalisation decision
  for i in range(len(toks) - 1, -1, -1):
    if toks[i][1] == 'eAb':
      toks[i] = (toks[i][0], 'eFi')
      break
  return toks


def run_real(case):
  from harness import sched_exec
  from openhtf.core import test_descriptor, phase_executor
  sched_exec.install(False)
  _install_tracing()
  del _TRACED['executors'][:]
  test_descriptor.Test.HANDLED_SIGINT_ONCE = False
  prog = dict(PROGRAMS[case['prog']] if isinstance(case['prog'], str) else case['prog'])
  prog.setdefault('callbacks', [False])
  ks = case.get('ks') or []
  mode = case.get('mode', 'thread')

  def mk_aborter(n, k):
    def aborter(env):
      s = env['sched']
      test = env['test']
      s.block(lambda: (s.step - (getattr(s, 'base_step', 0) or 0) >= k and getattr(test, '_executor', None) is not None) or
              ('execute-returned',) in env['log'], None, 'abort-trigger')
      if ('execute-returned',) in env['log']:
        return
      s.log('abort-call', None, n)
      test.abort_from_sig_int()
      s.log('abort-ret', None, n)
      marks.setdefault('abort_returned_at', s.now)
    return aborter

  aux = [('ab%d' % (i + 1), mk_aborter(i + 1, k)) for i, k in enumerate(ks)] if mode == 'thread' else []
  marks = {}

  def prepare(env):
    env['ctx'].record_ends = True
    ctx = env['ctx']
    # interleave the harness events (bodies, plugs, callbacks) into the scheduler's event log

    class L(list):
      def append(self, x):
        list.append(self, x)
        s = sched.SCHED
        if s is not None and s is env.get('sched') and isinstance(x, str) and x.startswith('eb'):
          marks.setdefault('body_started_at', {}).setdefault(x, s.now)
        # (only this run's scheduler: a body abandoned by an earlier case of this worker process may still be running)
        if s is not None and s is env.get('sched'):
          s.events.append((s.me().name if s.me() else '?', 'h', None, x))
    ctx.events = L()
  out = sched_exec.run_case(prog, choose=_chooser(case), aux=aux, prepare=prepare, max_steps=40000,
                            pre_runs=1 if case.get('rerun') else 0, conf=prog.get('conf'))
  s = out['sched']
  if case.get('rerun'):
    # only the run under test is judged
    cut = max([i for i, e in enumerate(s.events) if e[1] == 'run-under-test-starts'] or [-1])
    s.events = s.events[cut + 1:]
  kinds = _kinds(prog['nodes'])
  if prog.get('start') is not None:
    kinds[prog['start']['id']] = 'x'
  toks = []
  lost_sigint = []
  diag_on_killed = []
  ex = None
  nac = nar = 0
  for pos, (th, op, obj, extra) in enumerate(s.events):
    if op == 'h':
      e = extra
      if e.startswith('X:'):
        lost_sigint.append(e)
      elif e.startswith('eb'):
        pid = int(e[2:].split('.')[0])
        toks.append((pos, 'bs:%d:%s' % (pid, kinds.get(pid, 'm'))))
      elif e.startswith('ee'):
        pid = int(e[2:].split('.')[0])
        toks.append((pos, 'be:%d:%s' % (pid, e.split(':')[1])))
      elif e.startswith('ed'):
        # a phase diagnoser ran for invocation k of phase pid: not if that invocation's body was killed by the abort
        pid, k = e[2:].split('.')[0], e[2:].split('.')[1]
        if ('ee%s.%s:killed' % (pid, k)) in [x[3] for x in s.events if x[1] == 'h']:
          diag_on_killed.append(pid)
      elif e.startswith('eP+'):
        toks.append((pos, 'pc:' + e[3:]))
      elif e.startswith('eP-'):
        toks.append((pos, 'pt:' + e[3:]))
      elif e.startswith('eCB'):
        toks.append((pos, 'cb:' + e[3:]))
    elif op == 'abort-call':
      nac += 1
      toks.append((pos, 'ac:%d' % nac))
    elif op == 'abort-ret':
      nar += 1
      toks.append((pos, 'ar:%d' % nar))      # numbered in order of completion (signal handlers may nest)
  rec = out['record']
  outcome = rec.outcome.name if rec is not None and rec.outcome is not None else 'NONE'
  ret = 'KI' if isinstance(out['exc'], KeyboardInterrupt) else ('EXC:' + type(out['exc']).__name__ if out['exc'] is not None
                                                                 else ('1' if out['ret'] else '0'))
  status = 'deadlock' if out['deadlock'] else ('hang' if out['stuck'] else 'returned')
  # which teardown phases must run: groups whose setup completed (every setup body started and ended normally)
  need = []
  started = {}
  ended_ok = set()
  for _, t in toks:
    if t.startswith('bs:'):
      started[int(t.split(':')[1])] = True
    if t.startswith('be:') and t.endswith(':ok'):
      ended_ok.add(int(t.split(':')[1]))
  two = len(ks) >= 2
  for g in _groups(prog['nodes']):
    sids = _phase_ids(g['s'])
    mids = _phase_ids(g['m'])
    entered = all(i in ended_ok for i in sids) and (bool(sids) or any(i in started for i in mids) or
                                                    any(i in started for i in _phase_ids(g['td'])))
    if entered:
      need += ['need:%d' % i for i in _phase_ids(g['td'])]
    elif sids and not all(i in ended_ok for i in sids):
      # the setup did not complete (a setup phase never ran, raised or was killed): the group is not entered
      need += ['noneed:%d' % i for i in _phase_ids(g['td'])]
  rec_facts = []
  if rec is not None:
    for p in rec.phases:
      if p.outcome is None or p.result is None:
        rec_facts.append('X:phase-record-without-outcome-or-result:' + p.name)
      if p.end_time_millis is None or p.start_time_millis is None:
        rec_facts.append('X:phase-record-without-times:' + p.name)
    if rec.end_time_millis is None or rec.outcome is None:
      rec_facts.append('X:record-not-final')
  elif status == 'returned':
    rec_facts.append('X:no-record-handed-to-callbacks')
  rec_facts += sorted(set(lost_sigint))
  if prog.get('conf', {}).get('cancel_timeout_s') == 0 and len(ks) == 1 and marks.get('abort_returned_at') is not None:
    # no patience with a body that cannot be killed: the teardown of the entered group starts right after the abort,
    # not when the stuck phase's own time-out would have run out
    later = [t for e, t in (marks.get('body_started_at') or {}).items() if t > marks['abort_returned_at']]
    if later and min(later) - marks['abort_returned_at'] > 0.15:
      rec_facts.append('X:executor-kept-waiting-for-a-body-that-cannot-be-killed')
  for e in out['log']:
    if e and e[0] == 'aux-exc':
      # abort() reports nothing to the operator's thread; an exception out of it (e.g. from kill()) is a failure
      rec_facts.append('X:abort-call-raised:' + str(e[1]))
  ex = (_TRACED['executors'][-1] if case.get('rerun') else _TRACED['executors'][0]) if _TRACED['executors'] else None
  sync = _sync_tokens(s.events, ex, None)
  toks = [t for _, t in sorted(toks + sync, key=lambda x: x[0])]
  # a phase diagnoser ran for an invocation whose body the abort killed: fine if the executor had stopped waiting for that
  # thread before the kill surfaced (the invocation then counts as timed out, eKT), not if it saw the thread end killed
  names = list(toks)
  for pid in sorted(set(diag_on_killed)):
    try:
      i0, i1 = names.index([t for t in names if t.startswith('bs:%s:' % pid)][0]), names.index('be:%s:killed' % pid)
    except (ValueError, IndexError):
      continue
    if 'eKT' not in names[i0:i1]:
      rec_facts.append('X:phase-diagnoser-ran-on-an-invocation-the-abort-cut-short:' + pid)
  return {'toks': toks, 'outcome': outcome, 'ret': ret, 'status': status, 'need': need, 'facts': rec_facts,
          'steps': s.step, 'crashes': out['crashes']}


def encode(case, o):
  cbn = 1 + 0   # one recording callback registered by build_test (recs.append) is not logged; harness callbacks none
  return 'C04 %s %d # %s %s O:%s R:%s S:%s %s %s | %s' % (
      case.get('mode', 'thread'), len(case.get('ks') or []), ' '.join(o['toks']), ' '.join(o['need']), o['outcome'],
      o['ret'], o['status'], ' '.join(o['facts']), ' '.join('X:executor-crash:' + c for c in o['crashes']),
      '')


def classify(case, o):
  return '%s/%s/%d%s' % (case['prog'] if isinstance(case['prog'], str) else 'gen', case.get('mode', 'thread'), len(case.get('ks') or []),
                         '/second-run' if case.get('rerun') else '')


def nontrivial_key(case, o):
  return '%s %s %s' % (case['prog'] if isinstance(case['prog'], str) else 'gen', ' '.join(o['toks']), o['outcome'])


_LEN = {}


def _length(prog, mode):
  key = (prog, mode)
  if key not in _LEN:
    o = run_real({'prog': prog, 'ks': [], 'mode': mode})
    _LEN[key] = o['steps']
  return _LEN[key]


def gen_cases(rng, tier):
  quick = tier == 'quick'
  cases = []
  for name in PROGRAMS:
    for mode in ('thread', 'sigint'):
      n = _length(name, mode)
      stride = 1 if not quick else (2 if name in ('group', 'start', 'repeat') else 5)
      for k in range(0, n + 3, stride):
        cases.append({'prog': name, 'ks': [k], 'mode': mode})
      # two aborts
      for i in range(25 if quick else 400):
        r = rng.derive('2/%s/%s/%d' % (name, mode, i))
        k1 = r.randrange(0, n)
        k2 = k1 + r.choice([0, 1, 2, 3, 5, 8, 13, 30, 60, 100])
        cases.append({'prog': name, 'ks': [k1, k2], 'mode': mode})
  # every step of the end of the run with plugs: aborts that land during plug tearDown / finalisation
  for mode in ('thread', 'sigint'):
    n = _length('plugs', mode)
    for k in range(max(0, n - 150), n + 3):
      cases.append({'prog': 'plugs', 'ks': [k], 'mode': mode})
  # the same Test object executed once undisturbed, then again with the SIGINT (what a station loop does)
  for name in ('line', 'group', 'nested', 'subtest', 'plugs'):
    n = _length(name, 'sigint')
    for k in range(0, n + 3, 9 if quick else 2):
      cases.append({'prog': name, 'ks': [k], 'mode': 'sigint', 'rerun': True})
  for i in range(150 if quick else 3000):
    r = rng.derive('r%d' % i)
    name = r.choice(sorted(PROGRAMS))
    n = _length(name, 'thread')
    cases.append({'prog': name, 'ks': sorted(r.randrange(0, n) for _ in range(r.choice([1, 1, 2]))), 'mode': 'thread',
                  'rseed': r.getrandbits(32), 'switch': r.choice([0.1, 0.3])})
  return cases


def shrink(case):
  if len(case.get('ks') or []) > 1:
    yield dict(case, ks=case['ks'][:1])


def known_match(entry, case, obs, msg):
  # every reported item must be the listed finding (or a model note): a different violation is still reported
  items = [i for i in msg.split(',') if i and not i.startswith('model-') and not i.startswith('model:')]
  return bool(items) and all(i.startswith(entry['match']) for i in items)


MANIFEST = {
    'text': 'Proof: Lean theorems over an interleaving model of abort() (first and forced path, successive calls, nested '
            'SIGINT handlers) against the executor thread\'s accesses to the abort / full-abort / stop flags, the teardown '
            'lock and the current-phase-thread lock, for EVERY interleaving: once an abort call has returned no '
            'test_start/setup/main phase is started; once a forced abort has returned no teardown phase is started '
            'either; without a forced abort no teardown phase start is ever refused and teardown runs with a clear stop '
            'flag (the abort clause of C03); never two bodies at once; nothing starts after finalisation; ABORTED wins if '
            'the flag was set at the finalisation decision; the holder of the teardown lock can always move (no '
            'deadlock in the model). The invariant is inductive over 31 actions (inv_step). Tie: real '
            'Test.execute() under the cooperative scheduler with one abort at every scheduling step (thread and SIGINT '
            'mode), two aborts at sampled steps, random schedules; the model replays the observed synchronisation '
            'actions and the Lean spec judges the event log (bodies, plugs, callbacks, outcome, record completeness).',
    'note': 'Trusted: Lean kernel + standard axioms; harness/sched.py; event abstraction by role; Lean driver. The executor '
            'enters the model as a constrained environment (program order of the sequence/phase loops as guards of its '
            'actions); conformance of the real executor to those guards is checked on every trace. PARTIAL with respect to '
            'the runtime: delivery point of asynchronous exceptions and of signals; a SIGINT landing inside the '
            'three-bytecode critical sections of the non-reentrant _current_phase_thread_lock / TestExecutor._lock of an '
            'interrupted abort() is not modelled. Known findings: SIGINT before execute() entered its wait, and SIGINT '
            'during the output stage, make KeyboardInterrupt escape without finalisation / output callbacks. Model '
            'follows the tree after fix: commits e9a1d97b (stop request kept until teardown) and 1b0e51c3 (re-entrant '
            'Test._lock).',
}
