"""C19 — log capture: every run log recorded once, in order, in its own run only; MAC redaction; handler pairing.

Tie: (H/seq) the real logs module (initialize_record_handler / remove_record_handler / get_record_logger_for /
HtfTestLogger.getChild / RecordHandler) driven through histories of start / log / finish over several uids
(also uids that are prefixes of one another) and logger names from a grammar; (H/run) consecutive real
Test.execute() runs whose phases log through test.logger, a plug logger, get_record_logger_for(uid) and framework
loggers; (H/conc) two tests executing concurrently under the cooperative scheduler; (R) MacAddressLogFilter on
message / argument shapes. The Lean model (Model/Logs.lean) predicts every record; the Lean spec judges them."""
import logging
import re
import os
import threading

from harness import common
from harness import exec_common as ec
from harness import sched
from harness.usbstub import hexs

PROP = 'C19'
PROOF_MODULE = 'OpenHTF.Proofs.C19'
THEOREMS = [
    'OpenHTF.Logs.c19_accepts_own_loggers',
    'OpenHTF.Logs.c19_rejects_other_runs_loggers',
    'OpenHTF.Logs.c19_framework_messages_kept',
    'OpenHTF.Logs.c19_exactly_once',
    'OpenHTF.Logs.c19_emission_order',
    'OpenHTF.Logs.c19_finished_record_immutable',
    'OpenHTF.Logs.c19_no_handler_after_finish',
    'OpenHTF.Logs.c19_handlers_do_not_accumulate',
    'OpenHTF.Logs.c19_mac_matched',
    'OpenHTF.Logs.c19_redact_keeps_prefix_drops_rest',
    'OpenHTF.HandlerList.c19_registered_handler_stays_registered',
    'OpenHTF.HandlerList.unlocked_registration_can_lose_the_handler',
]
RULE = ('H/seq: histories (length <= 10) of start / log / finish over uids {u1, u10, u1x, t2} with logger names from a '
        'grammar (record logger, phase / plug / deeper children, framework names, look-alike prefixes); H/run: 1-3 '
        'consecutive Test.execute() runs logging through every kind of logger, with logging after the run; H/conc: two '
        'tests executing concurrently under random schedules; R: messages with MACs from format string / str, non-str and '
        'mapping arguments / split between both, upper case, 5 and 7 octets, dashes, several per message')
ASSUMPTIONS = ['uids contain no dot (they are pid:hex:hex:millis)', 'time.time() is monotone during a run',
               'the logging module delivers a record to every handler present on the openhtf logger when callHandlers '
               'iterates; its unsynchronised iteration over the handler list is exercised by the concurrent runs']
TRUSTED = ['harness/props/c19.py', 'harness/sched.py (concurrent runs)', 'lean/OpenHTF/Driver/C19.lean']
CONST_PREFIXES = ['c19.']
PROCS = 12

FW = 'openhtf.verif.framework'


def _hx(s):
  return hexs(s) or '-'


def _ids(rec):
  out = []
  for l in rec.log_records:
    m = l.message
    if m.startswith('m#'):
      out.append(int(m[2:].split(' ')[0]))
  return out


def _setup_logging():
  from openhtf.util import logs
  ec.setup()
  logging.disable(logging.NOTSET)
  logs.configure_logging()
  return logs


def _logger_for(logs, kind, uid):
  """kind -> (logger, name it will carry)"""
  if kind == 'rec':
    return logs.get_record_logger_for(uid)
  if kind == 'phase':
    return logs.get_record_logger_for(uid).getChild('phase.p1')
  if kind == 'plug':
    return logs.get_record_logger_for(uid).getChild('plug').getChild('MyPlug')
  if kind == 'deep':
    return logs.get_record_logger_for(uid).getChild('a').getChild('b').getChild('c')
  if kind == 'fw':
    return logging.getLogger(FW)
  if kind == 'fw2':
    return logging.getLogger('openhtf.core.verif')
  if kind == 'lookalike':
    return logging.getLogger('openhtf.test_recordx.' + uid)
  if kind == 'bare':
    return logging.getLogger('openhtf.test_record')
  raise ValueError(kind)


def _run_seq(case):
  logs = _setup_logging()
  from openhtf.core import test_record
  base = len(logging.getLogger('openhtf').handlers)
  recs = {}
  ops = []
  facts = []
  live = []
  for op in case['ops']:
    if op[0] == 's':
      uid = op[1]
      recs[uid] = test_record.TestRecord(dut_id=None, station_id='s', code_info=None, start_time_millis=0, metadata={},
                                         diagnosers=[])
      logs.initialize_record_handler(uid, recs[uid], lambda: None)
      live.append(uid)
      ops.append('s:' + _hx(uid))
    elif op[0] == 'f':
      logs.remove_record_handler(op[1])
      if op[1] in live:
        live.remove(op[1])
      ops.append('f:' + _hx(op[1]))
    else:
      _, kind, uid, mid = op
      lg = _logger_for(logs, kind, uid)
      lg.info('m#%d payload', mid)
      ops.append('l:%s:%d' % (_hx(lg.name), mid))
    n = len([h for h in logging.getLogger('openhtf').handlers if isinstance(h, logs.RecordHandler)])
    if n != len(live):
      facts.append('X:handler-count-%d-for-%d-live-runs' % (n, len(live)))
  for uid in list(live):
    logs.remove_record_handler(uid)
  logging.disable(logging.CRITICAL)
  if len(logging.getLogger('openhtf').handlers) != base:
    facts.append('X:handlers-left-behind')
  return {'ops': ops, 'obs': [(uid, _ids(r)) for uid, r in sorted(recs.items())], 'facts': sorted(set(facts))}


def _emit(lg, mid, text):
  """one message through one of the logging call forms (the level is part of the text: 'L<level>')"""
  import warnings
  form = mid % 7
  if form == 0:
    lg.info('m#%d ' + text + ' L20', mid)
  elif form == 1:
    with warnings.catch_warnings():
      warnings.simplefilter('ignore')
      lg.warn('m#%d ' + text + ' L30', mid)      # deprecated alias of warning()
  elif form == 2:
    lg.log(25, 'm#%d ' + text + ' L25', mid)
  elif form == 3:
    lg.error('m#%d ' + text + ' L40', mid)
  elif form == 4:
    lg.warning('m#%d ' + text + ' L30', mid)
  elif form == 5:
    lg.critical('m#%d ' + text + ' L50', mid)
  else:
    try:
      raise ValueError('x')
    except ValueError:
      lg.exception('m#%d ' + text + ' L40', mid)


def _mk_test(tag, n, mids, helper_uid, plug=True):
  """a real test whose phase logs through every kind of logger; mids: iterator of message ids"""
  import openhtf as htf
  from openhtf.core import base_plugs
  from openhtf.util import logs
  events = []

  class MyPlug(base_plugs.BasePlug):

    def hello(self, mid):
      self.logger.info('m#%d from plug', mid)

  def phase(test, p):
    uid = helper_uid['uid']()
    for _ in range(n):
      for kind in ('own', 'plug', 'helper', 'fw', 'other'):
        mid = next(mids)
        if kind == 'own':
          events.append((mid, 'own', test.logger.name))
          _emit(test.logger, mid, 'own')
        elif kind == 'plug':
          events.append((mid, 'own', None))
          p.hello(mid)
        elif kind == 'helper':
          lg = logs.get_record_logger_for(uid)
          events.append((mid, 'own', lg.name))
          lg.warning('m#%d helper', mid)
        elif kind == 'fw':
          events.append((mid, 'fw', FW))
          _emit(logging.getLogger(FW), mid, 'framework')
        else:
          lg = logs.get_record_logger_for(uid + '0').getChild('phase.x')
          events.append((mid, 'other', lg.name))
          lg.info('m#%d other run', mid)
  phase.__name__ = 'ph_' + tag
  phase = htf.plug(p=MyPlug)(phase)
  test = htf.Test(phase)
  recs = []
  test.add_output_callbacks(recs.append)
  test.configure(name='t' + tag)
  helper_uid['uid'] = lambda: test.uid
  return test, recs, events


def _check_fields(rec, facts, bounds=True):
  this = os.path.basename(__file__)
  for l in rec.log_records:
    if not l.message.startswith('m#'):
      continue
    if l.source != this or not isinstance(l.lineno, int) or l.lineno <= 0:
      facts.append('X:source-or-line-wrong:%s:%s' % (l.source, l.lineno))
    if bounds and not (rec.start_time_millis - 2 <= l.timestamp_millis <= rec.end_time_millis + 2):
      facts.append('X:timestamp-outside-the-run')
    want = logging.WARNING if ' helper' in l.message else logging.INFO
    lv = re.search(r' L(\d+)$', l.message.split('\n')[0])
    if lv:
      want = int(lv.group(1))
    if l.level != want:
      facts.append('X:level-wrong')
    if ' own' in l.message and '.phase.' not in l.logger_name:
      facts.append('X:logger-name-wrong:' + l.logger_name)
    if ' from plug' in l.message and '.plug.' not in l.logger_name:
      facts.append('X:logger-name-wrong:' + l.logger_name)


def _run_runs(case):
  logs = _setup_logging()
  import itertools
  mids = itertools.count(1)
  base = len(logging.getLogger('openhtf').handlers)
  ops, obs, facts = [], [], []
  for k in range(case['runs']):
    holder = {}
    test, recs, events = _mk_test('r%d' % k, case['n'], mids, holder)
    if case.get('cbexit') and k % 2 == 0:
      # the output stage is left by something that is not an Exception (sys.exit() in a callback, Ctrl-C): the run has
      # ended all the same, its handler must be gone
      def leaving(record):
        raise SystemExit(4)
      test.add_output_callbacks(leaving)
      try:
        test.execute()
        facts.append('X:execute-swallowed-SystemExit-of-a-callback')
      except SystemExit:
        pass
    else:
      test.execute()
    rec = recs[0]
    uid = [l.logger_name for l in rec.log_records if l.logger_name.startswith('openhtf.test_record.')][0].split('.')[2]
    ops.append('s:' + _hx(uid))
    plugname = [l.logger_name for l in rec.log_records if ' from plug' in l.message]
    for (mid, kind, name) in events:
      if name is None:
        name = plugname[0] if plugname else 'openhtf.test_record.%s.plug.MyPlug' % uid
      ops.append('l:%s:%d' % (_hx(name), mid))
    ops.append('f:' + _hx(uid))
    before = list(rec.log_records)
    # logging after the run neither alters the finished record nor finds a handler
    late = next(mids)
    logs.get_record_logger_for(uid).info('m#%d late', late)
    logging.getLogger(FW).info('m#%d late framework', next(mids))
    ops.append('l:%s:%d' % (_hx('openhtf.test_record.' + uid), late))
    if list(rec.log_records) != before:
      facts.append('X:finished-record-altered-by-later-logging')
    if len(logging.getLogger('openhtf').handlers) != base:
      facts.append('X:handlers-accumulate:%d' % (len(logging.getLogger('openhtf').handlers) - base))
    _check_fields(rec, facts)
    obs.append((uid, _ids(rec)))
  logging.disable(logging.CRITICAL)
  return {'ops': ops, 'obs': obs, 'facts': sorted(set(facts))}


def _run_conc(case):
  from harness import sched_exec
  import itertools
  sched_exec.install(True)
  logs = _setup_logging()
  saved_time = logging.time
  saved_factory = logging.getLogRecordFactory()
  created = {}

  class _Ticking(object):
    # the virtual clock of the test record, moving on by 1 ms at every reading: no two log records are created at the
    # same instant, so an entry stamped with another message's time shows
    def __init__(self):
      self.vt, self.n = sched.VTime(), 0

    def time(self):
      self.n += 1
      return self.vt.time() + self.n * 0.001

    def __getattr__(self, name):
      return getattr(self.vt, name)
  logging.time = _Ticking()

  def factory(*a, **k):
    r = saved_factory(*a, **k)
    try:
      msg = r.getMessage()
    except Exception:  # pylint: disable=broad-except
      msg = ''
    if msg.startswith('m#'):
      created[msg] = r.created
    return r
  logging.setLogRecordFactory(factory)
  mids = itertools.count(1)
  base = len(logging.getLogger('openhtf').handlers)
  box = {}
  log_events = []        # (position in the scheduler's event log, op) in the order the effects happened
  orig_init, orig_rem = logs.initialize_record_handler, logs.remove_record_handler

  def body(s):
    def init(uid, rec, notify):
      orig_init(uid, rec, notify)
      log_events.append('s:' + _hx(uid))

    def rem(uid):
      log_events.append('f:' + _hx(uid))
      orig_rem(uid)
    logs.initialize_record_handler, logs.remove_record_handler = init, rem
    tests = []
    for k in range(2):
      holder = {}
      # 'short': the second test logs nothing and ends while the first one is still dispatching records
      nk = 0 if (k == 1 and case.get('short')) else case['n']
      tests.append(_mk_test('c%d' % k, nk, mids, holder) + (holder,))
    out = {}

    def runner(k):
      out[k] = tests[k][0].execute()
    ths = [threading.Thread(target=runner, args=(k,)) for k in range(2)]
    for t in ths:
      t.start()
    for t in ths:
      t.join()
    return tests
  try:
    rbox, s = sched.run(sched.chooser_for(case, 'c19'), body,
                        max_steps=200000)
  finally:
    logs.initialize_record_handler, logs.remove_record_handler = orig_init, orig_rem
    logging.disable(logging.CRITICAL)
    logging.time = saved_time
    logging.setLogRecordFactory(saved_factory)
  facts = []
  if s.deadlock or 'sched_error' in rbox:
    return {'ops': [], 'obs': [], 'facts': ['X:deadlock-or-stuck']}
  tests = rbox['ret']
  obs = []
  uids = []
  for (test, recs, events, holder) in tests:
    rec = recs[0]
    names = [l.logger_name for l in rec.log_records if l.logger_name.startswith('openhtf.test_record.')]
    uid = names[0].split('.')[2] if names else '?%d' % len(uids)
    uids.append(uid)
    _check_fields(rec, facts, bounds=False)
    for l in rec.log_records:
      if l.message in created and l.timestamp_millis != int(created[l.message] * 1000):
        facts.append('X:entry-stamped-with-a-time-other-than-its-own-creation')
    obs.append((uid, _ids(rec)))
  # spec for the concurrent runs, judged here on the real records: own messages exactly once and in order,
  # framework messages of the OTHER run's phase at most once, nothing of the other run's record loggers
  for i, (test, recs, events, holder) in enumerate(tests):
    got = obs[i][1]
    own = [mid for (mid, kind, name) in events if kind in ('own', 'fw')]
    if [m for m in got if m in own] != own:
      facts.append('X:own-messages-not-exactly-once-in-order')
    other_events = tests[1 - i][2]
    foreign = [mid for (mid, kind, name) in other_events if kind == 'own'] + [mid for (mid, kind, name) in events if kind == 'other'] + \
        [mid for (mid, kind, name) in other_events if kind == 'other']
    if any(m in foreign for m in got):
      facts.append('X:message-of-another-run-recorded')
    fw_other = [mid for (mid, kind, name) in other_events if kind == 'fw']
    if any(got.count(m) > 1 for m in fw_other):
      facts.append('X:framework-message-recorded-twice')
  if len(logging.getLogger('openhtf').handlers) != base:
    facts.append('X:handlers-left-behind:%d' % (len(logging.getLogger('openhtf').handlers) - base))
  return {'ops': [], 'obs': [], 'facts': sorted(set(facts)), 'conc': obs}


def _hrace_body(case, res):
  """API-level race: thread a (a live run) dispatches framework messages while thread b starts and ends another run"""
  from harness import sched_exec
  sched_exec.install(True)
  logs = _setup_logging()
  from openhtf.core import test_record

  def mkrec():
    return test_record.TestRecord(dut_id=None, station_id='s', code_info=None, start_time_millis=0, metadata={}, diagnosers=[])

  def body_ir(s):
    # a run STARTS (its handler is registered) while another run ends (its handler is removed): the new run's handler
    # must survive and record the run's messages
    ra, rb, rc = mkrec(), mkrec(), mkrec()
    res['ra'], res['rb'] = ra, rb
    logs.initialize_record_handler('uc', rc, lambda: None)
    logs.initialize_record_handler('ua', ra, lambda: None)

    def a():
      logs.initialize_record_handler('ub', rb, lambda: None)

    def b():
      logs.remove_record_handler('uc')
    ths = [threading.Thread(target=a), threading.Thread(target=b)]
    ths[0]._cosched_name, ths[1]._cosched_name = 'a', 'b'
    for t in ths:
      t.start()
    for t in ths:
      t.join()
    for i in range(case['n']):
      logging.getLogger(FW).info('m#%d fw', i + 1)
      logs.get_record_logger_for('ua').info('m#%d own', 100 + i + 1)
    logs.get_record_logger_for('ub').info('m#%d own-b', 201)
    logs.remove_record_handler('ua')
    logs.remove_record_handler('ub')
    return True
  if case.get('order') == 'ir':
    return body_ir

  def body(s):
    ra, rb = mkrec(), mkrec()
    res['ra'], res['rb'] = ra, rb
    order = case.get('order', 'ab')
    if order == 'ba':
      logs.initialize_record_handler('ub', rb, lambda: None)
    logs.initialize_record_handler('ua', ra, lambda: None)

    def a():
      for i in range(case['n']):
        logging.getLogger(FW).info('m#%d fw', i + 1)
        logs.get_record_logger_for('ua').info('m#%d own', 100 + i + 1)

    def b():
      if order != 'ba':
        logs.initialize_record_handler('ub', rb, lambda: None)
      logs.remove_record_handler('ub')
    ths = [threading.Thread(target=a), threading.Thread(target=b)]
    ths[0]._cosched_name, ths[1]._cosched_name = 'a', 'b'
    for t in ths:
      t.start()
    for t in ths:
      t.join()
    logs.remove_record_handler('ua')
    return True
  return body


def _hrace_codes():
  from openhtf.util import logs
  return sched.codes_of(logs.remove_record_handler, logs.initialize_record_handler)


def _run_hrace(case, chooser=None):
  res = {}
  ex = sched.Explorer()
  ex.prefix = list(case['choices'])
  try:
    box, s = sched.run(chooser or ex.choose, _hrace_body(case, res), max_steps=20000,
                       trace_lines=_hrace_codes() if case.get('order') == 'ir' else None,
                       trace_opcodes=case.get('order') == 'ir')
  finally:
    logging.disable(logging.CRITICAL)
  facts = []
  if s.deadlock or 'sched_error' in box:
    facts.append('X:deadlock-or-stuck')
  want = []
  for i in range(case['n']):
    want += [i + 1, 100 + i + 1]
  got = _ids(res['ra'])
  if got != want:
    facts.append('X:live-run-lost-or-duplicated-a-message-while-another-run-ended:got=%s' % '/'.join(str(x) for x in got))
  gb = _ids(res['rb'])
  if case.get('order') == 'ir':
    if 201 not in gb:
      facts.append('X:run-that-started-while-another-ended-lost-its-log-handler')
    gb = [x for x in gb if x != 201]
  if any(x > 100 for x in gb) or len(gb) != len(set(gb)):
    facts.append('X:other-run-recorded-foreign-or-duplicate-messages')
  return {'ops': [], 'obs': [], 'facts': facts}


def _run_mac(case):
  logs = _setup_logging()
  from openhtf.core import test_record
  rec = test_record.TestRecord(dut_id=None, station_id='s', code_info=None, start_time_millis=0, metadata={}, diagnosers=[])
  logs.initialize_record_handler('mac', rec, lambda: None)
  raise_saved = logging.raiseExceptions
  logging.raiseExceptions = False
  try:
    lg = logs.get_record_logger_for('mac')
    fmt, args = case['fmt'], case['args']
    if case.get('argkind') == 'obj':
      args = tuple(type('O', (), {'__str__': lambda self, a=a: a})() for a in args)
    elif case.get('argkind') == 'map':
      args = ({'k%d' % i: a for i, a in enumerate(args)},)
    try:
      formatted = fmt % (args[0] if case.get('argkind') == 'map' else tuple(str(a) for a in args)) if args else fmt
    except Exception:  # pylint: disable=broad-except
      formatted = None
    lg.info(fmt, *args)
  finally:
    logging.raiseExceptions = raise_saved
    logs.remove_record_handler('mac')
    logging.disable(logging.CRITICAL)
  real = [l.message for l in rec.log_records]
  return {'formatted': formatted, 'real': real}


_VERB_SCRIPT = r'''
import sys, logging, json
sys.argv = [sys.argv[0]] + (['-' + 'v' * int(sys.argv[1])] if int(sys.argv[1]) else [])
import openhtf as htf
from openhtf.util import logs
def phase(test):
  test.logger.debug('m#1 debug own')
  test.logger.info('m#2 info own')
  logging.getLogger('openhtf.verif.framework').debug('m#3 debug framework')
  logs.get_record_logger_for(list(htf.Test.TEST_INSTANCES)[0]).debug('m#4 debug helper')
  test.logger.info('m#5 dev aa:bb:cc:dd:ee:ff own')
  logging.getLogger('openhtf.plugs.verif_driver').info('m#6 dev %s framework', 'aa:bb:cc:dd:ee:ff')
  logs.get_record_logger_for(list(htf.Test.TEST_INSTANCES)[0]).warning('m#7 dev aa:bb:cc:dd:ee:ff helper')
  try:
    raise ValueError('device aa:bb:cc:dd:ee:ff unreachable')
  except ValueError:
    test.logger.exception('m#8 connect failed')      # the captured message carries the traceback text
t = htf.Test(phase)
recs = []
t.add_output_callbacks(recs.append)
t.configure(name='verb')
import io, contextlib
buf = io.StringIO()
with contextlib.redirect_stdout(buf):
  t.execute()
print('RESULT ' + json.dumps([l.message for l in recs[0].log_records if l.message.startswith('m#')]))
'''


def _run_verbosity(case):
  """the CLI verbosity (-v, -vv) only concerns what is printed: the record captures every level"""
  import json
  import subprocess
  import sys
  import shutil
  import tempfile
  env = dict(os.environ, PYTHONPATH=common.REPO, PYTHONDONTWRITEBYTECODE='1')
  d = tempfile.mkdtemp(prefix='verif-c19.')
  try:
    path = os.path.join(d, 'verb_script.py')
    with open(path, 'w') as f:
      f.write(_VERB_SCRIPT)
    p = subprocess.run([sys.executable, path, str(case['v'])], stdout=subprocess.PIPE, stderr=subprocess.PIPE,
                       env=env, timeout=120, cwd=d)
  finally:
    shutil.rmtree(d, ignore_errors=True)
  out = p.stdout.decode('utf-8', 'replace')
  line = [l for l in out.split('\n') if l.startswith('RESULT ')]
  if not line:
    return {'ops': [], 'obs': [], 'facts': ['X:verbosity-run-failed:' + p.stderr.decode('utf-8', 'replace')[-200:].replace(' ', '_').replace('\n', '|')]}
  got = json.loads(line[0][7:])
  want = ['m#1 debug own', 'm#2 info own', 'm#3 debug framework', 'm#4 debug helper']
  facts = [] if got[:4] == want and len(got) == 8 else [
      'X:record-misses-messages-under-cli-verbosity-%d:got-%d-of-8' % (case['v'], len(got))]
  for m in got[4:]:
    if 'dd:ee:ff' in m or 'aa:bb:cc:<REDACTED>' not in m:
      facts.append('X:mac-address-not-redacted-in-the-record-under-cli-verbosity-%d:%s' % (
          case['v'], 'traceback-text' if m.startswith('m#8') else m.split(' ')[-1]))
  return {'ops': [], 'obs': [], 'facts': facts}


def run_real(case):
  return {'seq': _run_seq, 'runs': _run_runs, 'conc': _run_conc, 'mac': _run_mac, 'verb': _run_verbosity,
          'hrace': _run_hrace}[case['kind']](case)


def encode(case, o):
  if case['kind'] == 'mac':
    if o['formatted'] is None:
      return 'C19 R - # -'
    if len(o['real']) != 1:
      return 'C19 H # X X:message-with-mac-not-recorded-exactly-once:%d' % len(o['real'])
    return 'C19 R %s # %s' % (_hx(o['formatted']), _hx(o['real'][0]))
  obs = []
  for uid, ids in o['obs']:
    obs += [_hx(uid), ','.join(str(i) for i in ids) or '-']
  return 'C19 H %s # %s X %s' % (' '.join(o['ops']), ' '.join(obs), ' '.join(o['facts']))


def classify(case, o):
  return case['kind']


def nontrivial_key(case, o):
  import json
  return json.dumps(case, sort_keys=True)


UIDS = ['u1', 'u10', 'u1x', 't2']
KINDS = ['rec', 'phase', 'plug', 'deep', 'fw', 'fw2', 'lookalike', 'bare']


def gen_cases(rng, tier):
  quick = tier == 'quick'
  cases = []
  mid = [0]
  for i in range(1200 if quick else 20000):
    r = rng.derive('s%d' % i)
    ops = []
    started, live = [], []
    for _ in range(r.choice([3, 5, 8, 10])):
      c = r.random()
      if c < 0.25 and len(started) < len(UIDS):
        u = r.choice([x for x in UIDS if x not in started])
        started.append(u)
        live.append(u)
        ops.append(['s', u])
      elif c < 0.4 and live:
        u = r.choice(live)
        live.remove(u)
        ops.append(['f', u])
      else:
        mid[0] += 1
        ops.append(['l', r.choice(KINDS), r.choice(UIDS), mid[0] % 100000])
    cases.append({'kind': 'seq', 'ops': ops})
  for runs in (1, 2, 3):
    for n in (1, 2):
      cases.append({'kind': 'runs', 'runs': runs, 'n': n})
      cases.append({'kind': 'runs', 'runs': runs, 'n': n, 'cbexit': True})
  for i in range(240 if quick else 4000):
    r = rng.derive('c%d' % i)
    cases.append({'kind': 'conc', 'n': r.choice([1, 2, 3]), 'short': i % 2 == 1, 'rseed': r.getrandbits(32),
                  'switch': r.choice([0.2, 0.5, 0.8])})
  for v in (0, 1, 2):
    cases.append({'kind': 'verb', 'v': v})
  # handler add/remove of one run against record dispatch of another: every schedule with <= 2 preemptions
  for order in ('ab', 'ba'):
    cfg = {'kind': 'hrace', 'n': 2, 'order': order}
    res = {}
    k = 0
    for box, s_, choices in sched.explore(_hrace_body(cfg, res), preemption_bound=2, limit=700 if quick else 6000, max_steps=20000):
      cases.append(dict(cfg, choices=choices))
    logging.disable(logging.CRITICAL)
  cfg = {'kind': 'hrace', 'n': 1, 'order': 'ir'}
  _setup_logging()
  for box, s_, choices in sched.explore(_hrace_body(cfg, {}), preemption_bound=1, limit=1500 if quick else 20000, max_steps=20000,
                                        trace_lines=_hrace_codes(), trace_opcodes=True):
    cases.append(dict(cfg, choices=choices))
  logging.disable(logging.CRITICAL)
  macs = ['aa:bb:cc:dd:ee:ff', 'AA:BB:CC:DD:EE:FF', '01:23:45:67:89:ab', 'aa:bb:cc:dd:ee', 'aa:bb:cc:dd:ee:ff:00', 'aa-bb-cc-dd-ee-ff',
          'aa:bb:cc:dd:ee:fg', 'xaa:bb:cc:dd:ee:ff', 'aa:bb:cc:dd:ee:ffx', '0a:1b:2c:3d:4e:5f']
  for m in macs:
    for fmt, args, kind in [('dut %s ok' % m, (), None), ('dut %s ok', (m,), None), ('dut %s ok', (m,), 'obj'),
                            ('dut %(k0)s ok', (m,), 'map'), ('two %s and %s', (m, m[::-1]), None),
                            ('split ' + m[:9] + '%s end', (m[9:],), None), ('split %s' + m[8:], (m[:8],), None),
                            (m, (), None), ('end ' + m, (), None), (m + ' ' + m, (), None)]:
      cases.append({'kind': 'mac', 'fmt': fmt, 'args': list(args), 'argkind': kind})
  for i in range(150 if quick else 3000):
    r = rng.derive('m%d' % i)
    hexd = '0123456789abcdefABCDEF'
    parts = []
    for _ in range(r.choice([1, 2, 3])):
      k = r.choice([3, 5, 6, 6, 6, 7])
      parts.append(r.choice([':', ':', '-']).join(r.choice(hexd) + r.choice(hexd + 'g') for _ in range(k)))
      parts.append(r.choice([' ', ',', 'x', ':', '.', '']))
    text = r.choice(['', 'mac ', 'x']) + ''.join(parts)
    cases.append({'kind': 'mac', 'fmt': text.replace('%', '%%'), 'args': [], 'argkind': None})
  return cases


def known_match(entry, case, obs, msg):
  return entry['match'] in msg


MANIFEST = {
    'text': 'Proof: 9 Lean theorems: a run\'s filter accepts every logger of that run (record logger and any child), rejects '
            'every record logger of any other run (uids that are prefixes of one another included) and keeps framework '
            'loggers; for every state and history a message is appended to a live run\'s record exactly once iff its filter '
            'accepts the name, nothing else in the record changes (order is append order), a finished record is never '
            'altered, after finish no handler of the run remains and the handler count goes back (histories with fresh '
            'uids); a colon-separated MAC followed by a boundary is matched and replaced by its three-byte prefix + '
            '<REDACTED>. Tie: histories of start / log / finish on the real logs module, consecutive and concurrent real '
            'Test.execute() runs logging through every kind of logger (also after the run), real MacAddressLogFilter on '
            'message / argument shapes against the model\'s scanner.',
    'note': 'Trusted: Lean kernel + standard axioms; harness; Lean driver. PARTIAL: the regular expressions are re-modelled '
            'as scanners (recordUid, matchMac/redact) whose agreement with Python\'s re on the generated names and messages '
            'is checked by the tie, not proved; record fields (level, logger name, source file, line, millisecond '
            'timestamp) are checked on every real record, not theorems; logging\'s own unsynchronised handler-list '
            'iteration is exercised by concurrent runs under the scheduler. Model follows the tree after fix: commit '
            'dd801ce9 (redaction of the formatted message as a whole).',
}
