"""C08 — plug lifecycle (shared executor harness with instrumented plug classes)."""
import itertools

from harness import exec_common as ec

PROP = 'C08'
PROOF_MODULE = 'OpenHTF.Proofs.C08'
THEOREMS = [
    'OpenHTF.Plugs.c08_ctor_at_most_once_teardown_exactly_once',
    'OpenHTF.Plugs.c08_teardown_after_phases_before_callbacks',
    'OpenHTF.Plugs.c08_teardown_fault_isolated',
    'OpenHTF.Plugs.c08_ctor_failure_error_no_phase',
    'OpenHTF.Plugs.c08_init_constructs_only_requested',
]
RULE = ('all assignments of <=3 plug classes to <=3 phases + test_start, fault positions enumerated: constructor raises '
        'for each class, tearDown raises / hangs / hangs and cannot be killed (abandoned after plug_teardown_timeout_s=0.05 s), a phase fails '
        '(exception, STOP, timeout) at each position, terminal test_start; an operator abort at every (quick: every 5th) '
        'scheduling step of two plug programs (cooperative scheduler); plus random trees with plugs; compared: full '
        'event log (constructors, bodies, diagnosers, tearDowns, callbacks), records; instance identity seen by phases')
ASSUMPTIONS = ['the iteration order of the plug-type set is taken from the real run (a parameter of the model)',
               'plug_teardown_timeout_s > 0 for hanging tearDowns (0 = wait forever, excluded by the property)']
TRUSTED = ['harness/exec_common.py (instrumented plug classes)', 'lean/OpenHTF/Driver/C08.lean']
CONST_PREFIXES = ['c08.']
PROCS = 12


ABORT_PROGRAMS = {
    'plugs': None,      # the C04 program with two plug classes
    'three': {'nodes': [dict({'t': 'P', 'id': 1, 'opts': {}, 'beh': [{'raw': 'cont'}]}, plugs=[['a', 0], ['b', 1]]),
                        {'t': 'G', 's': [dict({'t': 'P', 'id': 2, 'opts': {}, 'beh': [{'raw': 'cont'}]}, plugs=[['c', 2]])],
                         'm': [dict({'t': 'P', 'id': 3, 'opts': {}, 'beh': [{'raw': 'cont', 'sleep': 0.02, 'steps': 2}]},
                                    plugs=[['a', 0]])],
                         'td': [dict({'t': 'P', 'id': 4, 'opts': {}, 'beh': [{'raw': 'cont'}]}, plugs=[['c', 2]])]}],
              'plugs': {'0': {}, '1': {'td': 'raise'}, '2': {}}, 'start': dict({'t': 'P', 'id': 9, 'opts': {}, 'beh': [{'raw': 'cont'}]},
                                                                                   plugs=[['s', 1]])},
}


def _run_abort(case):
  """operator abort as the fault: one abort at scheduling step k; the plug lifecycle must hold on that exit path too"""
  from harness import sched_exec
  from harness.props import c04
  from openhtf.core import test_descriptor
  sched_exec.install(False)
  test_descriptor.Test.HANDLED_SIGINT_ONCE = False
  prog = dict(ABORT_PROGRAMS[case['prog']] or c04.PROGRAMS['plugs'])
  prog['callbacks'] = [False]
  k = case['k']

  def aborter(env):
    s = env['sched']
    test = env['test']
    s.block(lambda: (s.step >= k and getattr(test, '_executor', None) is not None) or
            ('execute-returned',) in env['log'], None, 'abort-trigger')
    if ('execute-returned',) in env['log']:
      return
    test.abort_from_sig_int()

  def aborter2(env):
    # the operator's second Ctrl-C (forced stop): teardown PHASES may be cancelled, plug tearDown is not
    s = env['sched']
    test = env['test']
    s.block(lambda: (s.step >= case['k2'] and getattr(test, '_executor', None) is not None) or
            ('execute-returned',) in env['log'], None, 'abort-trigger-2')
    if ('execute-returned',) in env['log']:
      return
    test.abort_from_sig_int()

  def prepare(env):
    env['ctx'].record_ends = True
  if case.get('mode') == 'sigint':
    # a real SIGINT on the main thread at step k (the first one raises KeyboardInterrupt out of execute())
    aux = []
    chooser = c04._chooser({'ks': [k], 'mode': 'sigint', 'prog': case['prog']})
  else:
    aux = [('ab1', aborter)] + ([('ab2', aborter2)] if case.get('k2') is not None else [])
    chooser = c04._chooser(case)
  out = sched_exec.run_case(prog, choose=chooser, aux=aux, prepare=prepare, max_steps=40000)
  test_descriptor.Test.TEST_INSTANCES.clear()
  if out['deadlock'] or out['stuck']:
    return {'tokens': ['O:DEADLOCK']}
  nclasses = len(prog['plugs'])
  ret = 1 if out['ret'] else 0
  if isinstance(out.get('exc'), KeyboardInterrupt):
    # the first SIGINT is re-raised out of execute() (no return value: C09's business); the plug lifecycle is judged
    ret = 1 if out['tokens'] and out['tokens'][0] == 'O:PASS' else 0
  return {'tokens': out['tokens'] + ['X:ret:%d' % ret], 'nclasses': nclasses}


def run_real(case):
  if case.get('kind') == 'abort':
    return _run_abort(case)
  out = ec.run_test_case(case)
  return {'tokens': out['tokens'] + ['X:ret:%d' % (1 if out['ret'] else 0)]}


def _classes_in(node, acc):
  if isinstance(node, dict):
    for arg, c in node.get('plugs') or []:
      if c not in acc:
        acc.append(c)
    for v in node.values():
      _classes_in(v, acc)
  elif isinstance(node, list):
    for v in node:
      _classes_in(v, acc)


def encode(case, obs):
  if case.get('kind') == 'abort':
    return 'C08 ABORT %d # %s' % (obs.get('nclasses', 0), ' '.join(obs['tokens']))
  toks = obs['tokens']
  start = []
  if case.get('start') is not None:
    for arg, c in case['start'].get('plugs') or []:
      if c not in start:
        start.append(c)
  declared = []
  _classes_in(case['nodes'], declared)
  # iteration order of the plug-type set, as observed (constructor attempts after test_start's), then the rest
  seen = []
  for t in toks:
    if t.startswith('eP+') or t.startswith('eP!'):
      c = int(t[3:])
      if c not in seen:
        seen.append(c)
  allp = [c for c in seen if c in declared or c in start] + [c for c in start + declared if c not in seen]
  # the manager's type set also contains test_start's classes once they were constructed
  raising = [int(k) for k, b in (case.get('plugs') or {}).items() if b.get('ctor') == 'raise']
  cbs = case.get('callbacks') or []
  pl = 'PL %d %s %d %s %d %s %d %s' % (len(start), ' '.join(map(str, start)), len(allp), ' '.join(map(str, allp)),
                                      len(raising), ' '.join(map(str, raising)), len(cbs),
                                      ' '.join('1' if b else '0' for b in cbs))
  return 'C08 %s %s # %s' % (ec.clean(ec.enc_test(case)), ec.clean(pl), ' '.join(toks))


def classify(case, obs):
  if case.get('kind') == 'abort':
    return 'abort/' + case['prog'] + '/' + obs['tokens'][0]
  return case.get('src', '?') + '/' + obs['tokens'][0]


def nontrivial_key(case, obs):
  if case.get('kind') == 'abort':
    return repr(sorted(case.items(), key=str)) if any(t.startswith('eP+') for t in obs['tokens']) else None
  if any(t.startswith('eP+') for t in obs['tokens']):
    return repr(sorted(case.items(), key=str))
  return None


def _p(pid, raw='cont', plugs=None, **kw):
  n = {'t': 'P', 'id': pid, 'opts': {}, 'beh': [{'raw': raw}]}
  if plugs:
    n['plugs'] = [[a, c] for a, c in plugs]
  n.update(kw)
  return n


def gen_cases(rng, tier):
  cases = []
  classes = [0, 1, 2]
  assigns = [[], [('a', 0)], [('a', 0), ('b', 1)], [('x', 1)], [('a', 0), ('b', 1), ('c', 2)], [('z', 2), ('a', 0)]]
  raws = ['cont', 'exc', 'stop', 'timeout', 'failcont']
  k = 0
  for a1, a2, a3 in itertools.product(assigns, repeat=3):
    # (the last one: one class under two argument names)
    for start_assign in [None, [], [('s', 0)], [('s', 2), ('t', 1)], [('s', 1), ('t', 1)]]:
      k += 1
      if tier == 'quick' and k % 4 != rng.randrange(4):
        continue
      r = rng.derive(k)
      fault = r.choice(['none', 'none', 'ctor', 'ctor', 'td_raise', 'td_hang', 'td_stuck', 'phase', 'start_terminal', 'two_ctor'])
      spec = {str(c): {} for c in classes}
      raw = ['cont', 'cont', 'cont']
      start_raw = 'cont'
      if fault == 'ctor':
        spec[str(r.choice(classes))]['ctor'] = 'raise'
      elif fault == 'two_ctor':
        for c in r.sample(classes, 2):
          spec[str(c)]['ctor'] = 'raise'
      elif fault == 'td_raise':
        spec[str(r.choice(classes))]['td'] = 'raise'
      elif fault == 'td_hang':
        spec[str(r.choice(classes))]['td'] = 'hang'
      elif fault == 'td_stuck':
        spec[str(r.choice(classes))]['td'] = 'stuck'
      elif fault == 'phase':
        raw[r.randrange(3)] = r.choice(raws[1:] if k % 9 == 0 else ['exc', 'stop', 'failcont'])
      elif fault == 'start_terminal':
        start_raw = r.choice(['exc', 'stop'])
      nodes = [_p(1, raw[0], a1), {'t': 'G', 's': [], 'm': [_p(2, raw[1], a2)], 'td': [_p(3, raw[2], a3)]}]
      if fault == 'td_hang' and start_assign:
        # the hanging tearDown belongs to test_start's plug (torn down first); another plug's tearDown takes a moment
        hang = [c for c in spec if spec[c].get('td') == 'hang']
        first = str(start_assign[0][1])
        if hang and hang[0] != first:
          spec[first]['td'], spec[hang[0]]['td'] = 'hang', 'slow'
        else:
          for c in spec:
            if c != first and not spec[c]:
              spec[c]['td'] = 'slow'
              break
      if k % 5 == 1 and '1' in spec and '0' in spec:
        spec['1']['alias'] = 0          # class 1 is a distinct class named like class 0
      if k % 3 == 0:
        # with_args keys that collide with plug argument names
        nodes[0]['wa'] = True
        nodes[1]['td'][0]['wa'] = True
      case = {'nodes': nodes, 'plugs': spec, 'callbacks': [False, r.random() < 0.3, False][:r.choice([0, 1, 2, 3])],
              'src': fault}
      if start_assign is not None:
        case['start'] = _p(9, start_raw, start_assign)
      if r.random() < 0.3:
        case['tdiags'] = [[[0, r.random() < 0.5]]] if r.random() < 0.7 else ['raise']
      cases.append(case)
  # plug_teardown_timeout_s not positive (0, -1): no time-out, a tearDown that takes a moment runs to its end
  for tdto in (0, -1, -0.5):
    for slowc in ('0', '1'):
      spec = {str(c): ({'td': 'slow'} if str(c) == slowc else {}) for c in classes}
      cases.append({'nodes': [_p(1, 'cont', [('a', 0), ('b', 1)]), _p(2, 'cont', [('c', 2)])], 'plugs': spec, 'callbacks': [False],
                    'tdto': tdto, 'src': 'teardown-timeout-not-positive'})
  # random trees with plugs sprinkled over the phases
  for i in range(300 if tier == 'quick' else 4000):
    r = rng.derive('g%d' % i)
    g = ec.Gen(r, allow_timeout=False)
    c = g.case(depth=r.choice([1, 2, 3]), width=r.choice([1, 2, 3]))
    def sprinkle(n):
      if isinstance(n, dict):
        if n.get('t') == 'P' and r.random() < 0.5:
          n['plugs'] = [[a, cl] for a, cl in r.choice(assigns)]
        for v in n.values():
          sprinkle(v)
      elif isinstance(n, list):
        for v in n:
          sprinkle(v)
    sprinkle(c['nodes'])
    if c.get('start') is not None:
      sprinkle(c['start'])
    c['plugs'] = {str(cl): ({'ctor': 'raise'} if r.random() < 0.1 else ({'td': r.choice(['raise', 'hang'])} if r.random() < 0.15 else {}))
                  for cl in classes}
    c['callbacks'] = [r.random() < 0.2 for _ in range(r.choice([0, 1, 2]))]
    c['src'] = 'random'
    cases.append(c)
  from harness.props import c04
  for name in ('plugs', 'three'):
    prog = ABORT_PROGRAMS[name] or c04.PROGRAMS['plugs']
    n = 400
    for k in range(0, n, 5 if tier == 'quick' else 1):
      cases.append({'kind': 'abort', 'prog': name, 'k': k})
    for k in range(0, n, 9 if tier == 'quick' else 2):
      cases.append({'kind': 'abort', 'prog': name, 'k': k, 'k2': k + [3, 11, 40, 90][k % 4]})
      cases.append({'kind': 'abort', 'prog': name, 'k': k, 'mode': 'sigint'})
  return cases


def known_match(entry, case, obs, msg):
  return msg.split(' ')[0] == entry['match']


MANIFEST = {
    'text': 'Proof: Lean theorems for every program, plug assignment, constructor/tearDown fault pattern and iteration '
            'order of the plug-type set: each class is constructed at most once and every constructed instance is torn '
            'down exactly once with nothing alive when execute() returns (counting invariant through initialize_plugs / '
            'tear_down_plugs / the whole traversal, which is shown to emit no plug events); once a tearDown was called '
            'only tearDowns and then output callbacks follow - no phase, diagnoser or constructor - on every path '
            '(k-th constructor fails, terminal test_start, any phase outcome); the result is independent of tearDown '
            'behaviour (raise/hang); a constructor failure gives ERROR with no further phase; initialize_plugs(types) '
            'constructs only from types. Tie: real runs with instrumented plug classes, faults enumerated.',
    'note': 'Trusted: Lean kernel + standard axioms; harness (instrumented plug classes, 0.05 s tearDown timeout); Lean '
            'driver. Modelled not verified: the _PlugTearDownThread containment of a raising/hanging tearDown (checked by '
            'the tie); set iteration order is a model parameter taken from the real run.',
}
