"""C02 — node execution follows docs/event_sequence.md (shared executor harness)."""
import itertools

from harness import exec_common as ec

PROP = 'C02'
PROOF_MODULE = 'OpenHTF.Proofs.C02'
THEOREMS = [
    'OpenHTF.Exec.c02_refines_document',
    'OpenHTF.Exec.c02_refines_document_sequences',
    'OpenHTF.Exec.c02_after_subtest_failure_everything_is_skipped',
    'OpenHTF.Exec.c02_skipping_runs_nothing',
    'OpenHTF.Exec.c02_sequence_stops_at_first_terminal',
    'OpenHTF.Exec.c02_fail_subtest_never_escapes',
    'OpenHTF.Exec.c02_subtest_record',
    'OpenHTF.Exec.c02_condition_truth_tables',
    'OpenHTF.Exec.c02_branch_iff_condition',
    'OpenHTF.Exec.c02_checkpoint_iff_condition',
    'OpenHTF.Exec.c02_teardown_sequence_runs_every_node',
]
RULE = ('corpus of hand-written nestings; all trees of total size<=3 (quick) / <=4 (thorough) over leaves {phase: CONTINUE, '
        'FAIL_SUBTEST, STOP, raise, FAIL_AND_CONTINUE+diagnosis, checkpoint last/diag} and composites {sequence, group '
        '(every distribution over setup/main/teardown), subtest, branch(2 conditions)}, each followed by a marker phase; '
        'focused random trees (subtests, groups in teardowns, nesting depth<=5) and general random trees to 30 nodes; '
        'compared: full call log and the phase/subtest/branch/checkpoint record lists; non-trivial = distinct tree')
ASSUMPTIONS = [
    'document-silent corners adopt the code: checkpoint with no previous phase -> error; SUBTEST checkpoint outside a '
    'subtest behaves as ALL; a subtest nested in a teardown of a failed subtest starts FAIL',
    'teardown context overrides skipping for every nested node (reading of "this also applies to all nested phase nodes")',
]
TRUSTED = ['harness/exec_common.py', 'lean/OpenHTF/Driver/Exec.lean, Driver/C02.lean',
           'the transcription of docs/event_sequence.md in lean/OpenHTF/Spec/Exec.lean (Spec.node / Spec.seq / Spec.skipNode)']
CONST_PREFIXES = ['c02.']
PROCS = 12


def run_real(case):
  out = ec.run_test_case(case)
  return {'tokens': ec.core_tokens(out['tokens']), 'ret': out['ret'], 'crashes': out['crashes']}


def encode(case, obs):
  return 'C02 %s # %s' % (ec.clean(ec.enc_test(case)), ' '.join(obs['tokens']))


def classify(case, obs):
  return case.get('src', '?')


def nontrivial_key(case, obs):
  return ec.clean(ec.enc_test(case))


class Ids(object):

  def __init__(self):
    self.n = 0

  def __call__(self):
    self.n += 1
    return self.n


def P(ids, raw='cont', diags=None):
  inv = {'raw': raw}
  if diags is not None:
    inv['diags'] = diags
  return {'t': 'P', 'id': ids(), 'opts': {}, 'beh': [inv]}


def _relabel(node, ids):
  """deep copy with fresh unique ids"""
  t = node['t']
  n = dict(node)
  if t == 'P':
    n['id'] = ids()
    n['beh'] = [dict(b) for b in node['beh']]
  elif t in ('B', 'C'):
    n['id'] = ids()
  elif t == 'U':
    n['name'] = ids()
  for k in ('ns', 's', 'm', 'td'):
    if k in n:
      n[k] = [_relabel(c, ids) for c in n[k]]
  return n


LEAVES = [
    {'t': 'P', 'id': 0, 'opts': {}, 'beh': [{'raw': 'cont'}]},
    {'t': 'P', 'id': 0, 'opts': {}, 'beh': [{'raw': 'failsub'}]},
    {'t': 'P', 'id': 0, 'opts': {}, 'beh': [{'raw': 'stop'}]},
    {'t': 'P', 'id': 0, 'opts': {}, 'beh': [{'raw': 'exc'}]},
    {'t': 'P', 'id': 0, 'opts': {}, 'beh': [{'raw': 'failcont', 'diags': [[[0, False]]]}]},
    {'t': 'C', 'id': 0, 'fs': True, 'kind': 'last'},
    {'t': 'C', 'id': 0, 'fs': False, 'kind': 'diag', 'on': 'any', 'res': [0]},
]


def lists_of_size(k, memo):
  """all node lists of total size k"""
  if k == 0:
    return [[]]
  key = ('L', k)
  if key in memo:
    return memo[key]
  out = []
  for first in range(1, k + 1):
    for t in trees_of_size(first, memo):
      for rest in lists_of_size(k - first, memo):
        out.append([t] + rest)
  memo[key] = out
  return out


def trees_of_size(k, memo):
  key = ('T', k)
  if key in memo:
    return memo[key]
  out = []
  if k == 1:
    out = list(LEAVES)
  else:
    for ns in lists_of_size(k - 1, memo):
      out.append({'t': 'Q', 'ns': ns})
      out.append({'t': 'U', 'name': 0, 'ns': ns})
      out.append({'t': 'B', 'id': 0, 'on': 'any', 'res': [0], 'ns': ns})
      out.append({'t': 'B', 'id': 0, 'on': 'notany', 'res': [0], 'ns': ns})
    for a in range(0, k):
      for b in range(0, k - a):
        c = k - 1 - a - b
        for s in lists_of_size(a, memo):
          for m in lists_of_size(b, memo):
            for td in lists_of_size(c, memo):
              out.append({'t': 'G', 's': s, 'm': m, 'td': td})
  memo[key] = out
  return out


def corpus():
  out = []
  def case(nodes, **kw):
    ids = Ids()
    c = {'nodes': [_relabel(n, ids) for n in nodes], 'src': 'corpus'}
    c.update(kw)
    out.append(c)
  ok, fs, stop, exc = LEAVES[0], LEAVES[1], LEAVES[2], LEAVES[3]
  G = lambda s, m, td: {'t': 'G', 's': s, 'm': m, 'td': td}
  U = lambda *ns: {'t': 'U', 'name': 0, 'ns': list(ns)}
  Q = lambda *ns: {'t': 'Q', 'ns': list(ns)}
  B = lambda on, res, *ns: {'t': 'B', 'id': 0, 'on': on, 'res': res, 'ns': list(ns)}
  # finding #6 (fixed): group nested in the teardown of an entered group of a failed subtest
  case([U(G([], [fs], [ok, G([ok], [ok], [ok]), ok])), ok])
  case([U(G([], [fs], [G([ok], [stop], [ok]), ok])), ok])
  case([U(fs, G([ok], [ok], [ok]), ok), ok])
  case([U(G([fs], [ok], [ok]), ok), ok])
  case([U(G([ok], [ok, fs, ok], [ok]), ok), ok])
  case([U(G([ok], [ok], [fs, ok]), ok), ok])
  case([U(G([ok], [U(fs, ok), ok], [ok]), ok), ok])
  case([U(fs, U(ok), ok), ok])
  case([U(G([], [fs], [U(ok, fs, ok), ok])), ok])
  case([G([stop], [ok], [ok]), ok])
  case([G([ok], [stop, ok], [exc, ok]), ok])
  case([G([ok], [G([ok], [exc], [ok]), ok], [ok]), ok])
  case([LEAVES[4], B('any', [0], ok, stop, ok), ok])
  case([LEAVES[4], B('notany', [0], ok), B('all', [0, 1], ok), B('notall', [0, 1], ok), B('all', [], ok), B('any', [], ok)])
  case([U(fs, B('any', [], ok), {'t': 'C', 'id': 0, 'fs': False, 'kind': 'last'}, ok), ok])
  case([{'t': 'C', 'id': 0, 'fs': False, 'kind': 'last'}, ok])
  case([{'t': 'C', 'id': 0, 'fs': True, 'kind': 'all'}, ok])
  case([LEAVES[4], ok, {'t': 'C', 'id': 0, 'fs': False, 'kind': 'last'}, ok])
  case([LEAVES[4], ok, {'t': 'C', 'id': 0, 'fs': False, 'kind': 'all'}, ok])
  case([LEAVES[4], U(ok, {'t': 'C', 'id': 0, 'fs': True, 'kind': 'sub'}, ok), ok])
  case([U(LEAVES[4], {'t': 'C', 'id': 0, 'fs': True, 'kind': 'sub'}, ok), ok])
  case([Q(ok, Q(stop, ok), ok), ok])
  case([G([], [stop], [B('notany', [3], G([], [exc], [ok])), ok])])
  return out


def _focused(rng, ids, depth, in_sub, in_td):
  r = rng
  x = r.random()
  if depth <= 0 or x < 0.4:
    raw = r.choice(['cont'] * 5 + ['failsub'] * (4 if in_sub else 1) + ['stop', 'exc', 'failcont', 'skip'])
    n = P(ids, raw)
    if r.random() < 0.2:
      n['beh'][0]['diags'] = [[[r.randrange(3), r.random() < 0.3]]]
    return n
  if x < 0.5:
    return {'t': 'Q', 'ns': [_focused(r, ids, depth - 1, in_sub, in_td) for _ in range(r.choice([1, 2]))]}
  if x < 0.78:
    return {'t': 'G', 's': [_focused(r, ids, depth - 1, in_sub, in_td) for _ in range(r.choice([0, 0, 1]))],
            'm': [_focused(r, ids, depth - 1, in_sub, in_td) for _ in range(r.choice([1, 1, 2]))],
            'td': [_focused(r, ids, depth - 1, in_sub, True) for _ in range(r.choice([1, 2, 3]))]}
  if x < 0.9:
    return {'t': 'U', 'name': ids(), 'ns': [_focused(r, ids, depth - 1, True, in_td) for _ in range(r.choice([1, 2, 3]))]}
  if x < 0.95:
    return {'t': 'B', 'id': ids(), 'on': r.choice(['any', 'notany', 'all', 'notall']), 'res': sorted(set([r.randrange(3)])),
            'ns': [_focused(r, ids, depth - 1, in_sub, in_td) for _ in range(r.choice([1, 2]))]}
  kind = r.choice(['last', 'all', 'sub', 'diag'])
  n = {'t': 'C', 'id': ids(), 'fs': r.random() < 0.6, 'kind': kind}
  if kind == 'diag':
    n['on'], n['res'] = r.choice(['any', 'notany']), [r.randrange(3)]
  return n


def gen_cases(rng, tier):
  cases = corpus()
  memo = {}
  maxsize = 3 if tier == 'quick' else 4
  marker = LEAVES[0]
  for k in range(1, maxsize + 1):
    for ns in lists_of_size(k, memo):
      ids = Ids()
      nodes = [_relabel(n, ids) for n in ns] + [_relabel(marker, ids)]
      cases.append({'nodes': nodes, 'src': 'exhaustive-size%d' % k})
      # the same list inside a subtest (FAIL_SUBTEST is an error outside one)
      if k < maxsize:
        ids = Ids()
        cases.append({'nodes': [{'t': 'U', 'name': ids(), 'ns': [_relabel(n, ids) for n in ns]}, _relabel(marker, ids)],
                      'src': 'exhaustive-in-subtest-size%d' % k})
  for i in range(1500 if tier == 'quick' else 20000):
    r = rng.derive('f%d' % i)
    ids = Ids()
    nodes = [_focused(r, ids, r.choice([2, 3, 4, 5]), False, False) for _ in range(r.choice([1, 2, 3]))]
    cases.append({'nodes': nodes, 'src': 'focused-random', 'sof': r.random() < 0.1})
  for i in range(500 if tier == 'quick' else 6000):
    g = ec.Gen(rng.derive('g%d' % i), allow_timeout=False)
    c = g.case(depth=rng.choice([2, 3, 4]), width=rng.choice([2, 3, 4, 5]))
    c['src'] = 'general-random'
    cases.append(c)
  return cases


def shrink(case):
  import copy
  nodes = case['nodes']
  for i in range(len(nodes)):
    c = copy.deepcopy(case); del c['nodes'][i]
    yield c
  # hoist children / drop children one level down
  def paths(ns, pre):
    for i, n in enumerate(ns):
      yield pre + [i], n
      for k in ('ns', 's', 'm', 'td'):
        if k in n:
          yield from paths(n[k], pre + [i, k])
  for path, n in list(paths(nodes, [])):
    for k in ('ns', 's', 'm', 'td'):
      if k in n:
        for j in range(len(n[k])):
          c = copy.deepcopy(case)
          cur = c['nodes']
          for step in path[:-1]:
            cur = cur[step]
          del cur[path[-1]][k][j]
          yield c


def known_match(entry, case, obs, msg):
  return msg.split(' ')[0] == entry['match']


MANIFEST = {
    'text': 'Proof: 11 Lean theorems for every tree of any depth, every behaviour oracle and configuration: the '
            'executor traversal (in_teardown flag, mutable subtest record, skip_teardown) REFINES an independent reading '
            'of docs/event_sequence.md by mode (run/skip/teardown) — equal records, call log and return value — with '
            'the corollaries: after a subtest failure every node is skipped as the document says and nothing runs, a '
            'sequence stops at its first terminal node, FAIL_SUBTEST never escapes, subtest/branch/checkpoint records '
            'are written exactly once, branch iff ALL/ANY/NOT_ANY/NOT_ALL truth table, checkpoint iff its condition, a '
            'teardown sequence runs every node. Tie: real Test.execute() on all trees up to a size bound and focused/'
            'general random trees, compared with the model; the document spec is evaluated on the real observation.',
    'note': 'Trusted: Lean kernel + standard axioms; harness/exec_common.py; Lean driver; the transcription of the '
            'document in Spec/Exec.lean. Phase-level semantics (run_if, repeats, outcome) are shared with C05 '
            '(Exec.runPhase). Model follows the tree after fix: commit 064b45dd (group nested in a teardown).',
}
