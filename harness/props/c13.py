"""C13 — ADB framing: real AdbTransportAdapter over a fake transport vs Lean model `OpenHTF.AdbFrame`."""
import itertools
import logging
import struct
import threading
import time

from harness import usbstub

PROP = 'C13'
PROOF_MODULE = 'OpenHTF.Proofs.C13'
THEOREMS = [
    'OpenHTF.AdbFrame.c13_header_format',
    'OpenHTF.AdbFrame.c13_header_layout',
    'OpenHTF.AdbFrame.c13_wire_commands_injective',
    'OpenHTF.AdbFrame.c13_roundtrip',
    'OpenHTF.AdbFrame.c13_delivered_is_consistent',
    'OpenHTF.AdbFrame.c13_rejects_length_mismatch',
    'OpenHTF.AdbFrame.c13_rejects_checksum_mismatch',
    'OpenHTF.AdbFrame.c13_rejects_unknown_command',
    'OpenHTF.AdbFrame.c13_rejects_short_or_empty_header',
    'OpenHTF.AdbFrame.c13_payload_follows_header_even_if_expired',
    'OpenHTF.AdbFrame.c13_writers_do_not_interleave',
    'OpenHTF.AdbFrame.c13_readers_do_not_interleave',
]
RULE = ('writes: 7 commands x boundary args {0,1,2^31,2^32-1} x payload lengths {0,1,2,255,256,4095,4096} x timeout '
        '{live, none, expired before, expiring between header and payload}; reads: every valid frame, every single-field '
        'corruption of its header, payload truncation/extension/byte change, header truncation to each length 0..23 and '
        'extension, missing payload, random garbage; concurrent writers/readers: real threads on a gated transport, the '
        'controller releases transport operations in enumerated orders; non-trivial = distinct case')
ASSUMPTIONS = [
    'a corrupted magic word is not among the rejections the property lists (such a frame is delivered unchanged)',
    'payloads are str with code points 0..255, headers bytes (the Python-3 types this code uses)',
]
TRUSTED = ['harness/props/c13.py (fake and gated transports)', 'lean/OpenHTF/Driver/C13.lean',
           'modelled not verified: struct.pack/unpack("<6I") are re-derived as little-endian bytes and compared; '
           'threading.Lock mutual exclusion is assumed by the writer transition system']
CONST_PREFIXES = ['c13.']
PROCS = 8

CMDS = ['SYNC', 'CNXN', 'AUTH', 'OPEN', 'OKAY', 'CLSE', 'WRTE']


class FakeTransport(object):

  def __init__(self, script=(), expire_on_first=None):
    self.script = list(script)
    self.written = []
    self.expire_on_first = expire_on_first

  def write(self, data, timeout_ms=None):
    self.written.append((data, timeout_ms))
    if self.expire_on_first is not None and len(self.written) == 1:
      self.expire_on_first.expire()

  def read(self, length, timeout_ms=None):
    from openhtf.plugs.usb import usb_exceptions as ue
    if not self.script:
      raise ue.UsbReadFailedError(_UsbErr(), 'scripted transport exhausted')
    return self.script.pop(0)

  def close(self):
    pass


class _UsbErr(object):
  value = -7


class GateTransport(object):
  """Every transport operation blocks until the controller releases that thread."""

  def __init__(self, script=()):
    self.cv = threading.Condition()
    self.waiting = {}
    self.allowed = None
    self.log = []
    self.script = list(script)

  def _gate(self, kind):
    tid = threading.current_thread().name
    with self.cv:
      self.waiting[tid] = kind
      self.cv.notify_all()
      while self.allowed != tid:
        self.cv.wait(0.02)
      self.allowed = None
      del self.waiting[tid]
      self.log.append((tid, kind))
      self.cv.notify_all()

  def write(self, data, timeout_ms=None):
    self._gate('h' if isinstance(data, bytes) else 'd')

  def read(self, length, timeout_ms=None):
    self._gate('h' if length == 24 else 'd')
    return self.script.pop(0)

  def close(self):
    pass

  # controller side
  def release(self, tid, wait_s):
    deadline = time.time() + wait_s
    with self.cv:
      while tid not in self.waiting:
        left = deadline - time.time()
        if left <= 0:
          return False
        self.cv.wait(min(left, 0.01))
      self.allowed = tid
      self.cv.notify_all()
      while self.allowed == tid:
        self.cv.wait(0.02)
      return True


def _hx(s):
  h = usbstub.hexs(s)
  return h if h else '-'


def _frame(cmd, a0, a1, data):
  w = sum(ord(c) << (8 * i) for i, c in enumerate(cmd))
  hdr = struct.pack('<6I', w, a0, a1, len(data), sum(ord(c) for c in data) & 0xFFFFFFFF, w ^ 0xFFFFFFFF)
  return hdr, data


def run_real(case):
  usbstub.install()
  from openhtf.plugs.usb import adb_message as am
  from openhtf.plugs.usb import usb_exceptions as ue
  from openhtf.util import timeouts
  # as adb_device does: the filesync service builds its own command table with make_wire_commands
  from openhtf.plugs.usb import filesync_service  # pylint: disable=unused-import
  logging.getLogger(am.__name__).disabled = True
  kind = case['kind']
  if kind == 'W':
    data = usbstub.unhexs(case['data'])
    tmode = case['timeout']
    to = {'live': lambda: timeouts.PolledTimeout.from_millis(5000), 'none': lambda: timeouts.PolledTimeout(None),
          'before': lambda: timeouts.PolledTimeout(0), 'between': lambda: timeouts.PolledTimeout.from_millis(5000)}[tmode]()
    tr = FakeTransport(expire_on_first=to if tmode == 'between' else None)
    ad = am.AdbTransportAdapter(tr)
    try:
      ad.write_message(am.AdbMessage(case['cmd'], case['a0'], case['a1'], data), to)
      err = None
    except Exception as e:  # pylint: disable=broad-except
      err = type(e).__name__
    return {'chunks': [_hx(d) for d, _ in tr.written], 'err': err}
  if kind == 'R':
    script = []
    for i, c in enumerate(case['script']):
      raw = usbstub.unhexs(c)
      script.append(raw.encode('latin-1') if i == 0 else raw)
    tr = FakeTransport(script)
    ad = am.AdbTransportAdapter(tr)
    try:
      m = ad.read_message(timeouts.PolledTimeout.from_millis(5000))
      return 'ok:%s:%d:%d:%s' % (m.command, m.arg0, m.arg1, _hx(m.data))
    except ue.AdbDataIntegrityError:
      return 'integrity'
    except ue.AdbProtocolError:
      return 'protocol'
    except ue.UsbReadFailedError:
      return 'readfailed'
    except Exception as e:  # pylint: disable=broad-except
      return 'other:' + type(e).__name__
  if kind == 'M':
    tr = FakeTransport()
    ad = am.AdbTransportAdapter(tr)
    msg = am.AdbMessage(case['cmd'], case['a0'], case['a1'], usbstub.unhexs(case['datas'][0]))
    frames = []
    for dh in case['datas']:
      msg.data = usbstub.unhexs(dh)
      before = len(tr.written)
      ad.write_message(msg, timeouts.PolledTimeout.from_millis(5000))
      frames.append([_hx(d) for d, _ in tr.written[before:]])
    return {'frames': frames}
  if kind == 'L':
    n = case['threads']
    mode = case['mode']
    script = []
    if mode == 'read':
      for i in range(n * case.get('msgs', 1)):
        h, d = _frame('WRTE', 1, 2, 'x' * (i + 1))
        script += [h, d]
    tr = GateTransport(script)
    ad = am.AdbTransportAdapter(tr)
    results = {}

    def body(i):
      for k in range(case.get('msgs', 1)):
        try:
          # threads listed in case['short'] bring a timeout that runs out while another thread is mid-message
          ms = case.get('short_ms', 25) if i in (case.get('short') or []) else 60000
          if mode == 'write':
            # (odd threads of 'acks' cases send header-only messages, as the OKAY acknowledgements are)
            empty = case.get('acks') and i % 2 == 1
            ad.write_message(am.AdbMessage('OKAY' if empty else 'WRTE', i, k, '' if empty else 'p' * (i + 1)),
                             timeouts.PolledTimeout.from_millis(ms))
          else:
            m = ad.read_message(timeouts.PolledTimeout.from_millis(ms))
            results.setdefault(i, []).append(len(m.data))
        except Exception as e:  # pylint: disable=broad-except
          results.setdefault(i, []).append(type(e).__name__)
    ths = [threading.Thread(target=body, args=(i,), name=str(i), daemon=True) for i in range(n)]
    for t in ths:
      t.start()
    for want in case['schedule']:
      tr.release(str(want), 0.12)
    deadline = time.time() + 10
    while any(t.is_alive() for t in ths) and time.time() < deadline:
      with tr.cv:
        w = sorted(tr.waiting)
      if w:
        tr.release(w[0], 0.05)
      else:
        time.sleep(0.005)
    hung = [t.name for t in ths if t.is_alive()]
    return {'log': ['%s:%s' % e for e in tr.log], 'hung': hung, 'results': {str(k): v for k, v in results.items()}}
  raise ValueError(kind)


def encode(case, obs):
  k = case['kind']
  if k == 'W':
    return 'C13 W %s %d %d %s %d # %s' % (case['cmd'], case['a0'], case['a1'], case['data'] or '-',
                                          1 if case['timeout'] in ('before', 'between') else 0,
                                          ' '.join(obs['chunks']) + ((' err:' + obs['err']) if obs['err'] else ''))
  if k == 'R':
    return 'C13 R %d %s # %s' % (len(case['script']), ' '.join(c or '-' for c in case['script']), obs)
  if k == 'M':
    # a write of the (mutated) message must be the frame of its current fields
    # (the last write, after all replacements, as a W line)
    return 'C13 W %s %d %d %s 0 # %s' % (case['cmd'], case['a0'], case['a1'], case['datas'][-1] or '-',
                                         ' '.join(obs['frames'][-1]))
  extra = ''
  if obs['hung']:
    extra = ' 9:h'   # a hung thread makes the log ill-framed on purpose
  if case['mode'] == 'read':
    bad = [v for vs in obs['results'].values() for v in vs if not isinstance(v, int)]
    if bad:
      extra += ' 9:d'
  return 'C13 L %d %s%s # -' % (len(obs['log']) + len(extra.split()), ' '.join(obs['log']), extra)


def classify(case, obs):
  if case['kind'] == 'R':
    return 'R/' + obs.split(':')[0]
  if case['kind'] == 'W':
    return 'W/' + case['timeout']
  if case['kind'] == 'M':
    return 'M/reused-message'
  return 'L/' + case['mode'] + ('/short-timeout' if case.get('short') else '')


def nontrivial_key(case, obs):
  return repr(sorted(case.items()))


ARGS = [0, 1, 2 ** 31, 2 ** 32 - 1]
LENS = [0, 1, 2, 255, 256, 4095, 4096]


def _payload(n, rng):
  return ''.join('%02x' % rng.randrange(256) for _ in range(n))


def _hdr_fields(cmd, a0, a1, datahex):
  data = usbstub.unhexs(datahex)
  w = sum(ord(c) << (8 * i) for i, c in enumerate(cmd))
  return [w, a0, a1, len(data), sum(ord(c) for c in data) & 0xFFFFFFFF, w ^ 0xFFFFFFFF]


def _pack(fields):
  return struct.pack('<6I', *fields).hex()


def gen_cases(rng, tier):
  cases = []
  # writes
  for cmd in CMDS:
    for a0, a1 in [(0, 0), (1, 2 ** 32 - 1), (2 ** 31, 1), (2 ** 32 - 1, 2 ** 31)]:
      for n in LENS if tier == 'thorough' else [0, 1, 255, 256, 4096]:
        cases.append({'kind': 'W', 'cmd': cmd, 'a0': a0, 'a1': a1, 'data': _payload(n, rng),
                      'timeout': rng.choice(['live', 'none', 'before', 'between'])})
  for t in ['live', 'none', 'before', 'between']:
    cases.append({'kind': 'W', 'cmd': 'WRTE', 'a0': 7, 'a1': 9, 'data': '68656c6c6f', 'timeout': t})
    cases.append({'kind': 'W', 'cmd': 'OKAY', 'a0': 7, 'a1': 9, 'data': '', 'timeout': t})
  # reads: valid frames and their corruptions
  base = []
  for cmd in CMDS:
    for a0, a1 in [(0, 0), (2 ** 32 - 1, 1), (5, 2 ** 31)]:
      for n in ([0, 1, 2, 255, 256, 4096] if tier == 'thorough' else [0, 2, 256]):
        base.append((cmd, a0, a1, _payload(n, rng)))
  for cmd, a0, a1, d in base:
    f = _hdr_fields(cmd, a0, a1, d)
    h = _pack(f)
    valid = [h] + ([d] if d else [])
    cases.append({'kind': 'R', 'script': valid, 'what': 'valid'})
    cases.append({'kind': 'R', 'script': valid + ['aa'], 'what': 'valid+trailing'})
    for i in range(6):
      for nv in {(f[i] + 1) % 2 ** 32, (f[i] - 1) % 2 ** 32, f[i] ^ 0x80000000, 0, 2 ** 32 - 1, f[i] ^ 0x100}:
        if nv == f[i]:
          continue
        g = list(f); g[i] = nv
        cases.append({'kind': 'R', 'script': [_pack(g)] + ([d] if d else []), 'what': 'field%d' % i})
    if d:
      cases.append({'kind': 'R', 'script': [h], 'what': 'payload-missing'})
      cases.append({'kind': 'R', 'script': [h, d[:-2]], 'what': 'payload-short'})
      cases.append({'kind': 'R', 'script': [h, d + '00'], 'what': 'payload-long'})
      cases.append({'kind': 'R', 'script': [h, d + '01'], 'what': 'payload-long-sum'})
      b0 = int(d[:2], 16)
      cases.append({'kind': 'R', 'script': [h, '%02x' % ((b0 + 1) % 256) + d[2:]], 'what': 'payload-byte'})
      if len(d) >= 4 and d[:2] != d[2:4]:
        cases.append({'kind': 'R', 'script': [h, d[2:4] + d[:2] + d[4:]], 'what': 'payload-swap(sum-preserving)'})
  cmd, a0, a1, d = 'WRTE', 3, 4, '0102'
  h = _pack(_hdr_fields(cmd, a0, a1, d))
  for k in range(0, 24):
    cases.append({'kind': 'R', 'script': [h[:2 * k], d], 'what': 'header-truncated'})
  cases.append({'kind': 'R', 'script': [h + '00', d], 'what': 'header-long'})
  cases.append({'kind': 'R', 'script': [], 'what': 'silence'})
  for _ in range(200 if tier == 'quick' else 3000):
    n = rng.choice([0, 1, 23, 24, 24, 24, 25])
    hh = ''.join('%02x' % rng.randrange(256) for _ in range(n))
    if n == 24 and rng.random() < 0.7:   # keep a known command so that later checks are reached
      f = list(struct.unpack('<6I', bytes.fromhex(hh)))
      f[0] = sum(ord(c) << (8 * i) for i, c in enumerate(rng.choice(CMDS)))
      if rng.random() < 0.5:
        f[3] = rng.randrange(0, 4)
      hh = _pack(f)
    cases.append({'kind': 'R', 'script': [hh] + [_payload(rng.randrange(0, 4), rng) for _ in range(rng.randrange(0, 3))],
                  'what': 'random'})
  # command words that other tables of the package know (filesync ids) are unknown ADB commands all the same
  for cmd in ('STAT', 'LIST', 'SEND', 'RECV', 'DENT', 'DONE', 'DATA', 'FAIL', 'QUIT'):
    for data in ('', '6162'):
      f = _hdr_fields('OKAY', 1, 2, data)
      w = sum(ord(c) << (8 * i) for i, c in enumerate(cmd))
      f[0], f[5] = w, w ^ 0xFFFFFFFF
      cases.append({'kind': 'R', 'script': [_pack(f)] + ([data] if data else []), 'what': 'foreign-command'})
  # concurrent writers / readers on a gated transport
  scheds = [list(s) for s in itertools.product([0, 1], repeat=4)]
  if tier == 'thorough':
    scheds += [list(s) for s in itertools.product([0, 1, 2], repeat=4)]
  for mode in ('write', 'read'):
    for s in scheds if tier == 'thorough' else scheds[::2] + [[0, 1, 0, 1], [1, 0, 1, 0]]:
      cases.append({'kind': 'L', 'mode': mode, 'threads': max(s) + 1 if max(s) > 0 else 2, 'schedule': s,
                    'msgs': 2 if sum(s) % 2 else 1})
  # a writer with a payload next to writers of header-only messages (acknowledgements)
  for s in ([0, 1, 0, 1], [0, 1, 1, 0], [1, 0, 1, 0], [0, 1, 2, 0], [1, 0, 0, 1], [0, 0, 1, 1], [1, 1, 0, 0], [2, 1, 0, 1]):
    cases.append({'kind': 'L', 'mode': 'write', 'threads': max(s) + 1, 'schedule': s, 'msgs': 1, 'acks': True})
  # a thread whose timeout runs out while it waits for the lock held by a thread that is between header and payload
  # (the controller waits 0.12 s for the thread it wants next, longer than the short timeout)
  for mode in ('write', 'read'):
    for s, short in (([0, 1, 1, 0], [1]), ([1, 0, 0, 1], [0]), ([0, 1, 0, 1], [1]), ([0, 1, 1, 0], [0, 1])):
      cases.append({'kind': 'L', 'mode': mode, 'threads': 2, 'schedule': s, 'msgs': 1, 'short': short, 'short_ms': 25})
  # one AdbMessage object written again after its public `data` attribute was replaced
  for i in range(6 if tier == 'quick' else 60):
    r = rng.derive('reuse%d' % i)
    cases.append({'kind': 'M', 'cmd': r.choice(['WRTE', 'OPEN']), 'a0': r.randrange(1, 99), 'a1': r.randrange(1, 99),
                  'datas': [_payload(r.choice([0, 1, 3, 7]), r) for _ in range(r.choice([2, 3]))]})
  return cases


def shrink(case):
  if case['kind'] == 'R':
    s = case['script']
    for i in range(len(s)):
      yield dict(case, script=s[:i] + s[i + 1:])


def known_match(entry, case, obs, msg):
  return msg.split(' ')[0] == entry['match']


MANIFEST = {
    'text': 'Proof: 11 Lean theorems: header = six little-endian words (format constant regenerated from source and '
            're-proved), wire commands pairwise distinct, read(write m) = m for every command of the list, all 32-bit '
            'args and every payload; whatever read_message delivers is consistent with its header (known command, '
            'length, checksum) for EVERY transport script, with the four named rejections as corollaries; the payload '
            'always follows the header; for every interleaving of any number of writers the transport log is a '
            'sequence of complete header-payload pairs (inductive invariant of the lock transition system). Tie: real '
            'AdbTransportAdapter over a fake transport on all boundary frames and all single-field corruptions and '
            'truncations, and real threads on a gated transport whose operations the controller releases in '
            'enumerated orders.',
    'note': 'Trusted: Lean kernel + standard axioms; fake/gated transports; Lean driver. Modelled not verified: '
            'struct.pack/unpack (compared byte-for-byte on every case), threading.Lock (mutual exclusion assumed in the '
            'writer LTS). The reader lock is a second LTS (header read, optional payload read, release at any point for exceptions) with its own theorem.',
}
