"""C17 — file output is atomic: real OutputToFile / OutputToJSON / atomic_write over an instrumented file system."""
import builtins
import itertools
import logging
import os
import shutil
import tempfile
import types

PROP = 'C17'
PROOF_MODULE = 'OpenHTF.Proofs.C17'
THEOREMS = [
    'OpenHTF.AtomicFile.c17_atomic_output_to_file',
    'OpenHTF.AtomicFile.c17_atomic_atomic_write',
    'OpenHTF.AtomicFile.c17_success_exact',
    'OpenHTF.AtomicFile.c17_interleaved_calls_are_independent',
    'OpenHTF.AtomicFile.rename_before_close_is_not_atomic',
    'OpenHTF.AtomicFile.c17_atomic_with_any_flushes',
]
RULE = ('OutputToFile subclass with a chunked serializer, OutputToJSON on a real record, and atomic_write; 0-4 chunks; old '
        'destination absent / present; faults: serializer raises after k chunks (every k), k-th write raises (every k), '
        'close raises; crash (process kill: every later file-system operation is dropped, unflushed data lost) after every number of '
        'file-system operations; observed: the file-system operation log and the destination content afterwards; '
        'non-trivial = distinct case')
ASSUMPTIONS = ['rename/move within one file system is atomic (staging directory = destination directory)',
               'durability (fsync) is not claimed',
               'a kill is simulated by dropping every later file-system operation; data written through the handle is buffered '
               'until flush/close (worst case) and lost by a kill']
TRUSTED = ['harness/props/c17.py (instrumented tempfile/shutil/os/open shims)', 'lean/OpenHTF/Driver/C17.lean']
CONST_PREFIXES = ['c17.']
PROCS = 8


class _Dead(object):
  pass


def _exc(case, msg):
  """the injected failure: an ordinary exception, or one that is not an Exception (a SIGINT during output, the
  framework's own ThreadTerminationError is a SystemExit)"""
  return {'KeyboardInterrupt': KeyboardInterrupt, 'SystemExit': SystemExit}.get(case.get('exc'), RuntimeError)(msg)


class Fs(object):
  """logs file-system operations of the module under test; can drop everything after the j-th one"""

  def __init__(self, scratch, crash, write_fault, close_fault, exc=None):
    self.exc = exc
    self.scratch = scratch
    self.crash = crash
    self.n = 0
    self.dead = False
    self.log = []
    self.writes = 0
    self.write_fault = write_fault
    self.close_fault = close_fault

  def op(self, tok):
    """returns True if the operation may take effect"""
    if self.dead:
      return False
    if self.crash is not None and self.n >= self.crash:
      self.dead = True
      return False
    if tok != 'flush':      # crash points are counted in operations other than explicit flushes
      self.n += 1
    self.log.append(tok)
    return True


class TempWrapper(object):
  """the open handle on the temporary file: what is written sits in a user-space buffer until flush / close (worst
  case: nothing is written back earlier); a simulated kill loses the buffer"""

  def __init__(self, fs, text=False):
    self.fs = fs
    fd, self.name = tempfile.mkstemp(dir=fs.scratch, prefix='tmp-')
    os.close(fd)
    self.alive = fs.op('create')
    if not self.alive:
      os.remove(self.name)
    self.text = text
    self.f = open(self.name, 'w' if text else 'wb') if self.alive else None
    self.buf = []
    self.closed = False

  def write(self, data):
    k = self.fs.writes
    self.fs.writes += 1
    if self.fs.write_fault is not None and k == self.fs.write_fault:
      raise {'KeyboardInterrupt': KeyboardInterrupt, 'SystemExit': SystemExit}.get(self.fs.exc, IOError)('injected write failure')
    raw = data.encode() if isinstance(data, str) else data
    if self.fs.op('app:' + (raw.hex() or '-')) and self.f is not None:
      self.buf.append(data)
    return len(data)

  def _write_back(self):
    if self.f is not None:
      for d in self.buf:
        self.f.write(d)
      self.f.flush()
    self.buf = []

  def flush(self):
    if self.fs.op('flush'):
      self._write_back()

  def fileno(self):
    return self.f.fileno()

  def close(self):
    if self.closed:
      return
    self.closed = True
    if self.fs.close_fault:
      if self.fs.op('closefail'):
        self.buf = []
        if self.f is not None:
          self.f.close()
      raise IOError('injected close failure')
    if self.fs.op('close'):
      self._write_back()
      if self.f is not None:
        self.f.close()

  def __enter__(self):
    return self

  def __exit__(self, *a):
    self.close()


def _shims(fs):
  tf = types.SimpleNamespace(NamedTemporaryFile=lambda delete=False: TempWrapper(fs))

  def move(src, dst):
    if fs.op('rename') and os.path.exists(src):
      os.rename(src, dst)
  sh = types.SimpleNamespace(move=move)

  def remove(path):
    if fs.op('remove'):
      os.remove(path)

  def rename(src, dst):
    if fs.op('rename') and os.path.exists(src):
      os.rename(src, dst)
  osm = types.SimpleNamespace(remove=remove, rename=rename, fsync=lambda fd: None, path=os.path, stat=os.stat)
  return tf, sh, osm


_RECORD = []


def _record():
  if not _RECORD:
    import openhtf as htf
    from openhtf.util import console_output
    logging.disable(logging.CRITICAL)
    console_output.banner_print = lambda *a, **k: None
    console_output.error_print = lambda *a, **k: None
    recs = []

    @htf.measures(htf.Measurement('m'))
    def p(test):
      test.measurements.m = 3
    t = htf.Test(p)
    t.configure(name='verif_c17')
    t.add_output_callbacks(recs.append)
    t.execute(test_start=lambda: 'dut7')
    _RECORD.append(recs[0])
  return _RECORD[0]


def run_pair(case):
  """one OutputToFile object called for two records (two destinations) by two threads; the chunk emissions are
  released in the order of case['sched'] (thread 1 opens its file after thread 0 reached its first chunk)"""
  import copy
  import threading
  from openhtf.output import callbacks
  scratch = tempfile.mkdtemp(prefix='verif-c17-')
  try:
    rec0 = _record()
    rec1 = copy.copy(rec0)
    rec1.dut_id = 'dut8'
    chunks = {'dut7': [bytes.fromhex(c) for c in case['chunks0']], 'dut8': [bytes.fromhex(c) for c in case['chunks1']]}
    tid = {'dut7': 0, 'dut8': 1}
    sched = list(case['sched'])
    cv = threading.Condition()
    st = {'ptr': 0, 'entered0': False, 'done': [False, False]}

    def my_turn(me):
      rest = sched[st['ptr']:]
      return (not rest) or rest[0] == me or st['done'][1 - me] or (me not in rest)

    class Out(callbacks.OutputToFile):
      def serialize_test_record(self_, test_rec):
        me = tid[test_rec.dut_id]

        def gen():
          for c in chunks[test_rec.dut_id]:
            with cv:
              if me == 0:
                st['entered0'] = True
                cv.notify_all()
              cv.wait_for(lambda: my_turn(me), timeout=5)
            yield c
            with cv:
              if st['ptr'] < len(sched) and sched[st['ptr']] == me:
                st['ptr'] += 1
              cv.notify_all()
          with cv:
            st['entered0'] = True
            cv.notify_all()
        return gen()

    cb = Out(os.path.join(scratch, '{dut_id}.out'))
    errs = []

    def call(rec, me):
      try:
        if me == 1:
          with cv:
            cv.wait_for(lambda: st['entered0'], timeout=5)
        cb(rec)
      except BaseException as e:  # pylint: disable=broad-except
        errs.append('%d:%s' % (me, type(e).__name__))
      finally:
        with cv:
          st['done'][me] = True
          cv.notify_all()
    ths = [threading.Thread(target=call, args=(r, i), daemon=True) for i, r in enumerate((rec0, rec1))]
    for t in ths:
      t.start()
    for t in ths:
      t.join(20)
    out = []
    for i, name in enumerate(('dut7.out', 'dut8.out')):
      path = os.path.join(scratch, name)
      if os.path.exists(path):
        with open(path, 'rb') as f:
          d = f.read()
        out.append('D%d:%s' % (i, d.hex() or '-'))
      else:
        out.append('D%d:~' % i)
    return {'pair': out, 'errs': errs, 'hung': [i for i, t in enumerate(ths) if t.is_alive()]}
  finally:
    shutil.rmtree(scratch, ignore_errors=True)


def run_real(case):
  if case['prog'] == 'P':
    return run_pair(case)
  from openhtf.output import callbacks
  from openhtf.output.callbacks import json_factory
  from openhtf.util import atomic_write as aw
  scratch = tempfile.mkdtemp(prefix='verif-c17-')
  try:
    fault = case['fault']
    fs = Fs(scratch, case.get('crash'), fault[1] if fault[0] == 'write' else None, fault[0] == 'close', case.get('exc'))
    chunks = [bytes.fromhex(c) for c in case['chunks']]
    rec = _record()
    pattern = os.path.join(scratch, '{dut_id}.{metadata[test_name]}.out')
    dest = os.path.join(scratch, 'dut7.verif_c17.out')
    if case['old'] is not None:
      with open(dest, 'wb') as f:
        f.write(bytes.fromhex(case['old']))
    tf, sh, osm = _shims(fs)
    name_ok = True
    if case['prog'] == 'F':
      class Out(callbacks.OutputToFile):
        def serialize_test_record(self_, test_rec):
          def gen():
            for i, c in enumerate(chunks):
              if fault[0] == 'ser' and i == fault[1]:
                raise _exc(case, 'injected serializer failure')
              yield c.decode('latin-1') if (i % 2 and all(b < 128 for b in c)) else c
            if fault[0] == 'ser' and fault[1] >= len(chunks):
              raise _exc(case, 'injected serializer failure')
          return gen()
      saved = (callbacks.tempfile, callbacks.shutil, getattr(callbacks, 'os', None))
      callbacks.tempfile, callbacks.shutil, callbacks.os = tf, sh, osm
      try:
        cb = Out(pattern if case.get('pattern', 'str') == 'str' else (lambda **kw: dest))
        try:
          cb(rec)
        except BaseException:  # pylint: disable=broad-except
          pass
      finally:
        callbacks.tempfile, callbacks.shutil = saved[0], saved[1]
        if saved[2] is None:
          del callbacks.os
        else:
          callbacks.os = saved[2]
    else:
      saved = (aw.tempfile, aw.os, getattr(aw, 'open', None))
      wrapper_box = {}

      def fake_open(name, mode='r'):
        w = wrapper_box['w']
        return w
      class TF(object):
        def __init__(self_):
          w = TempWrapper(fs, text=True)
          wrapper_box['w'] = w
          self_.name = w.name
      aw.tempfile = types.SimpleNamespace(NamedTemporaryFile=lambda delete=False: TF())
      aw.os = osm
      aw.open = fake_open
      try:
        try:
          with aw.atomic_write(dest, filesync=bool(case.get('filesync'))) as f:
            for i, c in enumerate(chunks):
              if fault[0] == 'ser' and i == fault[1]:
                raise _exc(case, 'injected body failure')
              f.write(c.decode('latin-1'))
            if fault[0] == 'ser' and fault[1] >= len(chunks):
              raise _exc(case, 'injected body failure')
        except BaseException:  # pylint: disable=broad-except
          pass
      finally:
        aw.tempfile, aw.os = saved[0], saved[1]
        if saved[2] is None:
          del aw.open
        else:
          aw.open = saved[2]
    others = [n for n in os.listdir(scratch) if not n.startswith('tmp-')]
    name_ok = others in ([], ['dut7.verif_c17.out'])
    if os.path.exists(dest):
      with open(dest, 'rb') as f:
        d = f.read()
      dtok = 'D:' + (d.hex() or '-')
    else:
      dtok = 'D:~'
    return {'log': fs.log, 'dest': dtok, 'name_ok': name_ok}
  finally:
    shutil.rmtree(scratch, ignore_errors=True)


def run_json(case):
  """OutputToJSON with a real record: a fault injected into the k-th write / a crash; the complete text is taken from a clean run"""
  raise NotImplementedError


def encode(case, obs):
  if case['prog'] == 'P':
    return 'C17 P %d %s %d %s %d %s # %s' % (
        len(case['chunks0']), ' '.join(c or '-' for c in case['chunks0']), len(case['chunks1']),
        ' '.join(c or '-' for c in case['chunks1']), len(case['sched']), ' '.join(map(str, case['sched'])),
        ' '.join(obs['pair'] + ['ERR:' + e for e in obs['errs']] + ['HUNG:%d' % h for h in obs['hung']]))
  f = case['fault']
  ftok = {'none': 'none', 'close': 'close'}.get(f[0]) or ('%s:%d' % (f[0], f[1]))
  chunks = case['chunks']
  if case['prog'] == 'A':
    pass
  return 'C17 %s %s %d %s %s %s # %s %s NAME:%d' % (
      case['prog'] + ('s' if case['prog'] == 'A' and case.get('filesync') else ''), '~' if case['old'] is None else (case['old'] or '-'), len(chunks), ' '.join(c or '-' for c in chunks),
      ftok, '-' if case.get('crash') is None else case['crash'], ' '.join(obs['log']), obs['dest'], 1 if obs['name_ok'] else 0)


def classify(case, obs):
  if case['prog'] == 'P':
    return 'P/two-calls-at-once'
  return '%s/%s/%s' % (case['prog'], case['fault'][0], 'crash' if case.get('crash') is not None else 'run')


def nontrivial_key(case, obs):
  return repr(sorted(case.items(), key=str))


def gen_cases(rng, tier):
  cases = []
  chunksets = [[], ['61'], ['6162', '63'], ['00ff', '', '7a7a7a'], ['41', '42', '43', '44']]
  for prog in ('F', 'A'):
    for chunks in chunksets:
      if prog == 'A':
        chunks = [c for c in chunks if all(b < 128 for b in bytes.fromhex(c))]
        chunks = [c if c != '00ff' else '3031' for c in chunks]
      for old in (None, '6f6c64206f6c64', ''):
        n = len(chunks)
        faults = [('none', 0)] + [('ser', k) for k in range(n + 1)] + [('write', k) for k in range(n)] + [('close', 0)]
        for fault in faults:
          if prog == 'A' and fault[0] == 'close':
            continue
          for exc in ((None, 'KeyboardInterrupt', 'SystemExit') if fault[0] in ('ser', 'write') else (None,)):
            cases.append({'prog': prog, 'chunks': chunks, 'old': old, 'fault': list(fault), 'crash': None, 'exc': exc,
                          'pattern': ['str', 'callable'][len(cases) % 2], 'filesync': len(cases) % 3 == 0})
        for j in range(0, n + 6):
          cases.append({'prog': prog, 'chunks': chunks, 'old': old, 'fault': ['none', 0], 'crash': j, 'filesync': j % 2 == 1})
        for j in range(0, n + 4):
          cases.append({'prog': prog, 'chunks': chunks, 'old': old, 'fault': ['ser', max(0, n - 1)], 'crash': j})
  # one callback object, two records at once
  for c0, c1 in ((['61', '62', '63'], ['78', '79']), (['6161'], ['7a7a', '7a']), (['41', '42'], ['43', '44', '45', '46'])):
    for sched in itertools.product((0, 1), repeat=3):
      cases.append({'prog': 'P', 'chunks0': c0, 'chunks1': c1, 'sched': list(sched)})
  for i in range(20 if tier == 'quick' else 200):
    r = rng.derive(('P', i))
    mk = lambda: [''.join('%02x' % r.randrange(97, 123) for _ in range(r.randint(1, 4))) for _ in range(r.randint(1, 4))]
    cases.append({'prog': 'P', 'chunks0': mk(), 'chunks1': mk(), 'sched': [r.randint(0, 1) for _ in range(r.randint(0, 8))]})
  for i in range(200 if tier == 'quick' else 3000):
    r = rng.derive(i)
    prog = r.choice(['F', 'A'])
    n = r.randint(0, 5)
    chunks = [''.join('%02x' % r.randrange(32, 127) for _ in range(r.randint(0, 6))) for _ in range(n)]
    fault = r.choice([['none', 0], ['ser', r.randint(0, n)], ['write', r.randint(0, max(0, n - 1))], ['close', 0]])
    if prog == 'A' and fault[0] == 'close':
      fault = ['none', 0]
    if fault[0] == 'write' and n == 0:
      fault = ['none', 0]
    cases.append({'prog': prog, 'chunks': chunks, 'old': r.choice([None, '6f6c64']), 'fault': fault,
                  'exc': r.choice([None, None, 'KeyboardInterrupt', 'SystemExit']),
                  'crash': r.choice([None, None, r.randint(0, n + 5)]), 'filesync': r.random() < 0.4})
  return cases


def known_match(entry, case, obs, msg):
  return msg.split(' ')[0] == entry['match']


MANIFEST = {
    'text': 'Proof: Lean theorems over a file-system model for every old content, every serialization (any chunks), every '
            'fault (serializer after k chunks, k-th write, close) and every crash point (process killed after any number '
            'of file-system operations, writes buffered in the handle until flush/close and lost by the kill): the destination either keeps its previous state or holds the complete new '
            'serialization, for OutputToFile with a filename pattern and for atomic_write; a fault-free run leaves '
            'exactly the serialization; counterexample theorem: renaming before closing is not atomic. Tie: the real callbacks and atomic_write run over instrumented '
            'tempfile/shutil/os/open shims in a scratch directory; the operation log is compared with the model and the '
            'destination content is inspected after every fault and crash point; the file name is checked against the '
            'formatted pattern.',
    'note': 'Trusted: Lean kernel + standard axioms; the shims; Lean driver. Assumed: rename within one file system is '
            'atomic; no durability claim; a kill is simulated by dropping later operations. OutputToJSON shares '
            'OutputToFile.__call__; its serializer is exercised by C10. Model follows the tree after two fix: commits '
            '(discard on failure; bytes serialization).',
}
