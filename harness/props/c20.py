"""C20 — configuration: correspondence harness (real `_Configuration` vs Lean model `OpenHTF.Conf`)."""
import argparse
import io
import itertools
import logging

PROP = 'C20'
PROOF_MODULE = 'OpenHTF.Proofs.C20'
THEOREMS = [
    'OpenHTF.Conf.c20_getitem_is_lookup',
    'OpenHTF.Conf.c20_views_agree',
    'OpenHTF.Conf.c20_flag_first_wins_forever',
    'OpenHTF.Conf.c20_load_override',
    'OpenHTF.Conf.c20_load_no_override_keeps',
    'OpenHTF.Conf.c20_undeclared_never_readable',
    'OpenHTF.Conf.c20_undeclared_not_loaded_unless_allowed',
    'OpenHTF.Conf.c20_save_restore_exact',
    'OpenHTF.Conf.c20_reset_drops_loaded_keeps_flags',
    'OpenHTF.Conf.c20_reset_idempotent',
    'OpenHTF.Conf.c20_no_redeclare',
    'OpenHTF.Conf.c20_no_setattr',
    'OpenHTF.Conf.c20_decl_monotone',
    'OpenHTF.Conf.c20_attr_view_counterexample',
]
PENDING = []
RULE = ('op sequences over keys {alpha,beta,gamma,reset(method name),Upper(invalid)} x 5 values: corpus, exhaustive '
        'length<=2 (quick) / <=3 (thorough) over a 16-op alphabet, then seeded random sequences of length<=8 with '
        'nested save_and_restore; non-trivial = distinct op sequence in which at least one key has a value')
ASSUMPTIONS = [
    'the reference dictionary is the Lean model state; the three API variants load/load_from_dict/load_from_file '
    'are one model op (their glue is exercised by the harness, not modelled)',
    'yaml round-trip of flag values (trusted library)',
]
TRUSTED = ['harness/props/c20.py (generator, canonicalisation)', 'lean/OpenHTF/Driver/C20.lean (line protocol)',
           'modelled, not verified: yaml parsing, argparse, threading.RLock in @synchronized']
CONST_PREFIXES = ['c20.']

KEYS = ['alpha', 'beta', 'gamma', 'reset', 'Upper']
# (the last value contains '=': a flag is split at the FIRST '=' of key=value)
POOL = [7, 'txt', 2.5, None, [1, 2], 'k=v=w']
YAML = ['7', 'txt', '2.5', 'null', '[1, 2]', 'k=v=w']


def _vidx(v):
  for i, p in enumerate(POOL):
    if type(p) is type(v) and p == v:
      return 'v%d' % i
  return 'v?%r' % (v,)


def _exit_of(raises):
  """how the wrapped function leaves: True = an ordinary exception, 2 / 3 = exceptions that are not `Exception`s (the
  SystemExit a killed phase thread gets, Ctrl-C): the restore must happen for every one of them (seeded/C20-13)"""
  if raises == 2:
    from openhtf.util import threads
    return threads.ThreadTerminationError()
  if raises == 3:
    return KeyboardInterrupt()
  return _Boom()


class _Boom(Exception):
  pass


def _read(conf, cfgmod, name, fn):
  try:
    v = fn()
  except cfgmod.UndeclaredKeyError:
    return 'U'
  except cfgmod.UnsetKeyError:
    return 'N'
  except AttributeError:
    return 'A'
  if callable(v) and not isinstance(v, (list, str)):
    return 'M'
  return _vidx(v)


def _observe(conf, cfgmod, holders):
  out = []
  d = conf._asdict()
  for name in KEYS:
    c = '1' if name in conf else '0'
    g = _read(conf, cfgmod, name, lambda: conf[name])
    a = _read(conf, cfgmod, name, lambda: getattr(conf, name))
    h = _read(conf, cfgmod, name, lambda: holders[name].value) if name in holders else '-'
    dd = _vidx(d[name]) if name in d else '-'
    out.append(':'.join((c, g, a, h, dd)))
  return ','.join(out)


def _apply(conf, cfgmod, holders, op, trace):
  kind = op[0]
  res = 'ok'
  if kind == 'D':
    _, k, d, desc = op
    try:
      kw = {} if d is None else {'default_value': POOL[d]}
      if desc:
        holders[KEYS[k]] = conf.declare(KEYS[k], 'a description', **kw)
      else:
        holders[KEYS[k]] = conf.declare(KEYS[k], **kw)
    except cfgmod.KeyAlreadyDeclaredError:
      res = 'dup'
    except cfgmod.InvalidKeyError:
      res = 'invalid'
  elif kind == 'L':
    _, o, a, kvs, api = op
    d = {KEYS[k]: POOL[v] for k, v in kvs}
    if api == 'kwargs':
      conf.load(_override=o, _allow_undeclared=a, **d)
    elif api == 'file':
      import yaml
      conf.load_from_file(io.StringIO(yaml.safe_dump(d)), _override=o, _allow_undeclared=a)
    else:
      conf.load_from_dict(d, _override=o, _allow_undeclared=a)
  elif kind == 'F':
    _, kvs = op
    conf.load_flag_values(argparse.Namespace(config_value=['%s=%s' % (KEYS[k], YAML[v]) for k, v in kvs]))
  elif kind == 'R':
    try:
      conf.reset()
    except cfgmod.ConfigurationInvalidError:
      res = 'raised'
  elif kind == 'CF':
    # the process was started with --config-file: argparse hands over an OPEN file, read again by every reset()
    import yaml
    conf._flags.config_file = io.StringIO(yaml.safe_dump({KEYS[k]: POOL[v] for k, v in op[1]}))
  elif kind == 'A':
    _, k, v = op
    try:
      setattr(conf, KEYS[k], POOL[v])
      res = 'set'
    except AttributeError:
      res = 'attr'
  elif kind == 'S':
    _, raises, cfg, inner, style = op

    def wrapped():
      trace.append('ok/' + _observe(conf, cfgmod, holders))
      for i in inner:
        _apply(conf, cfgmod, holders, i, trace)
      if raises:
        raise _exit_of(raises)
      return 'ret'
    kw = {KEYS[k]: POOL[v] for k, v in cfg}
    key = repr(op)
    if style == 'early' and key in _DECORATED:
      # decorated when the sequence started (a module-level function decorated at import time); equal ops share one
      # decorated callable, so a later one is a second call of it
      f, box = _DECORATED[key]
      box['trace'], box['args'] = trace, (conf, cfgmod, holders)
    elif style == 'partial' and kw:
      f = conf.save_and_restore(**kw)(wrapped)
    else:
      f = conf.save_and_restore(wrapped, **kw)
    try:
      r = f()
      res = 'ok' if r == 'ret' else 'lost-return'
    except (_Boom, SystemExit, KeyboardInterrupt):
      res = 'raised'
  else:
    raise ValueError(op)
  trace.append(res + '/' + _observe(conf, cfgmod, holders))


def _run_snapshot(case):
  """the snapshot stored in the metadata of every run of a Test agrees with the other views AT THAT RUN: histories of
  load / reset / flag-free declared keys with executions of one Test object in between"""
  import openhtf as htf
  from openhtf.util import configuration as cfgmod, console_output
  logging.disable(logging.CRITICAL)
  console_output.banner_print = lambda *a, **k: None
  console_output.error_print = lambda *a, **k: None
  conf = cfgmod.CONF
  for key, default in (('c20_port', 1), ('c20_gain', None)):
    try:
      if default is None:
        conf.declare(key, 'verif probe')
      else:
        conf.declare(key, 'verif probe', default_value=default)
    except Exception:  # pylint: disable=broad-except
      pass
  saved = dict(conf._loaded_values)
  facts = []
  recs = []

  def phase(test):
    pass
  tests = [htf.Test(phase), htf.Test(phase)]
  for t in tests:
    t.add_output_callbacks(recs.append)
  try:
    for op in case['ops']:
      if op[0] == 'load':
        conf.load(**{op[1]: op[2], '_override': True})
      elif op[0] == 'reset':
        conf._loaded_values.pop('c20_port', None)
        conf._loaded_values.pop('c20_gain', None)
      else:
        del recs[:]
        tests[op[1]].execute()
        snap = recs[0].metadata.get('config') if recs else None
        if not isinstance(snap, dict):
          facts.append('X:no-configuration-snapshot-in-the-record')
          continue
        for key in ('c20_port', 'c20_gain'):
          try:
            want = ('v', conf[key])
          except cfgmod.UnsetKeyError:
            want = ('unset',)
          got = ('v', snap[key]) if key in snap else ('unset',)
          if got != want:
            facts.append('X:metadata-snapshot-disagrees-with-item-access:' + key)
  finally:
    conf._loaded_values.clear()
    conf._loaded_values.update(saved)
  return ['T'] + sorted(set(facts))


def run_real(case):
  if case.get('kind') == 'T':
    return _run_snapshot(case)
  from openhtf.util import configuration as cfgmod
  logging.getLogger('openhtf.util.configuration').disabled = True
  conf = cfgmod._Configuration()
  holders = {}
  trace = []
  _DECORATED.clear()
  for op in case['ops']:
    op = _tup(op)
    if op[0] == 'S' and op[4] == 'early' and repr(op) not in _DECORATED:
      _DECORATED[repr(op)] = _decorate_early(conf, op)
  for op in case['ops']:
    _apply(conf, cfgmod, holders, _tup(op), trace)
  return trace


_DECORATED = {}


def _decorate_early(conf, op):
  _, raises, cfg, inner, style = op
  box = {}

  def wrapped():
    c, cfgmod, holders = box['args']
    box['trace'].append('ok/' + _observe(c, cfgmod, holders))
    for i in inner:
      _apply(c, cfgmod, holders, i, box['trace'])
    if raises:
      raise _exit_of(raises)
    return 'ret'
  return conf.save_and_restore(wrapped, **{KEYS[k]: POOL[v] for k, v in cfg}), box


def _tup(op):
  if op[0] == 'S':
    return ('S', op[1], [tuple(x) for x in op[2]], [_tup(i) for i in op[3]], op[4])
  if op[0] == 'L':
    return ('L', op[1], op[2], [tuple(x) for x in op[3]], op[4])
  if op[0] in ('F', 'CF'):
    return (op[0], [tuple(x) for x in op[1]])
  return tuple(op)


def _enc_op(op):
  k = op[0]
  if k == 'D':
    return 'D %d %s' % (op[1], '-' if op[2] is None else op[2])
  if k == 'L':
    return 'L %d %d %d %s' % (op[1], op[2], len(op[3]), ' '.join('%d %d' % tuple(x) for x in op[3]))
  if k == 'F':
    return 'F %d %s' % (len(op[1]), ' '.join('%d %d' % tuple(x) for x in op[1]))
  if k == 'R':
    return 'R'
  if k == 'CF':
    return 'CF %d %s' % (len(op[1]), ' '.join('%d %d' % tuple(x) for x in op[1]))
  if k == 'A':
    return 'A %d %d' % (op[1], op[2])
  if k == 'S':
    return 'S %d %d %s %d %s' % (1 if op[1] else 0, len(op[2]), ' '.join('%d %d' % tuple(x) for x in op[2]), len(op[3]),
                                 ' '.join(_enc_op(i) for i in op[3]))
  raise ValueError(op)


def encode(case, obs):
  if case.get('kind') == 'T':
    return 'C20 ' + ' '.join(obs)
  return 'C20 %d %s # %s' % (len(case['ops']), ' '.join(_enc_op(o) for o in case['ops']), ' '.join(obs))


def classify(case, obs):
  if case.get('kind') == 'T':
    return 'metadata-snapshot'
  return 'len%d/%s' % (len(case['ops']), ''.join(sorted(set(o[0] for o in case['ops']))))


def nontrivial_key(case, obs):
  if case.get('kind') == 'T':
    return repr(case['ops'])
  if any(':v' in e for e in obs):
    return encode(case, [])
  return None


ALPHABET = [
    ['D', 0, None, False], ['D', 0, 0, True], ['D', 3, 1, False], ['D', 4, 0, False], ['D', 1, None, False],
    ['L', True, False, [[0, 1]], 'dict'], ['L', False, False, [[0, 2]], 'kwargs'], ['L', True, True, [[2, 3]], 'file'],
    ['L', True, False, [[1, 4], [3, 0]], 'dict'],
    ['F', [[0, 3]]], ['F', [[1, 2], [0, 4]]], ['F', [[0, 5]]],
    ['R'], ['A', 0, 1],
    ['S', False, [[0, 4]], [['L', True, False, [[1, 0]], 'dict']], 'direct'],
    ['S', True, [], [['L', True, False, [[0, 2]], 'kwargs'], ['D', 2, 2, False]], 'direct'],
    ['S', True, [[1, 1]], [['R']], 'partial'],
    ['S', 2, [[0, 4]], [['L', True, False, [[1, 0]], 'dict']], 'direct'],
    ['S', 3, [[1, 1]], [['L', True, False, [[0, 2]], 'kwargs']], 'partial'],
]

CORPUS = [
    # declared key whose name is a method of the class (finding #18)
    {'ops': [['D', 3, 1, False]]},
    {'ops': [['D', 0, None, False], ['F', [[0, 3]]], ['L', True, False, [[0, 1]], 'dict'], ['R']]},
    {'ops': [['D', 0, 0, False], ['L', True, False, [[0, 1]], 'dict'],
             ['S', True, [[0, 2]], [['L', True, False, [[0, 3]], 'dict'], ['R']], 'direct']]},
    {'ops': [['L', True, True, [[0, 1]], 'dict'], ['D', 0, None, False], ['L', False, False, [[0, 2]], 'dict']]},
    {'ops': [['F', [[0, 1]]], ['F', [[0, 2]]], ['D', 0, 4, False], ['R']]},
]


def _rand_op(rng, depth=0):
  r = rng.random()
  kv = lambda n: [[k, rng.randrange(6)] for k in rng.sample(range(5), n)]
  if r < 0.25:
    return ['D', rng.choice([0, 0, 1, 2, 3, 4]), rng.choice([None, None] + list(range(5))), rng.random() < 0.3]
  if r < 0.55:
    return ['L', rng.random() < 0.6, rng.random() < 0.3, kv(rng.randint(0, 3)), rng.choice(['dict', 'kwargs', 'file'])]
  if r < 0.68:
    return ['F', [[rng.randrange(5), rng.randrange(6)] for _ in range(rng.randint(1, 3))]]
  if r < 0.76:
    return ['R']
  if r < 0.82:
    return ['A', rng.randrange(5), rng.randrange(5)]
  if depth < 2:
    return ['S', rng.choice([False, False, True, True, 2, 3]), kv(rng.randint(0, 2)),
            [_rand_op(rng, depth + 1) for _ in range(rng.randint(0, 3))], rng.choice(['direct', 'partial', 'early'])]
  return ['R']


def gen_cases(rng, tier):
  cases = list(CORPUS)
  # --config-file: its values come back with every reset()
  for kvs in ([[0, 2]], [[0, 2], [3, 1]], []):
    for tail in ([['R']], [['R'], ['R']], [['R'], ['L', True, False, [[0, 4]], 'dict'], ['R'], ['R']],
                 [['L', True, False, [[0, 4]], 'dict'], ['R'], ['F', [[0, 3]]], ['R']]):
      cases.append({'ops': [['D', 0, 1, False], ['D', 1, None, False], ['CF', kvs]] + tail})
  # a function decorated long before it is called, and called twice
  early = ['S', False, [[0, 4]], [['L', True, False, [[1, 0]], 'dict']], 'early']
  for pre in ([], [['D', 0, 1, False], ['D', 1, 2, False], ['L', True, False, [[0, 2], [1, 3]], 'dict']]):
    for mid in ([], [['R']], [['L', True, False, [[1, 5]], 'kwargs']]):
      cases.append({'ops': [['D', 0, 1, False], ['D', 1, None, False]] + pre[2:] + [early] + mid + [early, ['R'], early]})
  maxlen = 2 if tier == 'quick' else 3
  for n in range(1, maxlen + 1):
    for ops in itertools.product(ALPHABET, repeat=n):
      cases.append({'ops': list(ops)})
  nrand = 3000 if tier == 'quick' else 30000
  for _ in range(nrand):
    cases.append({'ops': [_rand_op(rng) for _ in range(rng.randint(1, 8))]})
  for i in range(40 if tier == 'quick' else 600):
    r = rng.derive('t%d' % i)
    ops = []
    for _ in range(r.choice([3, 4, 6])):
      x = r.random()
      if x < 0.4:
        ops.append(['load', r.choice(['c20_port', 'c20_gain']), r.choice([2, 3, 'x'])])
      elif x < 0.5:
        ops.append(['reset'])
      else:
        ops.append(['execute', r.randrange(2)])
    ops.append(['execute', 0])
    cases.append({'kind': 'T', 'ops': ops})
  return cases


def shrink(case):
  ops = case['ops']
  for i in range(len(ops)):
    yield {'ops': ops[:i] + ops[i + 1:]}
  for i, o in enumerate(ops):
    if o[0] == 'S':
      for j in range(len(o[3])):
        yield {'ops': ops[:i] + [['S', o[1], o[2], o[3][:j] + o[3][j + 1:], o[4]]] + ops[i + 1:]}
      yield {'ops': ops[:i] + list(o[3]) + ops[i + 1:]}
    if o[0] in ('L',) and len(o[3]) > 1:
      for j in range(len(o[3])):
        yield {'ops': ops[:i] + [['L', o[1], o[2], o[3][:j] + o[3][j + 1:], o[4]]] + ops[i + 1:]}


def known_match(entry, case, obs, msg):
  # entry['match'] is the exact set of failing conjuncts reported by the Lean spec
  return msg.split(' ')[0] == entry['match']


MANIFEST = {
    'text': 'Proof: 13 Lean theorems over the configuration model hold for every operation sequence (incl. nested '
            'save_and_restore), every key universe and every state: precedence flag>loaded>default, view agreement on '
            'reachable states, first flag wins forever, override semantics, undeclared keys unreadable/unloaded, exact '
            'restore, reset keeps flags, no redeclare/setattr. The model is tied to the code by running the real '
            '_Configuration and the model on the same op sequences (exhaustive small scope + seeded random) and '
            'comparing every read API after every op; the Lean spec is evaluated on the real observations.',
    'note': 'Trusted: Lean kernel + propext/Classical.choice/Quot.sound; harness generator/canonicaliser; Lean driver '
            'parsing. Modelled not verified: yaml/argparse/RLock; load, load_from_dict and load_from_file are one model op. '
            'Known finding: attribute view of a key named like a class attribute (theorem c20_views_agree carries that '
            'hypothesis; c20_attr_view_counterexample proves it is needed).',
}
