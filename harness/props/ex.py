"""Development tool (not a property): plain model/implementation comparison of the executor model."""
from harness import exec_common as ec

PROP = 'EX'
PROOF_MODULE = 'OpenHTF.Model.Exec'
THEOREMS = []
RULE = 'random trees'
PROCS = 12


def run_real(case):
  out = ec.run_test_case(case)
  return {'tokens': ec.core_tokens(out['tokens']), 'ret': out['ret'], 'crashes': out['crashes']}


def encode(case, obs):
  return 'EX %s # %s' % (ec.clean(ec.enc_test(case)), ' '.join(obs['tokens']))


def gen_cases(rng, tier):
  cases = []
  for i in range(600 if tier == 'quick' else 6000):
    g = ec.Gen(rng.derive(i))
    cases.append(g.case(depth=rng.choice([1, 2, 3]), width=rng.choice([1, 2, 3, 4])))
  return cases


def known_match(entry, case, obs, msg):
  return False
