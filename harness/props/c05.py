"""C05 — phase result -> outcome mapping, repeat limit, run_if (shared executor harness)."""
import itertools

from harness import exec_common as ec

PROP = 'C05'
PROOF_MODULE = 'OpenHTF.Proofs.C05'
THEOREMS = [
    'OpenHTF.Exec.c05_default_repeat_limit',
    'OpenHTF.Exec.c05_outcome_table',
    'OpenHTF.Exec.c05_error_iff_terminal',
    'OpenHTF.Exec.c05_diagnosers_all_run_once',
    'OpenHTF.Exec.c05_one_record_per_invocation_at_most_limit',
    'OpenHTF.Exec.c05_reinvoked_only_for',
    'OpenHTF.Exec.c05_runif_false_no_body_no_record',
    'OpenHTF.Exec.c05_runif_false_ends_the_loop',
]
RULE = ('one phase under test with behaviour sequences of length<=4 over raw(10) x measurement summary(6) x diagnoser '
        'summary(4), option sets (repeat_limit in {None,1,2,3,4}, force_repeat, repeat_on_measurement_fail, '
        'repeat_on_timeout, stop_on_measurement_fail, run_if scripts) in positions first / after a FAIL phase / inside a '
        'subtest / inside a failed subtest / in a teardown / under stop_on_first_failure / as test_start; plus random '
        'trees; non-trivial = distinct case in which at least one body ran')
ASSUMPTIONS = ['phase timeout cases use timeout_s=0.25 s real time with the poll interval patched to 4 ms',
               'phase ids are unique per tree (a phase object is visited once per run)']
TRUSTED = ['harness/exec_common.py (tree builder, scripted bodies/diagnosers, canonicalisation)',
           'lean/OpenHTF/Driver/Exec.lean, Driver/C05.lean (parser, spec evaluation on the real observation)',
           'modelled not verified: thread start/join, kill delivery, logging']
CONST_PREFIXES = ['c05.']
PROCS = 12

RAWS = ['cont', 'failcont', 'rep', 'skip', 'stop', 'failsub', 'invalid', 'exc', 'fexc', 'timeout']
MEAS = [[], ['pass'], ['fail'], ['unset'], ['praise'], ['pfail'], ['pass', 'ppass']]
DIAGS = [[], [[[0, False]]], [[[1, True]]], ['raise'], [[[0, False]], 'raise', [[2, True]]]]
OPTS = [{}, {'limit': 1}, {'limit': 2}, {'limit': 4}, {'fr': True}, {'fr': True, 'limit': 2}, {'rmf': True},
        {'rmf': True, 'limit': 4}, {'rot': True}, {'rot': True, 'limit': 2}, {'somf': True}, {'somf': True, 'rmf': True},
        {'fr': True, 'rot': True, 'somf': True}, {'limit': 3, 'rmf': True, 'rot': True}]
RUNIFS = [None, None, None, [True], [False], [None], [True, False], [False, True, True], [True, True, None]]


def run_real(case):
  if case.get('abort') is not None:
    # an invocation cut short by an operator abort is not diagnosed (judged by the C04 driver on the 'diag' program)
    from harness.props import c04
    return c04.run_real(case['abort'])
  out = ec.run_test_case(case)
  return {'tokens': ec.core_tokens(out['tokens']), 'ret': out['ret'], 'crashes': out['crashes']}


def encode(case, obs):
  if case.get('abort') is not None:
    from harness.props import c04
    return c04.encode(case['abort'], obs)
  return 'C05 %s # %s' % (ec.clean(ec.enc_test(case)), ' '.join(obs['tokens']))


def classify(case, obs):
  if case.get('abort') is not None:
    return 'abort-during-a-diagnosed-phase'
  return case.get('pos', 'random')


def nontrivial_key(case, obs):
  if case.get('abort') is not None:
    from harness.props import c04
    return c04.nontrivial_key(case['abort'], obs)
  if any(t.startswith('eb') for t in obs['tokens']):
    return ec.clean(ec.enc_test(case))
  return None


def _p(pid, beh, opts=None, runif=None):
  n = {'t': 'P', 'id': pid, 'opts': dict(opts or {}), 'beh': beh}
  if runif is not None:
    n['runif'] = list(runif)
  return n


def _wrap(pos, put):
  """put = the phase under test (id 1). Returns a case."""
  ok = lambda i: _p(i, [{'raw': 'cont'}])
  if pos == 'first':
    return {'nodes': [put, ok(2)]}
  if pos == 'after_fail':
    return {'nodes': [_p(2, [{'raw': 'failcont'}]), put, ok(3)]}
  if pos == 'subtest':
    return {'nodes': [{'t': 'U', 'name': 9, 'ns': [ok(2), put, ok(3)]}, ok(4)]}
  if pos == 'failed_subtest':
    return {'nodes': [{'t': 'U', 'name': 9, 'ns': [_p(2, [{'raw': 'failsub'}]), put, ok(3)]}, ok(4)]}
  if pos == 'teardown':
    return {'nodes': [{'t': 'G', 's': [], 'm': [_p(2, [{'raw': 'stop'}])], 'td': [put, ok(3)]}]}
  if pos == 'sof':
    return {'sof': True, 'nodes': [ok(2), put, ok(3)]}
  if pos == 'sof_first':
    return {'sof': True, 'nodes': [put, ok(3)]}
  if pos == 'allow_unset':
    return {'allow': True, 'nodes': [put, ok(2)]}
  if pos == 'start':
    return {'start': put, 'nodes': [ok(2)]}
  raise ValueError(pos)


POSITIONS = ['first', 'after_fail', 'subtest', 'failed_subtest', 'teardown', 'sof', 'sof_first', 'allow_unset', 'start']


def gen_cases(rng, tier):
  cases = []
  from harness.props import c04
  n = c04._length('diag', 'thread')
  for k in range(0, n + 3, 4 if tier == 'quick' else 1):
    cases.append({'abort': {'prog': 'diag', 'ks': [k], 'mode': 'thread'}, 'pos': 'abort'})
  # single invocation table: every (raw, meas, diag) kind, in every position, default options + stop_on_measurement_fail
  kinds = [{'raw': r, 'meas': m, 'diags': d} for r in RAWS for m in MEAS for d in DIAGS]
  for i, inv in enumerate(kinds):
    if inv['raw'] == 'timeout' and (i % 7 != rng.randrange(7)):
      continue
    if tier == 'quick' and i % 2 != rng.randrange(2) and inv['raw'] != 'cont':
      continue
    pos = POSITIONS[i % len(POSITIONS)]
    opts = [{}, {'somf': True}, {'limit': 1}, {'rmf': True}][i % 4]
    c = _wrap(pos, _p(1, [inv], opts))
    c['pos'] = 'table/' + pos
    cases.append(c)
  # directed: timeouts with / without repeat_on_timeout (real-time cost 0.25 s per timeout)
  T, C, R = {'raw': 'timeout'}, {'raw': 'cont'}, {'raw': 'rep'}
  for opts, beh in [({'rot': True}, [T, C]), ({'rot': True}, [T, T, T, C]), ({'rot': True, 'limit': 2}, [T, T, C]),
                    ({}, [T, C]), ({'fr': True}, [T, C]), ({'rot': True, 'limit': 1}, [T, C]),
                    ({'rot': True}, [T, {'raw': 'cont', 'meas': ['fail']}]), ({'rot': True, 'rmf': True}, [{'raw': 'cont', 'meas': ['fail']}, T, C]),
                    # REPEATs and retried timeouts draw on ONE budget (seeded/C05-14 counted them apart)
                    ({'rot': True, 'limit': 2}, [R, T, C]), ({'rot': True, 'limit': 2}, [T, R, C]), ({'rot': True}, [R, T, R, C]),
                    ({'rot': True, 'limit': 3}, [R, R, T, C])]:
    for pos in (['first', 'teardown', 'start'] if tier == 'thorough' else ['first']):
      c = _wrap(pos, _p(1, [dict(b) for b in beh], opts))
      c['pos'] = 'timeout/' + pos
      cases.append(c)
  # the body returned, its thread is still busy with its finish handler when the deadline passes: not a timeout
  for raw, opts in (('cont', {}), ('failcont', {}), ('rep', {'limit': 2}), ('cont', {'rot': True}), ('stop', {}), ('skip', {})):
    for pos in (['first', 'teardown', 'subtest'] if tier == 'thorough' else ['first', 'teardown']):
      ph = _p(1, [{'raw': raw}, {'raw': 'cont'}], opts)
      ph['linger'] = True
      c = _wrap(pos, ph)
      c['pos'] = 'lingering-thread/' + pos
      cases.append(c)
  # behaviour sequences x option sets x run_if scripts
  n = 1500 if tier == 'quick' else 20000
  for i in range(n):
    r = rng.derive(i)
    timeouts = 0
    beh = []
    for _ in range(r.choice([1, 2, 3, 4, 4])):
      raw = r.choice(RAWS[:-1] + ['cont', 'rep', 'rep', 'cont'])
      if r.random() < 0.02 and timeouts == 0:
        raw, timeouts = 'timeout', 1
      beh.append({'raw': raw, 'meas': list(r.choice(MEAS)), 'diags': list(r.choice(DIAGS))})
    pos = r.choice(POSITIONS)
    c = _wrap(pos, _p(1, beh, r.choice(OPTS), r.choice(RUNIFS)))
    c['pos'] = 'seq/' + pos
    cases.append(c)
  # random trees (the same oracle is evaluated for every phase of the tree)
  for i in range(300 if tier == 'quick' else 4000):
    g = ec.Gen(rng.derive('t%d' % i))
    c = g.case(depth=rng.choice([1, 2, 3]), width=rng.choice([1, 2, 3, 4]))
    c['pos'] = 'random-tree'
    cases.append(c)
  return cases


def shrink(case):
  if case.get('abort') is not None:
    return
  def phases(nodes, path=()):
    for i, n in enumerate(nodes):
      if n['t'] == 'P':
        yield path + (i,), n
  # drop trailing behaviours / options of the phase under test
  import copy
  def visit(node):
    if isinstance(node, dict):
      if node.get('t') == 'P':
        yield node
      for v in node.values():
        yield from visit(v)
    elif isinstance(node, list):
      for v in node:
        yield from visit(v)
  base = copy.deepcopy(case)
  ps = list(visit(base))
  for idx in range(len(ps)):
    c = copy.deepcopy(case)
    p = list(visit(c))[idx]
    if len(p.get('beh') or []) > 1:
      p['beh'] = p['beh'][:-1]
      yield c
    for k in list((p.get('opts') or {}).keys()):
      c2 = copy.deepcopy(case)
      p2 = list(visit(c2))[idx]
      del p2['opts'][k]
      yield c2
    if p.get('runif') is not None:
      c3 = copy.deepcopy(case)
      p3 = list(visit(c3))[idx]
      del p3['runif']
      yield c3
    for inv_i in range(len(p.get('beh') or [])):
      for field in ('meas', 'diags'):
        if p['beh'][inv_i].get(field):
          c4 = copy.deepcopy(case)
          list(visit(c4))[idx]['beh'][inv_i][field] = []
          yield c4
  if len(case['nodes']) > 1:
    for i in range(len(case['nodes'])):
      c = copy.deepcopy(case)
      del c['nodes'][i]
      yield c


def known_match(entry, case, obs, msg):
  return msg.split(' ')[0] == entry['match']


MANIFEST = {
    'text': 'Proof: 7 Lean theorems over the executor model for every behaviour oracle, option combination and executor '
            'state: the record outcome of an invocation equals the documented decision table (Spec.phaseOutcome, a '
            'priority list written independently of the finalize pipeline), ERROR iff the executor sees a terminal '
            'result, every diagnoser runs once unless skipped/repeated (also when one raises), each invocation yields '
            'exactly one record, at most repeat_limit (default 3, regenerated constant) invocations, re-invocation only '
            'for the documented reasons, false run_if = no body and no record, and it ends the invocation loop whatever the repeat options (after fix d4399cb4). Tie: real htf.Test.execute() runs with '
            'scripted bodies/measurements/diagnosers, compared record-for-record and call-for-call with the model; the '
            'Lean spec is evaluated per phase on the real observation.',
    'note': 'Trusted: Lean kernel + standard axioms; exec_common harness; Lean driver. Modelled not verified: threads, kill '
            'delivery, logging. Timeouts use real time (0.25 s) with a patched poll interval. The model follows the tree '
            'after the fix: commits 65d36842 and 44bdff7b (see known_findings.json).',
}
