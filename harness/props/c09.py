"""C09 — execute() hands a complete, final record to every callback exactly once; Test object lifecycle."""
from harness import exec_common as ec
from harness.props import c08

PROP = 'C09'
PROOF_MODULE = 'OpenHTF.Proofs.C09'
THEOREMS = [
    'OpenHTF.Plugs.c09_callbacks_once_in_order',
    'OpenHTF.Plugs.c09_raising_callbacks_do_not_matter',
    'OpenHTF.Plugs.c09_returns_true_iff_pass',
    'OpenHTF.TestObject.c09_deregistered_after',
    'OpenHTF.TestObject.c09_overlap_refused',
    'OpenHTF.TestObject.c09_reexecutable',
    'OpenHTF.TestObjectConc.c09_at_most_one_execution_at_a_time',
    'OpenHTF.TestObjectConc.c09_live_executors_le_one',
    'OpenHTF.TestObjectConc.c09_concurrent_overlap_refused',
    'OpenHTF.TestObjectConc.unlocked_check_lets_two_executions_overlap',
]
PENDING = ['record finality (timestamps, dut_id default, metadata) is a decidable Lean predicate (TestObject.final) evaluated '
           'on every real record; it is not a theorem because the model has no clock']
RULE = ('programs from the C01/C08 families x every subset of raising callbacks (<=3 callbacks) x histories of 1-3 '
        'consecutive execute() calls on ONE Test object, with an overlapping execute() attempted from inside a running '
        'phase; observed: callback arguments (identity), order, return value, record facts, Test.state, TEST_INSTANCES, '
        'number of handlers on the openhtf logger; races: 2-3 threads x 1-2 execute() calls each on one Test under random '
        'schedules (switch probability 0.1/0.4/0.8), order of lock / executor-slot effects; abort exit path: one operator abort '
        'at every (quick: every 6th) scheduling step of six C04 programs, same end-of-run contract')
ASSUMPTIONS = ['time.time() is monotone while a test runs (start <= end comparisons)',
               'exits of execute() by an exception other than KeyboardInterrupt are outside "when execute() returns"']
TRUSTED = ['harness/exec_common.py (run_history)', 'lean/OpenHTF/Driver/C09.lean']
CONST_PREFIXES = ['c09.']
PROCS = 12


def _run_race(case):
  """n threads call execute() (reps times each) on ONE Test object under the cooperative scheduler"""
  import logging
  import threading
  from harness import common, sched, sched_exec
  sched_exec.install(False)
  import openhtf as htf
  from openhtf.core import test_descriptor
  toks = []
  names = {}

  def me():
    return names.get(threading.current_thread().name, 9)

  class RaceTest(htf.Test):
    # `self._executor` as a traced slot: the moment it is stored / cleared is the moment other threads can see it
    @property
    def _executor(self):
      return self.__dict__.get('_ex')

    @_executor.setter
    def _executor(self, v):
      self.__dict__['_ex'] = v
      if self.__dict__.get('_trace'):
        toks.append(('c' if v is not None else 'k') + str(me()))

  class TracedLock(object):
    def __init__(self, real):
      self.real, self.depth = real, {}

    def acquire(self, *a, **k):
      got = self.real.acquire(*a, **k)
      if got:
        d = self.depth.get(me(), 0)
        self.depth[me()] = d + 1
        if d == 0:
          toks.append('a%d' % me())
      return got

    def release(self):
      d = self.depth.get(me(), 1) - 1
      self.depth[me()] = d
      if d == 0:
        toks.append('r%d' % me())
      self.real.release()

    def __enter__(self):
      self.acquire()
      return self

    def __exit__(self, *exc):
      self.release()
      return False

  def ph1(test):
    test.logger.info('one')

  def ph2(test):
    pass
  test = RaceTest(*([ph1, ph2][:case.get('phases', 1)]))
  recs = []
  test.add_output_callbacks(recs.append)
  test.configure(name='race')
  test._lock = TracedLock(test._lock)
  test.__dict__['_trace'] = True
  results = []
  h0 = len(logging.getLogger('openhtf').handlers)

  def runner():
    for _ in range(case.get('reps', 1)):
      try:
        test.execute()
        results.append('returned')
      except test_descriptor.InvalidTestStateError:
        toks.append('x%d' % me())
        results.append('refused')
      except (sched.Deadlock, sched.SchedulerStuck):
        raise
      except BaseException as e:  # pylint: disable=broad-except
        results.append('raised:' + type(e).__name__)

  def body(s):
    ths = []
    for i in range(case['threads']):
      t = threading.Thread(target=runner, name='race-%d' % i)
      names[t.name] = i
      ths.append(t)
    for t in ths:
      t.start()
    for t in ths:
      t.join()
    return True
  box, s = sched.run(sched.chooser_for(case, 'c09'), body,
                     max_steps=400000)
  facts = []
  if s.deadlock or 'sched_error' in box:
    facts.append('R:deadlock')
  else:
    if test._executor is not None:
      facts.append('R:executor-left')
    if len(test_descriptor.Test.TEST_INSTANCES):
      facts.append('R:registered-left')
    if len(logging.getLogger('openhtf').handlers) != h0:
      facts.append('R:handlers-left')
    if len(recs) != results.count('returned'):
      facts.append('R:record-count-mismatch')
    if any(r.startswith('raised') for r in results):
      facts.append('R:raised-other')
  test_descriptor.Test.TEST_INSTANCES.clear()
  return {'race': toks + facts, 'results': sorted(results)}


def _run_abort(case):
  """the abort exit path: one operator abort at scheduling step k of a C04 program; the record handed to the callbacks
  must be as final as on every other path"""
  import logging
  from harness import sched, sched_exec
  from harness.props import c04
  from openhtf.core import test_descriptor
  sched_exec.install(False)
  test_descriptor.Test.HANDLED_SIGINT_ONCE = False
  prog = dict(c04.PROGRAMS[case['prog']])
  prog['callbacks'] = list(case.get('callbacks') or [False])
  k = case['k']
  h0 = len(logging.getLogger('openhtf').handlers)

  def aborter(env):
    s = env['sched']
    test = env['test']
    s.block(lambda: (s.step >= k and getattr(test, '_executor', None) is not None) or
            ('execute-returned',) in env['log'], None, 'abort-trigger')
    if ('execute-returned',) in env['log']:
      return
    test.abort_from_sig_int()
  sigint = case.get('mode') == 'sigint'
  refused = []

  def overlapper(env):
    # between the operator's two Ctrl-Cs another thread tries to execute the same (still running) Test: refused,
    # and without any effect on the run
    s = env['sched']
    test = env['test']
    s.block(lambda: (s.step >= (k + case['k2']) // 2 and getattr(test, '_executor', None) is not None) or
            ('execute-returned',) in env['log'], None, 'overlap-trigger')
    if ('execute-returned',) in env['log']:
      return
    try:
      test.execute()
      refused.append('sequential')      # the first run had just ended: a legitimate second run
    except test_descriptor.InvalidTestStateError:
      pass
    except Exception as e:  # pylint: disable=broad-except
      refused.append('R:overlapping-execute-raised:' + type(e).__name__)
  if sigint and case.get('k2') is not None:
    out = sched_exec.run_case(prog, choose=c04._chooser(dict(case, ks=[k, case['k2']])), aux=[('ov', overlapper)],
                              max_steps=40000)
  else:
    out = sched_exec.run_case(prog, choose=c04._chooser(dict(case, ks=[k]) if sigint else case),
                              aux=[] if sigint else [('ab1', aborter)], max_steps=40000)
  if 'sequential' in refused:
    test_descriptor.Test.TEST_INSTANCES.clear()
    return {'abort': ['R:second-execute-was-sequential']}
  toks = list(refused)
  if sigint and isinstance(out['exc'], KeyboardInterrupt) and not out['recs'] and not (out['deadlock'] or out['stuck']):
    # the SIGINT landed outside execute()'s wait (start-up block / output stage): KeyboardInterrupt escapes without
    # finalisation or callbacks - the known findings of C04, seen through C09's contract
    test_descriptor.Test.TEST_INSTANCES.clear()
    return {'abort': ['R:sigint-outside-the-wait']}
  if out['deadlock'] or out['stuck']:
    return {'abort': ['R:deadlock']}
  rec = out['record']
  b = out['b']
  if rec is None:
    return {'abort': ['R:no-record']}
  toks.append('O:%s' % (rec.outcome.name if rec.outcome else 'none'))
  toks.append(ec._facts(rec, True))
  cbr = b['cb_records']
  toks.append('NCB:%d:%d' % (len(cbr), len(prog['callbacks'])))
  toks.append('CBSAME:%d' % (1 if all(r is rec for r in cbr) else 0))
  toks.append('NREC:%d' % len(out['recs']))
  if sigint and isinstance(out['exc'], KeyboardInterrupt):
    # execute() re-raised KeyboardInterrupt: there is no return value to judge
    toks.append('X:ret:%d' % (1 if rec.outcome is not None and rec.outcome.name == 'PASS' else 0))
  else:
    toks.append('X:ret:%d' % (1 if out['ret'] else 0))
  toks.append('H:%d' % (len(logging.getLogger('openhtf').handlers) - h0))
  toks.append('S:%d' % (1 if out['test'].state is None else 0))
  toks.append('TI:%d' % (1 if len(test_descriptor.Test.TEST_INSTANCES) else 0))
  if out['exc'] is not None and not (sigint and isinstance(out['exc'], KeyboardInterrupt)):
    toks.append('R:raised:' + type(out['exc']).__name__)    # (execute() re-raising KeyboardInterrupt is the contract)
  test_descriptor.Test.TEST_INSTANCES.clear()
  return {'abort': toks}


def _run_cannot_start(case):
  """a Test one of whose phases still has a plug placeholder: execute() cannot build its state and raises. Afterwards
  the Test holds no executor, is not registered for SIGINT, no record handler of it remains, and executing it again
  fails the same way (not with 'already running')"""
  import logging
  import openhtf as htf
  from openhtf.core import base_plugs, test_descriptor
  ec.setup()

  class Base(base_plugs.BasePlug):
    pass

  @htf.plug(p=base_plugs.PlugPlaceholder(Base))
  def needs_plug(test, p):
    pass
  test = htf.Test(needs_plug)
  test.configure(name='verif_cannot_start')
  recs = []
  test.add_output_callbacks(recs.append)
  h0 = len(logging.getLogger('openhtf').handlers)
  facts = []
  kinds = []
  for k in range(case['times']):
    try:
      test.execute()
      kinds.append('returned')
    except test_descriptor.InvalidTestStateError:
      kinds.append('already-running')
    except Exception as e:  # pylint: disable=broad-except
      kinds.append(type(e).__name__)
    if test._executor is not None:
      facts.append('R:test-keeps-its-executor-after-a-failed-start')
      break
    if len(logging.getLogger('openhtf').handlers) != h0:
      facts.append('R:record-handler-left-behind-after-a-failed-start')
    if test in test_descriptor.Test.TEST_INSTANCES.values():
      facts.append('R:test-still-registered-for-sigint-after-a-failed-start')
  if 'already-running' in kinds:
    facts.append('R:second-execute-refused-as-already-running')
  if 'returned' in kinds:
    facts.append('R:execute-returned-with-an-unsubstituted-placeholder')
  for h in list(logging.getLogger('openhtf').handlers)[h0:]:
    logging.getLogger('openhtf').removeHandler(h)
  test_descriptor.Test.TEST_INSTANCES.clear()
  return {'abort': sorted(set(facts)) or ['R:start-failure-left-nothing-behind']}


def run_real(case):
  if case.get('kind') == 'cannot_start':
    return _run_cannot_start(case)
  if case.get('kind') == 'race':
    return _run_race(case)
  if case.get('kind') == 'abort':
    return _run_abort(case)
  return {'runs': ec.run_history(case)}


def encode(case, obs):
  if case.get('kind') == 'race':
    return 'C09 RACE %d # %s' % (case['threads'], ' '.join(obs['race']))
  if case.get('kind') in ('abort', 'cannot_start'):
    return 'C09 ABORT # %s' % ' '.join(obs['abort'])
  fake = {'tokens': obs['runs'][0] if obs['runs'] else []}
  head = c08.encode(case, fake).split(' # ')[0].replace('C08 ', 'C09 ', 1)
  return head + ' # ' + ' | '.join(' '.join(r) for r in obs['runs'])


def classify(case, obs):
  if case.get('kind') == 'race':
    return 'race/%dthreads/%s' % (case['threads'], ','.join(obs['results']))
  if case.get('kind') == 'cannot_start':
    return 'cannot-start'
  if case.get('kind') == 'abort':
    return 'abort%s/%s/%s' % ('-sigint' if case.get('mode') == 'sigint' else '', case['prog'], obs['abort'][0])
  return '%druns/%dcb/%s' % (len(case['runs']), len(case.get('callbacks') or []),
                              obs['runs'][0][0] if obs['runs'] else '?')


def nontrivial_key(case, obs):
  return repr(sorted(case.items(), key=str))


def gen_cases(rng, tier):
  cases = []
  import itertools
  progs = []
  P = lambda i, raw='cont', **kw: dict({'t': 'P', 'id': i, 'opts': {}, 'beh': [{'raw': raw}]}, **kw)
  progs.append([P(1), P(2)])
  progs.append([P(1), P(2, 'exc'), P(3)])
  progs.append([P(1), {'t': 'G', 's': [], 'm': [P(2, 'stop')], 'td': [P(3)]}])
  progs.append([P(1, 'skip')])
  progs.append([P(1), P(2, 'failcont')])
  progs.append([P(1, runif=[False])])
  progs.append([{'t': 'U', 'name': 7, 'ns': [P(1), P(2, 'failsub'), P(3)]}, P(4)])
  progs.append([P(1), P(2, 'timeout')])
  progs.append([])
  for pi, prog in enumerate(progs):
    for n in range(0, 4):
      for raising in itertools.product([False, True], repeat=n):
        if tier == 'quick' and (pi + n + sum(raising)) % 2:
          continue
        for runs in ([{'overlap': False}], [{'overlap': True}, {'overlap': False}],
                     [{'overlap': False}, {'overlap': True}, {'overlap': True}]):
          if any(r['overlap'] for r in runs) and not prog:
            continue
          if pi == 7 and len(runs) > 1:
            continue
          cases.append({'nodes': prog, 'callbacks': list(raising), 'runs': runs, 'src': 'family', 'ticking': len(cases) % 2 == 0})
  # runs that never get past their start trigger (it raises / stops / passes), under a clock that moves on between any
  # two readings
  for sraw in ('exc', 'stop', 'cont', 'failcont'):
    for prog in (progs[0], progs[2]):
      for cbs in ([], [False, True, False]):
        cases.append({'nodes': prog, 'callbacks': cbs, 'runs': [{'overlap': False}, {'overlap': False}], 'src': 'start/' + sraw,
                      'start': P(9, sraw), 'ticking': True})
  for i in range(150 if tier == 'quick' else 2000):
    r = rng.derive(i)
    g = ec.Gen(r, allow_timeout=False)
    c = g.case(depth=r.choice([1, 2, 3]), width=r.choice([1, 2, 3]))
    c.pop('start', None)
    c.pop('tdiags', None)
    c['callbacks'] = [r.random() < 0.4 for _ in range(r.choice([0, 1, 2, 3]))]
    c['runs'] = [{'overlap': r.random() < 0.5} for _ in range(r.choice([1, 2, 3]))]
    c['src'] = 'random'
    cases.append(c)
  cases.append({'kind': 'cannot_start', 'times': 1})
  cases.append({'kind': 'cannot_start', 'times': 3})
  from harness.props import c04
  for name in ('line', 'group', 'nested', 'repeat', 'subtest', 'plugs'):
    n = c04._length(name, 'thread')
    for k in range(0, n + 2, 6 if tier == 'quick' else 1):
      cases.append({'kind': 'abort', 'prog': name, 'k': k, 'callbacks': [False, k % 3 == 0]})
      if k % 2 == 0:
        cases.append({'kind': 'abort', 'prog': name, 'k': k, 'callbacks': [False, k % 3 == 0], 'mode': 'sigint'})
      if k % 4 == 0 and name in ('group', 'plugs', 'nested'):
        # two Ctrl-Cs with an overlapping execute() attempt of another thread in between
        cases.append({'kind': 'abort', 'prog': name, 'k': k, 'k2': k + [20, 60, 120][(k // 4) % 3], 'callbacks': [False],
                      'mode': 'sigint'})
  for i in range(60 if tier == 'quick' else 1500):
    r = rng.derive('race%d' % i)
    cases.append({'kind': 'race', 'threads': r.choice([2, 2, 3]), 'reps': r.choice([1, 1, 2]), 'phases': r.choice([1, 2]),
                  'rseed': r.getrandbits(32), 'switch': r.choice([0.1, 0.4, 0.8])})
  return cases


def known_match(entry, case, obs, msg):
  return msg.split(' ')[0] == entry['match']


MANIFEST = {
    'text': 'Proof: Lean theorems: for every program, plug pattern and raising subset the event log of execute() ends '
            'with every callback exactly once in registration order and no callback earlier; the raising subset changes '
            'nothing; execute() returns True iff PASS; over ALL histories of begin/refused-begin/finish on one Test '
            'object the invariant "handlers = [running], registered = running" holds, so after every returned execute '
            'the Test holds no executor, is deregistered, has no handler left and can be executed again, and an '
            'overlapping execute is refused without effect; for ANY number of threads calling execute() on one Test under '
            'EVERY interleaving (lock / check / store executor / release / clear as separate steps, inductive '
            'invariant) at most one executor is alive at a time and a thread that checks while another runs is '
            'refused - with the counterexample theorem that the same program with the check outside the lock lets two '
            'executions overlap. Tie: real Test objects executed 1-3 times with an overlapping execute() attempted '
            'from inside a phase, callbacks raising in every subset; 2-3 threads racing execute() on one Test under '
            'the cooperative scheduler (traced lock and executor slot replayed through the model); the abort exit path (an '
            'operator abort at every scheduling step) checked against the same end-of-run contract.',
    'note': 'Trusted: Lean kernel + standard axioms; harness; Lean driver. PARTIAL: record finality (outcome/end time set, '
            'start<=end, every phase record complete and inside the test interval, dut_id default, metadata name+config, '
            'no running phase) is a decidable Lean predicate evaluated on every real record, not a theorem (the model '
            'has no clock); monotone time.time() assumed.',
}
