"""C09 — execute() hands a complete, final record to every callback exactly once; Test object lifecycle."""
from harness import exec_common as ec
from harness.props import c08

PROP = 'C09'
PROOF_MODULE = 'OpenHTF.Proofs.C09'
THEOREMS = [
    'OpenHTF.Plugs.c09_callbacks_once_in_order',
    'OpenHTF.Plugs.c09_raising_callbacks_do_not_matter',
    'OpenHTF.Plugs.c09_returns_true_iff_pass',
    'OpenHTF.TestObject.c09_deregistered_after',
    'OpenHTF.TestObject.c09_overlap_refused',
    'OpenHTF.TestObject.c09_reexecutable',
]
PENDING = ['record finality (timestamps, dut_id default, metadata) is a decidable Lean predicate (TestObject.final) evaluated '
           'on every real record; it is not a theorem because the model has no clock']
RULE = ('programs from the C01/C08 families x every subset of raising callbacks (<=3 callbacks) x histories of 1-3 '
        'consecutive execute() calls on ONE Test object, with an overlapping execute() attempted from inside a running '
        'phase; observed: callback arguments (identity), order, return value, record facts, Test.state, TEST_INSTANCES, '
        'number of handlers on the openhtf logger')
ASSUMPTIONS = ['time.time() is monotone while a test runs (start <= end comparisons)',
               'exits of execute() by an exception other than KeyboardInterrupt are outside "when execute() returns"']
TRUSTED = ['harness/exec_common.py (run_history)', 'lean/OpenHTF/Driver/C09.lean']
CONST_PREFIXES = ['c09.']
PROCS = 12


def run_real(case):
  return {'runs': ec.run_history(case)}


def encode(case, obs):
  fake = {'tokens': obs['runs'][0] if obs['runs'] else []}
  head = c08.encode(case, fake).split(' # ')[0].replace('C08 ', 'C09 ', 1)
  return head + ' # ' + ' | '.join(' '.join(r) for r in obs['runs'])


def classify(case, obs):
  return '%druns/%dcb/%s' % (len(case['runs']), len(case.get('callbacks') or []),
                              obs['runs'][0][0] if obs['runs'] else '?')


def nontrivial_key(case, obs):
  return repr(sorted(case.items(), key=str))


def gen_cases(rng, tier):
  cases = []
  import itertools
  progs = []
  P = lambda i, raw='cont', **kw: dict({'t': 'P', 'id': i, 'opts': {}, 'beh': [{'raw': raw}]}, **kw)
  progs.append([P(1), P(2)])
  progs.append([P(1), P(2, 'exc'), P(3)])
  progs.append([P(1), {'t': 'G', 's': [], 'm': [P(2, 'stop')], 'td': [P(3)]}])
  progs.append([P(1, 'skip')])
  progs.append([P(1), P(2, 'failcont')])
  progs.append([P(1, runif=[False])])
  progs.append([{'t': 'U', 'name': 7, 'ns': [P(1), P(2, 'failsub'), P(3)]}, P(4)])
  progs.append([P(1), P(2, 'timeout')])
  progs.append([])
  for pi, prog in enumerate(progs):
    for n in range(0, 4):
      for raising in itertools.product([False, True], repeat=n):
        if tier == 'quick' and (pi + n + sum(raising)) % 2:
          continue
        for runs in ([{'overlap': False}], [{'overlap': True}, {'overlap': False}],
                     [{'overlap': False}, {'overlap': True}, {'overlap': True}]):
          if any(r['overlap'] for r in runs) and not prog:
            continue
          if pi == 7 and len(runs) > 1:
            continue
          cases.append({'nodes': prog, 'callbacks': list(raising), 'runs': runs, 'src': 'family'})
  for i in range(150 if tier == 'quick' else 2000):
    r = rng.derive(i)
    g = ec.Gen(r, allow_timeout=False)
    c = g.case(depth=r.choice([1, 2, 3]), width=r.choice([1, 2, 3]))
    c.pop('start', None)
    c.pop('tdiags', None)
    c['callbacks'] = [r.random() < 0.4 for _ in range(r.choice([0, 1, 2, 3]))]
    c['runs'] = [{'overlap': r.random() < 0.5} for _ in range(r.choice([1, 2, 3]))]
    c['src'] = 'random'
    cases.append(c)
  return cases


def known_match(entry, case, obs, msg):
  return msg.split(' ')[0] == entry['match']


MANIFEST = {
    'text': 'Proof: Lean theorems: for every program, plug pattern and raising subset the event log of execute() ends '
            'with every callback exactly once in registration order and no callback earlier; the raising subset changes '
            'nothing; execute() returns True iff PASS; over ALL histories of begin/refused-begin/finish on one Test '
            'object the invariant "handlers = [running], registered = running" holds, so after every returned execute '
            'the Test holds no executor, is deregistered, has no handler left and can be executed again, and an '
            'overlapping execute is refused without effect. Tie: real Test objects executed 1-3 times with an '
            'overlapping execute() attempted from inside a phase, callbacks raising in every subset.',
    'note': 'Trusted: Lean kernel + standard axioms; harness; Lean driver. PARTIAL: record finality (outcome/end time set, '
            'start<=end, every phase record complete and inside the test interval, dut_id default, metadata name+config, '
            'no running phase) is a decidable Lean predicate evaluated on every real record, not a theorem (the model '
            'has no clock); monotone time.time() assumed.',
}
