"""C11 — runs are isolated: descriptors are never mutated, derived phases are copies.

Tie: (D) every way of deriving a phase on real PhaseDescriptor objects: which parts of the result are the same
object as in the source (identity graph) vs the Lean heap model (Model/Heap.lean); (S) histories of derive /
modify-the-derived / nest / execute operations on SHARED real phase objects with a deep structural snapshot of
every pre-existing object before and after each operation, repeated and concurrent executions compared with a
reference run."""
import json
import logging
import threading

from harness import common
from harness import exec_common as ec
from harness import sched

PROP = 'C11'
PROOF_MODULE = 'OpenHTF.Proofs.C11'
THEOREMS = [
    'OpenHTF.Heap.c11_derive_leaves_original_unchanged',
    'OpenHTF.Heap.c11_derived_phase_is_a_new_object',
    'OpenHTF.Heap.c11_histories_of_derivations_leave_originals_unchanged',
    'OpenHTF.Heap.c11_run_writes_only_run_owned',
    'OpenHTF.Heap.c11_writes_to_different_objects_commute',
    'OpenHTF.Heap.attrCopy_extends',
    'OpenHTF.Heap.attrCopy_fresh',
]
RULE = ('D: copy / wrap_or_copy (PhaseOptions, measures, diagnose, plug, load_code_info, nesting) / with_args / with_plugs '
        '(matching and non-matching) on a real phase with options, a placeholder plug, measurements with validators, a '
        'diagnoser and extra kwargs: identity of every directly owned part; S: random histories (length <= 8) over a pool '
        'of shared phases, sequences, groups, subtests: derive, modify the derived object (options, measurement list, '
        'extra_kwargs, a phase reached through a derived collection), nest, build a Test and execute it 1-3 times; after '
        'EVERY operation every object that existed before is compared with its deep snapshot; records of repeated runs '
        'are compared; two tests sharing descriptors run concurrently under the scheduler and are compared with solo runs')
ASSUMPTIONS = ['"modifying a derived phase" = assigning to its option fields, changing its own plugs / measurements / '
               'diagnosers lists or its extra_kwargs, also for a phase reached through a derived collection; objects deeper '
               'than that (a Measurement or PhasePlug object inside those lists, validators) are shared by design of '
               'attr_copy and are reported in the evidence, not judged',
               'copy.copy / copy.deepcopy behave as documented']
TRUSTED = ['harness/props/c11.py (deep snapshot, identity graph)', 'lean/OpenHTF/Driver/C11.lean (canonical phase shape)']
CONST_PREFIXES = ['c11.']
PROCS = 12


def _mods():
  import openhtf as htf
  from openhtf.core import base_plugs, diagnoses_lib
  return htf, base_plugs, diagnoses_lib


class _Env(object):
  """the shared declarations a history works on"""

  def __init__(self):
    htf, base_plugs, diagnoses_lib = _mods()
    from openhtf.util import validators
    self.htf = htf
    self.facts = []
    self.state_owners = []
    env = self

    class Base(base_plugs.BasePlug):
      def value(self):
        return 1

    class Sub(Base):
      def value(self):
        return 2
    self.Base, self.Sub = Base, Sub
    self.constructed = []
    self.fail_ctor = False

    class TriggerPlug(base_plugs.BasePlug):
      # needed by the start trigger of SOME runs only; no phase of any test declares it
      def __init__(self_):
        env.constructed.append('TriggerPlug')

    class Counted(Sub):
      def __init__(self_):
        env.constructed.append('Sub')
        # a constructor takes a moment (opens a device): under the scheduler another test may run meanwhile
        from harness import sched as _sched
        if _sched.SCHED is not None and _sched.SCHED.me() is not None:
          _sched.SCHED.yield_point('plug-constructor')
          self_.logger.info('fixture %s ready', type(self_).__name__)
          _sched.SCHED.yield_point('plug-constructor')
        if env.fail_ctor:
          raise RuntimeError('fixture missing in this run')
    self.Sub = Sub = Counted
    self.TriggerPlug = TriggerPlug

    def trigger(test, tp):
      test.dut_id = 'dut-c11'
    self.trigger = htf.plug(tp=TriggerPlug)(trigger)

    # a phase whose function declares no default values and takes a plug
    class TailPlug(base_plugs.BasePlug):
      pass

    def tail(test, tp):
      test.logger.info('tail %s', type(tp).__name__)
    self.tail = htf.plug(tp=TailPlug)(tail)
    from openhtf.util import configuration
    try:
      configuration.CONF.declare('c11_settings', 'container-valued configuration', default_value={'token': ['secret']})
    except Exception:  # pylint: disable=broad-except
      pass      # declared by an earlier case in this process
    self.conf = configuration.CONF
    self.Diag = diagnoses_lib.DiagResultEnum('C11R', {'A': 'a', 'B': 'b'})

    def diag_fn(phase_record):
      return diagnoses_lib.Diagnosis(env.Diag.A, 'seen')
    diag_fn.__name__ = 'c11_diag'
    self.diagnoser = diagnoses_lib.PhaseDiagnoser(self.Diag, name='c11_diag')(diag_fn)

    def body(test, pl, x=1, tag='t'):
      # pristine start: measurements unset, empty state dict, no attachment of this phase yet
      for name in ('m1', 'm2'):
        mv = test.measurements._measurements[name].measured_value
        if mv.is_value_set:
          env.facts.append('X:measurement-not-pristine-at-phase-start')
      # the state dict belongs to ONE run (one test record): empty when the run's first phase starts, never seen
      # under another record
      st, rec = test.state, test.test_record
      owner = [r for (d, r) in env.state_owners if d is st]
      if not owner:
        if st:
          env.facts.append('X:state-dict-not-pristine')
        env.state_owners.append((st, rec))
      elif owner[0] is not rec:
        env.facts.append('X:state-dict-shared-between-runs')
      test.state[tag] = x
      # the run's record is the run's: scrubbing a value in ITS copy of the configuration snapshot must stay there
      cfgsnap = test.test_record.metadata.get('config') or {}
      tok = (cfgsnap.get('c11_settings') or {}).get('token')
      if tok is not None:
        if tok != ['secret'] and tok != ['secret', 'seen']:
          env.facts.append('X:configuration-snapshot-of-this-run-not-pristine')
        if tok == ['secret']:
          tok.append('seen')
      test.measurements.m1 = x
      test.measurements.m2 = pl.value()
      test.attach('att_' + tag, b'data%d' % x)
      return None
    self.body = body
    ph = htf.PhaseOptions(timeout_s=30)(body)
    class Remembering(object):
      """a validator with state of its own (validators.py allows it): each run validates with a copy"""

      def __init__(self_):
        self_.seen = []

      def __call__(self_, value):
        self_.seen.append(value)
        return len(self_.seen) == 1        # a copy made for this phase has seen nothing before

      def __str__(self_):
        return 'Remembering'
    ph = htf.measures(htf.Measurement('m1').in_range(0, 50).with_validator(Remembering()),
                      htf.Measurement('m2').validate_on({self.Diag.A: validators.in_range(0, 100)}))(ph)
    ph = htf.plug(pl=base_plugs.PlugPlaceholder(Base))(ph)
    ph = htf.diagnose(self.diagnoser)(ph)
    self.root = ph


def _snap(o, depth=0, seen=None):
  """deep structural snapshot of a declaration (values, not identities)"""
  import attr
  import enum
  import types
  seen = seen if seen is not None else set()
  if depth > 12:
    return '...'
  if o is None or isinstance(o, (bool, int, float, str, bytes)):
    return o
  if isinstance(o, enum.Enum):
    return 'enum:%s' % o.name
  if isinstance(o, (types.FunctionType, types.BuiltinFunctionType, types.MethodType)):
    return 'fn:%s' % getattr(o, '__name__', '?')
  if isinstance(o, type):
    return 'cls:%s' % o.__name__
  if id(o) in seen:
    return 'cycle'
  seen = seen | {id(o)}
  if isinstance(o, (list, tuple)):
    return [type(o).__name__] + [_snap(x, depth + 1, seen) for x in o]
  if isinstance(o, dict):
    return {'dict': sorted((repr(k), _snap(v, depth + 1, seen)) for k, v in o.items())}
  if isinstance(o, (set, frozenset)):
    return {'set': sorted(repr(x) for x in o)}
  if attr.has(type(o)):
    return {type(o).__name__: [(f.name, _snap(getattr(o, f.name, None), depth + 1, seen)) for f in attr.fields(type(o))]}
  d = getattr(o, '__dict__', None)
  if d is not None:
    return {type(o).__name__: sorted((k, _snap(v, depth + 1, seen)) for k, v in d.items() if not k.startswith('__'))}
  slots = []
  for c in type(o).__mro__:
    slots += list(getattr(c, '__slots__', ()))
  if slots:
    return {type(o).__name__: [(k, _snap(getattr(o, k, None), depth + 1, seen)) for k in slots]}
  return 'obj:%s' % type(o).__name__


def _shape(a, b):
  fl = [a is b]
  for f in ('options', 'plugs', 'measurements', 'diagnosers', 'extra_kwargs'):
    fl.append(getattr(a, f) is getattr(b, f))
  fl.append(bool(a.measurements and b.measurements and a.measurements[0] is b.measurements[0]))
  fl.append(bool(a.plugs and b.plugs and a.plugs[0] is b.plugs[0]))
  return fl


def _run_d(case):
  ec.setup()
  env = _Env()
  htf, ph = env.htf, env.root
  op = case['op']
  if op == 'withArgs':
    # also with only arguments the phase function does not take (still a copy)
    d = ph.with_args(x=7) if case.get('how') != 'unknown' else ph.with_args(not_a_parameter=7)
  elif op == 'withPlugsMatch':
    d = ph.with_plugs(pl=env.Sub)
  elif op == 'withPlugsNone':
    d = ph.with_plugs(zz=env.Sub)
  else:
    how = case.get('how', 'copy')
    if how == 'copy':
      d = ph.copy()
    elif how == 'options':
      d = htf.PhaseOptions(name='renamed')(ph)
    elif how == 'measures':
      d = htf.measures(htf.Measurement('m9'))(ph)
    elif how == 'diagnose':
      d = htf.diagnose(env.diagnoser)(ph.copy()) if False else htf.PhaseOptions()(ph)
    elif how == 'load_code_info':
      d = ph.load_code_info()
    elif how == 'seq':
      d = htf.PhaseSequence(ph).nodes[0]
    elif how == 'group':
      d = htf.PhaseGroup(main=[ph]).main.nodes[0]
    elif how == 'nested':
      d = htf.PhaseSequence(htf.PhaseSequence(ph)).nodes[0].nodes[0]
    elif how == 'groupcopy':
      g = htf.PhaseGroup(setup=[ph])
      d = g.copy().setup.nodes[0]
      ph = g.setup.nodes[0]
    elif how in ('ctxgroup', 'ctxgroup2', 'groupwrap', 'groupcombine'):
      # groups made by a with_teardown / with_context creator, and combinations of groups: each has its own copies of
      # the nodes (fixed: the creator's groups all shared one phase object; wrap / combine reused their operands' nodes)
      if how == 'ctxgroup':
        d = htf.PhaseGroup.with_teardown(ph)().teardown.nodes[0]
      elif how == 'ctxgroup2':
        w = htf.PhaseGroup.with_context([ph], [ph])
        ph, d = w().setup.nodes[0], w().setup.nodes[0]
      elif how == 'groupwrap':
        g = htf.PhaseGroup(teardown=[ph])
        ph, d = g.teardown.nodes[0], g.wrap([ph]).teardown.nodes[0]
      else:
        g = htf.PhaseGroup(main=[ph])
        ph, d = g.main.nodes[0], g.combine(htf.PhaseGroup(setup=[ph])).main.nodes[0]
    elif how == 'test':
      d = list(htf.Test(ph).descriptor.phase_sequence.all_phases())[0]
    else:
      d = htf.PhaseDescriptor.wrap_or_copy(ph)
  fl = _shape(ph, d)
  if case.get('how') == 'measures':
    # measures() appends to the NEW list; the element inherited from the source is still the shared object
    pass
  return {'flags': fl}


def _canon_record(rec):
  out = {'outcome': rec.outcome.name if rec.outcome is not None else 'NOT-FINALIZED', 'phases': []}
  for p in rec.phases:
    out['phases'].append({
        'name': p.name, 'outcome': p.outcome.name if p.outcome else None,
        'meas': sorted((n, m.outcome.name, repr(m.measured_value.value) if m.measured_value.is_value_set else 'UNSET',
                        sorted(str(v) for v in m.validators))
                       for n, m in p.measurements.items()),
        'att': sorted((n, a.data) for n, a in p.attachments.items()),
        'diag': sorted(r.name for r in p.diagnosis_results),
    })
  out['diagnoses'] = sorted(d.result.name for d in rec.diagnoses)
  return out


def _subst(env, node):
  """substitute the placeholder plug where it is still a placeholder (with_plugs on an already substituted phase raises
  InvalidPlugError by design)"""
  _, base_plugs, _ = _mods()
  from openhtf.core import phase_descriptor
  if isinstance(node, phase_descriptor.PhaseDescriptor):
    if any(isinstance(p.cls, base_plugs.PlugPlaceholder) for p in node.plugs):
      return node.with_plugs(pl=env.Sub)
    return node.copy()      # apply_to_all_phases keeps whatever the function returns: returning the phase would share it
  return node.apply_to_all_phases(lambda ph: _subst(env, ph))


def _phases_of(node):
  htf, _, _ = _mods()
  from openhtf.core import phase_descriptor
  if isinstance(node, phase_descriptor.PhaseDescriptor):
    return [node]
  if hasattr(node, 'all_phases'):
    return list(node.all_phases())
  return []


def _run_s(case):
  ec.setup()
  logging.disable(logging.CRITICAL)
  env = _Env()
  htf = env.htf
  pool = [env.root]          # every declaration object created so far
  facts = env.facts
  snaps = [json.dumps(_snap(env.root), sort_keys=True, default=str)]
  ref_records = {}

  def check(skip=()):
    for i, o in enumerate(pool):
      if i in skip:
        continue
      now = json.dumps(_snap(o), sort_keys=True, default=str)
      if now != snaps[i]:
        facts.append('X:pre-existing-object-changed:%d:%s' % (i, type(o).__name__))
        snaps[i] = now

  def add(o):
    pool.append(o)
    snaps.append(json.dumps(_snap(o), sort_keys=True, default=str))

  for stepno, step in enumerate(case['ops']):
    kind = step[0]
    src = pool[step[1] % len(pool)]
    try:
      if kind == 'with_args':
        add(src.with_args(x=step[2], tag='t%d' % step[2]))
      elif kind == 'with_plugs':
        add(_subst(env, src))
      elif kind == 'with_plugs_none':
        add(src.with_plugs(nothing=env.Sub))
      elif kind == 'with_args_none':
        add(src.with_args(not_a_parameter=step[2]))
      elif kind == 'copy':
        add(src.copy())
      elif kind == 'options':
        phs = _phases_of(src)
        if phs:
          add(htf.PhaseOptions(name='n%d' % step[2], repeat_limit=2)(phs[0]))
      elif kind == 'measures':
        phs = _phases_of(src)
        if phs:
          add(htf.measures(htf.Measurement('extra%d' % len(pool)))(phs[0]))
      elif kind == 'load_code_info':
        add(src.load_code_info())
      elif kind == 'seq':
        add(htf.PhaseSequence(src, pool[step[2] % len(pool)]))
      elif kind == 'group':
        add(htf.PhaseGroup(setup=[src], main=[pool[step[2] % len(pool)]]))
      elif kind == 'subtest':
        add(htf.Subtest('sub%d' % len(pool), src))
      elif kind == 'modify':
        # modify a DERIVED object in place (never the root declaration): its own option fields, lists, kwargs
        idx = step[1] % len(pool)
        if idx == 0:
          continue
        phs = _phases_of(pool[idx])
        if not phs:
          continue
        target = phs[step[2] % len(phs)]
        target.options.timeout_s = 5 + step[2]
        target.options.repeat_limit = 7
        target.extra_kwargs['tag'] = 'mod%d' % step[2]
        target.measurements.append(htf.Measurement('added%d' % stepno))
        target.diagnosers = list(target.diagnosers)
        check(skip=(idx,))
        snaps[idx] = json.dumps(_snap(pool[idx]), sort_keys=True, default=str)
        continue
      elif kind == 'execute':
        node = src
        t = htf.Test(_subst(env, node), env.tail)
        recs = []
        watch = [env.trigger, env.tail, t.descriptor.phase_sequence]
        watch_snaps = [json.dumps(_snap(o), sort_keys=True, default=str) for o in watch]
        t.add_output_callbacks(recs.append)
        t.configure(name='c11')
        firsts = {}
        for k in range(step[2]):
          del recs[:]
          del env.constructed[:]
          before_types = sorted(c.__name__ for c in t.descriptor.plug_types)
          before_opts = json.dumps(_snap(t._test_options), sort_keys=True, default=str)
          # station-wide settings vary from run to run; they must not stick to the Test
          sof = (step[1] + 2 * k) % 4 == 1
          allow = (step[1] + k) % 5 in (1, 2)
          env.fail_ctor = (step[1] * 7 + k) % 6 == 0 and k < step[2] - 1      # never the last run of the series
          env.conf.load(stop_on_first_failure=sof, allow_unset_measurements=allow, _override=True)
          # some runs are started by a trigger phase that needs a plug of its own
          with_trigger = (step[1] + k) % 3 == 0
          if with_trigger:
            t.execute(test_start=env.trigger)
          else:
            t.execute()
          env.conf._loaded_values.pop('stop_on_first_failure', None)
          env.conf._loaded_values.pop('allow_unset_measurements', None)
          failed_ctor, env.fail_ctor = env.fail_ctor, False
          if json.dumps(_snap(t._test_options), sort_keys=True, default=str) != before_opts:
            facts.append('X:test-options-changed-by-a-run')
          for wi, o in enumerate(watch):
            if json.dumps(_snap(o), sort_keys=True, default=str) != watch_snaps[wi]:
              facts.append('X:%s-changed-by-a-run' % ('trigger-phase', 'declared-phase', 'phase-tree-of-the-test')[wi])
          if env.conf.c11_settings != {'token': ['secret']}:
            facts.append('X:global-configuration-changed-by-a-run')
            env.conf.c11_settings['token'][:] = ['secret']
          if sorted(c.__name__ for c in t.descriptor.plug_types) != before_types:
            facts.append('X:plug-types-of-the-descriptor-changed-by-a-run')
          if not with_trigger and 'TriggerPlug' in env.constructed:
            facts.append('X:run-constructed-a-plug-only-an-earlier-run-needed')
          if not recs:
            facts.append('X:no-record')
            break
          c = json.dumps(_canon_record(recs[0]), sort_keys=True, default=str)
          key = (with_trigger, sof, allow, failed_ctor)
          first = firsts.get(key)
          if first is None:
            firsts[key] = c
          elif c != first:
            facts.append('X:repeated-run-gives-a-different-record')
          if recs[0].outcome.name not in (('ERROR',) if failed_ctor else ('PASS', 'FAIL')):
            # (FAIL: a measurement added to a derived phase is never set; ERROR: this run's plug constructor raised)
            facts.append('X:run-outcome-%s' % recs[0].outcome.name)
          if not allow:
            for p in recs[0].phases:
              if p.outcome is not None and p.outcome.name == 'PASS' and any(
                  m.outcome.name == 'UNSET' for m in p.measurements.values()):
                facts.append('X:unset-measurement-passes-although-this-run-does-not-allow-it')
    except Exception as e:  # pylint: disable=broad-except
      # by design: the same Subtest twice in one test, a duplicate measurement name after 'measures' on a phase that
      # already has it; the snapshot check below still applies to whatever the failed operation did
      by_design = type(e).__name__ in ('DuplicateSubtestNamesError', 'DuplicateNameError', 'InvalidPlugError')
      facts.append('%s:operation-%s-raised-%s' % ('I' if by_design else 'X', kind, type(e).__name__))
    check()
  return {'facts': sorted(set(facts)), 'n': len(pool)}


def _run_c(case):
  """two tests built from the SAME derived phases execute concurrently; each record must equal its solo record"""
  from harness import sched_exec
  sched_exec.install(False)
  env = _Env()
  htf = env.htf
  a = env.root.with_args(x=3, tag='ta')
  b = env.root.with_args(x=4, tag='tb')
  shared_seq = htf.PhaseSequence(a, b)

  def mk():
    t = htf.Test(_subst(env, shared_seq))
    recs = []
    t.add_output_callbacks(recs.append)
    t.configure(name='c11c')
    return t, recs
  solo_t, solo_r = mk()
  snap_before = json.dumps(_snap(shared_seq), sort_keys=True, default=str)

  def body0(s):
    solo_t.execute()
    return True
  sched.run(None, body0, max_steps=100000)
  ref = json.dumps(_canon_record(solo_r[0]), sort_keys=True, default=str) if solo_r else None
  t1, r1 = mk()
  t2, r2 = mk()

  def body(s):
    ths = [threading.Thread(target=t1.execute), threading.Thread(target=t2.execute)]
    for t in ths:
      t.start()
    for t in ths:
      t.join()
    return True
  box, s = sched.run(sched.chooser_for(case, 'c11'), body,
                     max_steps=200000)
  facts = list(env.facts)
  if s.deadlock or 'sched_error' in box:
    facts.append('X:deadlock-or-stuck')
  for r in (r1, r2):
    if not r:
      facts.append('X:no-record')
    elif json.dumps(_canon_record(r[0]), sort_keys=True, default=str) != ref:
      facts.append('X:concurrent-run-record-differs-from-solo-run')
  if json.dumps(_snap(shared_seq), sort_keys=True, default=str) != snap_before:
    facts.append('X:shared-declaration-changed-by-runs')
  return {'facts': sorted(set(facts))}


def run_real(case):
  return {'D': _run_d, 'S': _run_s, 'C': _run_c}[case['kind']](case)


def encode(case, o):
  if case['kind'] == 'D':
    return 'C11 D %s # %s' % (case['op'], ' '.join('1' if x else '0' for x in o['flags']))
  return 'C11 S ' + ' '.join(o['facts'])


def classify(case, o):
  return case['kind'] + (':' + case['op'] + ':' + case.get('how', '') if case['kind'] == 'D' else '')


def nontrivial_key(case, o):
  return json.dumps(case, sort_keys=True)


DERIVES = ['with_args', 'with_args_none', 'with_plugs', 'with_plugs_none', 'copy', 'options', 'measures', 'load_code_info', 'seq', 'group',
           'subtest']


def gen_cases(rng, tier):
  quick = tier == 'quick'
  cases = []
  for how in ('copy', 'options', 'measures', 'load_code_info', 'seq', 'group', 'nested', 'groupcopy', 'test', 'wrap', 'ctxgroup', 'ctxgroup2',
              'groupwrap', 'groupcombine'):
    cases.append({'kind': 'D', 'op': 'copy', 'how': how})
  for op in ('withArgs', 'withPlugsMatch', 'withPlugsNone'):
    cases.append({'kind': 'D', 'op': op})
  cases.append({'kind': 'D', 'op': 'withArgs', 'how': 'unknown'})
  for i in range(500 if quick else 8000):
    r = rng.derive(i)
    ops = []
    for _ in range(r.choice([3, 5, 8])):
      c = r.random()
      if c < 0.55:
        ops.append([r.choice(DERIVES), r.randrange(50), r.randrange(9)])
      elif c < 0.8:
        ops.append(['modify', r.randrange(50), r.randrange(5)])
      else:
        ops.append(['execute', r.randrange(50), r.choice([1, 2, 3])])
    cases.append({'kind': 'S', 'ops': ops})
  for i in range(30 if quick else 600):
    r = rng.derive('c%d' % i)
    cases.append({'kind': 'C', 'rseed': r.getrandbits(32), 'switch': r.choice([0.2, 0.5, 0.8])})
  return cases


def shrink(case):
  if case['kind'] == 'S':
    for i in range(len(case['ops'])):
      yield dict(case, ops=case['ops'][:i] + case['ops'][i + 1:])


def known_match(entry, case, obs, msg):
  return entry['match'] in msg


MANIFEST = {
    'text': 'Proof: 7 Lean theorems over a heap model (objects with identities, allocation appends): attr_copy only '
            'allocates (every old address keeps its object) and the copy of an existing object is a new object, for every '
            'heap shape (mutual induction over attr_copy / its per-field rule); each derive operation (copy / wrap_or_copy, '
            'with_args, with_plugs matching or not) and every history of them leaves the source and everything reachable '
            'from it unchanged and returns a new phase object; a run that writes only to what it allocated leaves the '
            'descriptors unchanged; writes of two runs to different objects commute. Tie: identity graph of real derived '
            'phases vs the model on a canonical phase; histories of derive / modify / nest / execute on shared real '
            'declarations with deep snapshots after every operation; repeated and concurrent executions.',
    'note': 'Trusted: Lean kernel + standard axioms; harness (deep snapshot, identity graph); Lean driver. PARTIAL: that '
            'the code performs no write outside the modelled ones is established by the snapshot / identity correspondence '
            'on generated histories, not by a theorem about Python. Objects below the directly owned containers '
            '(Measurement and PhasePlug objects inside the copied lists, validators) are shared between a derived phase and '
            'its source by design of attr_copy; the framework never writes through them (checked), user code could. Model '
            'follows the tree after fix: commits f7390324 (with_plugs returns a copy) and 16272ea2 (copies of sequences and '
            'groups copy their nodes).',
}
