"""C12 — phase timeout and thread kill: no hang, no false timeout, kill confined to the body.

Tie: (K) the real util.threads.KillableThread under the cooperative scheduler with 0-3 concurrent kill() callers:
the action sequence on its running lock / killed event / is_alive / SetAsyncExc is replayed by the Lean model
(Model/Kill.lean); (J) PhaseExecutorThread.join_or_die inside real Test.execute() runs under VIRTUAL time with body
durations around the deadline and the poll instants; (G) timed-out phases at every position of a group; (A) an
abandoned (unkillable) body that acts after its phase was given up."""
import itertools
import threading

from harness import common
from harness import exec_common as ec
from harness import sched

PROP = 'C12'
PROOF_MODULE = 'OpenHTF.Proofs.C12'
THEOREMS = [
    'OpenHTF.Kill.c12_kill_before_start_no_body',
    'OpenHTF.Kill.c12_killed_flag_never_cleared',
    'OpenHTF.Kill.c12_kill_after_body_no_raise',
    'OpenHTF.Kill.c12_kills_after_body_have_no_effect',
    'OpenHTF.Kill.c12_no_exception_without_effective_raise',
    'OpenHTF.Kill.c12_pending_exception_preempts_body',
    'OpenHTF.Kill.c12_no_false_timeout',
    'OpenHTF.Kill.c12_timeout_only_if_still_running_at_deadline',
    'OpenHTF.Kill.c12_still_running_at_deadline_times_out',
    'OpenHTF.Kill.c12_locked_probe_is_the_targets_hold',
    'OpenHTF.Kill.probe_by_acquire_misleads_a_second_killer',
    'OpenHTF.Kill.c12_bounded_delay',
    'OpenHTF.Kill.c12_hung_body_times_out',
    'OpenHTF.Kill.c12_default_timeout',
]
RULE = ('(K) KillableThread with a body of 0-3 steps and 0-3 kill() callers (before start / concurrent / after exit): all '
        'interleavings with one killer, <=2 preemptions with two, random beyond; (J) join_or_die under virtual time: '
        'timeouts {0, 1/16 .. 3 s, default 180 s} x poll intervals x durations at every poll instant, deadline-1/16, '
        'deadline, deadline+1/16, never; (G) group programs with a timed-out phase in setup/main/teardown/nested '
        'positions under virtual time, compared with the executor model; (A) an unkillable body that writes a measurement '
        'after its phase was abandoned')
ASSUMPTIONS = ['virtual time: the clock advances only while every thread is blocked (the property is quantified over virtual '
               'time); a phase thread that is runnable is not starved for a whole poll interval',
               'a pending asynchronous exception is raised at the target thread\'s next scheduling point (CPython: next '
               'bytecode boundary); a body stuck in C code is modelled as an unkillable body',
               'PyThreadState_SetAsyncExc, threading.Lock/Event are replaced by cooperative equivalents in scheduled runs']
TRUSTED = ['harness/sched.py', 'harness/sched_exec.py', 'harness/props/c12.py (trace abstraction)',
           'lean/OpenHTF/Driver/C12.lean']
CONST_PREFIXES = ['c12.']
PROCS = 12
U = 16.0    # virtual time unit: 1/16 s (exact in binary floating point)


def _chooser(case):
  if case.get('choices') is not None:
    ex = sched.Explorer()
    ex.prefix = list(case['choices'])
    return ex.choose
  if case.get('rseed') is None:
    return None
  return sched.chooser_for(case, 'c12')


# ---------------------------------------------------------------------------
# K

def _install_k():
  ec.setup()
  sched.install_threads()
  from openhtf.util import threads
  sched._patch(threads, 'threading', sched.shim_threading())
  sched._patch(threads, 'ctypes', sched.CoCtypes)
  return threads


def _k_body(case, res):
  threads = _install_k()

  class Target(threads.KillableThread):

    def __init__(self, steps, tag):
      super(Target, self).__init__(name=tag)
      self._cosched_name = tag
      self.steps = steps

    def _thread_proc(self):
      s = sched.SCHED
      s.log('bstart', self)
      try:
        for _ in range(self.steps):
          s.yield_point('body')
          s.log('bstep', self)
        s.log('bend', self)
        if self._cosched_name == 'tgt':
          res['body_returned'] = True
      except threads.ThreadTerminationError:
        s.log('tte-in-body', self)
        raise
      if case.get('raises') and self._cosched_name == 'tgt':
        raise RuntimeError('the body ends with an ordinary exception')

    def _thread_exception(self, *args):
      # "called if _thread_proc raises": part of what runs after the body; a kill arriving here has no effect
      s = sched.SCHED
      try:
        s.yield_point('handler')
        s.log('hstep', self)
        s.yield_point('handler')
        s.log('hstep', self)
      except threads.ThreadTerminationError:
        s.log('tte-in-handlers', self)
      return True

    def _thread_finished(self):
      s = sched.SCHED
      try:
        s.yield_point('handler')
        s.log('hstep', self)
      except threads.ThreadTerminationError:
        s.log('tte-in-handlers', self)

  def body(s):
    tgt = Target(case['steps'], 'tgt')
    by = Target(2, 'bystander')
    res['tgt'], res['by'] = tgt, by
    res['kill_errors'] = []
    real_kill = tgt.kill

    def kill():
      # kill() reports nothing to its caller, whatever the target is doing (the executor calls it from join_or_die and
      # from the abort path: an exception there loses the teardown)
      try:
        real_kill()
      except (sched.Deadlock, sched.SchedulerStuck):
        raise
      except BaseException as e:  # pylint: disable=broad-except
        res['kill_errors'].append(type(e).__name__)
    tgt.kill = kill
    by.start()
    for _ in range(case['before']):
      tgt.kill()
    ks = []
    for j in range(case['concurrent']):
      t = threading.Thread(target=tgt.kill)
      t._cosched_name = 'k%d' % j
      ks.append(t)
    # killers that call kill() only once the body has returned (the time-out kill of join_or_die and the kill of an
    # abort, both arriving while the thread is in its handlers)
    def late_kill():
      s.block(lambda: res.get('body_returned') or tgt._cosched_ts.finished, None, 'wait-for-body-end')
      tgt.kill()
    for j in range(case.get('late', 0)):
      t = threading.Thread(target=late_kill)
      t._cosched_name = 'late%d' % j
      ks.append(t)
    for t in ks[:case.get('early', 0)]:
      t.start()
    tgt.start()
    for t in ks[case.get('early', 0):]:
      t.start()
    for t in ks:
      t.join()
    tgt.join()
    for _ in range(case['after']):
      tgt.kill()
    by.join()
    return True
  return body


def _k_abstract(events, tgt):
  lock, kev = tgt._running_lock, tgt._killed
  toks = []
  in_body = False
  body_over = False
  where = set()
  kstate = {}     # thread -> [index, state]
  nk = 0
  facts = set()
  body_killed_effectively = False
  for (th, op, obj, extra) in events:
    if th == 'tgt':
      if op == 'acq' and obj is lock:
        toks.append('ta')
      elif op == 'is_set' and obj is kev:
        toks.append('tc')
        in_body = not extra
        body_over = bool(extra)
      elif op == 'bstep' and obj is tgt:
        toks.append('tb')
      elif op == 'bend' and obj is tgt:
        if body_killed_effectively:
          facts.add('X:kill-during-body-did-not-terminate-the-body')
      elif op == 'rel' and obj is lock:
        if in_body:
          toks.append('te')
          body_over = True
        in_body = False
      elif op == 'hstep' and obj is tgt:
        toks.append('th')
      elif op == 'deliver':
        toks.append('td')
        where.add('body' if in_body else ('after' if body_over else 'before'))
        # whatever it interrupted, the thread now unwinds into its handlers: a further delivery lands there
        body_over = True
        in_body = False
      elif op == 'finish':
        toks.append('tf')
      continue
    if op == 'deliver' and th != 'tgt':
      facts.add('X:exception-raised-in-another-thread:' + th)
    if op == 'tte-in-body' and obj is not tgt:
      facts.add('X:exception-raised-in-another-thread:' + th)
    if op == 'start' and obj is tgt:
      toks.append('st')
      continue
    if op == 'set' and obj is kev:
      kstate[th] = [nk, 1]
      toks.append('ks:%d' % nk)
      nk += 1
      continue
    st = kstate.get(th)
    if st is None:
      continue
    i = st[0]
    if op == 'is_alive' and obj is tgt:
      if st[1] == 1:
        toks.append('ka:%d' % i)
        st[1] = 2 if extra else 9
      elif st[1] == 3:
        toks.append('kc:%d' % i)
        st[1] = 4 if extra else 9
    elif op in ('acq', 'tryacq-failed') and obj is lock and st[1] == 2:
      toks.append('kt:%d' % i)
      st[1] = 3 if op == 'tryacq-failed' else 9
    elif op == 'locked' and obj is lock and st[1] == 2:
      toks.append('kt:%d' % i)
      st[1] = 3 if extra else 9
    elif op == 'async_raise' and st[1] == 4:
      toks.append('kr:%d' % i)
      st[1] = 9
      if extra and in_body:
        body_killed_effectively = True
  return toks, sorted(facts), where


def _run_k(case, chooser=None):
  res = {}
  threads = _install_k()
  # the lock probe of kill() is two calls (try-acquire, release): a thread switch between them is possible in CPython
  codes = sched.codes_of(threads.KillableThread._is_thread_proc_running) if case.get('late') else None
  box, s = sched.run(chooser or _chooser(case), _k_body(case, res), max_steps=5000, trace_lines=codes)
  tgt = res['tgt']
  toks, facts, where = _k_abstract(s.events, tgt)
  ops = [(th, op) for (th, op, obj, extra) in s.events if obj is tgt or th == 'tgt']
  body_ran = ('tgt', 'bstart') in ops
  # where the asynchronous exception surfaced in the target: inside _thread_proc / after it returned
  rb = 'body' in where
  rh = 'after' in where
  if rb != (('tgt', 'tte-in-body') in ops):
    facts.append('X:exception-surfaced-in-body-but-body-did-not-see-it' if rb else 'X:body-saw-an-exception-outside-its-run')
  fin = ('tgt', 'finish') in ops
  if s.deadlock or isinstance(box.get('sched_error'), sched.Deadlock):
    facts.append('X:deadlock')
  elif 'sched_error' in box:
    facts.append('X:scheduler-stuck')
  for e in sorted(set(res.get('kill_errors', []))):
    facts.append('X:kill-raised-in-its-caller:' + e)
  if any(op == 'tte-in-body' or op == 'tte-in-handlers' for (th, op, obj, extra) in s.events if obj is res['by']):
    facts.append('X:exception-raised-in-another-thread:bystander')
  return {'toks': toks, 'real': [int(body_ran), int(rb), int(rh), int(fin)], 'facts': facts}


# ---------------------------------------------------------------------------
# J / G / A

def _P(i, raw='cont', **kw):
  return dict({'t': 'P', 'id': i, 'opts': {}, 'beh': [{'raw': raw}]}, **kw)


def _with_interval(interval_s):
  from openhtf.core import phase_executor
  ec.setup()
  phase_executor._JOIN_TRY_INTERVAL_SECONDS = interval_s if interval_s is not None else ec.ORIG_JOIN_INTERVAL


def _run_j(case):
  from harness import sched_exec
  from openhtf.core import phase_executor
  ec.setup()
  sched_exec.install(False)
  saved = phase_executor._JOIN_TRY_INTERVAL_SECONDS
  saved_fin = phase_executor.PhaseExecutorThread.__dict__.get('_thread_finished')
  hdur = case.get('h', 0)
  try:
    if hdur and not case.get('exc'):
      # the designated override point "called once _thread_proc has finished" takes hdur of virtual time
      vt = sched.VTime()
      phase_executor.PhaseExecutorThread._thread_finished = (
          lambda self: vt.sleep(hdur / U) if self._phase_desc.name == 'p1' else None)
    phase_executor._JOIN_TRY_INTERVAL_SECONDS = (case['interval'] / U) if case['interval'] is not None else ec.ORIG_JOIN_INTERVAL
    d = case['d']
    a = {'t': 'P', 'id': 1, 'opts': {}, 'beh': [{'raw': 'exc' if case.get('exc') else 'cont', 'sleep': (d / U) if d is not None else 1e7}]}
    if case['timeout'] is not None:
      a['timeout_s'] = case['timeout'] / U
    test = {'nodes': [_P(3), {'t': 'G', 's': [], 'm': [a], 'td': [_P(2)]}]}
    slow = None
    if case.get('exc') and hdur:
      # the body raised (its result is the exception); reporting it through a slow log handler takes hdur
      import logging as _logging
      vt2 = sched.VTime()

      class Slow(_logging.Handler):
        def createLock(self):
          self.lock = None

        def emit(self, record):
          # (only for a thread of THIS run: a body abandoned by an earlier case of the worker process may still log)
          if 'raised an exception' in record.getMessage() and not getattr(self, 'done', False) and \
              sched.SCHED is not None and sched.SCHED.me() is not None:
            self.done = True
            vt2.sleep(hdur / U)
      slow = Slow()
      _root = _logging.getLogger('openhtf')
      _saved_level, _saved_disabled = _root.level, _root.disabled
      _root.setLevel(_logging.DEBUG)
      _root.disabled = False
      _root.addHandler(slow)
    try:
      out = sched_exec.run_case(test, choose=_chooser(case), prepare=lambda env: setattr(env['ctx'], 'record_times', True),
                                max_steps=400000, enable_logging=bool(slow))
    finally:
      if slow is not None:
        _root.removeHandler(slow)
        _root.setLevel(_saved_level)
        _root.disabled = _saved_disabled
        _logging.disable(_logging.CRITICAL)      # as the other cases of this worker process expect it
  finally:
    phase_executor._JOIN_TRY_INTERVAL_SECONDS = saved
    if hdur and not case.get('exc'):
      if saved_fin is None:
        del phase_executor.PhaseExecutorThread._thread_finished
      else:
        phase_executor.PhaseExecutorThread._thread_finished = saved_fin
  times = out['ctx'].times
  t0, t1 = times.get((3, 0)), times.get((2, 0))
  p1 = [t for t in out['tokens'] if t.startswith('p1:')]
  res = '?'
  if p1:
    res = 'timeout' if ':timeout' in p1[0] else (
        'own' if p1[0].startswith('p1:PASS:cont') or (case.get('exc') and p1[0].startswith('p1:ERROR:exc')) else p1[0])
  tret = None if (t0 is None or t1 is None) else (t1 - t0) * U
  facts = []
  if out['deadlock']:
    facts.append('X:deadlock')
    res = 'deadlock'
  if out['stuck']:
    facts.append('X:executor-never-proceeded')
    res, tret = 'hang', 0
  return {'res': res, 't': tret, 'facts': facts, 'interval_used': case['interval'] if case['interval'] is not None
          else ec.ORIG_JOIN_INTERVAL * U, 'outcome': ' '.join(out['tokens'][:2]) if out['tokens'] and 'BROKEN' in out['tokens'][0] else (out['tokens'][0] if out['tokens'] else '?')}


def _run_g(case):
  from harness import sched_exec
  out = sched_exec.run_case(case['test'], choose=_chooser(case))
  toks = ec.core_tokens(out['tokens'])
  if out['deadlock']:
    toks = ['O:DEADLOCK'] + toks
  if out['stuck']:
    toks = ['O:HANG'] + toks
  return {'tokens': toks}


def _run_a(case):
  """phase A (timeout 1 s) cannot be killed, goes on for 5 s and then writes a measurement and logs; meanwhile the
  group's teardown phase B (10 s) runs and sets its own measurement of the same name."""
  from harness import sched_exec
  import openhtf as htf
  import logging
  sched_exec.install(True)
  vt = sched.VTime()
  marks = []

  @htf.PhaseOptions(timeout_s=1)
  @htf.measures(htf.Measurement('m'), htf.Measurement('late'))
  def phase_a(test):
    end = vt.time() + 5
    while True:
      try:
        left = end - vt.time()
        if left <= 0:
          break
        vt.sleep(left)
      except BaseException:  # pylint: disable=broad-except
        marks.append('swallowed')
    test.measurements.late = 99
    test.measurements.m = 7
    test.attach('late_attachment', b'from A')
    test.logger.info('late message from A')
    marks.append('a-finished')
    return htf.PhaseResult.CONTINUE

  @htf.measures(htf.Measurement('m'))
  def phase_b(test):
    test.measurements.m = 1
    vt.sleep(10)
    marks.append('b-finished')
    return htf.PhaseResult.CONTINUE

  test = htf.Test(htf.PhaseGroup(main=[phase_a], teardown=[phase_b]))
  recs = []
  test.add_output_callbacks(recs.append)
  test.configure(name='verif_abandoned')

  def body(s):
    return test.execute()
  box, s = sched.run(_chooser(case), body, max_steps=100000)
  logging.disable(logging.CRITICAL)
  facts = []
  if s.deadlock or 'sched_error' in box:
    facts.append('X:execute-did-not-return')
    return {'facts': facts}
  rec = recs[0]
  if rec.outcome.name != 'TIMEOUT':
    facts.append('X:outcome-%s-instead-of-TIMEOUT' % rec.outcome.name)
  names = [p.name for p in rec.phases]
  if names != ['phase_a', 'phase_b']:
    facts.append('X:phase-records-%s' % '/'.join(names))
  else:
    a, b = rec.phases
    if a.result is None or not a.result.is_timeout:
      facts.append('X:abandoned-phase-result-is-not-timeout')
    if b.outcome.name != 'PASS' or b.result.phase_result is not htf.PhaseResult.CONTINUE:
      facts.append('X:teardown-phase-outcome-%s' % b.outcome.name)
    mb = b.measurements['m'].measured_value
    if not mb.is_value_set or mb.value != 1:
      facts.append('X:late-write-of-abandoned-body-attributed-to-another-phase-record')
    if 'late' in b.measurements:
      facts.append('X:late-measurement-in-another-phase-record')
    if 'late_attachment' in b.attachments:
      facts.append('X:late-attachment-of-abandoned-body-in-another-phase-record')
  if 'b-finished' not in marks:
    facts.append('X:teardown-phase-did-not-run-to-completion')
  return {'facts': facts, 'marks': marks}


# ---------------------------------------------------------------------------

def run_real(case):
  if case['kind'] == 'P':
    # a phase time-out followed by plug tearDown (judged by the C08 driver: every tearDown runs, none is cut short by
    # another one that hangs)
    from harness.props import c08
    return c08.run_real(case['c08'])
  return {'K': _run_k, 'J': _run_j, 'G': _run_g, 'A': _run_a}[case['kind']](case)


def encode(case, o):
  k = case['kind']
  if k == 'P':
    from harness.props import c08
    return c08.encode(case['c08'], o)
  if k == 'K':
    return 'C12 K %s # %s %s' % (' '.join(o['toks']), ' '.join(str(x) for x in o['real']), ' '.join(o['facts']))
  if k == 'J':
    t = o['t']
    return 'C12 J %s %d %s %d # %s %s' % ('-' if case['timeout'] is None else case['timeout'], int(o['interval_used']),
                                          'inf' if case['d'] is None else case['d'], case.get('h', 0), o['res'],
                                       '?' if t is None or t != int(t) else int(t))
  if k == 'G':
    return 'C12 G %s # %s' % (ec.clean(ec.enc_test(case['test'])), ' '.join(o['tokens']))
  return 'C12 A ' + ' '.join(o['facts'])


def classify(case, o):
  if case['kind'] == 'K':
    return 'K/%db%dc%da/%s' % (case['before'], case['concurrent'], case['after'], 'dfs' if case.get('choices') is not None else 'rnd')
  if case['kind'] == 'J':
    return 'J/' + o['res']
  return case['kind']


def nontrivial_key(case, o):
  if case['kind'] == 'P':
    import json
    return json.dumps(case['c08'], sort_keys=True)
  if case['kind'] == 'K':
    return ' '.join(o['toks'])
  if case['kind'] == 'J':
    return '%s/%s/%s/%s' % (case['timeout'], case['interval'], case['d'], case.get('h', 0))
  if case['kind'] == 'G':
    return ec.clean(ec.enc_test(case['test']))
  return 'A%s' % case.get('rseed')


def _dfs(cfg, bound, limit):
  out = []
  res = {}
  threads = _install_k()
  codes = sched.codes_of(threads.KillableThread._is_thread_proc_running) if cfg.get('late') else None
  for box, s, choices in sched.explore(_k_body(cfg, res), preemption_bound=bound, limit=limit, max_steps=5000,
                                       trace_lines=codes):
    out.append(dict(cfg, choices=choices))
  return out


def gen_cases(rng, tier):
  quick = tier == 'quick'
  cases = []
  base = {'kind': 'K', 'before': 0, 'concurrent': 0, 'after': 0, 'steps': 1, 'early': 0}
  cases += _dfs(dict(base, before=1), None, 200)
  cases += _dfs(dict(base, after=1), None, 200)
  cases += _dfs(dict(base, concurrent=1, early=1, steps=1), None if not quick else 4, 2500 if quick else 20000)
  cases += _dfs(dict(base, concurrent=1, early=0, steps=2), 3, 1500 if quick else 20000)
  cases += _dfs(dict(base, concurrent=2, early=1, steps=1), 2, 1500 if quick else 20000)
  cases += _dfs(dict(base, concurrent=1, early=1, steps=0), 3, 800 if quick else 8000)
  for i in range(400 if quick else 6000):
    r = rng.derive('k%d' % i)
    c = r.choice([0, 1, 2, 3])
    cases.append(dict(base, before=r.choice([0, 0, 1]), concurrent=c, early=r.randrange(c + 1), after=r.choice([0, 1]),
                      steps=r.choice([0, 1, 2, 3]), rseed=r.getrandbits(32), switch=r.choice([0.3, 0.6, 0.9]),
                      raises=r.random() < 0.4))
  # two or three killers that all arrive after the body has returned
  for i in range(150 if quick else 3000):
    r = rng.derive('kl%d' % i)
    cases.append(dict(base, late=r.choice([2, 2, 3]), steps=r.choice([0, 1, 2]), rseed=r.getrandbits(32),
                      switch=r.choice([0.3, 0.6, 0.9]), raises=r.random() < 0.6))
  cases += _dfs(dict(base, late=2, steps=0, raises=True), 3, 600 if quick else 6000)
  # J: durations around the deadline and every poll instant
  for timeout, interval in [(0, 4), (1, 4), (16, 4), (16, 5), (16, 16), (17, 4), (40, 16), (48, 48), (8, 32)]:
    ds = set([0, 1, timeout - 1, timeout, timeout + 1, timeout + interval - 1, timeout + interval, timeout + interval + 1, None])
    k = 0
    while k * interval <= timeout + interval:
      ds |= {k * interval - 1, k * interval, k * interval + 1}
      k += 1
    for d in sorted(x for x in ds if x is None or x >= 0) if False else sorted([x for x in ds if x is not None and x >= 0]) + [None]:
      cases.append({'kind': 'J', 'timeout': timeout, 'interval': interval, 'd': d})
      if d is not None and timeout - 3 <= d <= timeout + 1:
        # the thread outlives its body (handlers take time): the deadline / a poll instant falls in between
        for h in (1, 2, interval, interval + 1):
          cases.append({'kind': 'J', 'timeout': timeout, 'interval': interval, 'd': d, 'h': h})
  # a body that raises before its deadline while reporting the exception (logging) is still going on at the deadline
  for timeout, interval in [(16, 4), (17, 4), (40, 16)]:
    for d in (timeout - 3, timeout - 1):
      for h in (2, 5, interval + 1):
        cases.append({'kind': 'J', 'timeout': timeout, 'interval': interval, 'd': d, 'h': h, 'exc': True})
  # the default timeout (DEFAULT_PHASE_TIMEOUT_S) with the real poll interval
  for d in [16, 179 * 16, 180 * 16 - 1, 180 * 16, 180 * 16 + 1, 183 * 16, 184 * 16, None]:
    cases.append({'kind': 'J', 'timeout': None, 'interval': None, 'd': d})
  for i in range(40 if quick else 600):
    r = rng.derive('j%d' % i)
    timeout = r.choice([2, 7, 16, 33, 64])
    cases.append({'kind': 'J', 'timeout': timeout, 'interval': r.choice([1, 3, 4, 16, 50]),
                  'd': r.choice([None] + list(range(0, timeout + 60))), 'h': r.choice([0, 0, 1, 3, 9]),
                  'rseed': r.getrandbits(32), 'switch': 0.3})
  # the body returns exactly at a poll instant at / after the deadline: the executor's "still alive -> kill" and the
  # thread's exit race under many schedules (a kill that finds the thread gone must have no effect at all)
  for i in range(150 if quick else 3000):
    r = rng.derive('jr%d' % i)
    timeout, interval = r.choice([(16, 4), (16, 16), (8, 4), (4, 4)])
    cases.append({'kind': 'J', 'timeout': timeout, 'interval': interval, 'd': timeout + r.choice([0, 0, 0, interval]),
                  'h': r.choice([0, 0, 1]), 'rseed': r.getrandbits(32), 'pct': r.choice([2, 3, 3, 4]), 'horizon': r.choice([60, 150, 400])})
  # G: a timed-out phase at every position
  T = lambda i: _P(i, 'timeout')
  G = lambda s, m, td: {'t': 'G', 's': s, 'm': m, 'td': td}
  progs = [
      [G([T(1)], [_P(2)], [_P(3)]), _P(4)],
      [G([_P(1)], [T(2), _P(3)], [_P(4), _P(5)]), _P(6)],
      [G([_P(1)], [_P(2)], [T(3), _P(4)]), _P(5)],
      [G([], [G([_P(1)], [T(2)], [_P(3)])], [_P(4)]), _P(5)],
      [G([], [_P(1)], [G([], [T(2)], [_P(3)]), _P(4)])],
      [{'t': 'U', 'name': 7, 'ns': [G([], [T(1)], [_P(2)]), _P(3)]}, _P(4)],
      [T(1), _P(2)],
      [_P(1, 'timeout', opts={'rot': True, 'limit': 2}, beh=[{'raw': 'timeout'}, {'raw': 'cont'}]), _P(2)],
      [_P(1, 'timeout', opts={'rot': True, 'limit': 2}, beh=[{'raw': 'timeout'}, {'raw': 'timeout'}]), _P(2)],
  ]
  for p in progs:
    cases.append({'kind': 'G', 'test': {'nodes': p}})
    if not quick:
      cases.append({'kind': 'G', 'test': {'nodes': p, 'sof': True}})
  for i in range(40 if quick else 800):
    r = rng.derive('g%d' % i)
    g = ec.Gen(r, allow_timeout=True, p_timeout=0.25)
    t = g.case(depth=r.choice([1, 2, 3]), width=r.choice([1, 2, 3]))
    cases.append({'kind': 'G', 'test': t, 'rseed': r.getrandbits(32), 'switch': 0.2})
  # P: a timed-out phase, then plug tearDown with one tearDown hanging and the others taking their time
  for tds in itertools.permutations(['hang', 'slow', None]):
    for where in ('main', 'setup'):
      ph = lambda i, raw, plugs: {'t': 'P', 'id': i, 'opts': {}, 'beh': [{'raw': raw}], 'plugs': plugs}
      tmo = ph(2, 'timeout', [['a', 0], ['b', 1]])
      grp = {'t': 'G', 's': [tmo] if where == 'setup' else [], 'm': [tmo] if where == 'main' else [ph(2, 'cont', [['a', 0]])],
             'td': [ph(3, 'cont', [['c', 2]])]}
      cases.append({'kind': 'P', 'c08': {'nodes': [ph(1, 'cont', [['a', 0], ['b', 1], ['c', 2]]), grp],
                                         'plugs': {str(i): ({'td': t} if t else {}) for i, t in enumerate(tds)},
                                         'callbacks': [False], 'src': 'timeout+teardown'}})
  for i in range(3 if quick else 40):
    cases.append({'kind': 'A', 'rseed': None if i == 0 else rng.derive('a%d' % i).getrandbits(32), 'switch': 0.3})
  return cases


def shrink(case):
  if case['kind'] == 'K' and case.get('choices'):
    ch = list(case['choices'])
    while ch and ch[-1] == 0:
      ch.pop()
    if len(ch) < len(case['choices']):
      yield dict(case, choices=ch)
  if case['kind'] == 'K' and case.get('choices') is None:
    for k in ('before', 'concurrent', 'after', 'steps'):
      if case[k] > 0:
        yield dict(case, **{k: case[k] - 1, 'early': min(case['early'], max(0, case['concurrent'] - (1 if k == 'concurrent' else 0)))})


def known_match(entry, case, obs, msg):
  return entry['match'] in msg


MANIFEST = {
    'text': 'Proof: 11 Lean theorems. Kill (an interleaving model of KillableThread.run/kill/async_raise with ANY number of '
            'concurrent kill() callers, every schedule): a kill before start means the body never runs; the killed flag is '
            'never cleared; a kill() requested after the body returned never reaches SetAsyncExc and if all kills are such '
            'nothing is ever raised, pending or delivered; no exception exists without an effective raise by a kill that '
            'saw the body running; a pending exception pre-empts every further body/handler step. Timeout (join_or_die '
            'as a poll loop over virtual time, every timeout, poll interval, duration and tie-break): a body returning '
            'before its deadline is never reported as timed out; TIMEOUT only if the body was still running at the '
            'deadline; a body that never returns is reported; the executor proceeds before deadline + one poll interval; '
            'the default is DEFAULT_PHASE_TIMEOUT_S (regenerated constant). Tie: real KillableThread under the '
            'cooperative scheduler (exhaustive / bounded / random schedules), real Test.execute() under virtual time '
            'with durations at every poll instant and around the deadline, timed-out phases at every group position '
            '(executor model), an unkillable abandoned body writing late.',
    'note': 'Trusted: Lean kernel + standard axioms; harness/sched.py (virtual time, pending-exception delivery at the next '
            'scheduling point); trace abstraction; Lean driver. PARTIAL with respect to the runtime: where CPython delivers '
            'an asynchronous exception, whether a thread stuck in C ever dies, and starvation of a runnable phase thread '
            'for a whole poll interval (excluded by the virtual-time reading of the property) are outside the model. '
            'TIMEOUT outcome, teardown and plug tearDown after a timeout are theorems of the executor model (C01 C03 C08) '
            'and are tied here by the (G) runs.',
}
