"""C07 — built-in validators: real validator objects vs Lean model `OpenHTF.Validators` (exact arithmetic)."""
import copy
import itertools
import math
from fractions import Fraction

PROP = 'C07'
PROOF_MODULE = 'OpenHTF.Proofs.C07'
THEOREMS = [
    'OpenHTF.Validators.c07_inrange_iff',
    'OpenHTF.Validators.c07_none_nan_never_pass',
    'OpenHTF.Validators.c07_marginal_iff_band',
    'OpenHTF.Validators.c07_ctor_rejects_iff_inconsistent',
    'OpenHTF.Validators.c07_equals_number',
    'OpenHTF.Validators.c07_allinrange_iff',
    'OpenHTF.Validators.c07_percent_symmetric',
    'OpenHTF.Validators.c07_percent_bounds',
    'OpenHTF.Validators.c07_percent_marginal_inside',
    'OpenHTF.Validators.c07_percent_marginal_iff',
    'OpenHTF.Validators.c07_pctcall_iff',
    'OpenHTF.Validators.c07_pivot',
    'OpenHTF.Validators.c07_consistent_end',
    'OpenHTF.Validators.c07_equals_str',
    'OpenHTF.Validators.c07_all_equals_str',
]
RULE = ('limit tuples from a pool of ints, floats (incl. 0.1, 1e308, +-inf), bools, numeric strings with type=, None; '
        'probes = each reported bound, its float neighbours (nextafter), +-0.0, +-inf, NaN, None, 10**400, a string; '
        'every number of a case is converted with Fraction (exact) and the case scaled to integers, so model and code '
        'decide the same rationals; percent: reported bounds must be within 4 ulp of e +- |e*p|/100 and the exact '
        'formula decides away from the rounded boundary; non-trivial = distinct case with an accepted constructor')
ASSUMPTIONS = [
    'IEEE rounding of expected*percent/100.0 within 4 ulp (floating-point envelope for WithinPercent bounds)',
    'string limits are exempt from constructor consistency checks (they may be with_args templates)',
    'regex semantics are not re-modelled: equals(str)/matches_regex are compared against literal equality / literal '
    'prefix for escaped literals only (correspondence-only part)',
]
TRUSTED = ['harness/props/c07.py (exact scaling with fractions.Fraction)', 'lean/OpenHTF/Driver/C07.lean',
           'modelled not verified: Python float comparison (IEEE total order on non-NaN), re module']
CONST_PREFIXES = ['c07.']

INF = float('inf')
NAN = float('nan')
HUGE = 10 ** 400


def _is_num(x):
  return isinstance(x, (int, float)) and not isinstance(x, str)


def _frac(x):
  return Fraction(x)


def _scale(nums):
  den = 1
  for x in nums:
    if _is_num(x) and not (isinstance(x, float) and (math.isnan(x) or math.isinf(x))):
      d = _frac(x).denominator
      den = den * d // math.gcd(den, d)
  return den


def _vtok(x, scale):
  if x is None:
    return 'N'
  if isinstance(x, str):
    return 'str'
  if isinstance(x, float):
    if math.isnan(x):
      return 'nan'
    if math.isinf(x):
      return '+inf' if x > 0 else '-inf'
  return str(int(_frac(x) * scale))


def _lim_val(l):
  """limit spec -> (raw python limit, converted number or None)"""
  if l is None:
    return None, None
  if isinstance(l, tuple):     # ('s', '5', int): numeric string + type
    return l[1], l[2](l[1])
  return l, l


def _ltok(l, scale):
  if l is None:
    return '-'
  raw, conv = _lim_val(l)
  return ('s:' if isinstance(l, tuple) and l[0] == 's' else 'n:') + _vtok(conv, scale)


def _call(f):
  try:
    return '1' if f() else '0'
  except Exception as e:  # pylint: disable=broad-except
    return 'raise:' + type(e).__name__


def _probe(tok):
  if isinstance(tok, tuple) and tok[0] == 'huge':
    return HUGE * tok[1]
  return tok


def run_real(case):
  from openhtf.util import validators
  k = case['kind']
  if k == 'IR':
    lims = [tuple(l) if isinstance(l, list) else l for l in case['lims']]
    lims = [(l[0], l[1], {'int': int, 'float': float}[l[2]]) if isinstance(l, tuple) else l for l in lims]
    raws = [_lim_val(l)[0] for l in lims]
    ty = None
    for l in lims:
      if isinstance(l, tuple):
        ty = l[2]
    if case.get('type_always') and ty is None:
      ty = float
    v = _probe(case['v'] if not isinstance(case['v'], list) else tuple(case['v']))
    try:
      if case.get('via') == 'equals' and raws[0] == raws[1] and raws[0] is not None and raws[2] is None and raws[3] is None \
          and not isinstance(raws[0], str):
        val = validators.equals(raws[0], type=ty)
      elif case.get('via') == 'create':
        val = validators.create_validator('in_range', raws[0], raws[1], marginal_minimum=raws[2],
                                          marginal_maximum=raws[3], type=ty)
      else:
        val = validators.InRange(raws[0], raws[1], raws[2], raws[3], type=ty)
    except ValueError:
      return {'real': ['err'], 'lims': lims, 'v': v}
    acc = _call(lambda: val(v))
    marg = _call(lambda: val.is_marginal(v))
    try:
      v2, v3 = val.with_args(), copy.deepcopy(val)
      same = (_call(lambda: v2(v)) == acc and _call(lambda: v3(v)) == acc and _call(lambda: v2.is_marginal(v)) == marg
              and _call(lambda: v3.is_marginal(v)) == marg and val == v2 and val == v3 and not (val != v2)
              and str(val) == str(v2) == str(v3))
      # equality means deciding identically: a validator with ONE limit moved or dropped must not compare equal if it
      # decides (accepts / calls marginal) differently somewhere between and around the limits
      nums = [r for r in raws if isinstance(r, (int, float)) and not isinstance(r, bool)]
      if nums and all(r is None or (isinstance(r, (int, float)) and not isinstance(r, bool)) for r in raws):
        lo, hi = min(nums) - 2, max(nums) + 2
        grid = [lo + (hi - lo) * i / 16.0 for i in range(17)] + list(nums)
        for i in range(4):
          for alt in ((raws[i] + 1, raws[i] - 1, None) if raws[i] is not None else (min(nums), max(nums))):
            r2 = list(raws)
            r2[i] = alt
            try:
              other = validators.InRange(r2[0], r2[1], r2[2], r2[3], type=ty)
            except ValueError:
              continue
            if (val == other or not (val != other)) and any(
                _call(lambda: val(x)) != _call(lambda: other(x)) or
                _call(lambda: val.is_marginal(x)) != _call(lambda: other.is_marginal(x)) for x in grid):
              same = False
    except Exception:  # pylint: disable=broad-except
      same = False
    return {'real': ['ok', acc, marg, '1' if same else '0'], 'lims': lims, 'v': v}
  if k == 'AR':
    lims = case['lims']
    vs = [_probe(tuple(x) if isinstance(x, list) else x) for x in case['vs']]
    try:
      if case.get('via') == 'all_equals' and lims[0] == lims[1] and lims[0] is not None and lims[2] is None and lims[3] is None:
        val = validators.all_equals(lims[0])
      else:
        val = validators.AllInRangeValidator(lims[0], lims[1], lims[2], lims[3])
    except ValueError:
      return {'real': ['err'], 'lims': lims, 'vs': vs}
    return {'real': ['ok', _call(lambda: val(vs))], 'lims': lims, 'vs': vs}
  if k == 'WP':
    e, p, mp = case['e'], case['p'], case['mp']
    v = _probe(tuple(case['v']) if isinstance(case['v'], list) else case['v'])
    try:
      val = validators.WithinPercent(e, p, mp) if mp is not None or case.get('explicit_none') else (
          validators.within_percent(e, p))
    except ValueError:
      return {'real': ['err'], 'min': 0, 'max': 0, 'v': 0, 'tol': 0}
    if isinstance(v, tuple) and v[0] == 'rel':   # probe relative to the reported bounds
      base = {'min': val.minimum, 'max': val.maximum, 'mmin': val.marginal_minimum, 'mmax': val.marginal_maximum,
              'e': e}[v[1]]
      if base is None:
        base = e
      base = float(base)
      v = {'at': base, 'up': math.nextafter(base, INF), 'down': math.nextafter(base, -INF)}[v[2]]
    if isinstance(v, tuple) and v[0] == 'sym':
      v = e + v[1] * v[2]
    mn, mx = val.minimum, val.maximum
    tol = 4 * max(math.ulp(float(abs(mn))), math.ulp(float(abs(mx))), math.ulp(float(abs(e))))
    return {'real': ['ok', _call(lambda: val(v)), _call(lambda: val.is_marginal(v))], 'min': mn, 'max': mx, 'v': v,
            'tol': tol}
  if k in ('EQS', 'RX'):
    lit, pv = case['lit'], case['v']
    val = validators.equals(lit) if k == 'EQS' else validators.matches_regex(__import__('re').escape(lit))
    if case.get('copy'):
      val = copy.deepcopy(val)
    return {'real': [_call(lambda: val(pv))], 'v': str(pv)}
  if k == 'AES':
    val = validators.all_equals(case['lit'])
    if case.get('copy'):
      val = copy.deepcopy(val)
    return {'real': [_call(lambda: val(list(case['vs'])))]}
  if k == 'PV':
    sub = validators.InRange(0, 10)
    rows = [((i,), (5 if b else 50)) for i, b in enumerate(case['bits'])]
    rows = [(r[0][0], r[1]) for r in rows]
    return {'real': [_call(lambda: validators.DimensionPivot(sub)(rows)),
                     _call(lambda: validators.ConsistentEndDimensionPivot(sub)(rows))]}
  raise ValueError(k)


def _hx(s):
  return s.encode('utf-8').hex() or '-'


def encode(case, obs):
  k = case['kind']
  real = ' '.join(obs['real'])
  if k == 'IR':
    nums = [_lim_val(l)[1] for l in obs['lims']] + [obs['v']]
    sc = _scale([n for n in nums if n is not None])
    return 'C07 IR %s %s # %s' % (' '.join(_ltok(l, sc) for l in obs['lims']), _vtok(obs['v'], sc), real)
  if k == 'AR':
    nums = [l for l in obs['lims'] if l is not None] + list(obs['vs'])
    sc = _scale(nums)
    return 'C07 AR %s %d %s # %s' % (' '.join(_ltok(l, sc) for l in obs['lims']), len(obs['vs']),
                                     ' '.join(_vtok(v, sc) for v in obs['vs']), real)
  if k == 'WP':
    nums = [case['e'], obs['min'], obs['max'], obs['v'], obs['tol']]
    sc = _scale(nums)
    return 'C07 WP %s %d %s %s %s %s %s # %s' % (
        _vtok(case['e'], sc), case['p'], '-' if case['mp'] is None else case['mp'], _vtok(obs['min'], sc),
        _vtok(obs['max'], sc), _vtok(obs['tol'], sc), _vtok(obs['v'], sc), real)
  if k in ('EQS', 'RX'):
    return 'C07 %s %s %s # %s' % (k, _hx(case['lit']), _hx(obs['v']), real)
  if k == 'AES':
    return 'C07 AES %s %d %s # %s' % (_hx(case['lit']), len(case['vs']), ' '.join(_hx(v) for v in case['vs']), real)
  if k == 'PV':
    return 'C07 PV %d %s # %s' % (len(case['bits']), ' '.join('1' if b else '0' for b in case['bits']), real)
  raise ValueError(k)


def classify(case, obs):
  return '%s/%s' % (case['kind'], '/'.join(t.split(':')[0] for t in obs['real'][:3]))


def nontrivial_key(case, obs):
  if obs['real'][0] != 'err':
    return repr(case)
  return None


LIMS = [None, 0, 1, 5, 10, -3, 2.5, 0.1, True, 1e308, -1e308, INF, -INF, 5.0, 1e-320]
SLIMS = [['s', '5', 'int'], ['s', '2.5', 'float'], ['s', '-1', 'int'], ['s', '10', 'float']]


def _ir_probes(lims):
  out = [None, NAN, INF, -INF, 0.0, -0.0, ['huge', 1], ['huge', -1], 'abc', True, 3]
  for l in lims:
    if l is None:
      continue
    c = _lim_val(tuple(l[:2]) + ({'int': int, 'float': float}[l[2]],) if isinstance(l, list) else l)[1]
    out.append(c)
    if isinstance(c, (int, float)) and not isinstance(c, bool) and not math.isinf(c):
      f = float(c)
      out += [math.nextafter(f, INF), math.nextafter(f, -INF)]
      if isinstance(c, int):
        out += [c + 1, c - 1]
  return out


def gen_cases(rng, tier):
  cases = []
  # --- in_range: structured limit tuples
  tuples = set()
  base = [0, 1, 5, 10, -3, 2.5]
  for mn, mx in itertools.product([None] + base + [INF, -INF, 0.1, 1e308], repeat=2):
    tuples.add((mn, mx, None, None))
  for mn, mx, mm, mx2 in itertools.product([None, 0, 5], [None, 10, 5, -3], [None, 1, 5, 7, -5], [None, 9, 5, 11, 0]):
    tuples.add((mn, mx, mm, mx2))
  tuples = sorted(tuples, key=repr)
  if tier == 'quick':
    tuples = [t for i, t in enumerate(tuples) if i % 3 == rng.randrange(3) or t[2] is not None or t[3] is not None]
  for t in tuples:
    probes = _ir_probes(t)
    if tier == 'quick':
      probes = probes[:11] + rng.sample(probes[11:], min(4, len(probes) - 11))
    for i, v in enumerate(probes):
      cases.append({'kind': 'IR', 'lims': list(t), 'v': v, 'via': ['ctor', 'equals', 'create'][i % 3]})
  # numeric strings with type=
  for s in SLIMS:
    for other in [None, 0, 20, 1]:
      for t in ([s, other, None, None], [other, s, None, None], [0, 100, s, None], [0, 100, None, s], [s, s, None, None]):
        for v in [None, NAN, 5, 2.5, 10, -1, 4, 6, 11, 'abc', ['huge', 1]]:
          cases.append({'kind': 'IR', 'lims': list(t), 'v': v, 'via': 'ctor'})
  # numbers with type= (the declared type applies to every limit, also to one that is a number already): a single
  # limit, so that the constructor's raw-limit consistency checks have nothing to compare
  for n in (['n', 0.5, 'int'], ['n', 10.7, 'int'], ['n', -2.5, 'int'], ['n', 7, 'float']):
    for t in ([n, None, None, None], [None, n, None, None]):
      for v in [None, NAN, 0, 1, 0.5, 0.4, 10, 10.5, 10.7, 11, -2, -2.5, -3, 7, 6.9, 'abc']:
        cases.append({'kind': 'IR', 'lims': list(t), 'v': v, 'via': 'ctor'})
  # --- all_in_range
  for mn, mx, mm, mx2 in [(0, 10, None, None), (None, 5, None, None), (2.5, None, None, None), (0, 10, 2, 8),
                          (5, 1, None, None), (None, None, None, None), (0, 10, -1, None), (0, 10, None, 11),
                          (-INF, INF, None, None), (0.1, 0.1, None, None), (3, 3, None, None), (None, 5, 1, None)]:
    pool = [0, 10, 5, -1, 11, 2.5, 0.1, NAN, INF, -INF, math.nextafter(10.0, INF), math.nextafter(0.0, -INF), 3]
    lists = [[]] + [[a] for a in pool] + [list(x) for x in itertools.product(pool[:8], repeat=2)]
    if tier == 'quick':
      lists = lists[:14] + rng.sample(lists[14:], 20)
    for vs in lists:
      cases.append({'kind': 'AR', 'lims': [mn, mx, mm, mx2], 'vs': vs, 'via': rng.choice(['ctor', 'all_equals'])})
    cases.append({'kind': 'AR', 'lims': [mn, mx, mm, mx2], 'vs': [5, None], 'via': 'ctor'})
    cases.append({'kind': 'AR', 'lims': [mn, mx, mm, mx2], 'vs': ['abc'], 'via': 'ctor'})
  # --- within_percent
  for e in [100, -100, 10, -7, 3, 0, 0.1, -2.5, 1e6, 12345.678, 1]:
    for p, mp in [(5, None), (10, 5), (10, 0), (0, None), (100, 1), (150, 100), (10, 10), (10, 11), (-1, None), (1, None)]:
      probes = [NAN, None, INF, -INF, e, 0] + [['rel', b, w] for b in ('min', 'max', 'mmin', 'mmax') for w in ('at', 'up', 'down')]
      probes += [['sym', d, s] for d in (1, 2.5, 1000) for s in (1, -1)]
      if tier == 'quick':
        probes = probes[:6] + rng.sample(probes[6:], 8)
      for v in probes:
        cases.append({'kind': 'WP', 'e': e, 'p': p, 'mp': mp, 'v': v, 'explicit_none': rng.random() < 0.5})
  # --- equals(str) / matches_regex: literal oracle
  for lit in ['abc', 'a.c', '', 'x+y', '(1)', 'line', 'a\\b', 'üñ', '5']:
    for v in [lit, lit + '\n', lit + '\n\n', lit + 'x', 'x' + lit, lit[:-1], '', '\n', lit.upper(), 'abc', 'aXc', lit + '\r\n',
              '\n' + lit]:
      cases.append({'kind': 'EQS', 'lit': lit, 'v': v, 'copy': len(v) % 2 == 0})
      cases.append({'kind': 'RX', 'lit': lit, 'v': v, 'copy': len(v) % 2 == 1})
  # all_equals(<str>): a list of values each of which must be the literal
  for lit in ['abc', 'a.c', '', 'x+y', '5']:
    for vs in ([], [lit], [lit, lit], [lit, lit + 'x'], ['x' + lit, lit], [lit, lit, lit], [lit.upper()], [lit + '\n'], ['abc'], ['']):
      cases.append({'kind': 'AES', 'lit': lit, 'vs': vs, 'copy': len(vs) % 2 == 0})
  cases.append({'kind': 'EQS', 'lit': '5', 'v': 5})
  cases.append({'kind': 'EQS', 'lit': '5', 'v': 5.0})
  # --- pivots
  for n in range(0, 5 if tier == 'quick' else 7):
    for bits in itertools.product([False, True], repeat=n):
      cases.append({'kind': 'PV', 'bits': list(bits)})
  # --- random in_range tuples
  for _ in range(1500 if tier == 'quick' else 20000):
    t = [rng.choice(LIMS + [None] * 4) for _ in range(4)]
    if rng.random() < 0.5:
      t[2] = t[3] = None
    v = rng.choice(_ir_probes(t))
    cases.append({'kind': 'IR', 'lims': t, 'v': v, 'via': rng.choice(['ctor', 'equals', 'create'])})
  return cases


def shrink(case):
  if case['kind'] == 'AR':
    vs = case['vs']
    for i in range(len(vs)):
      yield dict(case, vs=vs[:i] + vs[i + 1:])
  if case['kind'] == 'IR':
    for i in (2, 3):
      if case['lims'][i] is not None:
        l = list(case['lims']); l[i] = None
        yield dict(case, lims=l)


def known_match(entry, case, obs, msg):
  return msg.split(' ')[0] == entry['match']


MANIFEST = {
    'text': 'Proof: 14 Lean theorems in exact arithmetic for every limit tuple and probe: in_range accepts iff numeric, '
            'not NaN and min<=v<=max (inclusive) and never raises on numbers; None/NaN never pass; a passing value is '
            'marginal iff in a band; the constructor rejects exactly the inconsistent numeric tuples; equals(number) '
            'accepts exactly that number; all_in_range iff all inside; percent tolerance symmetric (also negative '
            'expected), = closed interval e+-|e*p|/100, marginal implies inside; pivot validators. Tie: real validator '
            'objects probed at every bound, its float neighbours, +-0.0, +-inf, NaN, None, 10**400; every number is '
            'converted exactly (Fraction) and the case scaled to integers so model and code decide the same rationals; '
            'with_args/deepcopy/== /str consistency checked on every probe.',
    'note': 'Trusted: Lean kernel + standard axioms; exact scaling in the harness; Lean driver. Partial: regex engine '
            'semantics are not modelled (equals(str)/matches_regex compared against literal equality/prefix for escaped '
            'literals only); WithinPercent float rounding is bounded by a 4-ulp envelope, the exact formula decides away '
            'from the rounded boundary.',
}
