"""C14 — ADB streams: per-stream in-order exactly-once delivery, acks, flow control, no lost wake-up.

Tie: the real AdbConnection / AdbStreamTransport / AdbStream over a scripted fake device, host reader and
writer threads under the cooperative scheduler with virtual time. The demultiplexing actions (messages taken
off the transport, queue put/get, buffer reads) are replayed by the Lean data-plane model (Model/AdbMux.lean,
conservation invariant), the reader-election / condition-variable actions by the wake-up model, and the Lean
spec judges what every reader obtained and what the device received."""
import os
import struct
import threading

from harness import common
from harness import sched
from harness import usbstub
from harness.props import c15

PROP = 'C14'
PROOF_MODULE = 'OpenHTF.Proofs.C14'
THEOREMS = [
    'OpenHTF.AdbMux.c14_conservation',
    'OpenHTF.AdbMux.c14_in_order_exactly_once_no_cross_talk',
    'OpenHTF.AdbMux.c14_one_okay_per_wrte',
    'OpenHTF.AdbMux.c14_drained_stream_got_everything',
    'OpenHTF.AdbMux.c14_chunks',
    'OpenHTF.AdbMux.c14_one_wrte_in_flight',
    'OpenHTF.AdbMux.c14_write_ack_is_expected',
    'OpenHTF.AdbMux.late_expecting_flag_makes_the_ack_unexpected',
    'OpenHTF.AdbMux.c14_no_lost_wakeup',
    'OpenHTF.AdbMux.c14_notifier_can_move',
    'OpenHTF.AdbMux.old_protocol_loses_a_wakeup',
]
RULE = ('1-3 streams opened on a real AdbConnection over a scripted device that delivers per-stream WRTE scripts in every / '
        'random interleavings and acknowledges host WRTEs; one reader thread per stream (whole-buffer reads and fixed-length '
        'reads with push-back), optional writer thread per stream (data of 1 .. 2*maxdata+1 bytes, maxdata 3 / 4 / 4096); '
        'schedules: preemption-bounded exhaustive for reader+writer on one stream and for two readers, random beyond; '
        'virtual time, 2 s timeouts: a timeout or a deadlock is a violation because the device always answers')
ASSUMPTIONS = ['device scripts are well-formed per stream (OKAY before WRTE, nothing after CLSE)',
               'threading.Lock / Condition / queue.Queue behave as documented (replaced by cooperative equivalents)',
               'liveness in real time (that a timed wait returns) is trusted to threading / queue']
TRUSTED = ['harness/sched.py', 'harness/props/c14.py (fake device, trace abstraction)', 'lean/OpenHTF/Driver/C14.lean']
CONST_PREFIXES = ['c14.', 'c15.']
PROCS = 12


class _UsbErr(object):
  value = -7


class Dev(object):
  """scripted device under the scheduler: `out` holds the chunks it will deliver; it auto-acknowledges host WRTEs and
  OPENs; records every message it receives; a read with nothing to deliver blocks until its timeout"""

  def __init__(self, s, maxdata=4096):
    self.s = s
    self.out = []
    self.sent = []            # (name, a0, a1, data) received from the host
    self.unread_okay = {}     # local id -> number of device OKAYs (acks of host WRTEs) the host has not yet read
    self.facts = []
    self._hdr = None
    self.remote_of = {}
    self.consumed = []        # messages the host has taken off the transport, in order
    self.hold = {}            # local id -> withheld OKAY acks (released later by the test script)
    self.withhold = {}        # local id -> acknowledgements kept back for now
    self.before_ack = {}      # local id -> packets the device sends before it acknowledges the next WRTE
    self.echo = {}            # local id -> payloads the device sends right after acknowledging the next host WRTE

  def push(self, cmd, a0, a1, data=''):
    hdr, payload = c15._frame(cmd, a0, a1, data)
    self.out.append((hdr, (cmd, a0, a1, data)))
    if payload:
      self.out.append((payload, None))

  def read(self, length, timeout_ms=None):
    from openhtf.plugs.usb import usb_exceptions as ue
    s = sched.SCHED
    ok = s.block(lambda: bool(self.out), None if timeout_ms is None else max(0, timeout_ms) / 1000.0, 'usb-read')
    if not ok or not self.out:
      raise ue.UsbReadFailedError(_UsbErr(), 'read timed out')
    chunk, meta = self.out.pop(0)
    if meta is not None and getattr(self, 'hdr_lag', 0):
      # the transfer of a header takes (virtual) time: the caller's timeout may run out before the payload is asked for
      s.block(lambda: False, self.hdr_lag, 'usb-lag')
    if meta is not None:
      self.consumed.append(meta)
      s.log('dev-consumed', self, meta)
      if meta[0] == 'OKAY' and meta[1] != 0 and self.unread_okay.get(meta[2], 0) > 0 and meta[3] == '':
        self.unread_okay[meta[2]] -= 1
    return chunk

  def write(self, data, timeout_ms=None):
    s = sched.SCHED
    s.yield_point('usb-write')
    if isinstance(data, bytes):
      self._hdr = struct.unpack('<6I', data)
      if self._hdr[3] == 0:
        self._got(self._hdr, '')
    elif self._hdr is not None and self._hdr[3] > 0:
      self._got(self._hdr, data)

  def _got(self, hdr, data):
    cmd = ''.join(chr((hdr[0] >> (8 * i)) & 0xFF) for i in range(4))
    a0, a1 = hdr[1], hdr[2]
    self.sent.append((cmd, a0, a1, data))
    sched.SCHED.log('dev-got', self, (cmd, a0, a1, data))
    if cmd == 'OPEN' and getattr(self, 'refuse_open', False):
      self.push('CLSE', 0, a0)      # no such service: the OPEN is answered with CLSE
    elif cmd == 'OPEN':
      rid = 100 + a0
      self.remote_of[a0] = rid
      self.push('OKAY', rid, a0)
      if getattr(self, 'greet', None):
        self.push('WRTE', rid, a0, self.greet)      # the service's first output right behind the OKAY
    elif cmd == 'WRTE':
      # a0 = host local id, a1 = remote id: one WRTE in flight per stream
      if self.unread_okay.get(a0, 0) > 0 or self.hold.get(a0):
        self.facts.append('X:second-WRTE-before-the-first-was-acknowledged:%d' % a0)
      self.unread_okay[a0] = self.unread_okay.get(a0, 0) + 1
      for m in self.before_ack.pop(a0, []):
        self.push(*m)      # what the device had already sent when it got round to acknowledging
      if a0 in self.withhold:
        self.withhold[a0].append(('OKAY', a1, a0))      # the acknowledgement comes late (released by the test script)
        return
      self.push('OKAY', a1, a0)
      # a device that answers what the host wrote (a shell echoing a command): the reader of that stream is still
      # reading when the acknowledgement of the write arrives
      for payload in self.echo.pop(a0, []):
        self.push('WRTE', a1, a0, payload)

  def close(self):
    pass


class _TracedDeque(__import__('collections').deque):
  """the stream's read buffer: the moment the application takes the buffered bytes is a logged action"""

  def clear(self):
    s = sched.SCHED
    if s is not None and s.me() is not None:
      s.log('buf-clear', self, sum(len(x) for x in self))
    __import__('collections').deque.clear(self)

  def append(self, x):
    s = sched.SCHED
    if s is not None and s.me() is not None:
      s.log('buf-append', self, len(x))
    __import__('collections').deque.append(self, x)

  def appendleft(self, x):
    s = sched.SCHED
    if s is not None and s.me() is not None:
      s.log('buf-pushback', self, len(x))
    __import__('collections').deque.appendleft(self, x)


def _setup():
  import collections
  import types
  sched.install_adb()
  ap = c15._setup()
  ns = types.SimpleNamespace(**{k: getattr(collections, k) for k in dir(collections) if not k.startswith('__')})
  ns.deque = _TracedDeque
  sched._patch(ap, 'collections', ns)
  return ap


def _chooser(case):
  if case.get('choices') is not None:
    ex = sched.Explorer()
    ex.prefix = list(case['choices'])
    return ex.choose
  if case.get('pct'):
    return sched.pct_chooser(common.Rng('c14p/%s' % case['rseed']), case['pct'], case.get('horizon', 300))
  return sched.random_chooser(common.Rng('c14/%s' % case['rseed']), case.get('switch', 0.4))


def _body(case, res):
  ap = _setup()
  from openhtf.plugs.usb import adb_message as am
  from openhtf.plugs.usb import usb_exceptions as ue

  def body(s):
    dev = Dev(s)
    res['dev'] = dev
    conn = ap.AdbConnection(am.AdbTransportAdapter(dev), case.get('maxdata', 4096), 'device:SER:banner')
    res['conn'] = conn
    streams = []
    for i in range(case['nstreams']):
      st = conn.open_stream('svc%d:' % i, timeout_ms=5000)
      streams.append(st)
    res['streams'] = streams
    lids = [st._transport.local_id for st in streams]
    res['lids'] = lids
    # queue the device's data messages in the interleaving the case prescribes
    for (si, kind, payload) in case['dev']:
      lid = lids[si]
      if kind == 'W':
        dev.push('WRTE', dev.remote_of[lid], lid, payload)
      elif kind == 'Z':
        dev.push('CLSE', dev.remote_of[lid], lid)
      elif kind == 'E':
        dev.echo.setdefault(lid, []).append(payload)
    dev.hdr_lag = case.get('hdr_lag', 0)      # (after the streams are open)
    got = {i: [] for i in range(case['nstreams'])}
    errs = {}
    res['got'], res['errs'] = got, errs
    tmo = case.get('timeout_ms', 2000)

    def reader(ti, si, total, length=0):
      try:
        n = 0
        while n < total:
          d = streams[si].read(min(length, total - n) if length else 0, timeout_ms=tmo)
          s.log('app-read', streams[si]._transport, d)
          got[si].append(d)
          n += len(d)
      except Exception as e:  # pylint: disable=broad-except
        errs['r%d' % ti] = c15._errkind(e, ue)

    def writer(ti, si, data):
      try:
        streams[si].write(data, timeout_ms=tmo)
        s.log('app-wrote', streams[si]._transport, len(data))
      except Exception as e:  # pylint: disable=broad-except
        if os.environ.get('VERIF_DEBUG'):
          import traceback
          traceback.print_exc()
        errs['w%d' % ti] = c15._errkind(e, ue)

    ths = []
    for ti, (kind, si, arg) in enumerate(case['threads']):
      if kind == 'R':
        t = threading.Thread(target=reader, args=(ti, si, arg))
      elif kind == 'L':
        t = threading.Thread(target=reader, args=(ti, si, arg[0], arg[1]))
      else:
        t = threading.Thread(target=writer, args=(ti, si, arg))
      t._cosched_name = '%s%d' % (kind.lower(), ti)
      ths.append(t)
    for t in ths:
      t.start()
    for t in ths:
      t.join()
    return True
  return body


def _hex(x):
  return usbstub.hexs(x) or '-'


def _abstract(case, s, res):
  """event log -> (data-plane actions, wake-up tokens)"""
  dev, streams, lids = res['dev'], res['streams'], res['lids']
  idx_of_lid = {lid: i for i, lid in enumerate(lids)}
  queue_owner = {id(st._transport.message_queue): i for i, st in enumerate(streams)}
  tr_index = {id(st._transport): i for i, st in enumerate(streams)}
  buf_index = {id(st._transport._read_buffer): i for i, st in enumerate(streams)}
  rlock = {id(st._transport._reader_lock): i for i, st in enumerate(streams)}
  cond = {id(st._transport._message_received): i for i, st in enumerate(streams)}
  clock = {id(st._transport._message_received.lock): i for i, st in enumerate(streams)}
  served = {}
  for ti, (kind, si, arg) in enumerate(case['threads']):
    served['%s%d' % (kind.lower(), ti)] = si
  tnum = {}
  dacts, wtoks = [], []
  opening = None
  cmdc = {'OKAY': 'K', 'WRTE': 'W', 'CLSE': 'Z'}
  for (th, op, obj, extra) in s.events:
    t = tnum.setdefault(th, len(tnum))
    if op == 'dev-got' and extra[0] == 'OPEN':
      opening = extra[1]
    elif op == 'dev-consumed':
      cmd, a0, a1, data = extra
      d = idx_of_lid.get(a1)
      if d is None:
        # the stream's id is not known yet (its open is still in progress): it is the one being opened
        d = len(idx_of_lid) if a1 == opening else None
      r = served.get(th)
      if r is None:
        r = d      # the main thread opening a stream reads for that stream
      if d is None or cmd not in cmdc:
        dacts.append('??:%s' % cmd)
      elif d == r:
        dacts.append('ro:%d:%s:%s' % (r, cmdc[cmd], _hex(data)))
      else:
        dacts.append('rx:%d:%d:%s:%s' % (r, d, cmdc[cmd], _hex(data)))
    elif op == 'get' and id(obj) in queue_owner:
      dacts.append('dq:%d' % queue_owner[id(obj)])
    elif op == 'buf-clear' and id(obj) in buf_index:
      dacts.append('ar:%d:%d' % (buf_index[id(obj)], extra))
    elif op == 'buf-append' and id(obj) in buf_index:
      dacts.append('ha:%d' % buf_index[id(obj)])
    elif op == 'buf-pushback' and id(obj) in buf_index:
      # a fixed-length read puts the rest back: the read delivered (total - rest) bytes
      for j in range(len(dacts) - 1, -1, -1):
        if dacts[j].startswith('ar:%d:' % buf_index[id(obj)]):
          tot = int(dacts[j].split(':')[2])
          dacts[j] = 'al:%d:%d' % (buf_index[id(obj)], tot - extra)
          break
    elif id(obj) in clock and op in ('acq', 'rel'):
      wtoks.append('%d/%s:%d' % (clock[id(obj)], 'ca' if op == 'acq' else 'cr', t))
    elif id(obj) in rlock and op in ('acq', 'tryacq-failed', 'rel'):
      wtoks.append('%d/%s:%d' % (rlock[id(obj)], {'acq': 'ra', 'tryacq-failed': 'rf', 'rel': 'rr'}[op], t))
    elif id(obj) in cond and op in ('cond_wait', 'notify'):
      wtoks.append('%d/%s:%d' % (cond[id(obj)], 'cw' if op == 'cond_wait' else 'nt', t))
    elif id(obj) in cond and op == 'cond_woke':
      wtoks.append('%d/ck:%d:%d' % (cond[id(obj)], t, 1 if extra else 0))
  return dacts, wtoks


def _run_reopen(case):
  """a stream is closed by the host while the device still has packets for it in flight, then another stream is opened:
  the new stream must see its own data only, and the stale packets must not be acknowledged in its name"""
  ap = _setup()
  from openhtf.plugs.usb import adb_message as am
  from openhtf.plugs.usb import usb_exceptions as ue
  res = {}

  def body(s):
    dev = Dev(s)
    conn = ap.AdbConnection(am.AdbTransportAdapter(dev), 4096, 'device:SER:banner')
    facts = []
    res['facts'] = facts
    res['dev'] = dev
    for _ in range(case.get('pre', 0)):         # earlier, cleanly finished streams
      st = conn.open_stream('pre:', timeout_ms=5000)
      st.close(timeout_ms=5000)
    a = conn.open_stream('a:', timeout_ms=5000)
    la, ra = a._transport.local_id, dev.remote_of[a._transport.local_id]
    stale = case['stale']
    if case['when'] == 'before-close':
      for k in stale:
        dev.push('WRTE' if k == 'W' else 'CLSE', ra, la, 'old' if k == 'W' else '')
    a.close(timeout_ms=5000)
    if case['when'] == 'after-close':
      for k in stale:
        dev.push('WRTE' if k == 'W' else 'CLSE', ra, la, 'old' if k == 'W' else '')
    try:
      b = conn.open_stream('b:', timeout_ms=5000)
    except Exception as e:  # pylint: disable=broad-except
      facts.append('X:open-after-close-raised:' + c15._errkind(e, ue))
      return True
    if b is None:
      facts.append('X:new-stream-refused-because-of-stale-packets')
      return True
    lb, rb = b._transport.local_id, dev.remote_of[b._transport.local_id]
    if case['when'] == 'after-open':
      for k in stale:
        dev.push('WRTE' if k == 'W' else 'CLSE', ra, la, 'old' if k == 'W' else '')
    dev.push('WRTE', rb, lb, 'new')
    try:
      d = b.read(timeout_ms=5000)
      if d != 'new':
        facts.append('X:new-stream-read-foreign-data:' + _hex(d))
    except Exception as e:  # pylint: disable=broad-except
      facts.append('X:new-stream-read-raised:' + c15._errkind(e, ue))
    acks_b = [1 for (cmd, a0, a1, data) in dev.sent if cmd == 'OKAY' and a0 == lb and a1 == rb]
    if len(acks_b) != 1:
      facts.append('X:acknowledgements-in-the-name-of-the-new-stream:%d' % len(acks_b))
    return True
  box, s = sched.run(sched.random_chooser(common.Rng('c14r/0'), 0.0), body, max_steps=60000)
  facts = res.get('facts', [])
  if s.deadlock or 'sched_error' in box:
    facts.append('X:deadlock')
  return {'broken': True, 'facts': facts, 'reopen': True}


def _run_wfail(case):
  """one stream, one thread: a write whose acknowledgement does not come in time fails; whatever the host does next,
  the device never sees a second WRTE of that stream before it has acknowledged the first (and the late OKAY is not
  taken for the acknowledgement of a later write)"""
  ap = _setup()
  from openhtf.plugs.usb import adb_message as am
  from openhtf.plugs.usb import usb_exceptions as ue
  res = {}

  def body(s):
    dev = Dev(s)
    conn = ap.AdbConnection(am.AdbTransportAdapter(dev), 4096, 'device:SER:banner')
    facts = []
    res['facts'], res['dev'] = facts, dev
    a = conn.open_stream('a:', timeout_ms=5000)
    la = a._transport.local_id
    dev.withhold[la] = []
    outcomes = []
    for k in range(case['writes']):
      try:
        a.write('w%d' % k, timeout_ms=200)
        outcomes.append('ok')
      except Exception as e:  # pylint: disable=broad-except
        outcomes.append(c15._errkind(e, ue))
      if k == case.get('release_after'):
        late, dev.withhold[la] = dev.withhold[la], []
        for m in late:
          dev.push(*m)
        if case.get('then_stop_withholding'):
          del dev.withhold[la]
    wrtes = [1 for (cmd, a0, a1, data) in dev.sent if cmd == 'WRTE' and a0 == la]
    if outcomes[0] == 'ok':
      facts.append('X:write-without-acknowledgement-reported-success')
    if len(wrtes) > 1 and case.get('release_after') is None:
      facts.append('X:second-WRTE-before-the-first-was-acknowledged:%d' % la)
    return True
  box, s = sched.run(sched.random_chooser(common.Rng('c14w/0'), 0.0), body, max_steps=60000)
  facts = res.get('facts', []) + list(getattr(res.get('dev'), 'facts', []))
  if s.deadlock or 'sched_error' in box:
    facts.append('X:deadlock')
  return {'broken': True, 'facts': sorted(set(facts)), 'reopen': True}


def _run_closedbuf(case):
  """the device's last output and its CLSE are read off the wire by the stream's own write() waiting for its
  acknowledgement; the data is buffered, the stream closed: the following reads still hand out every byte"""
  ap = _setup()
  from openhtf.plugs.usb import adb_message as am
  from openhtf.plugs.usb import usb_exceptions as ue
  res = {}

  def body(s):
    dev = Dev(s)
    conn = ap.AdbConnection(am.AdbTransportAdapter(dev), 4096, 'device:SER:banner')
    facts = []
    res['facts'], res['dev'] = facts, dev
    a = conn.open_stream('a:', timeout_ms=5000)
    la, ra = a._transport.local_id, dev.remote_of[a._transport.local_id]
    want = ''
    for i in range(case['first']):
      dev.push('WRTE', ra, la, 'out%d;' % i)
      want += 'out%d;' % i
    got = ''
    if case['first'] and case.get('partial'):
      got += a.read(case['partial'], timeout_ms=5000)       # part of the first packet; the rest stays buffered
    dev.before_ack[la] = [('WRTE', ra, la, 'last;'), ('CLSE', ra, la, '')]
    want += 'last;'
    try:
      a.write('cmd', timeout_ms=5000)
    except Exception:  # pylint: disable=broad-except
      pass       # (the write may report the close; what was received is what counts)
    for _ in range(10):
      try:
        d = a.read(timeout_ms=1000)
      except ue.AdbStreamClosedError:
        break
      except Exception as e:  # pylint: disable=broad-except
        facts.append('X:read-raised:' + c15._errkind(e, ue))
        break
      got += d
    if got != want:
      facts.append('X:reader-did-not-obtain-what-the-device-wrote:%s/%s' % (_hex(got), _hex(want)))
    return True
  box, s = sched.run(sched.random_chooser(common.Rng('c14c/0'), 0.0), body, max_steps=60000)
  facts = res.get('facts', []) + list(getattr(res.get('dev'), 'facts', []))
  if s.deadlock or 'sched_error' in box:
    facts.append('X:deadlock')
  return {'broken': True, 'facts': sorted(set(facts)), 'reopen': True}


def _run_open(case):
  """a thread opens a new stream while another thread, reading its own stream, is the connection's reader: the device
  answers the OPEN with OKAY and sends the new stream's first data right behind it - both may be demultiplexed by the
  OTHER thread before the opener looks at its queue"""
  ap = _setup()
  from openhtf.plugs.usb import adb_message as am
  from openhtf.plugs.usb import usb_exceptions as ue
  res = {'facts': []}

  def body(s):
    dev = Dev(s)
    dev.greet = 'hello'
    conn = ap.AdbConnection(am.AdbTransportAdapter(dev), 4096, 'device:SER:banner')
    facts = res['facts']
    dev.greet = None
    a = conn.open_stream('a:', timeout_ms=5000)
    la, ra = a._transport.local_id, dev.remote_of[a._transport.local_id]
    dev.greet = 'hello'
    dev.refuse_open = bool(case.get('refuse'))
    got = {'a': [], 'b': []}

    def reader_a():
      try:
        n = 0
        while n < case['na']:
          d = a.read(timeout_ms=600000)
          got['a'].append(d)
          n += len(d)
      except Exception as e:  # pylint: disable=broad-except
        facts.append('X:reader-of-the-other-stream-raised:' + c15._errkind(e, ue))

    def opener():
      try:
        b = conn.open_stream('b:', timeout_ms=600000)
        if case.get('refuse'):
          # "a CLSE reply means the service is unavailable and yields no stream": None, not an exception and not a stream
          if b is not None:
            facts.append('X:refused-open-returned-a-stream')
          got['b'].append('hello')
          return
        if b is None:
          facts.append('X:open-refused')
          return
        n = 0
        while n < 5:
          d = b.read(timeout_ms=600000)
          got['b'].append(d)
          n += len(d)
      except Exception as e:  # pylint: disable=broad-except
        facts.append('X:opener-raised:' + c15._errkind(e, ue))

    def feeder():
      # the device keeps stream a busy, so that a's thread is inside the connection read when the OPEN is answered
      for i in range(case['na']):
        dev.push('WRTE', ra, la, 'x')
        s.block(lambda: False, 0.001, 'feed')
    ths = [threading.Thread(target=f) for f in (reader_a, opener, feeder)]
    for t, n in zip(ths, ('ra', 'op', 'fd')):
      t._cosched_name = n
      t.start()
    for t in ths:
      t.join()
    if ''.join(got['a']) != 'x' * case['na']:
      facts.append('X:other-stream-data-wrong')
    if ''.join(got['b']) != 'hello' and not any(f.startswith('X:opener') for f in facts):
      facts.append('X:new-stream-data-wrong:' + _hex(''.join(got['b'])))
    return True
  early = (common.Rng('c14oe/%s' % case['rseed']), 0.6, 0.05)
  box, s = sched.run(sched.chooser_for(case, 'c14o'), body, max_steps=60000, early_timers=early)
  facts = res['facts']
  if s.deadlock or 'sched_error' in box:
    facts.append('X:deadlock-or-stuck')
  return {'broken': True, 'facts': facts, 'reopen': True}


def run_real(case):
  if case.get('kind') == 'open':
    return _run_open(case)
  if case.get('kind') == 'reopen':
    return _run_reopen(case)
  if case.get('kind') == 'wfail':
    return _run_wfail(case)
  if case.get('kind') == 'closedbuf':
    return _run_closedbuf(case)
  res = {}
  early = None
  if case.get('early'):
    # polling intervals (10 ms queue polls) may expire while another thread is active; operation timeouts are huge
    early = (common.Rng('c14e/%s' % case['rseed']), case['early'], 0.05)
  box, s = sched.run(_chooser(case), _body(case, res), max_steps=60000, early_timers=early)
  dev = res.get('dev')
  facts = list(dev.facts) if dev else []
  if s.deadlock or isinstance(box.get('sched_error'), sched.Deadlock):
    facts.append('X:deadlock:' + str(s.deadlock).replace(' ', ''))
  elif 'sched_error' in box:
    facts.append('X:scheduler-stuck')
  if 'streams' not in res or len(res['streams']) != case['nstreams'] or any(st is None for st in res['streams']):
    return {'broken': True, 'facts': facts + ['X:streams-could-not-be-opened']}
  lids = res['lids']
  closed_by_device = set(si for (si, k, p) in case['dev'] if k == 'Z')
  for name, kind in sorted(res['errs'].items()):
    si = case['threads'][int(name[1:])][1]
    if kind == 'closed' and si in closed_by_device:
      continue      # the device closed that stream: a write to it is refused, as documented
    facts.append('X:thread-error:%s:%s' % (name, kind))
  dacts, wtoks = _abstract(case, s, res)
  per = []
  for i in range(case['nstreams']):
    want = ''.join(p for (si, k, p) in case['dev'] if si == i and k == 'W') + \
        ''.join(p for (si, k, p) in case['dev'] if si == i and k == 'E')
    got = ''.join(res['got'][i])
    rdone = all(('%s%d' % (kind.lower(), ti)) not in res['errs'] for ti, (kind, si, arg) in enumerate(case['threads'])
                if kind in 'RL' and si == i) and any(kind in 'RL' and si == i for (kind, si, arg) in case['threads'])
    acks = sum(1 for (cmd, a0, a1, data) in dev.sent if cmd == 'OKAY' and a0 == lids[i])
    badid = [1 for (cmd, a0, a1, data) in dev.sent if cmd == 'OKAY' and a0 == lids[i] and a1 != dev.remote_of[lids[i]]]
    if badid:
      facts.append('X:acknowledgement-with-wrong-remote-id:%d' % i)
    per.append((got, want, rdone, acks))
  hws = []
  for ti, (kind, si, arg) in enumerate(case['threads']):
    if kind == 'W':
      cs = [data for (cmd, a0, a1, data) in dev.sent if cmd == 'WRTE' and a0 == lids[si]]
      if ('w%d' % ti) in res['errs']:
        continue
      hws.append('hw:%d:%s:%s' % (si, _hex(arg), ','.join(_hex(c) for c in cs)))
  return {'per': per, 'facts': facts, 'dacts': dacts, 'wtoks': wtoks, 'hws': hws, 'steps': s.step}


def encode(case, o):
  if o.get('reopen'):
    return 'C14 1 4096 D W # H X %s' % ' '.join(o['facts'])
  if o.get('broken'):
    return 'C14 %d %d D W # H X %s' % (case['nstreams'], case.get('maxdata', 4096), ' '.join(o['facts']))
  obs = []
  for (got, want, rdone, acks) in o['per']:
    obs += [_hex(got), _hex(want), '1' if rdone else '0', str(acks)]
  return 'C14 %d %d D %s W %s # %s H %s X %s' % (case['nstreams'], case.get('maxdata', 4096), ' '.join(o['dacts']),
                                                 ' '.join(o['wtoks']), ' '.join(obs), ' '.join(o['hws']), ' '.join(o['facts']))


def classify(case, o):
  if case.get('kind') == 'open':
    return 'open-while-another-stream-reads'
  if case.get('kind') == 'reopen':
    return 'reopen/' + case['when']
  if case.get('kind') == 'wfail':
    return 'late-acknowledgement'
  if case.get('kind') == 'closedbuf':
    return 'data-buffered-when-the-close-is-handled'
  return '%ds/%dthr/%s' % (case['nstreams'], len(case['threads']), 'dfs' if case.get('choices') is not None else 'rnd')


def nontrivial_key(case, o):
  if o.get('reopen'):
    return repr(sorted(case.items()))
  if o.get('broken'):
    return None
  return ' '.join(o['dacts']) + '|' + ' '.join(o['wtoks'])


def _dfs(cfg, bound, limit):
  out = []
  res = {}
  for box, s, choices in sched.explore(_body(cfg, res), preemption_bound=bound, limit=limit, max_steps=60000):
    out.append(dict(cfg, choices=choices))
  return out


def gen_cases(rng, tier):
  quick = tier == 'quick'
  cases = []
  # one stream, reader + writer on it (the AsyncCommandHandle pattern): the wake-up protocol
  cfg = {'nstreams': 1, 'dev': [(0, 'W', 'ab'), (0, 'W', 'c')], 'threads': [('R', 0, 3), ('W', 0, 'xy')], 'maxdata': 4096,
         'timeout_ms': 2000}
  cases += _dfs(cfg, 2, 600 if quick else 6000)
  # the device answers the write: the reader is still reading when the write's acknowledgement arrives
  cfg = {'nstreams': 1, 'dev': [(0, 'W', 'a'), (0, 'E', 'bc')], 'threads': [('R', 0, 3), ('W', 0, 'xy')], 'maxdata': 4096,
         'timeout_ms': 2000}
  cases += _dfs(cfg, 2, 600 if quick else 6000)
  cfg = {'nstreams': 2, 'dev': [(0, 'W', 'a1'), (1, 'W', 'b1'), (0, 'W', 'a2'), (1, 'W', 'b2')],
         'threads': [('R', 0, 4), ('R', 1, 4)], 'maxdata': 4096, 'timeout_ms': 2000}
  cases += _dfs(cfg, 2, 500 if quick else 6000)
  cfg = {'nstreams': 1, 'dev': [], 'threads': [('W', 0, 'abcdefghij')], 'maxdata': 4, 'timeout_ms': 2000}
  cases += _dfs(cfg, 1, 50)
  for i in range(500 if quick else 8000):
    r = rng.derive(i)
    ns = r.choice([1, 2, 2, 3])
    dev = []
    scripts = []
    for si in range(ns):
      k = r.choice([0, 1, 2, 3])
      scripts.append([chr(ord('a') + si * 8 + j) * r.choice([1, 2, 5]) for j in range(k)])
    # a random interleaving of the per-stream scripts
    pos = [0] * ns
    while any(pos[si] < len(scripts[si]) for si in range(ns)):
      si = r.choice([x for x in range(ns) if pos[x] < len(scripts[x])])
      dev.append((si, 'W', scripts[si][pos[si]]))
      pos[si] += 1
    echo_on = [si for si in range(ns) if r.random() < 0.3]
    if r.random() < 0.2 and ns > 1:
      dev.append((r.randrange(ns), 'Z', ''))
    maxdata = r.choice([3, 4, 4096])
    threads = []
    for si in range(ns):
      total = sum(len(p) for p in scripts[si])
      wants_write = r.random() < 0.6
      if si in echo_on and wants_write and not any(k == 'Z' for (_, k, _) in dev):
        e = chr(ord('q') + si) * r.choice([1, 2])
        dev.append((si, 'E', e))
        total += len(e)
      if total:
        if r.random() < 0.3:
          threads.append(('L', si, (total, r.choice([1, 2, 3]))))
        else:
          threads.append(('R', si, total))
      if wants_write:
        n = r.choice([1, maxdata - 1, maxdata, maxdata + 1, 2 * maxdata, 2 * maxdata + 1]) if maxdata < 100 else r.choice([1, 5])
        threads.append(('W', si, ''.join(chr(ord('A') + (si * 5 + j) % 26) for j in range(max(1, n)))))
    if not threads:
      threads.append(('W', 0, 'z'))
    early = r.choice([0, 0, 0.3, 0.6])
    cases.append({'nstreams': ns, 'dev': dev, 'threads': threads, 'maxdata': maxdata,
                  'timeout_ms': 600000 if early else 2000, 'early': early,
                  'rseed': r.getrandbits(32), 'switch': r.choice([0.2, 0.5, 0.8])})
  # two readers on two streams with early-firing polls: the window between a reader's empty queue check and its
  # taking the connection reader lock
  for i in range(400 if quick else 6000):
    r = rng.derive('e%d' % i)
    cases.append({'nstreams': 2, 'dev': [(0, 'W', 'a1'), (1, 'W', 'b1'), (1, 'W', 'b2'), (0, 'W', 'a2'), (1, 'W', 'b3')],
                  'threads': [('R', 0, 4), ('R', 1, 6)], 'maxdata': 4096, 'timeout_ms': 600000,
                  'early': r.choice([0.3, 0.6, 0.9]), 'rseed': r.getrandbits(32), 'switch': r.choice([0.3, 0.6, 0.9])})
  # a read whose timeout runs out while the header of a payload-carrying message is being transferred: the payload is
  # read all the same (nothing may be left on the wire for the next reader)
  for lag, tmo in ((0.06, 50), (0.03, 50), (0.06, 100), (0.2, 50)):
    for threads in ([('R', 0, 16)], [('L', 0, (16, 4))], [('L', 0, (16, 8))]):
      ns = 1 + max(t[1] for t in threads)
      dev = [(0, 'W', 'part-one'), (0, 'W', 'part-two')] + ([(1, 'W', 'zz')] if ns > 1 else [])
      for i in range(3 if quick else 30):
        cases.append({'nstreams': ns, 'dev': dev, 'threads': threads, 'maxdata': 4096, 'timeout_ms': tmo, 'hdr_lag': lag,
                      'rseed': rng.derive('lag%d' % i).getrandbits(32), 'switch': 0.3})
  for i in range(150 if quick else 3000):
    r = rng.derive('open%d' % i)
    cases.append({'kind': 'open', 'na': r.choice([2, 4, 6]), 'rseed': r.getrandbits(32)})
    cases.append({'kind': 'open', 'na': r.choice([2, 4, 6]), 'rseed': r.getrandbits(32), 'refuse': True})
  for when in ('before-close', 'after-close', 'after-open'):
    for stale in (['W'], ['Z'], ['W', 'W'], ['W', 'Z']):
      for pre in (0, 1, 3):
        cases.append({'kind': 'reopen', 'when': when, 'stale': stale, 'pre': pre})
  for first in (0, 1, 2):
    for partial in (0, 2, 5):
      cases.append({'kind': 'closedbuf', 'first': first, 'partial': partial})
  # corpus: a writer on a stream the device has closed, next to a writer on another stream (the first repair of the
  # refused-OPEN race made this writer sit in the transport read until its time-out; found by the thorough tier)
  for rseed in (4256505681, 1, 2, 3):
    cases.append({'dev': [[1, 'Z', '']], 'early': 0, 'maxdata': 3, 'nstreams': 2, 'rseed': rseed, 'switch': 0.5,
                  'threads': [['W', 0, 'ABCDEFG'], ['W', 1, 'FGHIJK']], 'timeout_ms': 2000})
  # a write whose acknowledgement is late, followed by more writes
  for writes in (2, 3):
    for rel in (None, 0, 1):
      for stop in (False, True):
        cases.append({'kind': 'wfail', 'writes': writes, 'release_after': rel, 'then_stop_withholding': stop})
  # reader and writer on one stream, the device answers the write, polls fire early: the reader is inside its blocking
  # transport read when the write goes out and may be the one that reads the write's acknowledgement
  for i in range(800 if quick else 8000):
    r = rng.derive('echo%d' % i)
    e = r.choice(['bc', 'b'])
    cases.append({'nstreams': 1, 'dev': [(0, 'W', 'a'), (0, 'E', e)],
                  'threads': [('R', 0, 1 + len(e)), ('W', 0, r.choice(['xy', 'x']))][::r.choice([1, -1])],
                  'maxdata': 4096, 'timeout_ms': 600000, 'early': r.choice([0.3, 0.6, 0.9]), 'rseed': r.getrandbits(32),
                  'switch': r.choice([0.1, 0.3, 0.6]), 'pct': r.choice([0, 2, 3]), 'horizon': r.choice([150, 300])})
  return cases


def shrink(case):
  if case.get('choices'):
    ch = list(case['choices'])
    while ch and ch[-1] == 0:
      ch.pop()
    if len(ch) < len(case['choices']):
      yield dict(case, choices=ch)


def known_match(entry, case, obs, msg):
  return entry['match'] in msg


MANIFEST = {
    'text': 'Proof: 9 Lean theorems over four models of the stream multiplexer, for any number of streams / threads, any '
            'device interleaving and any schedule: conservation (delivered ++ buffered ++ in-hand ++ queued = what the device '
            'wrote to that stream, in order) hence in-order exactly-once delivery without cross-talk; one OKAY per device '
            'WRTE; a drained stream got everything; write chunking (concatenation = data, every chunk non-empty and <= '
            'maxdata); at most one unacknowledged WRTE while no write has given up; no lost wake-up (whenever a thread '
            'waits on the stream condition, a thread holds the reader lock or still owes its notification) and the thread '
            'that owes it can always move; plus a kernel-checked counterexample that the protocol before the fix: commit '
            'loses a wake-up. Tie: real AdbConnection / AdbStream over a scripted device with reader and writer threads '
            'under the cooperative scheduler (virtual time); the models replay the observed demultiplexing and '
            'reader-election actions.',
    'note': 'Trusted: Lean kernel + standard axioms; harness/sched.py; fake device; trace abstraction; Lean driver. Liveness '
            'in real time (a timed wait returns) is trusted to threading/queue; in scheduled runs every timeout and every '
            'deadlock is a violation because the scripted device always answers. Two writers on ONE stream are outside the '
            'runs (the code refuses the second with AdbProtocolError while the first is in flight; the property does not '
            'speak about it). Model follows the tree after fix: commit 4f46b3ce (notify after the reader lock is released).',
}
