"""C03 — PhaseGroup teardown always runs once the group was entered (sequential part; shared executor harness)."""
from harness import exec_common as ec
from harness.props import c02 as trees

PROP = 'C03'
PROOF_MODULE = 'OpenHTF.Proofs.C03'
THEOREMS = [
    'OpenHTF.Exec.c03_teardown_runs_after_main_however_it_ended',
    'OpenHTF.Exec.c03_every_teardown_node_once_in_order',
    'OpenHTF.Exec.c03_teardown_terminal_propagates',
    'OpenHTF.Exec.c03_no_entry_no_teardown',
    'OpenHTF.Exec.c03_before_successors',
    'OpenHTF.Exec.c03_teardown_events_after_main',
    'OpenHTF.Abort.c03_single_abort_never_cancels_teardown',
    'OpenHTF.Abort.c03_teardown_runs_with_clear_stop_flag',
]
PENDING = ['a single theorem joining the two layers (tree traversal x abort interleaving) - today the sequential theorems '
           'hold for every behaviour oracle (a killed phase is one), the interleaving theorems for every executor action '
           'sequence respecting the program order, and the conformance of the real executor to that order is checked on '
           'every scheduled trace']
RULE = ('group-centred programs: every main ending (continue, exception, STOP, timeout, FAIL_SUBTEST, FAIL_AND_CONTINUE, '
        'nested group with terminal main/teardown) x setup ending x teardown content (plain, terminal first node, nested '
        'group, branch, subtest) x context (top level, in subtest, in failed subtest, in a teardown, in a branch); plus the '
        'C02 tree families; compared: order of body invocations and the sequence of phase records')
ASSUMPTIONS = ['plug tearDown ordering is covered by C08; abort by the pending part']
TRUSTED = ['harness/exec_common.py', 'lean/OpenHTF/Driver/Exec.lean, Driver/C02.lean (handleC03)']
CONST_PREFIXES = ['c03.']
PROCS = 12


def run_real(case):
  if case.get('abort') is not None:
    from harness.props import c04
    return c04.run_real(case['abort'])
  out = ec.run_test_case(case)
  return {'tokens': ec.core_tokens(out['tokens'])}


def encode(case, obs):
  if case.get('abort') is not None:
    from harness.props import c04
    return c04.encode(case['abort'], obs)
  return 'C03 %s # %s' % (ec.clean(ec.enc_test(case)), ' '.join(obs['tokens']))


def classify(case, obs):
  return case.get('src', '?')


def nontrivial_key(case, obs):
  if case.get('abort') is not None:
    from harness.props import c04
    return c04.nontrivial_key(case['abort'], obs)
  return ec.clean(ec.enc_test(case))


def _abort_cases(rng, tier):
  """a single operator abort at every scheduling step of group programs (real threads under the cooperative
  scheduler; judged by the C04 driver: teardown of entered groups runs, is not cancelled, precedes plug tearDown)"""
  from harness.props import c04
  out = []
  for name in ('group', 'nested', 'subtest', 'plugs', 'tdrepeat', 'stuck'):
    n = c04._length(name, 'thread')
    stride = 3 if tier == 'quick' else 1
    for k in range(0, n + 3, stride):
      out.append({'abort': {'prog': name, 'ks': [k], 'mode': 'thread'}, 'src': 'abort/' + name})
  for i in range(60 if tier == 'quick' else 1500):
    r = rng.derive('ab%d' % i)
    name = r.choice(['group', 'nested', 'subtest', 'plugs', 'tdrepeat', 'stuck'])
    out.append({'abort': {'prog': name, 'ks': [r.randrange(0, c04._length(name, 'thread'))], 'mode': 'thread',
                          'rseed': r.getrandbits(32), 'switch': r.choice([0.1, 0.3])}, 'src': 'abort-random/' + name})
  return out


def gen_cases(rng, tier):
  cases = _abort_cases(rng, tier)
  P = lambda raw: {'t': 'P', 'id': 0, 'opts': {}, 'beh': [{'raw': raw}]}
  G = lambda s, m, td: {'t': 'G', 's': s, 'm': m, 'td': td}
  ok = P('cont')
  mains = [[ok], [P('exc'), ok], [P('stop')], [P('failsub'), ok], [P('failcont'), ok], [P('timeout')],
           [G([ok], [P('exc')], [ok]), ok], [G([ok], [ok], [P('stop'), ok]), ok], [G([P('stop')], [ok], [ok]), ok], []]
  setups = [[], [ok], [P('stop')], [P('failsub')], [ok, P('exc'), ok]]
  tds = [[ok, ok], [P('stop'), ok], [P('exc'), ok, ok], [G([ok], [ok], [ok]), ok],
         [{'t': 'B', 'id': 0, 'on': 'notany', 'res': [3], 'ns': [ok]}, ok], [{'t': 'U', 'name': 0, 'ns': [P('failsub'), ok]}, ok],
         [{'t': 'Q', 'ns': [P('stop'), ok]}, ok], []]
  contexts = ['top', 'subtest', 'failed_subtest', 'teardown', 'branch', 'sequence']
  k = 0
  for s in setups:
    for m in mains:
      for td in tds:
        k += 1
        has_timeout = any(n.get('beh', [{}])[0].get('raw') == 'timeout' for n in m if n['t'] == 'P')
        if has_timeout and k % 5:
          continue
        if tier == 'quick' and k % 2 and not has_timeout:
          continue
        ctx = contexts[k % len(contexts)]
        g = G(s, m, td)
        if ctx == 'top':
          nodes = [g, ok]
        elif ctx == 'subtest':
          nodes = [{'t': 'U', 'name': 0, 'ns': [g, ok]}, ok]
        elif ctx == 'failed_subtest':
          nodes = [{'t': 'U', 'name': 0, 'ns': [P('failsub'), g, ok]}, ok]
        elif ctx == 'teardown':
          nodes = [G([], [P('stop')], [g, ok]), ok]
        elif ctx == 'branch':
          nodes = [{'t': 'B', 'id': 0, 'on': 'notany', 'res': [2], 'ns': [g, ok]}, ok]
        else:
          nodes = [{'t': 'Q', 'ns': [g, ok]}, ok]
        ids = trees.Ids()
        cases.append({'nodes': [trees._relabel(n, ids) for n in nodes], 'src': 'group/' + ctx})
  cases += trees.corpus()
  # fixed defect #1: the first phase excluded by run_if under stop_on_first_failure made the executor crash and the
  # teardown of the entered group was lost
  for opts, sof in (({}, True), ({'rmf': True}, False)):
    ids = trees.Ids()
    excluded = {'t': 'P', 'id': 0, 'opts': dict(opts), 'beh': [{'raw': 'cont'}], 'runif': [False]}
    cases.append({'nodes': [trees._relabel(n, ids) for n in [G([], [excluded, ok], [ok, ok]), ok]], 'sof': sof,
                  'src': 'corpus'})
    ids = trees.Ids()
    cases.append({'nodes': [trees._relabel(n, ids) for n in [G([excluded], [ok], [ok]), ok]], 'sof': sof, 'src': 'corpus'})
  # profiling on (execute(profile_filename=...)): a main phase that times out, or whose thread outlives its deadline in
  # its finish handler, must not keep the following phases (teardown included) from running
  for main_raw, linger in (('timeout', False), ('cont', True), ('exc', False)):
    ids = trees.Ids()
    mainp = {'t': 'P', 'id': 0, 'opts': {}, 'beh': [{'raw': main_raw}]}
    nodes = [trees._relabel(n, ids) for n in [G([ok], [mainp, ok], [ok, G([], [ok], [ok])]), ok]]
    if linger:
      nodes[0]['m'][0]['linger'] = True
    cases.append({'nodes': nodes, 'profile': True, 'src': 'profiling'})
  for i in range(1200 if tier == 'quick' else 15000):
    r = rng.derive('f%d' % i)
    ids = trees.Ids()
    nodes = [trees._focused(r, ids, r.choice([2, 3, 4, 5]), False, False) for _ in range(r.choice([1, 2, 3]))]
    cases.append({'nodes': nodes, 'src': 'focused-random', 'sof': r.random() < 0.1})
  return cases


def shrink(case):
  if case.get('abort') is not None:
    return []
  return trees.shrink(case)


def known_match(entry, case, obs, msg):
  return msg.split(' ')[0] == entry['match']


MANIFEST = {
    'text': 'Proof (sequential part): Lean theorems for every nesting and every behaviour: once setup completed (and the '
            'subtest had not failed) the group executes main and then the WHOLE teardown sequence as a teardown on '
            'whatever state main left - the way main ended is not inspected; a teardown sequence is a fold over all its '
            'nodes (each exactly once, in order); it is terminal iff one of its nodes was (propagation after the rest '
            'ran); a terminal setup means neither main nor teardown; successors start from the state the teardown left; '
            'teardown events come after main events in the call log. Tie: real Test.execute() on a group-centred family '
            '(every main/setup/teardown ending x context) and focused random trees.',
    'note': 'Trusted: Lean kernel + standard axioms; harness (incl. harness/sched.py for the abort runs); Lean driver. The '
            '"single operator abort at any moment" clause: theorem c03_single_abort_never_cancels_teardown over the '
            'interleaving model of Model/Abort.lean (every interleaving; see C04), tied by real runs with one abort at '
            'every scheduling step of group programs. PARTIAL: the two layers (tree traversal, abort interleaving) are '
            'joined by the conformance check of the real executor\'s action order, not by one theorem.',
}
