"""C03 — PhaseGroup teardown always runs once the group was entered (sequential part; shared executor harness)."""
from harness import exec_common as ec
from harness.props import c02 as trees

PROP = 'C03'
PROOF_MODULE = 'OpenHTF.Proofs.C03'
THEOREMS = [
    'OpenHTF.Exec.c03_teardown_runs_after_main_however_it_ended',
    'OpenHTF.Exec.c03_every_teardown_node_once_in_order',
    'OpenHTF.Exec.c03_teardown_terminal_propagates',
    'OpenHTF.Exec.c03_no_entry_no_teardown',
    'OpenHTF.Exec.c03_before_successors',
    'OpenHTF.Exec.c03_teardown_events_after_main',
]
PENDING = ['single operator abort at any moment: interleaving model (lean/OpenHTF/Model/ExecAbort.lean) and controlled '
           'scheduler tie']
RULE = ('group-centred programs: every main ending (continue, exception, STOP, timeout, FAIL_SUBTEST, FAIL_AND_CONTINUE, '
        'nested group with terminal main/teardown) x setup ending x teardown content (plain, terminal first node, nested '
        'group, branch, subtest) x context (top level, in subtest, in failed subtest, in a teardown, in a branch); plus the '
        'C02 tree families; compared: order of body invocations and the sequence of phase records')
ASSUMPTIONS = ['plug tearDown ordering is covered by C08; abort by the pending part']
TRUSTED = ['harness/exec_common.py', 'lean/OpenHTF/Driver/Exec.lean, Driver/C02.lean (handleC03)']
CONST_PREFIXES = ['c03.']
PROCS = 12


def run_real(case):
  out = ec.run_test_case(case)
  return {'tokens': ec.core_tokens(out['tokens'])}


def encode(case, obs):
  return 'C03 %s # %s' % (ec.clean(ec.enc_test(case)), ' '.join(obs['tokens']))


def classify(case, obs):
  return case.get('src', '?')


def nontrivial_key(case, obs):
  return ec.clean(ec.enc_test(case))


def gen_cases(rng, tier):
  cases = []
  P = lambda raw: {'t': 'P', 'id': 0, 'opts': {}, 'beh': [{'raw': raw}]}
  G = lambda s, m, td: {'t': 'G', 's': s, 'm': m, 'td': td}
  ok = P('cont')
  mains = [[ok], [P('exc'), ok], [P('stop')], [P('failsub'), ok], [P('failcont'), ok], [P('timeout')],
           [G([ok], [P('exc')], [ok]), ok], [G([ok], [ok], [P('stop'), ok]), ok], [G([P('stop')], [ok], [ok]), ok], []]
  setups = [[], [ok], [P('stop')], [P('failsub')], [ok, P('exc'), ok]]
  tds = [[ok, ok], [P('stop'), ok], [P('exc'), ok, ok], [G([ok], [ok], [ok]), ok],
         [{'t': 'B', 'id': 0, 'on': 'notany', 'res': [3], 'ns': [ok]}, ok], [{'t': 'U', 'name': 0, 'ns': [P('failsub'), ok]}, ok],
         [{'t': 'Q', 'ns': [P('stop'), ok]}, ok], []]
  contexts = ['top', 'subtest', 'failed_subtest', 'teardown', 'branch', 'sequence']
  k = 0
  for s in setups:
    for m in mains:
      for td in tds:
        k += 1
        has_timeout = any(n.get('beh', [{}])[0].get('raw') == 'timeout' for n in m if n['t'] == 'P')
        if has_timeout and k % 5:
          continue
        if tier == 'quick' and k % 2 and not has_timeout:
          continue
        ctx = contexts[k % len(contexts)]
        g = G(s, m, td)
        if ctx == 'top':
          nodes = [g, ok]
        elif ctx == 'subtest':
          nodes = [{'t': 'U', 'name': 0, 'ns': [g, ok]}, ok]
        elif ctx == 'failed_subtest':
          nodes = [{'t': 'U', 'name': 0, 'ns': [P('failsub'), g, ok]}, ok]
        elif ctx == 'teardown':
          nodes = [G([], [P('stop')], [g, ok]), ok]
        elif ctx == 'branch':
          nodes = [{'t': 'B', 'id': 0, 'on': 'notany', 'res': [2], 'ns': [g, ok]}, ok]
        else:
          nodes = [{'t': 'Q', 'ns': [g, ok]}, ok]
        ids = trees.Ids()
        cases.append({'nodes': [trees._relabel(n, ids) for n in nodes], 'src': 'group/' + ctx})
  cases += trees.corpus()
  # fixed defect #1: the first phase excluded by run_if under stop_on_first_failure made the executor crash and the
  # teardown of the entered group was lost
  for opts, sof in (({}, True), ({'rmf': True}, False)):
    ids = trees.Ids()
    excluded = {'t': 'P', 'id': 0, 'opts': dict(opts), 'beh': [{'raw': 'cont'}], 'runif': [False]}
    cases.append({'nodes': [trees._relabel(n, ids) for n in [G([], [excluded, ok], [ok, ok]), ok]], 'sof': sof,
                  'src': 'corpus'})
    ids = trees.Ids()
    cases.append({'nodes': [trees._relabel(n, ids) for n in [G([excluded], [ok], [ok]), ok]], 'sof': sof, 'src': 'corpus'})
  for i in range(1200 if tier == 'quick' else 15000):
    r = rng.derive('f%d' % i)
    ids = trees.Ids()
    nodes = [trees._focused(r, ids, r.choice([2, 3, 4, 5]), False, False) for _ in range(r.choice([1, 2, 3]))]
    cases.append({'nodes': nodes, 'src': 'focused-random', 'sof': r.random() < 0.1})
  return cases


shrink = trees.shrink


def known_match(entry, case, obs, msg):
  return msg.split(' ')[0] == entry['match']


MANIFEST = {
    'text': 'Proof (sequential part): Lean theorems for every nesting and every behaviour: once setup completed (and the '
            'subtest had not failed) the group executes main and then the WHOLE teardown sequence as a teardown on '
            'whatever state main left - the way main ended is not inspected; a teardown sequence is a fold over all its '
            'nodes (each exactly once, in order); it is terminal iff one of its nodes was (propagation after the rest '
            'ran); a terminal setup means neither main nor teardown; successors start from the state the teardown left; '
            'teardown events come after main events in the call log. Tie: real Test.execute() on a group-centred family '
            '(every main/setup/teardown ending x context) and focused random trees.',
    'note': 'Trusted: Lean kernel + standard axioms; harness; Lean driver. PARTIAL: the "single operator abort at any '
            'moment" clause is carried by the interleaving model and the controlled scheduler (see pending_statements in '
            'the evidence until that part is registered).',
}
