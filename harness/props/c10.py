"""C10 — serialized (base-type / JSON) view equals the in-memory record."""
import base64
import copy
import enum
import io
import itertools
import json
import logging
import math

PROP = 'C10'
PROOF_MODULE = 'OpenHTF.Proofs.C10'
THEOREMS = [
    'OpenHTF.Render.c10_convert_base_types_closed',
    'OpenHTF.Render.c10_json_safe_no_nonfinite_leaves',
    'OpenHTF.Render.c10_convert_idempotent',
    'OpenHTF.Render.c10_cache_coherent',
    'OpenHTF.PendingSet.c10_live_view_never_loses_an_update',
    'OpenHTF.PendingSet.c10_quiescent_live_view_is_current',
    'OpenHTF.PendingSet.c10_render_pass_refreshes',
    'OpenHTF.PendingSet.clear_after_iterate_loses_an_update',
]
PENDING = ['record-level statements (every record list represented, conversion does not write caches, JSON text strict and '
           'round-trips, attachments base64) are differential checks on real records (kind R), not theorems']
RULE = ('V: convert_to_base_types on the value family (None, bool, int, NaN/+-inf, str, enum, nested lists/tuples/str-keyed '
        'dicts to depth 3) with json_safe on/off; M: histories (set/override/per-coordinate set and override/validate/read '
        'of the live view, length<=8) on real Measurement objects inside a real PhaseState, transform none/wrapping, the '
        'base-type view read through PhaseState.as_base_types(); R: real runs of C02-style programs with checkpoints, '
        'branches, subtests, diagnoses, logs and attachments: every record list represented, JSON strict + round trip, '
        'attachments byte-for-byte, caches untouched by the conversion; X: a watcher thread renders the live view while '
        'the phase thread assigns measurements, under the cooperative scheduler with every source line of '
        'PhaseState.as_base_types / Measurement.as_base_types / PhaseState._notify a scheduling point (random and PCT '
        'schedules), live view compared with a from-scratch rendering once both are quiet; non-trivial = distinct case')
ASSUMPTIONS = ['json and base64 modules are trusted (text-level statements are differential only)',
               'coordinates are ints, strings and enum members (Python equality 1 == True == 1.0 is not modelled)']
TRUSTED = ['harness/props/c10.py (Python value <-> token canonicaliser)', 'lean/OpenHTF/Driver/C10.lean']
CONST_PREFIXES = ['c10.']
PROCS = 12


class Color(enum.Enum):
  RED = 'r'
  BLUE = 'b'


NAN, INF = float('nan'), float('inf')


def _hex(s):
  return s.encode('utf-8').hex()


def toks(v):
  """canonical tokens of a Python value (input values and rendered values use the same grammar)"""
  if v is None:
    return ['N']
  if isinstance(v, bool):
    return ['T' if v else 'F']
  if isinstance(v, enum.Enum):
    return ['E' + _hex(v.name)]
  if isinstance(v, int):
    return ['I%d' % v]
  if isinstance(v, float):
    if math.isnan(v):
      return ['Xnan']
    if math.isinf(v):
      return ['Xinf' if v > 0 else 'Xninf']
    return ['S' + _hex('float:%r' % v)]
  if isinstance(v, str):
    return ['S' + _hex(v)]
  if isinstance(v, list):
    return ['L', str(len(v))] + [t for x in v for t in toks(x)]
  if isinstance(v, tuple):
    return ['U', str(len(v))] + [t for x in v for t in toks(x)]
  if isinstance(v, dict):
    out = ['D', str(len(v))]
    for k, x in v.items():
      out += [_hex(str(k))] + toks(x)
    return out
  return ['S' + _hex('other:%s' % type(v).__name__)]


LEAVES = [None, True, 5, -3, NAN, INF, -INF, 'txt', '', Color.RED]


def _values(depth, rng=None):
  if depth == 0:
    return list(LEAVES)
  sub = _values(depth - 1)
  out = list(LEAVES)
  picks = sub if len(sub) <= 12 else [sub[i] for i in range(0, len(sub), max(1, len(sub) // 12))]
  for a in picks:
    out.append([a])
    out.append((a, 1))
    out.append({'k': a})
  for a, b in itertools.product(picks[:6], repeat=2):
    out.append([a, b])
    out.append({'x': a, 'y': [b]})
  return out


def _real_measurement_case(case):
  import openhtf as htf
  from openhtf.core import test_state, measurements, phase_executor, phase_descriptor
  logging.disable(logging.CRITICAL)
  m = htf.Measurement('m')
  if case['dim']:
    m = m.with_dimensions('a', 'b') if case.get('arity', 1) == 2 else m.with_dimensions('a')
  if case['transform'] == 'wrap':
    m = m.with_transform(lambda v: [v, v])
  if case.get('validator') == 'raise':
    # a validator that raises for some values (comparing a str / None / list with a number): the measurement is FAIL
    # and the assignment re-raises; the rendering must say FAIL as well
    if case['dim']:
      m = m.with_validator(lambda rows: all(r[-1] < 6 for r in rows))
    else:
      m = m.with_validator(lambda v: v < 6)
  elif case.get('validator'):
    if case['dim']:
      m = m.with_validator(lambda rows: all(r[-1] == 5 or r[-1] == [5, 5] for r in rows))
    else:
      m = m.with_validator(lambda v: v == 5 or v == [5, 5])

  @htf.measures(m)
  def phase(test):
    pass
  t = htf.Test(phase)
  state = test_state.TestState(t.descriptor, 'verif-c10', t._test_options)
  reads = []
  ops_out = []
  try:
    ctxm = state.running_phase_context(phase)
    ps = ctxm.__enter__()
    mo = ps.measurements['m']
    api = state.test_api
    for op in case['ops']:
      if op[0] == 'S':
        try:
          api.measurements['m'] = _pyval(op[1])
        except Exception:  # pylint: disable=broad-except
          if case.get('validator') != 'raise':
            raise
        ops_out.append(('S', op[1], mo.outcome.name))
      elif op[0] == 'D':
        cs = [_pyval(c) for c in op[1]]
        coords = tuple(cs) if len(cs) != 1 else cs[0]
        api.measurements['m'][coords] = _pyval(op[2])
        ops_out.append(('D', op[1], op[2]))
      elif op[0] == 'V':
        if mo.measured_value.is_value_set:     # the framework only validates measurements that were set
          try:
            mo.validate()
          except Exception:  # pylint: disable=broad-except
            if case.get('validator') != 'raise':
              raise
          ops_out.append(('V', mo.outcome.name))
      elif op[0] == 'R':
        view = copy.deepcopy(ps.as_base_types()['measurements']['m'])
        reads.append((view['outcome'], view.get('measured_value', '-')))
        ops_out.append(('R',))
    ps.result = phase_executor.PhaseExecutionOutcome(phase_descriptor.PhaseResult.CONTINUE)
    ctxm.__exit__(None, None, None)
  finally:
    state.close()
  return {'ops': ops_out, 'reads': reads}


def _pyval(spec):
  """JSON-able case spec -> Python value"""
  if isinstance(spec, dict) and '__' in spec:
    k = spec['__']
    if k == 'nan':
      return NAN
    if k == 'inf':
      return INF
    if k == 'ninf':
      return -INF
    if k == 'enum':
      return Color[spec['n']]
    if k == 'tuple':
      return tuple(_pyval(x) for x in spec['v'])
  if isinstance(spec, list):
    return [_pyval(x) for x in spec]
  if isinstance(spec, dict):
    return {k: _pyval(v) for k, v in spec.items()}
  return spec


def _spec(v):
  """Python value -> JSON-able case spec"""
  if isinstance(v, float):
    if math.isnan(v):
      return {'__': 'nan'}
    if math.isinf(v):
      return {'__': 'inf' if v > 0 else 'ninf'}
    return v
  if isinstance(v, enum.Enum):
    return {'__': 'enum', 'n': v.name}
  if isinstance(v, tuple):
    return {'__': 'tuple', 'v': [_spec(x) for x in v]}
  if isinstance(v, list):
    return [_spec(x) for x in v]
  if isinstance(v, dict):
    return {k: _spec(x) for k, x in v.items()}
  return v


def attr_fresh(x):
  """an attrs object rebuilt from its fields, so that nothing cached inside it is used"""
  import attr
  if attr.has(type(x)):
    try:
      return attr.evolve(x)
    except Exception:  # pylint: disable=broad-except
      return x
  return x


def _record_case(case):
  """real run with every record kind; facts about the rendering"""
  import openhtf as htf
  from openhtf.core import phase_branches, diagnoses_lib
  from openhtf.output.callbacks import json_factory
  from openhtf.util import console_output
  logging.disable(logging.NOTSET)
  logging.getLogger().addHandler(logging.NullHandler())
  logging.lastResort = None
  console_output.banner_print = lambda *a, **k: None
  console_output.error_print = lambda *a, **k: None
  R = diagnoses_lib.DiagResultEnum('R', {'A': 'a', 'B': 'b'})

  @diagnoses_lib.PhaseDiagnoser(R)
  def dg(phase_record):
    return diagnoses_lib.Diagnosis(R.A, 'diag', is_failure=False)
  payload = bytes(range(256)) * case.get('size', 1)

  @htf.diagnose(dg)
  @htf.measures(htf.Measurement('v'), htf.Measurement('d').with_dimensions('x').with_transform(lambda x: x * 10))
  def p1(test):
    test.measurements.v = _pyval(case['value'])
    test.measurements.d[1] = 2
    test.measurements.d[2] = 3
    test.measurements.d[1] = 4
    test.logger.info('hello %s', 'world')
    # metadata written while the test runs: a new key, and a key given at definition time overwritten
    test.test_record.metadata['part_number'] = 'pn-%d' % len(payload)
    test.test_record.metadata['fixture'] = 'fixture-in-use'
    test.attach('blob.bin', payload)
    test.attach('t.txt', 'text data')

  def p2(test):
    # the same attachment names as p1 with other contents: attachments belong to their phase
    test.attach('blob.bin', payload[::-1] + b'p2')
    test.attach('t.txt', 'other text')
    if case.get('stop_sub'):
      return htf.PhaseResult.STOP       # the subtest ends the test: its record says STOP
    return htf.PhaseResult.FAIL_SUBTEST if case.get('fail_sub') else None
  nodes = [p1, phase_branches.PhaseFailureCheckpoint.last('cp1'),
           htf.Subtest('st', p2, phase_branches.DiagnosisCheckpoint('cp2', phase_branches.DiagnosisCondition.on_all(R.B),
                                                                  action=htf.PhaseResult.FAIL_SUBTEST)),
           phase_branches.BranchSequence(phase_branches.DiagnosisCondition.on_any(R.A), p2, name='br')]
  recs = []
  t = htf.Test(*nodes, fixture='fixture-as-declared', line='L1')
  t.add_output_callbacks(recs.append)
  t.execute()
  r = recs[0]
  facts = {}
  b = r.as_base_types()
  want_md = {'part_number': 'pn-%d' % len(payload), 'fixture': 'fixture-in-use', 'line': 'L1'}
  facts['metadata_in_memory'] = '1' if all(r.metadata.get(k) == v for k, v in want_md.items()) else '0'
  facts['metadata_rendered_current'] = '1' if all((b.get('metadata') or {}).get(k) == v for k, v in want_md.items()) else '0'
  for name in ('phases', 'subtests', 'branches', 'checkpoints', 'diagnoses', 'log_records', 'diagnosers'):
    facts[name] = '%d:%d' % (len(getattr(r, name)), len(b.get(name, [])) if name in b else -1)
  facts['has_log_records'] = '1' if len(r.log_records) > 0 else '0'
  # content, not only length: every (cached) list of the record's rendering equals a from-scratch rendering of the
  # in-memory objects
  from openhtf.util import data as data_mod
  for name in ('subtests', 'branches', 'checkpoints', 'diagnoses', 'diagnosers'):
    fresh = [data_mod.convert_to_base_types(attr_fresh(x)) for x in getattr(r, name)]
    same = json.dumps(b.get(name, []), sort_keys=True, default=str) == json.dumps(fresh, sort_keys=True, default=str)
    facts[name + '_content'] = '1' if same else '0'
  # the rendering is made of base types only, before and after the JSON conversion
  def base_only(x):
    if isinstance(x, dict):
      return all(isinstance(k, str) and base_only(v) for k, v in x.items())
    if isinstance(x, (list, tuple)):
      return all(base_only(v) for v in x)
    return x is None or isinstance(x, (str, int, float, bool, bytes))
  facts['base_types_before'] = '1' if base_only(b) else '0'
  out1 = io.BytesIO()
  try:
    json_factory.OutputToJSON(out1, inline_attachments=True, allow_nan=case.get('allow_nan', False))(r)
    text = out1.getvalue().decode('utf-8')
    strict = True
    try:
      decoded = json.loads(text, parse_constant=lambda c: (_ for _ in ()).throw(ValueError(c)))
    except ValueError:
      strict = False
      decoded = json.loads(text)
    facts['json_strict'] = '1' if (strict or case.get('allow_nan')) else '0'
    facts['metadata_in_json_current'] = '1' if all((decoded.get('metadata') or {}).get(k) == v
                                                   for k, v in want_md.items()) else '0'
    att = decoded['phases'][0]['attachments']
    facts['attachment_roundtrip'] = '1' if (base64.b64decode(att['blob.bin']['data']) == payload and
                                            base64.b64decode(att['t.txt']['data']) == b'text data') else '0'
    per_phase = len(decoded['phases']) == len(r.phases)
    for dph, ph in zip(decoded['phases'], r.phases):
      per_phase = per_phase and sorted(dph['attachments']) == sorted(ph.attachments)
      for name, a in ph.attachments.items():
        per_phase = per_phase and base64.b64decode(dph['attachments'].get(name, {}).get('data', '')) == a.data
    facts['attachment_roundtrip_every_phase'] = '1' if per_phase else '0'
    # decodes to the same structure as the base-type rendering (tuples become lists; attachments inlined)
    expect = json.loads(json.dumps(r.as_base_types(), default=lambda o: '<att>'))
    for ph in decoded['phases']:
      ph['attachments'] = {k: None for k in ph['attachments']}
    for ph in expect['phases']:
      ph['attachments'] = {k: None for k in ph['attachments']}
    facts['json_same_structure'] = '1' if decoded == expect else '0'
    dv = decoded['phases'][0]['measurements']['d']['measured_value']
    facts['dimensioned_rendering'] = '1' if dv == [[1, 40], [2, 30]] else '0'
  except Exception as e:  # pylint: disable=broad-except
    facts['json_produced'] = '0'
  facts['base_types_after'] = '1' if base_only(r.as_base_types()) else '0'
  out2 = io.BytesIO()
  try:
    json_factory.OutputToJSON(out2, inline_attachments=False)(r)
    d2 = json.loads(out2.getvalue().decode('utf-8'))
    facts['second_callback_not_inlined'] = '1' if 'data' not in d2['phases'][0]['attachments']['blob.bin'] else '0'
  except Exception:  # pylint: disable=broad-except
    facts['json_produced_without_inlining'] = '0'
  return facts


def _concurrent_view_case(case):
  """a watcher thread renders the live view (as the station API does) while the phase thread assigns measurements;
  under the cooperative scheduler with every source line of the rendering functions a scheduling point. Once both are
  quiet the live view must equal a from-scratch rendering of the in-memory measurements."""
  import threading
  from harness import common, sched, sched_exec
  sched_exec.install(False)
  import openhtf as htf
  from openhtf.core import test_state, measurements
  from openhtf.util import data
  facts = []
  box = {}
  names = ['a', 'b', 'c'][:case.get('nmeas', 2)]

  def ms():
    out = [htf.Measurement(n) for n in names]
    out.append(htf.Measurement('d').with_dimensions('x'))
    return out

  @htf.measures(*ms())
  def phase(test):
    ps = test_state_ref()['ps']
    stop = box['stop']
    for op in case['ops']:
      if op[0] == 'S':
        setattr(test.measurements, names[op[1] % len(names)], op[2])
      else:
        test.measurements.d[op[1]] = op[2]
    stop.set()
    box['watcher_done'].wait(0.5)
    # quiescent: nobody renders, nobody assigns
    view = ps.as_base_types()['measurements']
    for n, mo in ps.measurements.items():
      v = view[n]
      if v.get('outcome') != mo.outcome.name:
        facts.append('live_outcome_%s=0' % n)
      if mo.measured_value.is_value_set:
        want = data.convert_to_base_types(mo.measured_value.value if not mo.dimensions else mo.measured_value.basetype_value())
        want = json.loads(json.dumps(want))
        got = json.loads(json.dumps(v.get('measured_value', '<missing>')))
        if got != want:
          facts.append('live_value_%s=0' % n)

  def test_state_ref():
    return box
  test = htf.Test(phase)
  test.configure(name='c10x')
  orig_ctx = test_state.TestState.running_phase_context

  def watcher():
    s = sched.SCHED
    while not box['stop'].is_set():
      st = test.state
      ps = getattr(st, 'running_phase_state', None) if st is not None else None
      if ps is not None:
        box['ps'] = ps
        copy.deepcopy(ps.as_base_types())
        box['renders'] = box.get('renders', 0) + 1
        s.block(lambda: False, 0.001, 'watch-pause')
      else:
        s.block(lambda: False, 0.001, 'watch-idle')      # a timed wait, not a spin: priority schedules must not starve
    box['watcher_done'].set()

  def body(s):
    box['stop'] = sched.CoEvent()
    box['watcher_done'] = sched.CoEvent()
    # the phase needs its own PhaseState: hand it over through the context manager
    import contextlib

    @contextlib.contextmanager
    def ctx(self_, phase_desc):
      with orig_ctx(self_, phase_desc) as ps:
        box['ps'] = ps
        yield ps
    test_state.TestState.running_phase_context = ctx
    w = threading.Thread(target=watcher, name='watcher')
    w._cosched_name = 'watcher'
    w.start()
    try:
      test.execute()
    finally:
      box['stop'].set()
      test_state.TestState.running_phase_context = orig_ctx
    w.join()
    return True
  codes = sched.codes_of(test_state.PhaseState.as_base_types, measurements.Measurement.as_base_types,
                         test_state.PhaseState._notify)
  rng = common.Rng('c10x/%s' % case['rseed'])
  choose = sched.pct_chooser(rng, case.get('pct', 3), case.get('horizon', 400)) if case.get('pct') else \
      sched.random_chooser(rng, case.get('switch', 0.3))
  rbox, s = sched.run(choose, body, max_steps=300000, trace_lines=codes,
                      early_timers=(common.Rng('c10xe/%s' % case['rseed']), 0.7, 0.05))
  if s.deadlock or 'sched_error' in rbox:
    facts.append('deadlock_free=0')
  facts.append('live_view_checked=1')
  facts.append('renders_during_phase=%d:%d' % (box.get('renders', 0), box.get('renders', 0)))
  return {'facts': dict(f.split('=') for f in facts)}


def _concurrent_log_case(case):
  """two threads of one run log at the same time (phase thread and a helper / monitor thread): the rendering of the
  record's log lines keeps the order of the in-memory list. Source lines of TestRecord.add_log_record are scheduling
  points."""
  import threading
  from harness import common, sched, sched_exec
  sched_exec.install(True)
  from openhtf.core import test_record
  from openhtf.util import logs
  rec = test_record.TestRecord(dut_id=None, station_id='s', code_info=None, start_time_millis=0, metadata={}, diagnosers=[])
  facts = []

  def body(s):
    logs.initialize_record_handler('uc10', rec, lambda: None)

    def logger_thread(tag):
      lg = logs.get_record_logger_for('uc10')
      for i in range(case['n']):
        lg.info('m %s %d', tag, i)
    ths = [threading.Thread(target=logger_thread, args=(t,)) for t in ('a', 'b')]
    for t, n in zip(ths, ('la', 'lb')):
      t._cosched_name = n
      t.start()
    for t in ths:
      t.join()
    logs.remove_record_handler('uc10')
    return True
  try:
    rbox, s = sched.run(sched.chooser_for(case, 'c10l'), body, max_steps=100000,
                        trace_lines=sched.codes_of(test_record.TestRecord.add_log_record))
  finally:
    logging.disable(logging.CRITICAL)
  if s.deadlock or 'sched_error' in rbox:
    facts.append('deadlock_free=0')
  mem = [l.message for l in rec.log_records]
  view = [l['message'] for l in rec.as_base_types()['log_records']]
  facts.append('log_lines=%d:%d' % (len(mem), 2 * case['n']))
  facts.append('log_view_in_the_order_of_the_record=%d' % (1 if mem == view else 0))
  return {'facts': dict(f.split('=') for f in facts)}


def run_real(case):
  k = case['kind']
  if k == 'L':
    return _concurrent_log_case(case)
  if k == 'X':
    return _concurrent_view_case(case)
  if k == 'V':
    from openhtf.util import data
    return {'out': data.convert_to_base_types(_pyval(case['v']), json_safe=case['js'])}
  if k == 'M':
    return _real_measurement_case(case)
  return {'facts': _record_case(case)}


def encode(case, obs):
  k = case['kind']
  if k == 'V':
    return 'C10 V %d %s # %s' % (1 if case['js'] else 0, ' '.join(toks(_pyval(case['v']))), ' '.join(toks(obs['out'])))
  if k == 'M':
    ops = []
    for op in obs['ops']:
      if op[0] == 'S':
        ops.append('S %s %s' % (' '.join(toks(_pyval(op[1]))), op[2]))
      elif op[0] == 'D':
        ops.append('D %d %s %s' % (len(op[1]), ' '.join(t for c in op[1] for t in toks(_pyval(c))), ' '.join(toks(_pyval(op[2])))))
      elif op[0] == 'V':
        ops.append('V %s' % op[1])
      else:
        ops.append('R')
    reads = []
    for outcome, mv in obs['reads']:
      reads.append('%s %s |' % (outcome, '-' if (isinstance(mv, str) and mv == '-') else ' '.join(toks(mv))))
    return 'C10 M %d %s %d %s # %s' % (1 if case['dim'] else 0, case['transform'], len(ops), ' '.join(ops), ' '.join(reads))
  return 'C10 R %s' % ' '.join('%s=%s' % kv for kv in sorted(obs['facts'].items()))


def classify(case, obs):
  if case['kind'] == 'X':
    return 'X/concurrent-render'
  if case['kind'] == 'L':
    return 'L/concurrent-logging'
  return case['kind'] + ('/dim' if case.get('dim') else '')


def nontrivial_key(case, obs):
  return json.dumps(case, sort_keys=True, default=str)


def gen_cases(rng, tier):
  cases = []
  vals = _values(2 if tier == 'quick' else 3)
  if tier == 'quick':
    vals = vals[:len(LEAVES)] + rng.sample(vals[len(LEAVES):], min(400, len(vals) - len(LEAVES)))
  elif len(vals) > 6000:
    vals = vals[:len(LEAVES)] + rng.sample(vals[len(LEAVES):], 6000)
  for v in vals:
    for js in (True, False):
      cases.append({'kind': 'V', 'v': _spec(v), 'js': js})
  # 1 == True == 1.0 and 0 == False == 0.0 compare equal but render differently
  pool = [5, 'txt', NAN, None, [1, INF], {'k': NAN}, (1, 'a'), Color.BLUE, True, 1, 1.0, [True], [1], 0, False]
  # distinct coordinates whose base-type renderings coincide (an enum member and the str of its name): a cache keyed
  # by the rendered row confuses them (seeded/C10-13)
  coords = [[1], [2], ['a'], [_spec(Color.BLUE)], [Color.BLUE.name]]
  def rand_ops(r, dim, n):
    ops = []
    for _ in range(n):
      x = r.random()
      if x < 0.35:
        ops.append(['R'])
      elif x < 0.45:
        ops.append(['V'])
      elif dim:
        ops.append(['D', r.choice(coords), _spec(r.choice(pool))])
      else:
        ops.append(['S', _spec(r.choice(pool))])
    ops.append(['R'])
    return ops
  # directed: the fixed defects
  for tr in ('id', 'wrap'):
    cases.append({'kind': 'M', 'dim': True, 'transform': tr, 'ops': [['D', [1], 1], ['R'], ['D', [2], 2], ['D', [1], 3], ['R'], ['V'], ['R']]})
    cases.append({'kind': 'M', 'dim': False, 'transform': tr, 'ops': [['R'], ['S', 9], ['R'], ['S', _spec(NAN)], ['R']]})
  for tr in ('id', 'wrap'):
    for first, second in (([_spec(Color.BLUE)], [Color.BLUE.name]), ([Color.BLUE.name], [_spec(Color.BLUE)])):
      cases.append({'kind': 'M', 'dim': True, 'transform': tr,
                    'ops': [['D', first, 1], ['D', second, 2], ['D', [2], 3], ['R'], ['D', second, 4], ['R'], ['D', first, 5], ['R'], ['V'], ['R']]})
  for i in range(1200 if tier == 'quick' else 15000):
    r = rng.derive(i)
    dim = r.random() < 0.6
    cases.append({'kind': 'M', 'dim': dim, 'transform': r.choice(['id', 'wrap']), 'ops': rand_ops(r, dim, r.randint(1, 8)),
                  'validator': r.choice([False, True, True, 'raise'])})
  for v in [5, NAN, {'k': INF}, [1, None], 'x'] + ([] if tier == 'quick' else pool):
    for allow_nan in (False, True):
      cases.append({'kind': 'R', 'value': _spec(v), 'allow_nan': allow_nan, 'fail_sub': bool(len(cases) % 2),
                    'size': [1, 2, 3, 256, 257, 600][len(cases) % 6], 'stop_sub': len(cases) % 3 == 0})
  for i in range(80 if tier == 'quick' else 2000):
    r = rng.derive('lg%d' % i)
    cases.append({'kind': 'L', 'n': r.choice([1, 2, 3]), 'rseed': r.getrandbits(32)})
  for i in range(120 if tier == 'quick' else 3000):
    r = rng.derive('x%d' % i)
    ops = []
    for _ in range(r.choice([2, 3, 4])):
      if r.random() < 0.75:
        ops.append(['S', r.randrange(3), r.choice([1, 5, 7])])
      else:
        ops.append(['D', r.randrange(2), r.choice([2, 3])])
    cases.append({'kind': 'X', 'nmeas': r.choice([2, 3]), 'ops': ops, 'rseed': r.getrandbits(32),
                  'pct': r.choice([0, 2, 3, 3]), 'horizon': r.choice([200, 500]), 'switch': r.choice([0.2, 0.5])})
  return cases


def shrink(case):
  if case['kind'] == 'M':
    ops = case['ops']
    for i in range(len(ops) - 1):
      yield dict(case, ops=ops[:i] + ops[i + 1:])


def known_match(entry, case, obs, msg):
  return msg.split(' ')[0] == entry['match']


MANIFEST = {
    'text': 'Proof: Lean theorems over the value family (None, bool, int, NaN/+-inf, str, enum, nested lists/tuples/dicts '
            'of any depth): the conversion yields only base types, with json_safe no non-finite leaf survives at any '
            'depth, and the rendering is a fixed point of the conversion; over EVERY history of assignments, overrides, '
            'per-coordinate overrides, validations and reads, reading the cached base-type view of a measurement equals '
            'the from-scratch rendering of the in-memory object (coherence invariant of _cached_value / '
            '_cached_basetype_values / _cached); under EVERY line-level interleaving of the phase thread\'s assignments with a '
            'watcher thread rendering the live view (pending-set swap protocol, inductive invariant) no update is lost '
            'and a quiet live view is current - with the counterexample theorem that iterate-then-clear loses one. Tie: '
            'real Measurement objects inside a real PhaseState read through PhaseState.as_base_types(), real '
            'convert_to_base_types on the family, watcher and phase threads under the cooperative scheduler with the '
            'source lines of the rendering functions as scheduling points.',
    'note': 'Trusted: Lean kernel + standard axioms; the Python-value/token canonicaliser; Lean driver. PARTIAL: the '
            'record-level statements (every record list of the TestRecord represented, conversion does not write the '
            'caches, JSON text strict and decoding to the same structure, attachments byte-for-byte through base64) are '
            'differential checks on real runs (json/base64 are outside the model), not theorems. Model follows the tree '
            'after four fix: commits (dimensioned transform before caching, checkpoints emitted, attachments inlined into '
            'copies, live outcome PARTIALLY_SET).',
}
