"""C18 — state subscriptions never lose an update (snapshot + event protocol).

Tie: the real util.SubscribableStateMixin (bare subclass, and the TestState of whole runs) under the
cooperative scheduler; the action sequence on the mixin's lock / weak set / events is replayed by the Lean
model (Model/Subscribe.lean), and the Lean spec is evaluated on the real (snapshot, event.is_set()) pairs.
Plus the notification coverage of a real run (every kind of state change is followed by notify_update)."""
import hashlib
import json
import threading

from harness import common
from harness import exec_common as ec
from harness import sched

PROP = 'C18'
PROOF_MODULE = 'OpenHTF.Proofs.C18'
THEOREMS = [
    'OpenHTF.Subscribe.c18_no_lost_update',
    'OpenHTF.Subscribe.c18_stays_set_run',
    'OpenHTF.Subscribe.c18_one_notify_wakes_all_registered',
    'OpenHTF.Subscribe.c18_snapshot_only_after_registration',
    'OpenHTF.Subscribe.c18_quiescent_stale_watchers_are_woken',
    'OpenHTF.Subscribe.c18_snapshot_is_past_or_present',
    'OpenHTF.Subscribe.c18_every_mutation_followed_by_notify',
    'OpenHTF.Subscribe.c18_methods_notify_themselves',
]
RULE = ('(M/bare) a bare SubscribableStateMixin subclass with 1-3 watcher threads (one-shot or snapshot-then-wait loops) '
        'and 1-2 updater threads under the cooperative scheduler: ALL interleavings of 1 watcher x 1 updater, all '
        'interleavings with <=2 preemptions of the larger configurations, random schedules beyond; (M/test) whole '
        'Test.execute() runs with 1-2 watcher threads looping on test.state.asdict_with_event() under random schedules; '
        '(M/plug) PlugManager.wait_for_plug_update on a real UserInput plug against prompt/respond; (N) notification '
        'coverage of real runs: each kind of state change made by a phase is followed by a notification and the final '
        'state equals the state at the last notification')
ASSUMPTIONS = ['threading.Lock / threading.Event / weakref.WeakSet behave as documented (replaced by cooperative '
               'equivalents during scheduled runs); an event object that its watcher dropped is not a watcher',
               'the snapshot is abstracted to a version counter in the model (a torn snapshot only contains changes made '
               'after the registration, which are notified)']
TRUSTED = ['harness/sched.py (cooperative scheduler, traced WeakSet)', 'harness/props/c18.py (trace abstraction by role)',
           'lean/OpenHTF/Driver/C18.lean']
CONST_PREFIXES = ['c18.']
PROCS = 12


# ---------------------------------------------------------------------------
# trace abstraction

def _until_release(events, pos, th, lock):
  """the events after position pos up to (excluding) thread th's next release of the lock"""
  out = []
  for e in events[pos + 1:]:
    if e[0] == th and e[1] == 'rel' and e[2] is lock:
      break
    out.append(e)
  return out


def _until_next_acquire(events, pos, th, lock):
  out = []
  for e in events[pos + 1:]:
    if e[0] == th and e[1] == 'acq' and e[2] is lock:
      break
    out.append(e)
  return out


def _abstract(events, lock, wset, watcher_threads):
  """event log -> (tokens, event-index map).  events: (thread, op, obj, extra)."""
  idx = {}            # id(event object) -> watcher index
  call_idx = {}       # (thread, call number) -> watcher index
  ncalls = {}
  cur = {}            # thread -> index of the call in progress
  # first pass: assign indices to asdict_with_event calls in log order
  pre = []
  for (th, op, obj, extra) in events:
    if op == 'wbegin':
      k = len(call_idx)
      call_idx[(th, ncalls.get(th, 0))] = k
      ncalls[th] = ncalls.get(th, 0) + 1
  ncalls = {}
  updaters = {}
  in_cs = {}
  toks = []
  n = len(events)
  for pos, (th, op, obj, extra) in enumerate(events):
    if op == 'wbegin':
      cur[th] = call_idx[(th, ncalls.get(th, 0))]
      ncalls[th] = ncalls.get(th, 0) + 1
      continue
    if op == 'wend':
      if extra is not None:
        idx.setdefault(id(extra), cur.get(th))
      cur.pop(th, None)
      continue
    is_w = th in watcher_threads and th in cur
    if is_w:
      i = cur[th]
      if op == 'acq' and obj is lock:
        toks.append('wa:%d' % i)
      elif op == 'wadd' and obj is wset:
        idx.setdefault(id(extra), i)
        toks.append('wd:%d' % i)
      elif op == 'rel' and obj is lock:
        toks.append('wr:%d' % i)
      elif op == 'snap':
        toks.append('ws:%d' % i)
      continue
    if op == 'snap':
      continue
    u = updaters.setdefault(th, len(updaters)) if (obj is lock or obj is wset or op == 'mutate') else None
    if op == 'mutate':
      toks.append('um:%d' % u)
    elif op == 'acq' and obj is lock:
      toks.append('ua:%d' % u)
      in_cs[th] = {'emitted': False}
    elif op == 'rel' and obj is lock:
      toks.append('ur:%d' % u)
      in_cs.pop(th, None)
    elif op in ('wclear', 'witer') and obj is wset:
      # inside one critical section of the lock nobody can observe the order of "set every registered event" and
      # "clear the set" (registration needs the lock, waiting on an event does not look at the set): the pair is
      # reported once, in canonical order, at the first of the two; which events were set is collected up to the release
      cs = in_cs.get(th)
      if cs is None:
        toks.append('uc:%d' % u if op == 'wclear' else ('us', u, pos, th))
      elif not cs['emitted']:
        cs['emitted'] = True
        toks.append(('us', u, pos, th))
        if any(th2 == th and op2 == 'wclear' and obj2 is wset for (th2, op2, obj2, e2) in _until_release(events, pos, th, lock)):
          toks.append('uc:%d' % u)
    elif op == 'wadd' and obj is wset:
      toks.append('wd:999')
  # resolve the set-lists: events set by that thread inside that critical section
  out = []
  for t in toks:
    if not isinstance(t, tuple):
      out.append(t)
      continue
    _, u, pos, th = t
    # the critical section started at the thread's last acquire before pos
    start = pos
    for j in range(pos, -1, -1):
      if events[j][0] == th and events[j][1] == 'acq' and events[j][2] is lock:
        start = j
        break
    # (events set right after the release, before the thread next takes the lock, belong to the same notification)
    window = _until_next_acquire(events, start, th, lock)
    mine = set()
    for (th2, op, obj, extra) in _until_release(events, start, th, lock):
      if th2 == th and op == 'witer' and obj is wset:
        mine.update(id(x) for x in (extra or ()))
    sets = [idx.get(id(obj), 998) for (th2, op, obj, extra) in window
            if th2 == th and op == 'set' and (id(obj) in mine or id(obj) in idx)]
    out.append('us:%d:%s' % (u, ','.join(str(x) for x in sorted(sets)) or '-'))
  return out, idx, len(call_idx)


# ---------------------------------------------------------------------------
# M / bare

def _chooser(case, rng=None):
  if case.get('choices') is not None:
    ex = sched.Explorer()
    ex.prefix = list(case['choices'])
    return ex.choose
  return sched.chooser_for(case, 'c18')


def _bare_body(case, res):
  from openhtf import util

  class Obj(util.SubscribableStateMixin):

    def __init__(self):
      super(Obj, self).__init__()
      self.version = 0

    def _asdict(self):
      s = sched.SCHED
      s.yield_point('snap')
      v = self.version
      s.log('snap', self, v)
      return {'version': v}

  total = case['nU'] * case['muts']

  def body(s):
    obj = Obj()
    res['obj'] = obj
    res['handles'] = []

    def watcher(i):
      for _ in range(case['iters'] if case['wmode'] == 'once' else 1000):
        s.log('wbegin', obj)
        state, ev = obj.asdict_with_event()
        s.log('wend', obj, ev)
        res['handles'].append((state['version'], ev))
        if case['wmode'] == 'loop':
          if state['version'] >= total:
            return
          ev.wait()

    def updater(j):
      for _ in range(case['muts']):
        s.yield_point('mutate')
        obj.version += 1
        s.log('mutate', obj)
        obj.notify_update()

    ths = []
    for i in range(case['nW']):
      t = threading.Thread(target=watcher, args=(i,))
      t._cosched_name = 'w%d' % i
      ths.append(t)
    for j in range(case['nU']):
      t = threading.Thread(target=updater, args=(j,))
      t._cosched_name = 'u%d' % j
      ths.append(t)
    for t in ths:
      t.start()
    for t in ths:
      t.join()
    return True
  return body


def _bare_lines(case):
  """cases with 'lines': the source lines of the mixin's two methods are scheduling points too (what happens
  before the lock is taken is then interleaved as CPython would)"""
  if not case.get('lines'):
    return None
  from openhtf import util
  return sched.codes_of(util.SubscribableStateMixin.asdict_with_event, util.SubscribableStateMixin.notify_update)


def _run_bare(case, chooser=None):
  sched.install_subscribe()
  res = {}
  box, s = sched.run(chooser or _chooser(case), _bare_body(case, res), max_steps=8000, trace_lines=_bare_lines(case))
  obj = res.get('obj')
  toks, idx, ncalls = _abstract(s.events, obj._lock, obj._update_events, set('w%d' % i for i in range(case['nW'])))
  # per event index: snapshot + flag (handles are appended in return order; map through the event identity)
  per = {}
  for (v, ev) in res.get('handles', []):
    i = idx.get(id(ev))
    if i is not None:
      per[i] = (v, bool(ev.flag))
  extras = []
  if s.deadlock or isinstance(box.get('sched_error'), sched.Deadlock):
    extras.append('X:deadlock:a-thread-is-blocked-forever')
  elif 'sched_error' in box:
    extras.append('X:scheduler-stuck')
  return {'toks': toks, 'n': ncalls, 'per': {str(k): v for k, v in per.items()}, 'final': obj.version, 'extras': extras,
          'steps': s.step}


# ---------------------------------------------------------------------------
# M / test : whole runs

_STATE_KEYS = ('status', 'test_record', 'running_phase_state')


def _digest(state):
  """the parts of the state the property names: status, running phase, measurement values (inside the phase
  records / the running phase), log records (+ outcome); e.g. the default dut_id applied after finalisation is
  not among them"""
  rec = state.get('test_record') or {}
  sub = {'status': state.get('status'), 'running_phase_state': state.get('running_phase_state'),
         'phases': rec.get('phases'), 'log_records': rec.get('log_records'), 'outcome': rec.get('outcome')}
  return hashlib.sha1(json.dumps(sub, sort_keys=True, default=str).encode()).hexdigest()[:16]


def _wait_state(env, done=None):
  """blocks the calling (managed) thread until the run has a TestState; None if the run ended first"""
  s, test = env['sched'], env['test']

  def ready():
    ex = getattr(test, '_executor', None)
    return (ex is not None and getattr(ex, 'test_state', None) is not None) or bool(env.get('ended')) or \
        ('execute-returned',) in env.get('log', ())
  s.block(ready, None, 'wait-for-test-state')
  ex = getattr(test, '_executor', None)
  return getattr(ex, 'test_state', None) if ex is not None else None


def _run_test(case):
  from harness import sched_exec
  res = {'handles': {}, 'last': {}, 'ts': None}

  def mk_watcher(name):
    def watcher(env):
      s = env['sched']
      ts = _wait_state(env)
      if ts is None:
        return
      if res['ts'] is None:
        res['ts'] = ts
        orig = ts._asdict

        def traced():
          s.yield_point('snap')
          s.log('snap', ts, None)
          return orig()
        ts._asdict = traced
      while True:
        s.log('wbegin', ts)
        try:
          state, ev = ts.asdict_with_event()
        except (sched.Deadlock, sched.SchedulerStuck):
          raise
        except Exception as e:  # pylint: disable=broad-except
          # a watcher is handed (state, event), not an exception because the phase ended while it was looking
          res.setdefault('raised', []).append(type(e).__name__)
          if len(res['raised']) > 5:
            return
          continue
        s.log('wend', ts, ev)
        res['handles'].setdefault(name, []).append(ev)
        res['last'][name] = state
        if state.get('status') == 'COMPLETED' and not ev.is_set():
          # (a set event means something changed after this snapshot was started - the snapshot may be torn: a
          # snapshot-then-wait loop goes round again)
          return
        ev.wait()
    return watcher

  names = ['w%d' % i for i in range(case['nW'])]
  from openhtf.core import test_state as _ts_mod
  out = sched_exec.run_case(case['test'], choose=_chooser(case), aux=[(n, mk_watcher(n)) for n in names],
                            enable_logging=bool(case.get('logging', True)),
                            trace_lines=sched.codes_of(_ts_mod.TestState.as_base_types) if case.get('lines') else None)
  s = out['sched']
  ts = res['ts']
  extras = ['X:watcher-snapshot-raised:' + t for t in sorted(set(res.get('raised', [])))]
  if out['deadlock']:
    extras.append('X:deadlock:' + str(out['deadlock']).replace(' ', ''))
  elif out['stuck']:
    extras.append('X:scheduler-stuck')
  if ts is None:
    # the watchers were only scheduled after the run had ended: nothing to observe
    return {'toks': [], 'n': 0, 'per': {}, 'final': None, 'extras': extras, 'steps': s.step}
  toks, idx, ncalls = _abstract(s.events, ts._lock, ts._update_events, set(names))
  per = {}
  for name, evs in res['handles'].items():
    for ev in evs:
      i = idx.get(id(ev))
      if i is not None:
        per[i] = (None, bool(ev.flag))
  if not extras:
    ts.__dict__.pop('_asdict', None)
    final = _digest(ts._asdict())
    for name in names:
      last = res['last'].get(name)
      if last is None:
        continue      # this watcher was only scheduled after the run had ended
      if last.get('status') != 'COMPLETED':
        extras.append('X:watcher-did-not-observe-COMPLETED:' + name)
      elif _digest(last) != final:
        extras.append('X:lastsnap-not-final:' + name)
  return {'toks': toks, 'n': ncalls, 'per': {str(k): v for k, v in per.items()}, 'final': None, 'extras': extras,
          'steps': s.step, 'outcome': out['tokens'][0] if out['tokens'] else '?'}


# ---------------------------------------------------------------------------
# M / plug : wait_for_plug_update on a frontend-aware plug

def _run_plug(case):
  """A phase prompts through the real UserInput plug; a frontend thread follows the plug with
  PlugManager.wait_for_plug_update (snapshot, compare, wait) and answers the prompt it sees."""
  from harness import sched_exec
  import openhtf as htf
  from openhtf.plugs import user_input
  sched_exec.install(False)
  sched._patch(user_input, 'threading', sched.shim_threading())
  res = {'seen': [], 'answered': 0}
  nprompts = case['prompts']

  @htf.plug(ui=user_input.UserInput)
  def asker(test, ui):
    for k in range(nprompts):
      r = ui.prompt('question %d' % k, text_input=True, timeout_s=50)
      res.setdefault('answers', []).append(r)

  def frontend(env):
    s = env['sched']
    ts = _wait_state(env)
    name = 'openhtf.plugs.user_input.UserInput'
    if ts is None:
      res['seen'].append('no-state')
      return
    s.block(lambda: name in ts.plug_manager._plugs_by_name or ts.is_finalized, None, 'wait-for-plug')
    remote = None
    while res['answered'] < nprompts:
      try:
        st = ts.plug_manager.wait_for_plug_update(name, remote, 1000)
      except Exception as e:  # pylint: disable=broad-except
        res['seen'].append('exc:' + type(e).__name__)
        return
      if st is None and remote is None:
        # timed out without ever seeing a prompt
        res['seen'].append('timeout')
        return
      remote = st
      if st is not None:
        res['seen'].append(st['message'])
        plug = ts.plug_manager._plugs_by_name[name]
        plug.respond(st['id'], 'answer to ' + st['message'])
        res['answered'] += 1

  tcase = {'nodes': []}
  b = ec.build_test(tcase)
  out = None

  def prepare(env):
    pass
  # build a real test around the asker phase
  from openhtf.util import configuration
  test = htf.Test(asker)
  recs = []
  test.add_output_callbacks(recs.append)
  test.configure(name='verif_plug')
  env = {'test': test}

  def body(s):
    env['sched'] = s
    t = threading.Thread(target=frontend, args=(env,))
    t._cosched_name = 'frontend'
    t.start()
    ret = test.execute()
    env['ended'] = True
    t.join()
    return ret
  box, s = sched.run(_chooser(case), body, max_steps=60000)
  extras = []
  if s.deadlock or isinstance(box.get('sched_error'), sched.Deadlock):
    extras.append('X:deadlock:' + str(s.deadlock).replace(' ', ''))
  elif 'sched_error' in box:
    extras.append('X:scheduler-stuck')
  want = ['question %d' % k for k in range(nprompts)]
  if not extras:
    if res['seen'] != want:
      extras.append('X:frontend-missed-a-prompt:saw=%s' % '/'.join(x.replace(' ', '_') for x in res['seen']))
    if res.get('answers') != ['answer to ' + w for w in want]:
      extras.append('X:phase-did-not-get-the-answers')
    if not recs or recs[0].outcome.name != 'PASS':
      extras.append('X:outcome-%s' % (recs[0].outcome.name if recs else 'none'))
  return {'toks': [], 'n': 0, 'per': {}, 'final': None, 'extras': extras, 'steps': s.step}


# ---------------------------------------------------------------------------
# N : notification coverage

def _run_notify(case):
  import openhtf as htf
  from openhtf.core import test_state
  import logging
  ec.setup()
  logon = bool(case.get('logging', True))
  logging.disable(logging.NOTSET if logon else logging.CRITICAL)
  counter = [0]
  digests = []
  cur = {}
  orig = test_state.TestState.notify_update

  def wrapped(self):
    counter[0] += 1
    cur['ts'] = self
    return orig(self)
  test_state.TestState.notify_update = wrapped
  obs = {}
  snaps = {}

  def after(kind, before):
    obs[kind] = obs.get(kind, True) and counter[0] > before

  try:
    @htf.measures(htf.Measurement('a'), htf.Measurement('d').with_dimensions('x'))
    def p1(test):
      ts = cur.get('ts')
      n = counter[0]; test.measurements.a = 1; after('measurement', n)
      n = counter[0]; test.measurements.a = 2; after('measurement', n)
      n = counter[0]; test.measurements.d[0] = 5; after('dimensioned', n)
      n = counter[0]; test.measurements.d[1] = 6; after('dimensioned', n)
      # overriding an existing coordinate / an existing value is a change of the measurement value as well
      n = counter[0]; test.measurements.d[0] = 7; after('dimensioned', n)
      n = counter[0]; test.measurements.d[0] = 7; after('dimensioned', n)
      if logon:
        n = counter[0]; test.logger.info('hello %d', 1); after('log', n)
      n = counter[0]; test.dut_id = 'dut7'; after('dut-id', n)

    def p2(test):
      if logon:
        n = counter[0]; test.logger.warning('second phase'); after('log', n)
      return htf.PhaseResult.FAIL_AND_CONTINUE if case.get('fail') else None

    phases = [p1, p2] if not case.get('group') else [htf.PhaseGroup(setup=[p2], main=[p1], teardown=[p2])]
    test = htf.Test(*phases)
    recs = []
    test.add_output_callbacks(recs.append)
    test.configure(name='verif_notify')
    # status / phase start / phase end / finalize are observed through the state seen at notifications
    seen_status = []
    seen_running = []

    def wrapped2(self):
      counter[0] += 1
      cur['ts'] = self
      r = orig(self)
      seen_status.append(self._status.name)
      seen_running.append(self.running_phase_state.name if self.running_phase_state else None)
      snaps['last'] = _digest(self.as_base_types())
      return r
    test_state.TestState.notify_update = wrapped2
    test.execute()
    ts = cur.get('ts')
    obs['status'] = 'RUNNING' in seen_status and seen_status[-1] == 'COMPLETED'
    runs = [x for x in seen_running if x is not None]
    obs['phase-start'] = all(n in runs for n in ('p1', 'p2'))
    # a notification with no running phase after every phase
    obs['phase-end'] = seen_running[-1] is None and any(
        a is not None and b is None for a, b in zip(seen_running, seen_running[1:]))
    obs['start-time'] = bool(recs) and recs[0].start_time_millis > 0
    obs['finalize'] = seen_status[-1] == 'COMPLETED'
    final_ok = ts is not None and snaps.get('last') == _digest(ts.as_base_types())
  finally:
    test_state.TestState.notify_update = orig
    logging.disable(logging.CRITICAL)
  return {'obs': obs, 'final_ok': bool(final_ok)}


# ---------------------------------------------------------------------------

def _run_plug_timeout(case):
  """a prompt nobody answers runs into its timeout (PromptUnansweredError) while a watcher holds the (state, event)
  pair that shows it: whatever the plug then does with the prompt, a state that differs from the watcher's snapshot
  comes with a set event"""
  import openhtf as htf
  from harness import sched_exec
  from openhtf.plugs import user_input
  sched_exec.install(False)
  sched._patch(user_input, 'threading', sched.shim_threading())
  facts = []
  box = {}
  vt = sched.VTime()

  @htf.plug(ui=user_input.UserInput)
  def asker(test, ui):
    box['plug'] = ui
    for k in range(case['prompts']):
      try:
        ui.prompt('question %d' % k, text_input=True, timeout_s=0.05)
        facts.append('X:prompt-returned-without-an-answer')
      except user_input.PromptUnansweredError:
        pass
      except user_input.MultiplePromptsError:
        box['multiple'] = True     # prompting again while the unanswered prompt is still up: refused, by design
      # things are quiet now: give the watcher time, then compare
      vt.sleep(0.2)
      snap, ev = box.get('pair', (None, None))
      if ev is not None and not ev.is_set() and snap != ui._asdict():
        facts.append('X:plug-state-changed-without-waking-the-watcher')
  test = htf.Test(asker)
  test.configure(name='verif_plug_timeout')

  def watcher():
    s = sched.SCHED
    s.block(lambda: box.get('plug') is not None or box.get('over'), None, 'wait-for-plug')
    plug = box.get('plug')
    while plug is not None and not box.get('over'):
      state, ev = plug.asdict_with_event()
      box['pair'] = (state, ev)
      ev.wait(0.5)

  def body(s):
    w = threading.Thread(target=watcher)
    w._cosched_name = 'watcher'
    w.start()
    try:
      test.execute()
    finally:
      box['over'] = True
    w.join()
    return True
  rbox, s = sched.run(sched.chooser_for(case, 'c18pt'), body, max_steps=100000)
  if s.deadlock or 'sched_error' in rbox:
    facts.append('X:deadlock-or-stuck')
  return {'toks': [], 'n': 0, 'per': {}, 'final': None, 'extras': sorted(set(facts)), 'steps': s.step, 'live': True}


def _run_plug_wait(case):
  """a frontend parked in PlugManager.wait_for_plug_update (the station API's long poll, looping with the last state
  it was given) while the phase drives the UserInput plug through notifications that change nothing (remove_prompt
  without a prompt) and real changes: a little after every step the frontend has the plug's current state"""
  import openhtf as htf
  from harness import sched_exec
  from openhtf.plugs import user_input
  sched_exec.install(False)
  sched._patch(user_input, 'threading', sched.shim_threading())
  facts = []
  box = {'got': 'nothing-yet'}
  vt = sched.VTime()
  name = 'openhtf.plugs.user_input.UserInput'

  @htf.plug(ui=user_input.UserInput)
  def driver(test, ui):
    box['plug'] = ui
    for op in case['ops']:
      if op == 'noop':
        ui.remove_prompt() if ui._asdict() is None else ui.notify_update()
      elif op == 'show':
        if ui._asdict() is None:
          ui.start_prompt('question', text_input=False)
      elif op == 'hide':
        ui.remove_prompt()
      # things are quiet now: give the frontend time (its poll time-out is much longer than this)
      vt.sleep(0.2)
      if box['got'] != ui._asdict():
        facts.append('X:frontend-long-poll-missed-a-plug-update-after:' + op)
    ui.remove_prompt()
    box['phase_done'] = True
  test = htf.Test(driver)
  test.configure(name='verif_plug_wait')

  def frontend():
    s = sched.SCHED
    s.block(lambda: box.get('plug') is not None or box.get('over'), None, 'wait-for-plug')
    if box.get('plug') is None:
      return
    pm = test._executor.test_state.plug_manager
    remote = 'never-seen'
    while not box.get('over'):
      try:
        st = pm.wait_for_plug_update(name, remote, 5.0)
      except Exception as e:  # pylint: disable=broad-except
        # (after the run's plugs were torn down the plug is no longer known: the end of the frontend's loop)
        if not box.get('over') and not box.get('phase_done'):
          facts.append('X:wait-for-plug-update-raised:' + type(e).__name__)
        return
      # (None is both "no prompt" and "time-out"; after a time-out the next call returns at once with the state)
      remote = st
      box['got'] = st

  def body(s):
    w = threading.Thread(target=frontend)
    w._cosched_name = 'frontend'
    w.start()
    try:
      test.execute()
    finally:
      box['over'] = True
      if box.get('plug') is not None:
        box['plug'].notify_update()
    w.join(10)
    return True
  rbox, s = sched.run(sched.chooser_for(case, 'c18pw'), body, max_steps=100000)
  if s.deadlock or 'sched_error' in rbox:
    facts.append('X:deadlock-or-stuck')
  return {'toks': [], 'n': 0, 'per': {}, 'final': None, 'extras': sorted(set(facts)), 'steps': s.step, 'live': True}


def _snaprace_body(case, res):
  """one watcher takes one snapshot of a TestState while the only phase ends; the source lines of
  TestState.as_base_types are scheduling points"""
  import openhtf as htf
  from harness import sched_exec
  from openhtf.core import test_state, phase_executor, phase_descriptor
  sched_exec.install(False)

  def body(s):
    @htf.measures(htf.Measurement('m'))
    def ph(test):
      pass
    test = htf.Test(ph)
    ts = test_state.TestState(test.descriptor, 'verif-snaprace', test._test_options)
    res['facts'] = []
    try:
      def watcher():
        try:
          state, ev = ts.asdict_with_event()
          res['got'] = True
        except (sched.Deadlock, sched.SchedulerStuck):
          raise
        except Exception as e:  # pylint: disable=broad-except
          res['facts'].append('X:watcher-snapshot-raised:' + type(e).__name__)
      ctx = ts.running_phase_context(test.descriptor.phase_sequence.nodes[0])
      p = ctx.__enter__()
      w = threading.Thread(target=watcher)
      w._cosched_name = 'watcher'
      w.start()
      p.result = phase_executor.PhaseExecutionOutcome(phase_descriptor.PhaseResult.CONTINUE)
      ctx.__exit__(None, None, None)
      w.join()
    finally:
      ts.close()
    return True
  return body


def _run_snaprace(case):
  from openhtf.core import test_state
  from harness import sched_exec
  sched_exec.install(False)
  res = {}
  ex = sched.Explorer()
  ex.prefix = list(case['choices'])
  box, s = sched.run(ex.choose, _snaprace_body(case, res), max_steps=20000,
                     trace_lines=sched.codes_of(test_state.TestState.as_base_types))
  facts = list(res.get('facts') or [])
  if s.deadlock or 'sched_error' in box:
    facts.append('X:deadlock-or-stuck')
  return {'toks': [], 'n': 0, 'per': {}, 'final': None, 'extras': sorted(set(facts)), 'steps': s.step, 'live': True}


def _snaprace_cases(limit):
  from openhtf.core import test_state
  from harness import sched_exec
  sched_exec.install(False)
  out = []
  res = {}
  for box, s, choices in sched.explore(_snaprace_body({}, res), preemption_bound=2, limit=limit, max_steps=20000,
                                       trace_lines=sched.codes_of(test_state.TestState.as_base_types)):
    out.append({'kind': 'snaprace', 'choices': choices})
  return out


def _run_live(case):
  """a snapshot-then-wait watcher on a RUNNING phase: after the phase's last assignment (and its notification) the
  watcher is given the time to wake up and take its snapshot; that snapshot must show the values the measurements now
  have - a watcher that was notified but handed a stale snapshot has missed the change. Source lines of the rendering
  functions are scheduling points."""
  import threading
  import openhtf as htf
  from harness import sched_exec
  from openhtf.core import test_state, measurements
  sched_exec.install(False)
  names = ['a', 'b', 'c'][:case.get('nmeas', 2)]
  facts = []
  box = {'snaps': 0}

  @htf.measures(*[htf.Measurement(n) for n in names])
  def phase(test):
    for op in case['ops']:
      setattr(test.measurements, names[op[0] % len(names)], op[1])
    # quiet from here on: wait until the watcher has taken a snapshot after the last notification
    n0 = box['snaps']
    box['quiet'].set()
    box['caught_up'].wait(0.5)      # (virtual seconds; the executor polls every 4 ms meanwhile)
    want = {n: test.measurements._measurements[n].measured_value.value for n in names
            if test.measurements._measurements[n].measured_value.is_value_set}
    last = box.get('last') or {}
    rps = (last.get('running_phase_state') or {}).get('measurements') or {}
    for n, v in want.items():
      if (rps.get(n) or {}).get('measured_value', '<missing>') != v:
        facts.append('X:watcher-snapshot-misses-the-current-value-of:' + n)
  test = htf.Test(phase)
  test.configure(name='c18live')

  def watcher():
    s = sched.SCHED
    s.block(lambda: getattr(getattr(test, '_executor', None), 'test_state', None) is not None or box.get('over'), None,
            'wait-for-state')
    ts = getattr(getattr(test, '_executor', None), 'test_state', None)
    if ts is None:
      return
    after_quiet = 0
    while True:
      was_quiet = box['quiet'].flag
      state, ev = ts.asdict_with_event()
      box['last'] = state
      box['snaps'] += 1
      if was_quiet:
        after_quiet += 1
        box['caught_up'].set()
      if state.get('status') == 'COMPLETED':
        return
      ev.wait()

  def body(s):
    box['quiet'] = sched.CoEvent()
    box['caught_up'] = sched.CoEvent()
    w = threading.Thread(target=watcher, name='watcher')
    w._cosched_name = 'watcher'
    w.start()
    try:
      test.execute()
    finally:
      box['over'] = True
      box['caught_up'].set()
    w.join()
    return True
  codes = sched.codes_of(test_state.PhaseState.as_base_types, measurements.Measurement.as_base_types,
                         test_state.PhaseState._notify)
  rng = common.Rng('c18l/%s' % case['rseed'])
  choose = sched.pct_chooser(rng, case.get('pct', 3), case.get('horizon', 400)) if case.get('pct') else \
      sched.random_chooser(rng, case.get('switch', 0.3))
  rbox, s = sched.run(choose, body, max_steps=300000, trace_lines=codes)
  if s.deadlock or 'sched_error' in rbox:
    facts.append('X:deadlock-or-stuck')
  return {'toks': [], 'n': 0, 'per': {}, 'final': None, 'extras': facts, 'steps': s.step, 'live': True}


def run_real(case):
  k = case['kind']
  if k == 'live':
    return _run_live(case)
  if k == 'plugto':
    return _run_plug_timeout(case)
  if k == 'plugwait':
    return _run_plug_wait(case)
  if k == 'snaprace':
    return _run_snaprace(case)
  if k == 'bare':
    return _run_bare(case)
  if k == 'test':
    return _run_test(case)
  if k == 'plug':
    return _run_plug(case)
  return _run_notify(case)


def encode(case, o):
  if case['kind'] == 'notify':
    return 'C18 N ' + ' '.join('%s:%d' % (k, 1 if v else 0) for k, v in sorted(o['obs'].items())) + ' F:%d' % (
        1 if o['final_ok'] else 0)
  n = o['n']
  pairs = []
  for i in range(n):
    v, f = o['per'].get(str(i), (None, False))
    pairs += ['-' if v is None else str(v), '1' if f else '0']
  return 'C18 M %s # %d %s %s %s' % (' '.join(o['toks']), n, ' '.join(pairs),
                                     '-' if o['final'] is None else o['final'], ' '.join(o['extras']))


def classify(case, o):
  if case['kind'] == 'bare':
    return 'bare/%dw%du/%s/%s' % (case['nW'], case['nU'], case['wmode'], 'dfs' if case.get('choices') is not None else 'rnd')
  return case['kind']


def nontrivial_key(case, o):
  if case['kind'] == 'notify':
    return None if not o['obs'] else json.dumps(case, sort_keys=True)
  if case['kind'] in ('live', 'plugto', 'plugwait', 'snaprace'):
    return json.dumps(case, sort_keys=True)
  return ' '.join(o['toks']) + '|' + case['kind'] + str(case.get('wmode')) if (o['toks'] or case['kind'] == 'plug') else None


def _dfs_cases(cfg, bound, limit):
  """enumerates the schedules of a bare configuration on the real code (choice lists)"""
  sched.install_subscribe()
  out = []
  res = {}
  for box, s, choices in sched.explore(_bare_body(cfg, res), preemption_bound=bound, limit=limit, max_steps=8000,
                                       trace_lines=_bare_lines(cfg)):
    out.append(dict(cfg, choices=choices))
  return out


def gen_cases(rng, tier):
  cases = []
  quick = tier == 'quick'
  base = {'kind': 'bare', 'iters': 1, 'muts': 1}
  # all interleavings of one watcher and one updater
  cases += _dfs_cases(dict(base, nW=1, nU=1, wmode='once'), None, 3000)
  cases += _dfs_cases(dict(base, nW=1, nU=1, wmode='loop'), None if not quick else 3, 1500 if quick else 6000)
  cases += _dfs_cases(dict(base, nW=2, nU=1, wmode='once'), 2, 800 if quick else 6000)
  cases += _dfs_cases(dict(base, nW=1, nU=2, wmode='once'), 2, 800 if quick else 6000)
  cases += _dfs_cases(dict(base, nW=1, nU=1, wmode='once', iters=2, muts=2), 2, 600 if quick else 6000)
  cases += _dfs_cases(dict(base, nW=2, nU=1, wmode='once', lines=True), 2, 1200 if quick else 10000)
  if not quick:
    cases += _dfs_cases(dict(base, nW=2, nU=2, wmode='loop'), 2, 8000)
    cases += _dfs_cases(dict(base, nW=3, nU=1, wmode='once'), 3, 8000)
  for i in range(300 if quick else 4000):
    r = rng.derive(i)
    cases.append({'kind': 'bare', 'nW': r.choice([1, 2, 3]), 'nU': r.choice([1, 2]), 'iters': r.choice([1, 2]),
                  'muts': r.choice([1, 2, 3]), 'wmode': r.choice(['once', 'loop']), 'rseed': r.getrandbits(32),
                  'switch': r.choice([0.2, 0.5, 0.8]), 'lines': i % 3 == 0})
  # whole runs
  P = lambda i, raw='cont', **kw: dict({'t': 'P', 'id': i, 'opts': {}, 'beh': [{'raw': raw}]}, **kw)
  tests = [
      {'nodes': [P(1), P(2)]},
      {'nodes': [P(1, beh=[{'raw': 'cont', 'meas': ['pass', 'ppass']}]), P(2, 'failcont')]},
      {'nodes': [P(1), {'t': 'G', 's': [], 'm': [P(2, 'exc')], 'td': [P(3)]}]},
      {'nodes': [P(1, 'timeout'), P(2)]},
      {'nodes': []},
      {'nodes': [P(1, 'stop')]},
  ]
  for i in range(60 if quick else 1200):
    r = rng.derive('t%d' % i)
    if i < len(tests) * 3:
      t = tests[i % len(tests)]
    else:
      g = ec.Gen(r, allow_timeout=True)
      t = g.case(depth=r.choice([1, 2]), width=r.choice([1, 2, 3]))
      t.pop('start', None)
    cases.append({'kind': 'test', 'test': t, 'nW': r.choice([1, 2]), 'rseed': r.getrandbits(32),
                  'switch': r.choice([0.1, 0.3, 0.6]), 'logging': i % 2 == 0, 'lines': i % 2 == 1})
  for i in range(80 if quick else 3000):
    r = rng.derive('l%d' % i)
    cases.append({'kind': 'live', 'nmeas': r.choice([2, 3]), 'ops': [[r.randrange(3), r.choice([1, 5, 7])] for _ in range(r.choice([2, 3, 4]))],
                  'rseed': r.getrandbits(32), 'pct': r.choice([0, 2, 3, 3]), 'horizon': r.choice([200, 500]),
                  'switch': r.choice([0.2, 0.5])})
  cases += _snaprace_cases(400 if quick else 4000)
  for i in range(12 if quick else 300):
    r = rng.derive('pt%d' % i)
    cases.append({'kind': 'plugto', 'prompts': r.choice([1, 2]), 'rseed': r.getrandbits(32)})
    cases.append({'kind': 'plugwait', 'ops': [r.choice(['noop', 'show', 'hide', 'noop']) for _ in range(r.choice([2, 3, 5]))],
                  'rseed': r.getrandbits(32)})
  for i in range(20 if quick else 400):
    r = rng.derive('p%d' % i)
    cases.append({'kind': 'plug', 'prompts': r.choice([1, 2, 3]), 'rseed': r.getrandbits(32),
                  'switch': r.choice([0.1, 0.3, 0.6])})
  for grp in (False, True):
    for fail in (False, True):
      for logon in (True, False):
        cases.append({'kind': 'notify', 'group': grp, 'fail': fail, 'logging': logon})
  return cases


def shrink(case):
  if case['kind'] == 'bare' and case.get('choices') is None:
    for k in ('nW', 'nU', 'iters', 'muts'):
      if case[k] > 1:
        yield dict(case, **{k: case[k] - 1})
  if case['kind'] == 'bare' and case.get('choices'):
    ch = list(case['choices'])
    while ch and ch[-1] == 0:
      ch.pop()
    if len(ch) < len(case['choices']):
      yield dict(case, choices=ch)


def known_match(entry, case, obs, msg):
  return entry['match'] in msg


MANIFEST = {
    'text': 'Proof: 8 Lean theorems over an interleaving model of asdict_with_event / notify_update with ANY number of '
            'watchers and updaters and EVERY schedule the lock admits: if the set-all step of a notification happens after '
            'a watcher took its snapshot, that watcher\'s event is set (no lost update); an event once set stays set; one '
            'notification wakes every watcher registered before it; a snapshot is only taken after registration; in every '
            'quiescent state (no updater between a change and the completion of its notification) every watcher whose '
            'snapshot is stale has its event set - so a snapshot-then-wait loop ends with the final state and no watcher '
            'stays blocked on a finished test; and for every history of TestState method calls ending with _finalize each '
            'state change is followed by a notification. Tie: the real mixin under a cooperative scheduler (all '
            'interleavings of 1x1, preemption-bounded and random beyond), whole Test.execute() runs with watcher threads, '
            'wait_for_plug_update on the real UserInput plug; the model must accept the observed lock/weak-set/event '
            'actions and predict every event flag and snapshot.',
    'note': 'Trusted: Lean kernel + standard axioms; harness/sched.py; the role-based trace abstraction; Lean driver. '
            'Modelled not verified: threading.Lock/Event and weakref.WeakSet themselves (replaced by cooperative, traced '
            'equivalents in scheduled runs); liveness in real time. The notification discipline of TestState is a table '
            '(Subscribe.method) tied to the code by the notification-coverage runs only.',
}
