"""C01 — no false PASS (shared executor harness)."""
import itertools

from harness import exec_common as ec
from harness.props import c02 as trees

PROP = 'C01'
PROOF_MODULE = 'OpenHTF.Proofs.C01'
THEOREMS = [
    'OpenHTF.Exec.c01_no_false_pass',
    'OpenHTF.Exec.c01_converse',
    'OpenHTF.Exec.c01_first_terminal_decides',
    'OpenHTF.Exec.c01_pass_record_certifies',
    'OpenHTF.Exec.c01_repeat_on_timeout_counterexample',
    'OpenHTF.Exec.c01_records_only_appended',
    'OpenHTF.Exec.c01_declared_phases_accounted_partial',
    'OpenHTF.Exec.c01_pass_means_declared_phases_ran',
    'OpenHTF.Exec.c01_declared_phases_accounted_runif',
    'OpenHTF.Exec.exec_term_last',
    'OpenHTF.Exec.runTest_ErrInv',
    'OpenHTF.Exec.runTest_LastTerm',
]
PENDING = ['Accounted, full strength (also phases below taken branches, inside subtests that did not fail, and phases whose run_if '
           'evaluated true): evaluated on every real observation by the Lean spec (declared-phase-unaccounted); the theorem '
           'c01_declared_phases_accounted_partial covers phases declared unconditionally at any depth of sequences and groups']
RULE = ('corpus (incl. the fixed defects #1 #2 #4 and the known finding #3); all trees of size<=2 (quick) / <=3 (thorough) x '
        'the 2x2 configuration (stop_on_first_failure, allow_unset_measurements) with option subsets on the first phase; '
        'random trees to 25 nodes with measurements, diagnosers, run_if, repeats, test_start and test diagnosers; '
        'non-trivial = distinct case; evidence reports how many runs were PASS')
ASSUMPTIONS = ['measurement outcomes are taken from the script of the generated bodies (C06 covers measurement evaluation)',
               'plug construction always succeeds here (C08 covers plug faults)']
TRUSTED = ['harness/exec_common.py', 'lean/OpenHTF/Driver/Exec.lean, Driver/C01.lean']
CONST_PREFIXES = ['c01.', 'c05.']
PROCS = 12


def run_real(case):
  out = ec.run_test_case(case)
  return {'tokens': ec.core_tokens(out['tokens']) + ['X:ret:%d' % (1 if out['ret'] else 0), 'X:crash:%d' % len(out['crashes'])] +
          ['X:crashtype:' + c for c in sorted(set(out['crashes']))]}


def encode(case, obs):
  return 'C01 %s # %s' % (ec.clean(ec.enc_test(case)), ' '.join(obs['tokens']))


def classify(case, obs):
  return '%s/%s' % (case.get('src', '?'), obs['tokens'][0])


def nontrivial_key(case, obs):
  return ec.clean(ec.enc_test(case))


def _p(pid, beh, opts=None, runif=None):
  n = {'t': 'P', 'id': pid, 'opts': dict(opts or {}), 'beh': beh}
  if runif is not None:
    n['runif'] = list(runif)
  return n


def corpus():
  C, E, T = {'raw': 'cont'}, {'raw': 'exc'}, {'raw': 'timeout'}
  out = [
      # known finding #3: repeat_on_timeout, timeout then success
      {'nodes': [_p(1, [T, C], {'rot': True})], 'src': 'corpus'},
      # fixed #1: run_if False first phase under stop_on_first_failure inside a group with teardown
      {'sof': True, 'nodes': [{'t': 'G', 's': [], 'm': [_p(1, [C], {}, [False])], 'td': [_p(2, [C])]}], 'src': 'corpus'},
      {'nodes': [_p(1, [C], {'rmf': True}, [False])], 'src': 'corpus'},
      # fixed #2: force_repeat with an exception in a non-final invocation
      {'nodes': [_p(1, [E, C], {'fr': True, 'limit': 2})], 'src': 'corpus'},
      {'nodes': [_p(1, [{'raw': 'stop'}, C], {'fr': True})], 'src': 'corpus'},
      # fixed #4: zero phase records + failing test diagnoser / failed subtest
      {'nodes': [_p(1, [C], {}, [False])], 'tdiags': [[[1, True]]], 'src': 'corpus'},
      {'nodes': [{'t': 'U', 'name': 5, 'ns': [{'t': 'C', 'id': 6, 'fs': True, 'kind': 'diag', 'on': 'notany', 'res': [0]}]}],
       'src': 'corpus'},
      {'nodes': [], 'src': 'corpus'},
      {'nodes': [], 'tdiags': ['raise'], 'src': 'corpus'},
      {'nodes': [_p(1, [{'raw': 'skip'}]), _p(2, [{'raw': 'skip'}])], 'src': 'corpus'},
      {'nodes': [_p(1, [{'raw': 'cont', 'meas': ['unset']}])], 'src': 'corpus'},
      {'allow': True, 'nodes': [_p(1, [{'raw': 'cont', 'meas': ['unset']}])], 'src': 'corpus'},
      {'nodes': [_p(1, [{'raw': 'fexc'}])], 'src': 'corpus'},
      {'start': _p(9, [{'raw': 'stop'}]), 'nodes': [_p(1, [C])], 'src': 'corpus'},
      {'start': _p(9, [C]), 'nodes': [_p(1, [C])], 'src': 'corpus'},
      # the executor thread itself fails (rendering a phase record whose exception cannot be str()'d): known finding
      {'nodes': [_p(1, [{'raw': 'exc', 'badstr': True}]), _p(2, [C])], 'src': 'corpus'},
  ]
  return out


def gen_cases(rng, tier):
  cases = corpus()
  memo = {}
  maxsize = 2 if tier == 'quick' else 3
  first_opts = [{}, {'fr': True, 'limit': 2}, {'rmf': True}, {'somf': True}, {'limit': 1}]
  k = 0
  for size in range(1, maxsize + 1):
    for ns in trees.lists_of_size(size, memo):
      for sof, allow in itertools.product([False, True], repeat=2):
        k += 1
        if tier == 'quick' and size == 2 and (k % 2):
          continue
        ids = trees.Ids()
        nodes = [trees._relabel(n, ids) for n in ns]
        # options on the first phase of the tree
        def first_phase(ns):
          for n in ns:
            if n['t'] == 'P':
              return n
            for key in ('ns', 's', 'm', 'td'):
              if key in n:
                p = first_phase(n[key])
                if p is not None:
                  return p
          return None
        fp = first_phase(nodes)
        if fp is not None:
          fp['opts'] = dict(first_opts[k % len(first_opts)])
          if k % 7 == 0:
            fp['runif'] = [False]
          if k % 11 == 0:
            fp['beh'][0]['meas'] = [['pass'], ['fail'], ['unset']][k % 3]
        cases.append({'nodes': nodes, 'sof': sof, 'allow': allow, 'src': 'exhaustive-size%d' % size})
  for i in range(1500 if tier == 'quick' else 20000):
    g = ec.Gen(rng.derive('g%d' % i), allow_timeout=(i % 40 == 0))
    c = g.case(depth=rng.choice([1, 2, 3, 4]), width=rng.choice([1, 2, 3, 4, 5]))
    c['src'] = 'random'
    cases.append(c)
  # bias towards passing runs: all-CONTINUE trees with a single perturbation
  for i in range(800 if tier == 'quick' else 8000):
    r = rng.derive('p%d' % i)
    g = ec.Gen(r, allow_timeout=False)
    c = g.case(depth=r.choice([1, 2, 3]), width=r.choice([2, 3, 4]))
    def calm(n, keep):
      if isinstance(n, dict):
        if n.get('t') == 'P':
          for inv in n['beh']:
            if id(inv) not in keep:
              inv['raw'] = 'cont'
              inv['meas'] = ['pass' if m in ('fail', 'unset') else ('ppass' if m in ('pfail', 'praise') else m) for m in inv.get('meas', [])]
              inv['diags'] = [[[e[0], False] for e in d] if d != 'raise' else [] for d in inv.get('diags', [])]
        for v in n.values():
          calm(v, keep)
      elif isinstance(n, list):
        for v in n:
          calm(v, keep)
    invs = []
    def collect(n):
      if isinstance(n, dict):
        if n.get('t') == 'P':
          invs.extend(n['beh'])
        for v in n.values():
          collect(v)
      elif isinstance(n, list):
        for v in n:
          collect(v)
    collect(c['nodes'])
    keep = set([id(r.choice(invs))]) if invs and r.random() < 0.7 else set()
    calm(c['nodes'], keep)
    c['tdiags'] = [] if r.random() < 0.7 else c.get('tdiags', [])
    c['src'] = 'near-pass'
    cases.append(c)
  return cases


shrink = trees.shrink


def known_match(entry, case, obs, msg):
  return msg.split(' ')[0] == entry['match']


def extra_coverage(cases, obs, res):
  outs = {}
  for o in obs:
    outs[o['tokens'][0]] = outs.get(o['tokens'][0], 0) + 1
  return {'outcomes': outs}


MANIFEST = {
    'text': 'Proof: Lean theorems for every tree, behaviour oracle and configuration: outcome PASS implies no FAIL record, '
            'no ERROR record (except a timeout retried by repeat_on_timeout - known finding, with a kernel-checked '
            'counterexample showing the exemption is needed), no failure diagnosis, no failed subtest, not all SKIP, no '
            'remembered terminal outcome; proved through two invariants of the whole traversal (every ERROR record is '
            'accompanied by a remembered terminal outcome; only terminal outcomes are remembered and the first is kept). '
            'Converse decision table and "a PASS record certifies CONTINUE + passing measurements + no failure diagnosis" '
            'are theorems too, as are "no traversal step removes or rewrites a record" and "a node outside subtests that '
            'returns CONTINUE left a record for every phase it declares unconditionally, at any depth of sequences and '
            'groups" (accounted, partial), lifted to the run: outcome PASS implies every such phase of the test has a record, '
            'none of them FAIL. Tie: real Test.execute() on exhaustive small trees x configurations, random and near-pass '
            'trees; NoFalsePass (incl. execute() return value, executor crash, every declared phase accounted for) is '
            'evaluated by the Lean spec on the real observation.',
    'note': 'Trusted: Lean kernel + standard axioms; harness/exec_common.py; Lean driver. Pending as a theorem (checked on '
            'every real run): accounted at full strength (phases below taken branches, in unfailed subtests; a run_if that was evaluated counts as accounted in c01_declared_phases_accounted_runif, the spec also asks that its last evaluation was false). Known finding: repeat_on_timeout leaves an ERROR record '
            'in a passing run. Model follows the tree after fix: commits 65d36842, 44bdff7b, 1e2b6e04.',
}
