"""Makes openhtf.plugs.usb.* importable without libusb1 / M2Crypto (DESIGN 3.4).

The package __init__ pulls in local_usb (libusb1) and cambrionix; it is bypassed by pre-registering an
empty package object with the real __path__, so that adb_message, adb_protocol, fastboot_protocol,
fastboot_device, shell_service and usb_exceptions import unmodified.
"""
import os
import sys
import types


def install(repo=None):
  repo = repo or os.environ.get('VERIF_REPO', '/repo')
  if 'openhtf.plugs.usb' in sys.modules and getattr(sys.modules['openhtf.plugs.usb'], '_verif_stub', False):
    return
  for name in ('libusb1', 'usb1'):
    if name not in sys.modules:
      m = types.ModuleType(name)
      m.LIBUSB_ERROR_TIMEOUT = -7
      m.USBError = type('USBError', (Exception,), {})
      sys.modules[name] = m
  import openhtf.plugs  # noqa
  pkg = types.ModuleType('openhtf.plugs.usb')
  pkg.__path__ = [os.path.join(repo, 'openhtf', 'plugs', 'usb')]
  pkg._verif_stub = True
  sys.modules['openhtf.plugs.usb'] = pkg
  import openhtf.plugs as plugs
  plugs.usb = pkg


def hexs(s):
  """hex of a str whose code points are 0..255 (the USB layer's payload type on Python 3), or bytes"""
  if isinstance(s, bytes):
    return s.hex()
  return ''.join('%02x' % ord(c) for c in s)


def unhexs(h):
  return ''.join(chr(int(h[i:i + 2], 16)) for i in range(0, len(h), 2))
