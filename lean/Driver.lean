import OpenHTF.Driver.C20
import OpenHTF.Driver.C16
import OpenHTF.Driver.C13
import OpenHTF.Driver.C07
import OpenHTF.Driver.Exec
import OpenHTF.Driver.C05
import OpenHTF.Driver.C02
import OpenHTF.Driver.C01
import OpenHTF.Driver.C08
import OpenHTF.Driver.C09
import OpenHTF.Driver.C06
import OpenHTF.Driver.C10
import OpenHTF.Driver.C17
import OpenHTF.Driver.C15
import OpenHTF.Driver.C18
import OpenHTF.Driver.C12
import OpenHTF.Driver.C04
import OpenHTF.Driver.C14
import OpenHTF.Driver.C19
import OpenHTF.Driver.C11
open OpenHTF.Driver

def stripNl (s : String) : String :=
  String.ofList (s.toList.filter (fun c => c != '\n' && c != '\r'))

def dispatch (line : String) : String :=
  match words line with
  | "C20" :: ts => C20.handle ts
  | "C16" :: ts => C16.handle ts
  | "C13" :: ts => C13.handle ts
  | "C07" :: ts => C07.handle ts
  | "EX" :: ts => ExecIO.handleEX ts
  | "C05" :: ts => C05.handle ts
  | "C02" :: ts => C02.handle ts
  | "C01" :: ts => C01.handle ts
  | "C08" :: ts => C08.handle ts
  | "C09" :: ts => C09.handle ts
  | "C06" :: ts => C06.handle ts
  | "C10" :: ts => C10.handle ts
  | "C17" :: ts => C17.handle ts
  | "C15" :: ts => C15.handle ts
  | "C18" :: ts => C18.handle ts
  | "C12" :: ts => C12.handle ts
  | "C04" :: ts => C04.handle ts
  | "C14" :: ts => C14.handle ts
  | "C19" :: ts => C19.handle ts
  | "C11" :: ts => C11.handle ts
  | "C03" :: ts => C02.handleC03 ts
  | _ => reply false false "unknown-property"

partial def loop (i o : IO.FS.Stream) (acc : Array String) (n : Nat) : IO Unit := do
  let line ← i.getLine
  if line.isEmpty then
    o.putStr (String.intercalate "" acc.toList)
    o.flush
  else
    let acc := acc.push (dispatch (stripNl line) ++ "\n")
    if n ≥ 2000 then
      o.putStr (String.intercalate "" acc.toList)
      loop i o #[] 0
    else loop i o acc (n + 1)

def main : IO Unit := do
  loop (← IO.getStdin) (← IO.getStdout) #[] 0
