import OpenHTF.Model.AdbMux
/-
C14 — ADB streams: conservation (in-order, exactly-once, no cross-talk), acknowledgements, chunking,
one WRTE in flight, no lost wake-up. Every theorem is for all action sequences the models accept:
any number of streams / threads, any device interleaving, any schedule.
-/
namespace OpenHTF.AdbMux

/-! ### data plane -/

def nWrte (s : Nat) (consumed : List Msg) : Nat := (consumed.filter (isWrteFor s)).length

def StrInv (s : S) (i : Nat) : Prop :=
  (s.strs i).delivered ++ (s.strs i).buffer ++ payloads (s.strs i).inHand ++ payloads (s.strs i).queue = written i s.consumed ∧
  (s.strs i).acks = nWrte i s.consumed ∧
  ∀ m ∈ (s.strs i).queue, m.sid = i

def Inv (s : S) : Prop := ∀ i, StrInv s i

theorem payloads_append (a b : List Msg) : payloads (a ++ b) = payloads a ++ payloads b := by
  simp [payloads, List.flatMap_append]

theorem written_snoc (i : Nat) (c : List Msg) (m : Msg) :
    written i (c ++ [m]) = written i c ++ (if m.sid = i then payload m else []) := by
  unfold written
  rw [List.filter_append, payloads_append]
  by_cases h : m.sid = i <;> simp [h, payloads]

theorem nWrte_snoc (i : Nat) (c : List Msg) (m : Msg) :
    nWrte i (c ++ [m]) = nWrte i c + (if m.cmd = .wrte ∧ m.sid = i then 1 else 0) := by
  unfold nWrte
  rw [List.filter_append, List.length_append]
  by_cases h1 : m.cmd = .wrte <;> by_cases h2 : m.sid = i <;> simp [isWrteFor, h1, h2]

theorem inv_init : Inv {} := by
  intro i; simp [StrInv, written, payloads, nWrte]

@[simp] theorem ack_buffer (st : Str) (m : Msg) : (ack st m).buffer = st.buffer := by unfold ack; split <;> rfl
@[simp] theorem ack_delivered (st : Str) (m : Msg) : (ack st m).delivered = st.delivered := by unfold ack; split <;> rfl
@[simp] theorem ack_queue (st : Str) (m : Msg) : (ack st m).queue = st.queue := by unfold ack; split <;> rfl
@[simp] theorem ack_inHand (st : Str) (m : Msg) : (ack st m).inHand = st.inHand := by unfold ack; split <;> rfl
theorem ack_acks (st : Str) (m : Msg) : (ack st m).acks = st.acks + (if m.cmd = .wrte then 1 else 0) := by
  unfold ack; split <;> simp

theorem inv_step (s s' : S) (a : Act) (h : Inv s) (hs : step s a = some s') : Inv s' := by
  intro i
  obtain ⟨h1, h2, h3⟩ := h i
  cases a with
  | readOwn r m =>
    simp only [step] at hs
    split at hs
    · rename_i hc
      cases hs
      obtain ⟨hsid, hq, hh⟩ := hc
      by_cases hir : i = r
      · subst hir
        refine ⟨?_, ?_, ?_⟩
        · simp only [upd, if_true, ack_buffer, ack_delivered, ack_queue, written_snoc, hsid, hq, payloads,
            List.flatMap_nil, List.append_nil, List.flatMap_cons]
          rw [hq, hh] at h1; simp only [payloads, List.flatMap_nil, List.append_nil] at h1
          rw [← h1]
        · simp only [upd, if_true, ack_acks, nWrte_snoc, hsid, and_true, h2]
        · simp only [upd, if_true, ack_queue, hq]; intro x hx; cases hx
      · have hne : ¬ m.sid = i := by rw [hsid]; exact fun e => hir e.symm
        refine ⟨?_, ?_, ?_⟩
        · simp only [upd, hir, if_false, written_snoc, hne, List.append_nil]; exact h1
        · simp only [upd, hir, if_false, nWrte_snoc, hne, and_false, if_false, Nat.add_zero]; exact h2
        · simp only [upd, hir, if_false]; exact h3
    · cases hs
  | readOther r d m =>
    simp only [step] at hs
    split at hs
    · rename_i hc
      cases hs
      obtain ⟨hsid, _⟩ := hc
      by_cases hid : i = d
      · subst hid
        refine ⟨?_, ?_, ?_⟩
        · simp only [upd, if_true, ack_buffer, ack_delivered, ack_queue, ack_inHand, written_snoc, hsid, payloads_append]
          rw [← h1]
          simp [payloads, List.append_assoc]
        · simp only [upd, if_true, ack_acks, nWrte_snoc, hsid, and_true, h2]
        · simp only [upd, if_true, ack_queue]
          intro x hx
          rcases List.mem_append.mp hx with hx | hx
          · exact h3 x hx
          · simp at hx; subst hx; exact hsid
      · have hne : ¬ m.sid = i := by rw [hsid]; exact fun e => hid e.symm
        refine ⟨?_, ?_, ?_⟩
        · simp only [upd, hid, if_false, written_snoc, hne, List.append_nil]; exact h1
        · simp only [upd, hid, if_false, nWrte_snoc, hne, and_false, if_false, Nat.add_zero]; exact h2
        · simp only [upd, hid, if_false]; exact h3
    · cases hs
  | dequeue r =>
    simp only [step] at hs
    split at hs
    · cases hs
    · rename_i m rest hq
      split at hs
      · rename_i hh
        cases hs
        by_cases hir : i = r
        · subst hir
          refine ⟨?_, ?_, ?_⟩
          · simp only [upd, if_true]
            rw [hq, hh] at h1
            simp only [payloads, List.flatMap_cons, List.flatMap_nil, List.append_nil] at h1 ⊢
            rw [← h1]; simp [List.append_assoc]
          · simp only [upd, if_true]; exact h2
          · simp only [upd, if_true]; intro x hx; exact h3 x (by rw [hq]; exact List.mem_cons_of_mem _ hx)
        · refine ⟨?_, ?_, ?_⟩ <;> simp only [upd, hir, if_false] <;> assumption
      · cases hs
  | handleMsg r =>
    simp only [step] at hs
    split at hs
    · rename_i m hh
      cases hs
      by_cases hir : i = r
      · subst hir
        refine ⟨?_, ?_, ?_⟩
        · simp only [upd, if_true, handle]
          rw [hh] at h1
          simp only [payloads, List.flatMap_cons, List.flatMap_nil, List.append_nil] at h1 ⊢
          rw [← h1]; simp [List.append_assoc]
        · simp only [upd, if_true, handle]; exact h2
        · simp only [upd, if_true, handle]; exact h3
      · refine ⟨?_, ?_, ?_⟩ <;> simp only [upd, hir, if_false] <;> assumption
    · cases hs
  | appRead r n =>
    simp only [step] at hs
    split at hs
    · cases hs
    · cases hs
      by_cases hir : i = r
      · subst hir
        refine ⟨?_, ?_, ?_⟩
        · simp only [upd, if_true]
          rw [← h1]; simp [List.append_assoc]
        · simp only [upd, if_true]; exact h2
        · simp only [upd, if_true]; exact h3
      · refine ⟨?_, ?_, ?_⟩ <;> simp only [upd, hir, if_false] <;> assumption

theorem inv_run : ∀ (as : List Act) (s s' : S), Inv s → run s as = some s' → Inv s'
  | [], s, s', h, hr => by simp [run] at hr; subst hr; exact h
  | a :: as, s, s', h, hr => by
    simp only [run] at hr
    cases hst : step s a with
    | none => simp [hst] at hr
    | some s1 => simp [hst] at hr; exact inv_run as s1 s' (inv_step s s1 a h hst) hr

/-- C14 conservation: for every stream, what the application got, what is buffered and what is queued is
    exactly what the device wrote to that stream, in order. -/
theorem c14_conservation (as : List Act) (s : S) (hr : run {} as = some s) (i : Nat) :
    (s.strs i).delivered ++ (s.strs i).buffer ++ payloads (s.strs i).inHand ++ payloads (s.strs i).queue =
      written i s.consumed :=
  (inv_run as {} s inv_init hr i).1

/-- in order, exactly once, no bytes of another stream: the delivered bytes are a prefix of the bytes the
    device wrote to THAT stream -/
theorem c14_in_order_exactly_once_no_cross_talk (as : List Act) (s : S) (hr : run {} as = some s) (i : Nat) :
    (s.strs i).delivered <+: written i s.consumed := by
  rw [← c14_conservation as s hr i, List.append_assoc, List.append_assoc]
  exact List.prefix_append _ _

/-- every WRTE the device sent to a stream was acknowledged by exactly one OKAY for that stream -/
theorem c14_one_okay_per_wrte (as : List Act) (s : S) (hr : run {} as = some s) (i : Nat) :
    (s.strs i).acks = nWrte i s.consumed := (inv_run as {} s inv_init hr i).2.1

/-- when everything consumed has been read by the application, it got exactly what the device wrote -/
theorem c14_drained_stream_got_everything (as : List Act) (s : S) (hr : run {} as = some s) (i : Nat)
    (hb : (s.strs i).buffer = []) (hh : (s.strs i).inHand = []) (hq : (s.strs i).queue = []) :
    (s.strs i).delivered = written i s.consumed := by
  have := c14_conservation as s hr i
  simpa [hb, hh, hq, payloads] using this

/-! ### chunking -/

theorem chunks_concat (maxdata : Nat) (hm : 0 < maxdata) (data : List Nat) : (chunks maxdata data).flatten = data := by
  induction data using chunks.induct maxdata with
  | case1 data h =>
    rw [chunks]; simp only [h, dite_true, List.flatten_nil]
    rcases h with h | h
    · exact h.symm
    · omega
  | case2 data h ih =>
    rw [chunks]; simp only [h, dite_false, List.flatten_cons, ih, List.take_append_drop]

theorem chunks_le (maxdata : Nat) (data : List Nat) : ∀ c ∈ chunks maxdata data, c.length ≤ maxdata ∧ c ≠ [] := by
  induction data using chunks.induct maxdata with
  | case1 data h => rw [chunks]; simp [h]
  | case2 data h ih =>
    rw [chunks]; simp only [h, dite_false, List.mem_cons]
    intro c hc
    rcases hc with hc | hc
    · subst hc
      refine ⟨by simp [List.length_take]; omega, ?_⟩
      intro he
      have h1 : data ≠ [] := fun e => h (Or.inl e)
      have h2 : maxdata ≠ 0 := fun e => h (Or.inr e)
      cases data with
      | nil => exact h1 rfl
      | cons x xs =>
        cases maxdata with
        | zero => exact h2 rfl
        | succ n => simp at he
    · exact ih c hc

/-- C14: a host write is split into non-empty chunks no larger than maxdata whose concatenation is the data -/
theorem c14_chunks (maxdata : Nat) (hm : 0 < maxdata) (data : List Nat) :
    (chunks maxdata data).flatten = data ∧ ∀ c ∈ chunks maxdata data, c.length ≤ maxdata ∧ c ≠ [] :=
  ⟨chunks_concat maxdata hm data, chunks_le maxdata data⟩

/-! ### one WRTE in flight -/

def WrInv (s : WrS) : Prop :=
  (s.failed = false → s.unacked ≤ 1 ∧ (s.unacked = 1 → s.expecting = true) ∧
     (s.unacked = 1 → ∃ w, s.lockHeld = some w ∧ s.pcs w = 3)) ∧
  (∀ w, s.pcs w = 2 ∨ s.pcs w = 3 → s.lockHeld = some w) ∧
  (∀ w, s.lockHeld = some w → s.pcs w = 2 ∨ s.pcs w = 3) ∧
  (s.failed = false → ∀ w, s.pcs w = 2 → s.unacked = 0) ∧
  (s.failed = false → s.lockHeld = none → s.unacked = 0)

theorem wr_inv_init : WrInv {} := by simp [WrInv]

theorem wr_inv_step (s s' : WrS) (a : WrAct) (h : WrInv s) (hs : wrStep s a = some s') : WrInv s' := by
  obtain ⟨h1, h2, h3, h4, h5⟩ := h
  cases a with
  | check w =>
    simp only [wrStep] at hs
    split at hs
    · rename_i hc; cases hs
      refine ⟨?_, ?_, ?_, ?_, h5⟩
      · intro hf
        obtain ⟨a1, a2, a3⟩ := h1 hf
        refine ⟨a1, a2, fun hu => ?_⟩
        obtain ⟨x, hx1, hx2⟩ := a3 hu
        exact ⟨x, hx1, by simp only [updN]; split <;> grind⟩
      · intro x hx; simp only [updN] at hx; split at hx <;> grind
      · intro x hx; simp only [updN]; have := h3 x hx; split <;> grind
      · intro hf x hx; simp only [updN] at hx; split at hx <;> grind
    · cases hs
  | lock w =>
    simp only [wrStep] at hs
    split at hs
    · rename_i hc; cases hs
      obtain ⟨hpc, hl⟩ := hc
      have h0 : s.failed = false → s.unacked = 0 := fun hf => h5 hf hl
      refine ⟨?_, ?_, ?_, ?_, ?_⟩
      · intro hf; simp [h0 hf]
      · intro x hx; simp only [updN] at hx; split at hx
        · rename_i e; subst e; rfl
        · have := h2 x hx; rw [hl] at this; cases this
      · intro x hx; simp at hx; subst hx; simp [updN]
      · intro hf x _; exact h0 hf
      · intro _ hn; simp at hn
    · cases hs
  | send w =>
    simp only [wrStep] at hs
    split at hs
    · rename_i hc; cases hs
      have hl := h2 w (Or.inl hc)
      refine ⟨?_, ?_, ?_, ?_, ?_⟩
      · intro hf
        have h0 := h4 hf w hc
        refine ⟨by simp [h0], fun _ => by simp, fun _ => ⟨w, hl, by simp [updN]⟩⟩
      · intro x hx; simp only [updN] at hx; split at hx
        · rename_i e; subst e; exact hl
        · exact h2 x hx
      · intro x hx; simp only [updN]; split
        · right; rfl
        · exact h3 x hx
      · intro hf x hx; simp only [updN] at hx; split at hx
        · omega
        · rename_i hne; have := h2 x (Or.inl hx); rw [hl] at this; simp at this; exact absurd this.symm hne
      · intro _ hn; rw [hl] at hn; cases hn
    · cases hs
  | okay =>
    simp only [wrStep] at hs
    split at hs
    · rename_i hc; cases hs
      refine ⟨?_, h2, h3, ?_, ?_⟩
      · intro hf
        obtain ⟨a1, _, _⟩ := h1 hf
        have : s.unacked = 1 := by omega
        simp [this]
      · intro hf x hx; have := h4 hf x hx; omega
      · intro hf hn; have := h5 hf hn; omega
    · cases hs
  | done w =>
    simp only [wrStep] at hs
    split at hs
    · rename_i hc; cases hs
      obtain ⟨hpc, he⟩ := hc
      have hl := h2 w (Or.inr hpc)
      have hu : s.failed = false → s.unacked = 0 := by
        intro hf
        obtain ⟨a1, a2, _⟩ := h1 hf
        cases hun : s.unacked with
        | zero => rfl
        | succ n =>
          have h11 : s.unacked = 1 := by omega
          have := a2 h11
          rw [he] at this; cases this
      refine ⟨?_, ?_, ?_, ?_, ?_⟩
      · intro hf; simp [hu hf]
      · intro x hx; simp only [updN] at hx; split at hx
        · omega
        · rename_i hne; have := h2 x hx; rw [hl] at this; simp at this; exact absurd this.symm hne
      · intro x hx; cases hx
      · intro hf x _; exact hu hf
      · intro hf _; exact hu hf
    · cases hs
  | giveUp w =>
    simp only [wrStep] at hs
    split at hs
    · rename_i hc; cases hs
      obtain ⟨hpc, _⟩ := hc
      have hl := h2 w (Or.inr hpc)
      refine ⟨(by intro hf; simp at hf), ?_, ?_, (by intro hf; simp at hf), (by intro hf; simp at hf)⟩
      · intro x hx; simp only [updN] at hx; split at hx
        · omega
        · rename_i hne; have := h2 x hx; rw [hl] at this; simp at this; exact absurd this.symm hne
      · intro x hx; cases hx
    · cases hs

theorem wr_inv_run : ∀ (as : List WrAct) (s s' : WrS), WrInv s → wrRun s as = some s' → WrInv s'
  | [], s, s', h, hr => by simp [wrRun] at hr; subst hr; exact h
  | a :: as, s, s', h, hr => by
    simp only [wrRun] at hr
    cases hst : wrStep s a with
    | none => simp [hst] at hr
    | some s1 => simp [hst] at hr; exact wr_inv_run as s1 s' (wr_inv_step s s1 a h hst) hr

/-- C14: as long as no write has given up with its WRTE unacknowledged, a stream never has more than one
    unacknowledged WRTE outstanding, for any number of concurrent writers and any schedule -/
theorem c14_one_wrte_in_flight (as : List WrAct) (s : WrS) (hr : wrRun {} as = some s) (hf : s.failed = false) :
    s.unacked ≤ 1 := ((wr_inv_run as {} s wr_inv_init hr).1 hf).1

/-- C14: whoever handles the device's acknowledgement of a write (the writer itself or a concurrent reader of the
    stream) finds the stream expecting it: the flag is raised together with the WRTE going out -/
theorem c14_write_ack_is_expected (as : List WrAct) (s : WrS) (hr : wrRun {} as = some s) (hf : s.failed = false)
    (hu : 0 < s.unacked) : s.expecting = true := by
  obtain ⟨a1, a2, _⟩ := (wr_inv_run as {} s wr_inv_init hr).1 hf
  exact a2 (by omega)

/-- raising the flag only after the WRTE went out is not safe: the acknowledgement can be handled in between and is
    then 'unexpected' (the reader raises AdbProtocolError, the writer times out) -/
theorem late_expecting_flag_makes_the_ack_unexpected :
    ∃ s, wrLateRun {} [.send, .okay, .mark] = some s ∧ s.unexpectedOkay = true ∧ s.expecting = true ∧ s.unacked = 0 := by
  refine ⟨_, rfl, ?_⟩
  decide

/-! ### no lost wake-up -/

def WkInv (s : WkS) : Prop :=
  (∀ t, s.readerHeld = some t → s.pcs t = 2) ∧
  (∀ t, s.condHeld = some t ↔ (s.pcs t = 1 ∨ s.pcs t = 10 ∨ s.pcs t = 5 ∨ s.pcs t = 8)) ∧
  (∀ t, t ∈ s.pending → (s.pcs t = 4 ∨ s.pcs t = 5)) ∧
  (∀ t, t ∈ s.waiters → s.pcs t = 6) ∧
  ((s.waiters ≠ [] ∨ ∃ t, s.pcs t = 10) → s.readerHeld ≠ none ∨ s.pending ≠ [])

theorem wk_inv_init : WkInv {} := by simp [WkInv]

theorem wk_inv_step (s s' : WkS) (a : WkAct) (h : WkInv s) (hs : wkStep s a = some s') : WkInv s' := by
  obtain ⟨h1, h2, h3, h4, h5⟩ := h
  cases a <;> simp only [wkStep] at hs <;> split at hs <;> (try cases hs) <;>
    (refine ⟨?_, ?_, ?_, ?_, ?_⟩ <;> simp only [updN] <;> (try intro x) <;> (try intro hx))
  all_goals (try grind)

theorem wk_inv_run : ∀ (as : List WkAct) (s s' : WkS), WkInv s → wkRun s as = some s' → WkInv s'
  | [], s, s', h, hr => by simp [wkRun] at hr; subst hr; exact h
  | a :: as, s, s', h, hr => by
    simp only [wkRun] at hr
    cases hst : wkStep s a with
    | none => simp [hst] at hr
    | some s1 => simp [hst] at hr; exact wk_inv_run as s1 s' (wk_inv_step s s1 a h hst) hr

/-- C14, no lost wake-up: under every schedule, whenever some thread is blocked in `wait()` on the stream's
    condition, either a thread holds the reader lock (it will release it and notify) or a thread that released
    it still owes its notification. A waiter is never left with nobody to wake it. -/
theorem c14_no_lost_wakeup (as : List WkAct) (s : WkS) (hr : wkRun {} as = some s) (hw : s.waiters ≠ []) :
    s.readerHeld ≠ none ∨ s.pending ≠ [] := (wk_inv_run as {} s wk_inv_init hr).2.2.2.2 (Or.inl hw)

/-- ... and the thread that owes the notification can always move: its next step needs the condition's lock,
    whose holder (if any) always has an enabled step of its own that releases it -/
theorem c14_notifier_can_move (as : List WkAct) (s : WkS) (hr : wkRun {} as = some s) :
    (∀ t, t ∈ s.pending → s.condHeld = none → (wkStep s (.notifyAcq t)).isSome = true ∨ (wkStep s (.notify t)).isSome = true) ∧
    (∀ u, s.condHeld = some u →
       (wkStep s (.becomeReader u)).isSome = true ∨ (wkStep s (.tryFail u)).isSome = true ∨ (wkStep s (.wait u)).isSome = true ∨
       (wkStep s (.notify u)).isSome = true ∨ (wkStep s (.wakeRelease u)).isSome = true) ∧
    (∀ t, s.readerHeld = some t → (wkStep s (.readerDone t)).isSome = true) := by
  obtain ⟨h1, h2, h3, _, _⟩ := wk_inv_run as {} s wk_inv_init hr
  refine ⟨?_, ?_, ?_⟩
  · intro t ht hc
    rcases h3 t ht with hp | hp <;> simp [wkStep, hp, hc]
  · intro u hu
    rcases (h2 u).mp hu with hp | hp | hp | hp
    · cases hr' : s.readerHeld <;> simp [wkStep, hp, hr']
    · simp [wkStep, hp]
    · simp [wkStep, hp]
    · simp [wkStep, hp]
  · intro t ht
    simp [wkStep, h1 t ht]

/-- the protocol before the `fix:` commit (notify while still holding the reader lock) is NOT safe: after the
    notification the woken thread finds the reader lock still taken, waits again, and when the reader leaves
    nobody owes a notification any more. Shown on the model with the order of the two steps swapped. -/
def wkStepOld (s : WkS) : WkAct → Option WkS
  | .notify t =>   -- notify while holding the reader lock (pc 2), keeps the lock
    if s.pcs t = 2 ∧ s.condHeld = none then
      some { s with waiters := [], pcs := fun j => if j = t then 3 else if j ∈ s.waiters then 7 else s.pcs j }
    else none
  | .readerDone t => if s.pcs t = 3 then some { s with readerHeld := none, pcs := updN s.pcs t 0 } else none
  | a => wkStep s a

def wkRunOld (s : WkS) : List WkAct → Option WkS
  | [] => some s
  | a :: as => (wkStepOld s a).bind (wkRunOld · as)

theorem old_protocol_loses_a_wakeup :
    ∃ s, wkRunOld {} [.condAcq 0, .becomeReader 0, .condAcq 1, .tryFail 1, .wait 1, .notify 0, .reacquire 1, .wakeRelease 1,
                      .condAcq 1, .tryFail 1, .wait 1, .readerDone 0, .leave 0] = some s ∧
      s.waiters = [1] ∧ s.readerHeld = none ∧ s.pending = [] ∧ s.pcs 0 = 9 := by
  refine ⟨_, rfl, ?_, ?_, ?_, ?_⟩ <;> decide

end OpenHTF.AdbMux
