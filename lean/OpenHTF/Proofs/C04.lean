import OpenHTF.Model.Abort
/-
C04 / C03(abort) — theorems over the interleaving model of abort() against the executor thread:
for every sequence of actions the transition system accepts (every interleaving, any number of
successive abort calls, nested SIGINT handlers included).
-/
namespace OpenHTF.Abort

def pcOk (p : Nat) : Prop := p ≤ 10 ∨ (20 ≤ p ∧ p ≤ 27)

structure Inv (s : S) : Prop where
  pcs : (s.aPc ≤ 10 ∨ (20 ≤ s.aPc ∧ s.aPc ≤ 27)) ∧ (s.aSaved ≤ 10 ∨ (20 ≤ s.aSaved ∧ s.aSaved ≤ 27)) ∧ s.aSaved ≠ 7 ∧ s.aSaved ≠ 24 ∧ (s.aPc = 0 → s.aSaved = 0) ∧
        -- a call on the first-abort path interrupted no call that had already set the abort flag
        (2 ≤ s.aPc → s.aPc ≤ 10 → s.aSaved ≤ 2)
  td : (0 < s.eCount ↔ s.tdHolder = 1) ∧ s.tdHolder ≤ 2 ∧
       (s.tdHolder = 2 ↔ ((5 ≤ s.aPc ∧ s.aPc ≤ 10) ∨ (5 ≤ s.aSaved ∧ s.aSaved ≤ 10)))
  curl : s.curHolder ≤ 2 ∧ (s.curHolder = 2 ↔ (s.aPc = 7 ∨ s.aPc = 24))
  flags : ((3 ≤ s.aPc ∨ 3 ≤ s.aSaved ∨ 1 ≤ s.nRet) → s.abort = true) ∧
          ((21 ≤ s.aPc ∨ 21 ≤ s.aSaved ∨ s.forcedRet = true) → s.fullAbort = true) ∧
          (s.canDie = true → 1 ≤ s.nRet) ∧
          ((4 ≤ s.aPc ∧ s.aPc ≤ 10 ∨ 4 ≤ s.aSaved ∧ s.aSaved ≤ 10 ∨ 22 ≤ s.aPc ∨ 22 ≤ s.aSaved) → s.published = true) ∧
          -- a forced call exists only after some call has set the abort flag: that call returned or is suspended
          ((20 ≤ s.aPc ∨ 20 ≤ s.aSaved) → (1 ≤ s.nRet ∨ (3 ≤ s.aSaved ∧ 20 ≤ s.aPc))) ∧
          (s.abort = true → (3 ≤ s.aPc ∨ 3 ≤ s.aSaved ∨ 1 ≤ s.nRet)) ∧
          (s.forcedRet = true → 1 ≤ s.nRet) ∧
          (s.canDie = true → 3 ≤ s.aPc → s.forcedRet = true)
  prot : (s.checked = true → s.published = true ∧ s.eCount = 0 ∧ s.finalised = false) ∧
         (s.faChecked = true → 0 < s.eCount) ∧
         (0 < s.eCount → s.published = true) ∧
         (s.cur = true → s.armed2 = false) ∧
         (s.armed2 = true → s.published = true ∧ s.finalised = false) ∧
         (s.needReset = true → 0 < s.eCount) ∧
         (s.cur = true → s.needReset = false)
  -- while a first-path call is between A5 and its release, the stop flag is set
  stopHeld : ((6 ≤ s.aPc ∧ s.aPc ≤ 10) ∨ (6 ≤ s.aSaved ∧ s.aSaved ≤ 10)) → s.stopping = true
  -- after an abort call returned, a phase outside teardown cannot pass: flag set, or its abort check is stale
  afterRet : 1 ≤ s.nRet → s.eCount = 0 → s.stopping = true ∨ s.checked = false
  -- the executor's critical section
  crit : (s.curHolder = 1 → s.armed2 = false ∧ s.finalised = false ∧
            (s.eCount = 0 → s.checked = true) ∧ (0 < s.eCount → s.faChecked = true ∧ s.needReset = false) ∧
            (s.started = true → s.ans3 = some false ∧ s.cur = true) ∧ (s.started = false → s.cur = false)) ∧
         (s.curHolder ≠ 1 → s.ans3 = none ∧ s.started = false)
  critNoRet : s.curHolder = 1 → s.ans3 = some false → s.eCount = 0 →
              s.nRet = 0 ∧ (s.aPc ≤ 6 ∨ 20 ≤ s.aPc ∧ s.aPc ≤ 23) ∧ (s.aSaved ≤ 6 ∨ 20 ≤ s.aSaved ∧ s.aSaved ≤ 23)
  -- single abort never cancels teardown
  tdClean : s.tdHolder = 1 → s.needReset = false → s.fullAbort = false → s.stopping = false
  critTd : s.curHolder = 1 → 0 < s.eCount → s.ans3 = some true → s.fullAbort = true
  -- after a forced abort returned, a teardown phase cannot pass either
  afterForced : s.forcedRet = true → s.stopping = true ∨ s.faChecked = false
  forcedStop : s.faChecked = true → ((23 ≤ s.aPc ∧ s.aPc ≤ 27) ∨ (23 ≤ s.aSaved ∧ s.aSaved ≤ 27)) → s.stopping = true
  -- a forced abort's stop request can only be wiped by the reset of a teardown sequence that had checked the
  -- full-abort flag before it was set; that sequence must check again before it starts anything
  forcedWiped : ((23 ≤ s.aPc ∧ s.aPc ≤ 27) ∨ (23 ≤ s.aSaved ∧ s.aSaved ≤ 27)) → s.stopping = false →
                s.faChecked = false ∧ s.checked = false ∧ s.cur = false
  forcedKill : ((25 ≤ s.aPc ∧ s.aPc ≤ 27) ∨ (25 ≤ s.aSaved ∧ s.aSaved ≤ 27)) →
               s.stopping = true ∧ (s.needReset = true → s.faChecked = false)
  critForced : s.curHolder = 1 → 0 < s.eCount → s.ans3 = some false →
               s.forcedRet = false ∧ ¬(25 ≤ s.aPc ∧ s.aPc ≤ 27) ∧ ¬(25 ≤ s.aSaved ∧ s.aSaved ≤ 27)
  -- bodies never overlap (unless one was given up on)
  live : (s.alive = true → s.abandoned = false → s.killReq = false → s.cur = true) ∧
         (((8 ≤ s.aPc ∧ s.aPc ≤ 9) ∨ (8 ≤ s.aSaved ∧ s.aSaved ≤ 9) ∨ (25 ≤ s.aPc ∧ s.aPc ≤ 26) ∨ (25 ≤ s.aSaved ∧ s.aSaved ≤ 26)) →
            s.armed2 = false ∧ s.curHolder ≠ 1) ∧
         (s.killReq = true → s.alive = true → s.abandoned = false →
            (s.aPc = 9 ∨ s.aSaved = 9 ∨ s.aPc = 26 ∨ s.aSaved = 26 ∨ s.forcedRet = true))
  ghosts : s.lateStart = false ∧ s.lateTdStart = false ∧ s.startAfterFinal = false ∧ s.overlap = false ∧
           (s.fullAbort = false → s.tdRefused = false)
  final : (s.finalised = true → s.curHolder ≠ 1 ∧ s.checked = false ∧ s.armed2 = false ∧ s.eCount = 0) ∧
          (s.outcomeAborted = true → s.abort = true)

theorem inv_init : Inv {} := by
  constructor <;> simp [pcOk]

end OpenHTF.Abort

namespace OpenHTF.Abort

theorem step_eExec (s s' : S) (h : Inv s) (hs : step s .eExec = some s') : Inv s' := by
  obtain ⟨pcs, td, curl, flags, prot, stopHeld, afterRet, crit, critNoRet, tdClean, critTd, afterForced, forcedStop, forcedWiped, forcedKill, critForced, live, ghosts, final⟩ := h
  simp only [step, ret] at hs
  (repeat' split at hs) <;> (try cases hs) <;> constructor
  all_goals (try grind (splits := 40))
theorem step_eAbortCheck (s s' : S) (h : Inv s) (hs : step s .eAbortCheck = some s') : Inv s' := by
  obtain ⟨pcs, td, curl, flags, prot, stopHeld, afterRet, crit, critNoRet, tdClean, critTd, afterForced, forcedStop, forcedWiped, forcedKill, critForced, live, ghosts, final⟩ := h
  simp only [step, ret] at hs
  (repeat' split at hs) <;> (try cases hs) <;> constructor
  all_goals (try grind (splits := 40))
theorem step_eStopCheck2 (s s' : S) (h : Inv s) (hs : step s .eStopCheck2 = some s') : Inv s' := by
  obtain ⟨pcs, td, curl, flags, prot, stopHeld, afterRet, crit, critNoRet, tdClean, critTd, afterForced, forcedStop, forcedWiped, forcedKill, critForced, live, ghosts, final⟩ := h
  simp only [step, ret] at hs
  (repeat' split at hs) <;> (try cases hs) <;> constructor
  all_goals (try grind (splits := 40))
theorem step_eCurAcq (s s' : S) (h : Inv s) (hs : step s .eCurAcq = some s') : Inv s' := by
  obtain ⟨pcs, td, curl, flags, prot, stopHeld, afterRet, crit, critNoRet, tdClean, critTd, afterForced, forcedStop, forcedWiped, forcedKill, critForced, live, ghosts, final⟩ := h
  simp only [step, ret] at hs
  (repeat' split at hs) <;> (try cases hs) <;> constructor
  all_goals (try grind (splits := 40))
theorem step_eStopCheck3 (s s' : S) (h : Inv s) (hs : step s .eStopCheck3 = some s') : Inv s' := by
  obtain ⟨pcs, td, curl, flags, prot, stopHeld, afterRet, crit, critNoRet, tdClean, critTd, afterForced, forcedStop, forcedWiped, forcedKill, critForced, live, ghosts, final⟩ := h
  simp only [step, ret] at hs
  (repeat' split at hs) <;> (try cases hs) <;> constructor
  all_goals (try grind (splits := 40))
theorem step_eStart (s s' : S) (h : Inv s) (hs : step s .eStart = some s') : Inv s' := by
  obtain ⟨pcs, td, curl, flags, prot, stopHeld, afterRet, crit, critNoRet, tdClean, critTd, afterForced, forcedStop, forcedWiped, forcedKill, critForced, live, ghosts, final⟩ := h
  simp only [step, ret] at hs
  (repeat' split at hs) <;> (try cases hs) <;> constructor
  all_goals (try grind (splits := 40))
theorem step_eRefuse (s s' : S) (h : Inv s) (hs : step s .eRefuse = some s') : Inv s' := by
  obtain ⟨pcs, td, curl, flags, prot, stopHeld, afterRet, crit, critNoRet, tdClean, critTd, afterForced, forcedStop, forcedWiped, forcedKill, critForced, live, ghosts, final⟩ := h
  simp only [step, ret] at hs
  (repeat' split at hs) <;> (try cases hs) <;> constructor
  all_goals (try grind (splits := 40))
theorem step_eCurRel (s s' : S) (h : Inv s) (hs : step s .eCurRel = some s') : Inv s' := by
  obtain ⟨pcs, td, curl, flags, prot, stopHeld, afterRet, crit, critNoRet, tdClean, critTd, afterForced, forcedStop, forcedWiped, forcedKill, critForced, live, ghosts, final⟩ := h
  simp only [step, ret] at hs
  (repeat' split at hs) <;> (try cases hs) <;> constructor
  all_goals (try grind (splits := 40))
theorem step_eKillTimeout (s s' : S) (h : Inv s) (hs : step s .eKillTimeout = some s') : Inv s' := by
  obtain ⟨pcs, td, curl, flags, prot, stopHeld, afterRet, crit, critNoRet, tdClean, critTd, afterForced, forcedStop, forcedWiped, forcedKill, critForced, live, ghosts, final⟩ := h
  simp only [step, ret] at hs
  (repeat' split at hs) <;> (try cases hs) <;> constructor
  all_goals (try grind (splits := 40))
theorem step_eClear (s s' : S) (h : Inv s) (hs : step s .eClear = some s') : Inv s' := by
  obtain ⟨pcs, td, curl, flags, prot, stopHeld, afterRet, crit, critNoRet, tdClean, critTd, afterForced, forcedStop, forcedWiped, forcedKill, critForced, live, ghosts, final⟩ := h
  simp only [step, ret] at hs
  (repeat' split at hs) <;> (try cases hs) <;> constructor
  all_goals (try grind (splits := 40))
theorem step_eTdAcq (s s' : S) (h : Inv s) (hs : step s .eTdAcq = some s') : Inv s' := by
  obtain ⟨pcs, td, curl, flags, prot, stopHeld, afterRet, crit, critNoRet, tdClean, critTd, afterForced, forcedStop, forcedWiped, forcedKill, critForced, live, ghosts, final⟩ := h
  simp only [step, ret] at hs
  (repeat' split at hs) <;> (try cases hs) <;> constructor
  all_goals (try grind (splits := 40))
theorem step_eFaCheck (s s' : S) (h : Inv s) (hs : step s .eFaCheck = some s') : Inv s' := by
  obtain ⟨pcs, td, curl, flags, prot, stopHeld, afterRet, crit, critNoRet, tdClean, critTd, afterForced, forcedStop, forcedWiped, forcedKill, critForced, live, ghosts, final⟩ := h
  simp only [step, ret] at hs
  (repeat' split at hs) <;> (try cases hs) <;> constructor
  all_goals (try grind (splits := 40))
theorem step_eReset (s s' : S) (h : Inv s) (hs : step s .eReset = some s') : Inv s' := by
  obtain ⟨pcs, td, curl, flags, prot, stopHeld, afterRet, crit, critNoRet, tdClean, critTd, afterForced, forcedStop, forcedWiped, forcedKill, critForced, live, ghosts, final⟩ := h
  simp only [step, ret] at hs
  (repeat' split at hs) <;> (try cases hs) <;> constructor
  all_goals (try grind (splits := 40))
theorem step_eTdRel (s s' : S) (h : Inv s) (hs : step s .eTdRel = some s') : Inv s' := by
  obtain ⟨pcs, td, curl, flags, prot, stopHeld, afterRet, crit, critNoRet, tdClean, critTd, afterForced, forcedStop, forcedWiped, forcedKill, critForced, live, ghosts, final⟩ := h
  simp only [step, ret] at hs
  (repeat' split at hs) <;> (try cases hs) <;> constructor
  all_goals (try grind (splits := 40))
theorem step_eFinal (s s' : S) (h : Inv s) (hs : step s .eFinal = some s') : Inv s' := by
  obtain ⟨pcs, td, curl, flags, prot, stopHeld, afterRet, crit, critNoRet, tdClean, critTd, afterForced, forcedStop, forcedWiped, forcedKill, critForced, live, ghosts, final⟩ := h
  simp only [step, ret] at hs
  (repeat' split at hs) <;> (try cases hs) <;> constructor
  all_goals (try grind (splits := 40))
theorem step_pDie (s s' : S) (h : Inv s) (hs : step s .pDie = some s') : Inv s' := by
  obtain ⟨pcs, td, curl, flags, prot, stopHeld, afterRet, crit, critNoRet, tdClean, critTd, afterForced, forcedStop, forcedWiped, forcedKill, critForced, live, ghosts, final⟩ := h
  simp only [step, ret] at hs
  (repeat' split at hs) <;> (try cases hs) <;> constructor
  all_goals (try grind (splits := 40))
theorem step_aBegin (s s' : S) (h : Inv s) (hs : step s .aBegin = some s') : Inv s' := by
  obtain ⟨pcs, td, curl, flags, prot, stopHeld, afterRet, crit, critNoRet, tdClean, critTd, afterForced, forcedStop, forcedWiped, forcedKill, critForced, live, ghosts, final⟩ := h
  simp only [step, ret] at hs
  (repeat' split at hs) <;> (try cases hs) <;> constructor
  all_goals (try grind (splits := 40))
theorem step_aReadAbort (s s' : S) (h : Inv s) (hs : step s .aReadAbort = some s') : Inv s' := by
  obtain ⟨pcs, td, curl, flags, prot, stopHeld, afterRet, crit, critNoRet, tdClean, critTd, afterForced, forcedStop, forcedWiped, forcedKill, critForced, live, ghosts, final⟩ := h
  simp only [step, ret] at hs
  (repeat' split at hs) <;> (try cases hs) <;> constructor
  all_goals (try grind (splits := 40))
theorem step_aSetAbort (s s' : S) (h : Inv s) (hs : step s .aSetAbort = some s') : Inv s' := by
  obtain ⟨pcs, td, curl, flags, prot, stopHeld, afterRet, crit, critNoRet, tdClean, critTd, afterForced, forcedStop, forcedWiped, forcedKill, critForced, live, ghosts, final⟩ := h
  simp only [step, ret] at hs
  (repeat' split at hs) <;> (try cases hs) <;> constructor
  all_goals (try grind (splits := 40))
theorem step_aSetFull (s s' : S) (h : Inv s) (hs : step s .aSetFull = some s') : Inv s' := by
  obtain ⟨pcs, td, curl, flags, prot, stopHeld, afterRet, crit, critNoRet, tdClean, critTd, afterForced, forcedStop, forcedWiped, forcedKill, critForced, live, ghosts, final⟩ := h
  simp only [step, ret] at hs
  (repeat' split at hs) <;> (try cases hs) <;> constructor
  all_goals (try grind (splits := 40))
theorem step_aReadExec (s s' : S) (h : Inv s) (hs : step s .aReadExec = some s') : Inv s' := by
  obtain ⟨pcs, td, curl, flags, prot, stopHeld, afterRet, crit, critNoRet, tdClean, critTd, afterForced, forcedStop, forcedWiped, forcedKill, critForced, live, ghosts, final⟩ := h
  simp only [step, ret] at hs
  (repeat' split at hs) <;> (try cases hs) <;> constructor
  all_goals (try grind (splits := 40))
theorem step_aTryTd (s s' : S) (h : Inv s) (hs : step s .aTryTd = some s') : Inv s' := by
  obtain ⟨pcs, td, curl, flags, prot, stopHeld, afterRet, crit, critNoRet, tdClean, critTd, afterForced, forcedStop, forcedWiped, forcedKill, critForced, live, ghosts, final⟩ := h
  simp only [step, ret] at hs
  (repeat' split at hs) <;> (try cases hs) <;> constructor
  all_goals (try grind (splits := 40))
theorem step_aSetStop (s s' : S) (h : Inv s) (hs : step s .aSetStop = some s') : Inv s' := by
  obtain ⟨pcs, td, curl, flags, prot, stopHeld, afterRet, crit, critNoRet, tdClean, critTd, afterForced, forcedStop, forcedWiped, forcedKill, critForced, live, ghosts, final⟩ := h
  simp only [step, ret] at hs
  (repeat' split at hs) <;> (try cases hs) <;> constructor
  all_goals (try grind (splits := 40))
theorem step_aCurAcq (s s' : S) (h : Inv s) (hs : step s .aCurAcq = some s') : Inv s' := by
  obtain ⟨pcs, td, curl, flags, prot, stopHeld, afterRet, crit, critNoRet, tdClean, critTd, afterForced, forcedStop, forcedWiped, forcedKill, critForced, live, ghosts, final⟩ := h
  simp only [step, ret] at hs
  (repeat' split at hs) <;> (try cases hs) <;> constructor
  all_goals (try grind (splits := 40))
theorem step_aCurRel (s s' : S) (h : Inv s) (hs : step s .aCurRel = some s') : Inv s' := by
  obtain ⟨pcs, td, curl, flags, prot, stopHeld, afterRet, crit, critNoRet, tdClean, critTd, afterForced, forcedStop, forcedWiped, forcedKill, critForced, live, ghosts, final⟩ := h
  simp only [step, ret] at hs
  (repeat' split at hs) <;> (try cases hs) <;> constructor
  all_goals (try grind (splits := 40))
theorem step_aKill (s s' : S) (h : Inv s) (hs : step s .aKill = some s') : Inv s' := by
  obtain ⟨pcs, td, curl, flags, prot, stopHeld, afterRet, crit, critNoRet, tdClean, critTd, afterForced, forcedStop, forcedWiped, forcedKill, critForced, live, ghosts, final⟩ := h
  simp only [step, ret] at hs
  (repeat' split at hs) <;> (try cases hs) <;> constructor
  all_goals (try grind (splits := 40))
theorem step_aWait (s s' : S) (h : Inv s) (hs : step s .aWait = some s') : Inv s' := by
  obtain ⟨pcs, td, curl, flags, prot, stopHeld, afterRet, crit, critNoRet, tdClean, critTd, afterForced, forcedStop, forcedWiped, forcedKill, critForced, live, ghosts, final⟩ := h
  simp only [step, ret] at hs
  (repeat' split at hs) <;> (try cases hs) <;> constructor
  all_goals (try grind (splits := 40))
theorem step_aGiveUp (s s' : S) (h : Inv s) (hs : step s .aGiveUp = some s') : Inv s' := by
  obtain ⟨pcs, td, curl, flags, prot, stopHeld, afterRet, crit, critNoRet, tdClean, critTd, afterForced, forcedStop, forcedWiped, forcedKill, critForced, live, ghosts, final⟩ := h
  simp only [step, ret] at hs
  (repeat' split at hs) <;> (try cases hs) <;> constructor
  all_goals (try grind (splits := 40))
theorem step_aEnd (s s' : S) (h : Inv s) (hs : step s .aEnd = some s') : Inv s' := by
  obtain ⟨pcs, td, curl, flags, prot, stopHeld, afterRet, crit, critNoRet, tdClean, critTd, afterForced, forcedStop, forcedWiped, forcedKill, critForced, live, ghosts, final⟩ := h
  simp only [step, ret] at hs
  (repeat' split at hs) <;> (try cases hs) <;> constructor
  all_goals (try grind (splits := 40))
theorem step_aNest (s s' : S) (h : Inv s) (hs : step s .aNest = some s') : Inv s' := by
  obtain ⟨pcs, td, curl, flags, prot, stopHeld, afterRet, crit, critNoRet, tdClean, critTd, afterForced, forcedStop, forcedWiped, forcedKill, critForced, live, ghosts, final⟩ := h
  simp only [step, ret] at hs
  (repeat' split at hs) <;> (try cases hs) <;> constructor
  all_goals (try grind (splits := 40))
theorem step_aKilled (s s' : S) (h : Inv s) (hs : step s .aKilled = some s') : Inv s' := by
  obtain ⟨pcs, td, curl, flags, prot, stopHeld, afterRet, crit, critNoRet, tdClean, critTd, afterForced, forcedStop, forcedWiped, forcedKill, critForced, live, ghosts, final⟩ := h
  simp only [step, ret] at hs
  (repeat' split at hs) <;> (try cases hs) <;> constructor
  all_goals (try grind (splits := 40))

theorem inv_step (s s' : S) (a : Act) (h : Inv s) (hs : step s a = some s') : Inv s' := by
  cases a
  · exact step_eExec s s' h hs
  · exact step_eAbortCheck s s' h hs
  · exact step_eStopCheck2 s s' h hs
  · exact step_eCurAcq s s' h hs
  · exact step_eStopCheck3 s s' h hs
  · exact step_eStart s s' h hs
  · exact step_eRefuse s s' h hs
  · exact step_eCurRel s s' h hs
  · exact step_eKillTimeout s s' h hs
  · exact step_eClear s s' h hs
  · exact step_eTdAcq s s' h hs
  · exact step_eFaCheck s s' h hs
  · exact step_eReset s s' h hs
  · exact step_eTdRel s s' h hs
  · exact step_eFinal s s' h hs
  · exact step_pDie s s' h hs
  · exact step_aBegin s s' h hs
  · exact step_aReadAbort s s' h hs
  · exact step_aSetAbort s s' h hs
  · exact step_aSetFull s s' h hs
  · exact step_aReadExec s s' h hs
  · exact step_aTryTd s s' h hs
  · exact step_aSetStop s s' h hs
  · exact step_aCurAcq s s' h hs
  · exact step_aCurRel s s' h hs
  · exact step_aKill s s' h hs
  · exact step_aWait s s' h hs
  · exact step_aGiveUp s s' h hs
  · exact step_aEnd s s' h hs
  · exact step_aNest s s' h hs
  · exact step_aKilled s s' h hs

theorem inv_run : ∀ (as : List Act) (s s' : S), Inv s → run s as = some s' → Inv s'
  | [], s, s', h, hr => by simp [run] at hr; subst hr; exact h
  | a :: as, s, s', h, hr => by
    simp only [run] at hr
    cases hst : step s a with
    | none => simp [hst] at hr
    | some s1 => simp [hst] at hr; exact inv_run as s1 s' (inv_step s s1 a h hst) hr

theorem reachable_inv (as : List Act) (s : S) (hr : run {} as = some s) : Inv s := inv_run as {} s inv_init hr

/-- C04: under every interleaving, once an abort call has returned no phase outside a teardown
    sequence (test_start, setup, main) is started. -/
theorem c04_no_start_after_abort_returned (as : List Act) (s : S) (hr : run {} as = some s) :
    s.lateStart = false := (reachable_inv as s hr).ghosts.1

/-- C03 (abort clause): as long as no second (forced) abort was requested, no teardown phase start is
    ever refused: a single abort at any moment never cancels a teardown phase. -/
theorem c03_single_abort_never_cancels_teardown (as : List Act) (s : S) (hr : run {} as = some s)
    (hsingle : s.fullAbort = false) : s.tdRefused = false := (reachable_inv as s hr).ghosts.2.2.2.2 hsingle

/-- and while the executor is inside a teardown sequence that has done its reset, the stop flag is clear -/
theorem c03_teardown_runs_with_clear_stop_flag (as : List Act) (s : S) (hr : run {} as = some s)
    (hin : s.tdHolder = 1) (hreset : s.needReset = false) (hsingle : s.fullAbort = false) : s.stopping = false :=
  (reachable_inv as s hr).tdClean hin hreset hsingle

/-- C04: once a second (forced) abort call has returned, no teardown phase is started either. -/
theorem c04_no_teardown_start_after_second_abort_returned (as : List Act) (s : S) (hr : run {} as = some s) :
    s.lateTdStart = false := (reachable_inv as s hr).ghosts.2.1

/-- C04: never two phase bodies at once (a body that was given up on - timeout, cancel timeout - excepted). -/
theorem c04_no_two_bodies_at_once (as : List Act) (s : S) (hr : run {} as = some s) :
    s.overlap = false := (reachable_inv as s hr).ghosts.2.2.2.1

/-- C04: nothing starts after the record was finalized. -/
theorem c04_nothing_starts_after_finalization (as : List Act) (s : S) (hr : run {} as = some s) :
    s.startAfterFinal = false := (reachable_inv as s hr).ghosts.2.2.1

theorem abort_monotone (s s' : S) (a : Act) (hs : step s a = some s') (h : s.abort = true) : s'.abort = true := by
  cases a <;> simp only [step, ret] at hs <;> (repeat' split at hs) <;> (try cases hs) <;> simp_all

theorem final_sticky (s s' : S) (a : Act) (hs : step s a = some s') (hf : s.finalised = true) :
    s'.finalised = true ∧ s'.outcomeAborted = s.outcomeAborted := by
  cases a <;> simp only [step, ret] at hs <;> (repeat' split at hs) <;> (try cases hs) <;> simp_all

theorem final_sticky_run : ∀ (as : List Act) (s s' : S), run s as = some s' → s.finalised = true →
    s'.finalised = true ∧ s'.outcomeAborted = s.outcomeAborted
  | [], s, s', hr, hf => by simp [run] at hr; subst hr; exact ⟨hf, rfl⟩
  | a :: as, s, s', hr, hf => by
    simp only [run] at hr
    cases hst : step s a with
    | none => simp [hst] at hr
    | some s1 =>
      simp [hst] at hr
      have h1 := final_sticky s s1 a hst hf
      have h2 := final_sticky_run as s1 s' hr h1.1
      exact ⟨h2.1, h2.2.trans h1.2⟩

/-- C04: ABORTED wins: if the abort flag was set when the executor takes its finalisation decision, the
    outcome is ABORTED, whatever happens before and after. -/
theorem c04_aborted_wins (as bs : List Act) (s1 s2 s3 : S) (_h1 : run {} as = some s1) (hab : s1.abort = true)
    (hfin : step s1 .eFinal = some s2) (h3 : run s2 bs = some s3) : s3.outcomeAborted = true := by
  have h2 : s2.finalised = true ∧ s2.outcomeAborted = true := by
    simp only [step] at hfin
    split at hfin
    · cases hfin; simp [hab]
    · cases hfin
  have := final_sticky_run bs s2 s3 h3 h2.1
  rw [this.2]; exact h2.2

/-- the answer the executor acts on is the stop flag read under the lock that publishes the phase thread -/
theorem c04_start_needs_clear_stop_flag (s s' : S) (hs : step s .eStart = some s') :
    s.ans3 = some false ∧ s.curHolder = 1 := by
  simp only [step] at hs
  split at hs
  · rename_i h; simp at h; exact ⟨h.1.2, h.1.1⟩
  · cases hs

def abortActs : List Act :=
  [.aReadAbort, .aSetAbort, .aSetFull, .aReadExec, .aTryTd, .aSetStop, .aCurAcq, .aCurRel, .aKill, .aGiveUp, .aEnd]

/-- C04 (no deadlock, model form): an abort call in progress always has an enabled next step, unless the
    executor is inside its short `_current_phase_thread_lock` section - and that section can always proceed.
    In particular the holder of the teardown lock can always move towards releasing it, so the executor's
    blocking acquire is never blocked forever. -/
theorem c04_lock_holder_can_always_move (as : List Act) (s : S) (hr : run {} as = some s) :
    (s.aPc ≠ 0 → (abortActs.any (fun a => (step s a).isSome) = true ∨ s.curHolder = 1)) ∧
    (s.curHolder = 1 → ([Act.eStopCheck3, .eStart, .eRefuse, .eCurRel].any (fun a => (step s a).isSome) = true)) := by
  have h := reachable_inv as s hr
  constructor
  · intro hpc
    have hp := h.pcs.1
    have hc := h.curl
    have : s.aPc = 1 ∨ s.aPc = 2 ∨ s.aPc = 3 ∨ s.aPc = 4 ∨ s.aPc = 5 ∨ s.aPc = 6 ∨ s.aPc = 7 ∨ s.aPc = 8 ∨ s.aPc = 9 ∨
        s.aPc = 10 ∨ s.aPc = 20 ∨ s.aPc = 21 ∨ s.aPc = 22 ∨ s.aPc = 23 ∨ s.aPc = 24 ∨ s.aPc = 25 ∨ s.aPc = 26 ∨ s.aPc = 27 := by omega
    by_cases hcur : s.curHolder = 1
    · exact Or.inr hcur
    · left
      have hc0 : s.curHolder = 0 ∨ s.curHolder = 2 := by omega
      rcases this with p | p | p | p | p | p | p | p | p | p | p | p | p | p | p | p | p | p <;>
        simp [abortActs, step, p] <;> (try (cases hpub : s.published <;> simp)) <;> (try (cases htd : decide (s.tdHolder = 0) <;> simp_all)) <;>
        (try (cases hcc : s.cur <;> simp)) <;> (try grind)
  · intro hcur
    have hcr := h.crit.1 hcur
    simp only [List.any_cons, List.any_nil, step, hcur]
    cases hans : s.ans3 with
    | none => simp
    | some b =>
      cases b with
      | true => simp
      | false => cases hst : s.started <;> simp

end OpenHTF.Abort
