import OpenHTF.Model.Subscribe
/-
C18 — state subscriptions never lose an update. Every theorem is for all interleavings (any action
list the transition system accepts), any number of watchers and updaters.
-/
namespace OpenHTF.Subscribe

def stage1 : Holder → Bool
  | .updater _ k => decide (1 ≤ k)
  | _ => false

/-- per-watcher invariant (with the global parts it refers to) -/
def WInv (s : S) (i : Nat) : Prop :=
  let w := s.ws i
  (2 ≤ w.pc → i ∈ s.members ∨ w.isSet = true) ∧
  (w.notifiedAfterSnap = true → w.isSet = true) ∧
  (w.pc < 3 → w.notifiedAfterSnap = false) ∧
  (s.holder = .watcher i true → i ∈ s.members) ∧
  (∀ b, s.holder = .watcher i b → w.pc = 0) ∧
  (stage1 s.holder = true → 2 ≤ w.pc → w.isSet = true) ∧
  (w.pc = 3 → w.snap < s.version → w.isSet = true ∨ ∃ u, s.dirty u = true) ∧
  (w.pc = 0 ∨ w.pc = 2 ∨ w.pc = 3) ∧
  (w.pc = 3 → w.snap ≤ s.version)

def Inv (s : S) : Prop := ∀ i, WInv s i

theorem inv_init : Inv {} := by
  intro i; simp [WInv, stage1]

theorem inv_step (s s' : S) (a : Act) (h : Inv s) (hs : step s a = some s') : Inv s' := by
  intro j
  have hj := h j
  cases a with
  | wAcq i =>
    simp only [step] at hs
    split at hs
    · cases hs; rename_i hc; simp only [WInv, stage1] at *; grind
    · cases hs
  | wAdd i =>
    simp only [step] at hs
    split at hs
    · cases hs; rename_i hc; simp only [WInv, stage1] at *; grind
    · cases hs
  | wRel i =>
    simp only [step] at hs
    split at hs
    · cases hs; rename_i hc
      have hi := h i
      simp only [WInv, stage1, updW] at *
      by_cases hji : j = i
      · subst hji; simp only [if_true]; grind
      · simp only [hji, if_false]; grind
    · cases hs
  | wSnap i =>
    simp only [step] at hs
    split at hs
    · cases hs; rename_i hc
      have hi := h i
      simp only [WInv, updW] at *
      by_cases hji : j = i
      · subst hji; simp only [if_true]; grind
      · simp only [hji, if_false]; grind
    · cases hs
  | uMutate u =>
    simp only [step] at hs
    split at hs
    · cases hs
    · cases hs
      simp only [WInv, updB] at *
      refine ⟨hj.1, hj.2.1, hj.2.2.1, hj.2.2.2.1, hj.2.2.2.2.1, hj.2.2.2.2.2.1, ?_, hj.2.2.2.2.2.2.2.1, ?_⟩
      · intro _ _; exact Or.inr ⟨u, by simp⟩
      · intro h3; have := hj.2.2.2.2.2.2.2.2 h3; omega
  | uAcq u =>
    simp only [step] at hs
    split at hs
    · cases hs; rename_i hc; simp only [WInv, stage1] at *; grind
    · cases hs
  | uSetAll u =>
    simp only [step] at hs
    split at hs
    · cases hs; rename_i hc
      simp only [WInv, stage1] at *
      refine ⟨?_, ?_, ?_, ?_, ?_, ?_, ?_, hj.2.2.2.2.2.2.2.1, hj.2.2.2.2.2.2.2.2⟩
      · grind
      · grind
      · grind
      · grind
      · grind
      · grind
      · intro h3 _
        have := hj.1 (by omega)
        left; grind
    · cases hs
  | uClear u =>
    simp only [step] at hs
    split at hs
    · cases hs; rename_i hc; simp only [WInv, stage1] at *; grind
    · cases hs
  | uRel u =>
    simp only [step] at hs
    split at hs
    · cases hs; rename_i hc; simp only [WInv, stage1] at *; grind
    · cases hs

theorem inv_run : ∀ (as : List Act) (s s' : S), Inv s → run s as = some s' → Inv s'
  | [], s, s', h, hr => by simp [run] at hr; subst hr; exact h
  | a :: as, s, s', h, hr => by
    simp only [run] at hr
    cases hst : step s a with
    | none => simp [hst] at hr
    | some s1 => simp [hst] at hr; exact inv_run as s1 s' (inv_step s s1 a h hst) hr

/-- C18 headline: under every interleaving, if the set-all step of a notification happens after a
    watcher took its snapshot, that watcher's event is set. -/
theorem c18_no_lost_update (as : List Act) (s : S) (hr : run {} as = some s) (i : Nat)
    (hn : (s.ws i).notifiedAfterSnap = true) : (s.ws i).isSet = true :=
  (inv_run as {} s inv_init hr i).2.1 hn

/-- once set, an event stays set for its watcher (nothing in the protocol clears a handed-out event) -/
theorem c18_stays_set (s s' : S) (a : Act) (hs : step s a = some s') (i : Nat)
    (h : (s.ws i).isSet = true) : (s'.ws i).isSet = true := by
  cases a <;> simp only [step] at hs <;> split at hs <;> cases hs <;>
    first
    | exact h
    | (simp only [updW]; split <;> simp_all)
    | simp_all

theorem c18_stays_set_run : ∀ (as : List Act) (s s' : S), run s as = some s' → ∀ i,
    (s.ws i).isSet = true → (s'.ws i).isSet = true
  | [], s, s', hr, i, h => by simp [run] at hr; subst hr; exact h
  | a :: as, s, s', hr, i, h => by
    simp only [run] at hr
    cases hst : step s a with
    | none => simp [hst] at hr
    | some s1 => simp [hst] at hr; exact c18_stays_set_run as s1 s' hr i (c18_stays_set s s1 a hst i h)

/-- one notification wakes every watcher registered before it -/
theorem c18_one_notify_wakes_all_registered (as : List Act) (s s' : S) (u : Nat)
    (hr : run {} as = some s) (hs : step s (.uSetAll u) = some s') (i : Nat)
    (hreg : 2 ≤ (s.ws i).pc) : (s'.ws i).isSet = true := by
  have hi := inv_run as {} s inv_init hr i
  simp only [step] at hs
  split at hs
  · cases hs
    have := hi.1 hreg
    simp only
    cases this with
    | inl hm => simp [hm]
    | inr hset => simp [hset]
  · cases hs

/-- registration precedes the snapshot: a snapshot is only ever taken by a registered watcher, so every
    state change after the snapshot is also after the registration -/
theorem c18_snapshot_only_after_registration (s s' : S) (i : Nat) (hs : step s (.wSnap i) = some s') :
    (s.ws i).pc = 2 := by
  simp only [step] at hs
  split at hs
  · assumption
  · cases hs

/-- final-state clause: whenever no updater is between a state change and the completion of its
    notification, every watcher whose snapshot is older than the current state has its event set —
    so a watcher looping on snapshot-then-wait cannot stay blocked on a finished test and its last
    snapshot is the final state. -/
theorem c18_quiescent_stale_watchers_are_woken (as : List Act) (s : S) (hr : run {} as = some s)
    (hq : ∀ u, s.dirty u = false) (i : Nat) (h3 : (s.ws i).pc = 3) (hstale : (s.ws i).snap < s.version) :
    (s.ws i).isSet = true := by
  have hi := inv_run as {} s inv_init hr i
  cases hi.2.2.2.2.2.2.1 h3 hstale with
  | inl h => exact h
  | inr h => obtain ⟨u, hu⟩ := h; simp [hq u] at hu

/-- a snapshot never shows a state newer than the current one, and a watcher that is not stale has the current one -/
theorem c18_snapshot_is_past_or_present (as : List Act) (s : S) (hr : run {} as = some s) (i : Nat)
    (h3 : (s.ws i).pc = 3) : (s.ws i).snap ≤ s.version :=
  (inv_run as {} s inv_init hr i).2.2.2.2.2.2.2.2 h3

/-- non-vacuity: a concrete interleaving in which the notification lands between snapshot and wait -/
example : ∃ s, run {} [.wAcq 0, .wAdd 0, .wRel 0, .wSnap 0, .uMutate 0, .uAcq 0, .uSetAll 0, .uClear 0, .uRel 0] = some s ∧
    (s.ws 0).notifiedAfterSnap = true ∧ (s.ws 0).isSet = true ∧ (s.ws 0).snap < s.version := by
  refine ⟨_, rfl, ?_, ?_, ?_⟩ <;> decide

/-- the mutant "snapshot before registering" is not an execution of the model: the action is refused -/
example : run {} [.wSnap 0] = none := by decide

end OpenHTF.Subscribe

namespace OpenHTF.Subscribe

theorem everyMutNotified_append_notify (l : List Ev) (r : List Ev) (hr : r.contains .notify = true)
    (hrr : everyMutNotified r = true) : everyMutNotified (l ++ r) = true := by
  induction l with
  | nil => simpa
  | cons e l ih =>
    cases e with
    | chg =>
      simp only [List.cons_append, everyMutNotified, Bool.and_eq_true]
      refine ⟨?_, ih⟩
      simp only [List.contains_eq_mem, List.mem_append, decide_eq_true_eq] at *
      exact Or.inr hr
    | notify => simpa [everyMutNotified] using ih

/-- every run of the executor ends with `_finalize`, whose last act is `notify_update`: so for EVERY
    history of TestState method calls that ends with finalize, each state change is followed by a
    notification (also the un-notified `stop_running_phase` of the abort path). -/
theorem c18_every_mutation_followed_by_notify (ms : List Method) :
    everyMutNotified (history (ms ++ [.finalize])) = true := by
  simp only [history, List.flatMap_append, List.flatMap_cons, List.flatMap_nil, List.append_nil]
  exact everyMutNotified_append_notify _ _ (by decide) (by decide)

/-- and every method except `stop_running_phase` and `attach` (neither is a change of status, running
    phase start/end, measurement value or log record) notifies by itself -/
theorem c18_methods_notify_themselves (m : Method) (h : m ≠ .stopRunningPhase) (h' : m ≠ .attach) :
    everyMutNotified (method m) = true := by
  cases m <;> first | decide | exact absurd rfl h | exact absurd rfl h'

end OpenHTF.Subscribe
