import OpenHTF.Model.Logs
import OpenHTF.Model.HandlerList
/-
C19 — log capture: attribution by logger name, exactly-once / order / pairing over all histories of
start / log / finish, immutability of a finished record, MAC redaction.
-/
namespace OpenHTF.Logs

/-! ### the uid filter -/

theorem isPrefixOf_append (p r : List Char) : p.isPrefixOf (p ++ r) = true := by
  induction p with
  | nil => simp
  | cons c p ih => simp [List.isPrefixOf, ih]

theorem recordUid_runLogger (uid suffix : List Char) (hdot : '.' ∉ uid) :
    recordUid (runLogger uid suffix) = some uid := by
  unfold recordUid runLogger
  rw [List.append_assoc, isPrefixOf_append]
  simp only [if_true, List.drop_left]
  congr 1
  by_cases hs : suffix.isEmpty
  · simp only [hs, if_true, List.append_nil]
    have : List.takeWhile (fun x => x != '.') (uid ++ []) = uid := by
      rw [List.takeWhile_append_of_pos (fun x hx => by
        simp only [bne_iff_ne, ne_eq]
        intro e; subst e; exact hdot hx)]
      simp
    simpa using this
  · simp only [hs]
    have : List.takeWhile (fun x => x != '.') (uid ++ '.' :: suffix) = uid := by
      rw [List.takeWhile_append_of_pos (fun x hx => by
        simp only [bne_iff_ne, ne_eq]
        intro e; subst e; exact hdot hx)]
      simp
    simpa using this

/-- C19: a run's handler keeps every message of that run's own loggers (test.logger, phase, plug and
    get_record_logger_for loggers: any child of `openhtf.test_record.<uid>`) -/
theorem c19_accepts_own_loggers (uid suffix : List Char) (hdot : '.' ∉ uid) :
    accepts uid (runLogger uid suffix) = true := by
  simp [accepts, recordUid_runLogger uid suffix hdot]

/-- C19: ... and drops every message of another run's record loggers, whatever the uids look like
    (one a prefix of the other included) -/
theorem c19_rejects_other_runs_loggers (uid other suffix : List Char) (hdot : '.' ∉ other) (hne : other ≠ uid) :
    accepts uid (runLogger other suffix) = false := by
  simp [accepts, recordUid_runLogger other suffix hdot, hne]

/-- C19: framework messages (any logger that is not a record logger) are kept by every live run -/
theorem c19_framework_messages_kept (uid name : List Char) (h : recordPrefix.isPrefixOf name = false) :
    accepts uid name = true := by
  simp [accepts, recordUid, h]

/-! ### records over histories -/

theorem findRec_appendTo_ne (rs : List (List Char × List Entry)) (h uid : List Char) (e : Entry) (hne : h ≠ uid) :
    findRec (appendTo rs h e) uid = findRec rs uid := by
  induction rs with
  | nil => rfl
  | cons r rs ih =>
    have ih' : findRec (appendTo rs h e) uid = findRec rs uid := ih
    have hstep : appendTo (r :: rs) h e = (if r.1 == h then (r.1, r.2 ++ [e]) else r) :: appendTo rs h e := by
      simp [appendTo]
    rw [hstep]
    by_cases hr : r.1 = h
    · have hu : ¬ r.1 = uid := fun e' => hne (hr ▸ e')
      simp [findRec, hr, ih', hne]
    · by_cases hu : r.1 = uid
      · have hne2 : ¬ uid = h := fun e2 => hr (hu.trans e2)
        simp [findRec, hu, hne2]
      · simp [findRec, hr, hu, ih']

theorem findRec_appendTo_eq (rs : List (List Char × List Entry)) (uid : List Char) (e : Entry)
    (hin : ∃ r ∈ rs, r.1 = uid) :
    findRec (appendTo rs uid e) uid = findRec rs uid ++ [e] := by
  induction rs with
  | nil => obtain ⟨r, hr, _⟩ := hin; cases hr
  | cons r rs ih =>
    have hstep : appendTo (r :: rs) uid e = (if r.1 == uid then (r.1, r.2 ++ [e]) else r) :: appendTo rs uid e := by
      simp [appendTo]
    rw [hstep]
    by_cases hr : r.1 = uid
    · simp [findRec, hr]
    · have hin' : ∃ x ∈ rs, x.1 = uid := by
        obtain ⟨x, hx, hxu⟩ := hin
        rcases List.mem_cons.mp hx with hx | hx
        · subst hx; exact absurd hxu hr
        · exact ⟨x, hx, hxu⟩
      simp [findRec, hr, ih hin']

theorem appendTo_keeps_uids (rs : List (List Char × List Entry)) (h : List Char) (e : Entry) (uid : List Char) :
    (∃ r ∈ appendTo rs h e, r.1 = uid) ↔ (∃ r ∈ rs, r.1 = uid) := by
  simp only [appendTo, List.mem_map]
  constructor
  · rintro ⟨r, ⟨x, hx, rfl⟩, hr⟩
    refine ⟨x, hx, ?_⟩
    by_cases hh : x.1 == h <;> simp_all
  · rintro ⟨r, hr, hru⟩
    refine ⟨_, ⟨r, hr, rfl⟩, ?_⟩
    by_cases hh : r.1 == h <;> simp_all

/-- the fold of `callHandlers` over a handler list, for the record of one run -/
theorem fold_record (hs : List (List Char)) (rs : List (List Char × List Entry)) (uid name : List Char) (msg : Nat)
    (hin : ∃ r ∈ rs, r.1 = uid) :
    findRec (hs.foldl (fun rs h => if accepts h name then appendTo rs h ⟨name, msg⟩ else rs) rs) uid =
    findRec rs uid ++ List.replicate (if accepts uid name then hs.count uid else 0) ⟨name, msg⟩ := by
  induction hs generalizing rs with
  | nil => simp
  | cons h hs ih =>
    simp only [List.foldl_cons]
    by_cases hacc : accepts h name
    · simp only [hacc, if_true]
      rw [ih _ ((appendTo_keeps_uids rs h ⟨name, msg⟩ uid).mpr hin)]
      by_cases hu : h = uid
      · subst hu
        rw [findRec_appendTo_eq rs h ⟨name, msg⟩ hin]
        simp [hacc, List.count_cons_self, List.replicate_succ, List.append_assoc]
      · rw [findRec_appendTo_ne rs h uid ⟨name, msg⟩ hu]
        have : (h == uid) = false := by simp [hu]
        simp [List.count_cons, this]
    · have hacc' : accepts h name = false := by simpa using hacc
      simp only [hacc', Bool.false_eq_true, if_false]
      rw [ih rs hin]
      by_cases hu : h = uid
      · subst hu; simp [hacc']
      · have : (h == uid) = false := by simp [hu]
        simp [List.count_cons, this]

def started (s : S) (uid : List Char) : Prop := ∃ r ∈ s.records, r.1 = uid

/-- C19 exactly once: a message is appended to the record of a live run exactly once if that run's filter
    accepts its logger name, and not at all otherwise; nothing else in that record changes -/
theorem c19_exactly_once (s : S) (uid name : List Char) (msg : Nat) (hst : started s uid)
    (hlive : s.handlers.count uid = 1) :
    recordOf (step s (.log name msg)) uid =
      recordOf s uid ++ (if accepts uid name then [⟨name, msg⟩] else []) := by
  unfold recordOf
  simp only [step]
  rw [fold_record s.handlers s.records uid name msg hst, hlive]
  by_cases h : accepts uid name <;> simp [h]

theorem started_log (s : S) (uid name : List Char) (msg : Nat) (h : started s uid) :
    started (step s (.log name msg)) uid := by
  unfold started at *
  simp only [step]
  generalize s.handlers = hs
  generalize s.records = rs at h
  induction hs generalizing rs with
  | nil => simpa using h
  | cons x xs ih =>
    simp only [List.foldl_cons]
    split
    · exact ih _ ((appendTo_keeps_uids rs x ⟨name, msg⟩ uid).mpr h)
    · exact ih _ h

/-- C19 emission order: while a run is live (exactly one handler of it is registered), any sequence of
    messages logged by any loggers leaves in its record exactly the accepted ones, each once, in emission
    order, after what was there before -/
theorem c19_emission_order (msgs : List (List Char × Nat)) (s : S) (uid : List Char) (hst : started s uid)
    (hlive : s.handlers.count uid = 1) :
    recordOf (run s (msgs.map (fun p => Op.log p.1 p.2))) uid =
      recordOf s uid ++ (msgs.filter (fun p => accepts uid p.1)).map (fun p => ⟨p.1, p.2⟩) := by
  induction msgs generalizing s with
  | nil => simp [run]
  | cons m ms ih =>
    simp only [List.map_cons, run, List.foldl_cons]
    have h1 := c19_exactly_once s uid m.1 m.2 hst hlive
    have hl : (step s (.log m.1 m.2)).handlers.count uid = 1 := by simpa [step] using hlive
    have := ih (step s (.log m.1 m.2)) (started_log s uid m.1 m.2 hst) hl
    simp only [run] at this
    rw [this, h1]
    by_cases hacc : accepts uid m.1 <;> simp [hacc]

/-- C19: once the run has ended (its handler is gone) nothing logged later alters its record -/
theorem c19_finished_record_immutable (s : S) (uid name : List Char) (msg : Nat) (hst : started s uid)
    (hgone : uid ∉ s.handlers) : recordOf (step s (.log name msg)) uid = recordOf s uid := by
  unfold recordOf
  simp only [step]
  rw [fold_record s.handlers s.records uid name msg hst, List.count_eq_zero_of_not_mem hgone]
  simp

/-- handlers of well-formed histories (a uid is started at most once) are duplicate-free, so `finish` removes
    the run's only handler -/
def freshStarts : List Op → List (List Char) → Prop
  | [], _ => True
  | .start uid :: ops, seen => uid ∉ seen ∧ freshStarts ops (uid :: seen)
  | _ :: ops, seen => freshStarts ops seen

theorem handlers_nodup : ∀ (ops : List Op) (s : S) (seen : List (List Char)), freshStarts ops seen →
    s.handlers.Nodup → (∀ h ∈ s.handlers, h ∈ seen) → (run s ops).handlers.Nodup
  | [], s, _, _, hn, _ => by simpa [run] using hn
  | op :: ops, s, seen, hf, hn, hsub => by
    simp only [run, List.foldl_cons]
    cases op with
    | start uid =>
      obtain ⟨hfresh, hrest⟩ := hf
      apply handlers_nodup ops _ (uid :: seen) hrest
      · simp only [step]
        rw [List.nodup_append]
        refine ⟨hn, by simp, ?_⟩
        intro a ha b hb
        simp at hb; subst hb
        exact fun e => hfresh (e ▸ hsub a ha)
      · intro h hh
        simp only [step, List.mem_append, List.mem_singleton] at hh
        rcases hh with hh | hh
        · exact List.mem_cons_of_mem _ (hsub h hh)
        · subst hh; exact List.mem_cons_self
    | log name msg =>
      exact handlers_nodup ops _ seen hf (by simpa [step] using hn) (by simpa [step] using hsub)
    | finish uid =>
      apply handlers_nodup ops _ seen hf
      · simp only [step]; exact hn.erase uid
      · intro h hh
        simp only [step] at hh
        exact hsub h (List.mem_of_mem_erase hh)

/-- C19 pairing: after the run has ended no handler of it remains (histories in which every uid is started once) -/
theorem c19_no_handler_after_finish (ops : List Op) (uid : List Char) (hf : freshStarts ops []) :
    uid ∉ (step (run {} ops) (.finish uid)).handlers := by
  have hn := handlers_nodup ops {} [] hf (by simp) (by simp)
  simp only [step]
  exact hn.not_mem_erase

/-- the number of handlers is the number of runs started and not finished: nothing accumulates -/
theorem c19_handlers_do_not_accumulate (s : S) (uid : List Char) (hin : uid ∈ s.handlers) :
    (step s (.finish uid)).handlers.length + 1 = s.handlers.length := by
  simp only [step]
  rw [List.length_erase_of_mem hin]
  have : 0 < s.handlers.length := List.length_pos_of_mem hin
  omega

/-! ### MAC redaction -/

/-- C19: a colon-separated MAC address (any hex digits, any case) followed by the end of the message or by a
    character that is neither a word character nor a colon matches; only the three-byte vendor prefix is kept -/
theorem c19_mac_matched (a b c d e f g h i j k l : Char) (rest : List Char)
    (hx : isHex a ∧ isHex b ∧ isHex c ∧ isHex d ∧ isHex e ∧ isHex f ∧ isHex g ∧ isHex h ∧ isHex i ∧ isHex j ∧ isHex k ∧ isHex l)
    (hrest : rest = [] ∨ ∃ x xs, rest = x :: xs ∧ isWord x = false ∧ x ≠ ':') :
    matchMac ([a, b, ':', c, d, ':', e, f, ':', g, h, ':', i, j, ':', k, l] ++ rest) =
      some ([a, b, ':', c, d, ':', e, f, ':'], rest) := by
  obtain ⟨h1, h2, h3, h4, h5, h6, h7, h8, h9, h10, h11, h12⟩ := hx
  rcases hrest with hr | ⟨x, xs, hr, hw, hc⟩
  · subst hr
    simp [matchMac, vendorPrefix, octetColon, lastOctet, h1, h2, h3, h4, h5, h6, h7, h8, h9, h10, h11, h12]
  · subst hr
    simp only [matchMac, vendorPrefix, octetColon, lastOctet, List.cons_append, List.nil_append, h1, h2, h3, h4, h5, h6,
      h7, h8, h9, h10, h11, h12, Bool.and_self, if_true]
    by_cases hcx : x = ':'
    · exact absurd hcx hc
    · simp [hw]

/-- ... and the replacement keeps exactly that prefix, drops the rest and goes on after the match -/
theorem c19_redact_keeps_prefix_drops_rest (fuel : Nat) (c : Char) (cs v rest : List Char)
    (hm : matchMac (c :: cs) = some (v, rest)) :
    redact (fuel + 1) (c :: cs) = v ++ redacted ++ redact fuel rest := by
  simp [redact, hm]

example : String.ofList (redactMsg "dut aa:bb:cc:dd:ee:ff ok".toList) = "dut aa:bb:cc:<REDACTED> ok" := by decide
example : String.ofList (redactMsg "AA:BB:CC:DD:EE:FF".toList) = "AA:BB:CC:<REDACTED>" := by decide
example : String.ofList (redactMsg "short aa:bb:cc:dd:ee".toList) = "short aa:bb:cc:dd:ee" := by decide

end OpenHTF.Logs

namespace OpenHTF.HandlerList

structure Inv (s : S) : Prop where
  holder : ∀ t, s.lock = some t ↔ (s.pc t = 1 ∨ s.pc t = 2)
  pcs : ∀ t, s.pc t = 0 ∨ s.pc t = 1 ∨ s.pc t = 2
  registered : ∀ h, h ∈ s.live → h ∈ s.cur
  copy : ∀ t, s.pc t = 2 → s.snap t = s.cur.filter (· != s.victim t)

theorem inv_init : Inv {} := by
  constructor <;> simp

theorem inv_step (s s' : S) (a : Act) (hl : isLocked a = true)
    (h : Inv s) (hs : step s a = some s') : Inv s' := by
  obtain ⟨h1, h2, h3, h4⟩ := h
  cases a with
  | addUnlocked x => simp [isLocked] at hl
  | acquire t =>
    simp only [step] at hs
    split at hs <;> cases hs
    rename_i hc
    constructor
    · intro u; simp only [updP]; have := h1 u; have := h2 u; grind
    · intro u; simp only [updP]; have := h2 u; grind
    · exact h3
    · intro u hu; simp only [updP] at hu; have := h4 u; grind
  | add t x =>
    simp only [step] at hs
    split at hs <;> cases hs
    rename_i hc
    constructor
    · exact h1
    · exact h2
    · intro y hy
      simp only [List.mem_append, List.mem_singleton] at hy ⊢
      rcases hy with hy | hy
      · left; exact h3 y hy
      · right; exact hy
    · intro u hu
      -- only the lock holder can be at pc 2, and the adder holds the lock at pc 1
      have ht : s.lock = some t := (h1 t).2 (Or.inl hc.1)
      have hu' : s.lock = some u := (h1 u).2 (Or.inr hu)
      have : t = u := by rw [ht] at hu'; exact Option.some.inj hu'
      subst this
      rw [hc.1] at hu; cases hu
  | filter t x =>
    simp only [step] at hs
    split at hs <;> cases hs
    rename_i hc
    constructor
    · intro u; simp only [updP]; have := h1 u; have := h1 t; grind
    · intro u; simp only [updP]; have := h2 u; grind
    · exact h3
    · intro u hu
      simp only [updP, updL] at hu ⊢
      by_cases e : u = t
      · subst e; simp
      · simp only [e, if_false] at hu ⊢
        have ht : s.lock = some t := (h1 t).2 (Or.inl hc)
        have hu' : s.lock = some u := (h1 u).2 (Or.inr hu)
        have : t = u := by rw [ht] at hu'; exact Option.some.inj hu'
        exact absurd this.symm e
  | store t =>
    simp only [step] at hs
    split at hs <;> cases hs
    rename_i hc
    have hcopy := h4 t hc
    constructor
    · intro u; simp only [updP]; have := h1 u; have := h1 t; grind
    · intro u; simp only [updP]; have := h2 u; grind
    · intro y hy
      simp only [List.mem_filter] at hy
      rw [hcopy]
      simp only [List.mem_filter]
      exact ⟨h3 y hy.1, hy.2⟩
    · intro u hu
      simp only [updP] at hu
      by_cases e : u = t
      · subst e; simp at hu
      · simp only [e, if_false] at hu
        have ht : s.lock = some t := (h1 t).2 (Or.inr hc)
        have hu' : s.lock = some u := (h1 u).2 (Or.inr hu)
        have : t = u := by rw [ht] at hu'; exact Option.some.inj hu'
        exact absurd this.symm e
  | release t =>
    simp only [step] at hs
    split at hs <;> cases hs
    rename_i hc
    constructor
    · intro u; simp only [updP]
      have hu := h1 u; have ht := h1 t
      by_cases e : u = t
      · subst e; simp
      · simp only [e, if_false]
        constructor
        · intro hn; cases hn
        · intro hp
          have h' : s.lock = some u := hu.2 hp
          have h'' : s.lock = some t := ht.2 (Or.inl hc)
          rw [h''] at h'; exact absurd (Option.some.inj h').symm e
    · intro u; simp only [updP]; have := h2 u; grind
    · exact h3
    · intro u hu
      simp only [updP] at hu
      by_cases e : u = t
      · subst e; simp at hu
      · simp only [e, if_false] at hu; exact h4 u hu

theorem inv_run : ∀ (as : List Act) (s s' : S), locked as = true → Inv s → run s as = some s' → Inv s'
  | [], s, s', _, h, hr => by simp [run] at hr; subst hr; exact h
  | a :: as, s, s', hl, h, hr => by
    simp only [run] at hr
    split at hr
    · cases hr
    · rename_i s1 hs1
      simp only [locked, List.all_cons, Bool.and_eq_true] at hl
      exact inv_run as s1 s' hl.2 (inv_step s s1 a hl.1 h hs1) hr

/-- C19: under every interleaving of tests that start (register their record handler) and tests that end (remove
    theirs), a handler that has been registered and not removed is on the logger's handler list: a starting run can
    never lose its handler to another run's removal -/
theorem c19_registered_handler_stays_registered (as : List Act) (s : S) (hl : locked as = true)
    (hr : run {} as = some s) (h : Nat) (hh : h ∈ s.live) : h ∈ s.cur :=
  (inv_run as {} s hl inv_init hr).registered h hh

/-- registering without the lock is not safe: a handler appended between another run's filtered copy and its store is
    dropped -/
theorem unlocked_registration_can_lose_the_handler :
    ∃ s, run {} [.acquire 0, .add 0 1, .filter 0 1, .addUnlocked 2, .store 0, .release 0] = some s ∧
      2 ∈ s.live ∧ 2 ∉ s.cur := by
  refine ⟨_, rfl, ?_⟩
  decide

example : ∃ s, run {} [.acquire 0, .add 0 1, .release 0, .acquire 1, .add 1 2, .release 1, .acquire 0, .filter 0 1, .store 0,
    .release 0] = some s ∧ s.cur = [2] ∧ s.live = [2] := by
  refine ⟨_, rfl, ?_⟩
  decide

end OpenHTF.HandlerList
