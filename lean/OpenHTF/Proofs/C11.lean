import OpenHTF.Model.Heap
/-
C11 — runs are isolated, derived phases are copies: frame theorems over the heap model. Every derive
operation only allocates (old addresses keep their objects), writes go to addresses allocated by the same
operation, writes of two runs to disjoint owned regions commute.
-/
namespace OpenHTF.Heap

theorem Extends.refl (h : Heap) : Extends h h := List.prefix_refl _
theorem Extends.trans {a b c : Heap} (h1 : Extends a b) (h2 : Extends b c) : Extends a c := List.IsPrefix.trans h1 h2

theorem Extends.size_le {h h' : Heap} (e : Extends h h') : h.size ≤ h'.size := List.IsPrefix.length_le e

theorem Extends.get {h h' : Heap} (e : Extends h h') (a : Nat) (ha : a < h.size) : h'.get a = h.get a := by
  obtain ⟨t, ht⟩ := e
  simp only [Heap.get, ← ht]
  exact List.getElem?_append_left ha

theorem alloc_extends (h : Heap) (o : Obj) : Extends h (h.alloc o).1 := by
  simp [Heap.alloc, Extends]

theorem alloc_fresh (h : Heap) (o : Obj) : (h.alloc o).2 = h.size := rfl

theorem shallowCopy_extends (h : Heap) (a : Nat) : Extends h (shallowCopy h a).1 := by
  unfold shallowCopy
  split
  · exact Extends.refl h
  · split
    · exact Extends.refl h
    · exact alloc_extends h _

theorem copy_extends : ∀ (fuel : Nat),
    (∀ h a, Extends h (attrCopy fuel h a).1) ∧ (∀ h vs, Extends h (copyFields fuel h vs).1) := by
  intro fuel
  induction fuel with
  | zero =>
    have hA : ∀ h a, Extends h (attrCopy 0 h a).1 := fun h a => by simp [attrCopy]; exact Extends.refl h
    refine ⟨hA, ?_⟩
    intro h vs
    induction vs generalizing h with
    | nil => simp [copyFields]; exact Extends.refl h
    | cons v vs ih =>
      cases v with
      | atom n => simp only [copyFields]; exact ih h
      | ref b =>
        simp only [copyFields]
        refine Extends.trans ?_ (ih _)
        split
        · split
          · exact hA h b
          · exact shallowCopy_extends h b
        · exact Extends.refl h
  | succ fuel ihf =>
    obtain ⟨ihA, ihF⟩ := ihf
    have hA : ∀ h a, Extends h (attrCopy (fuel + 1) h a).1 := by
      intro h a
      simp only [attrCopy]
      split
      · exact Extends.refl h
      · exact Extends.trans (ihF h _) (alloc_extends _ _)
    refine ⟨hA, ?_⟩
    intro h vs
    induction vs generalizing h with
    | nil => simp [copyFields]; exact Extends.refl h
    | cons v vs ih =>
      cases v with
      | atom n => simp only [copyFields]; exact ih h
      | ref b =>
        simp only [copyFields]
        refine Extends.trans ?_ (ih _)
        split
        · split
          · exact hA h b
          · exact shallowCopy_extends h b
        · exact Extends.refl h

theorem attrCopy_extends (fuel : Nat) (h : Heap) (a : Nat) : Extends h (attrCopy fuel h a).1 := (copy_extends fuel).1 h a
theorem copyFields_extends (fuel : Nat) (h : Heap) (vs : List Val) : Extends h (copyFields fuel h vs).1 := (copy_extends fuel).2 h vs

/-- the copy of an existing object is a NEW object: its address was not in the heap before -/
theorem attrCopy_fresh (fuel : Nat) (h : Heap) (a : Nat) (o : Obj) (ha : h.get a = some o) :
    h.size ≤ (attrCopy (fuel + 1) h a).2 := by
  simp only [attrCopy, ha, Heap.alloc]
  exact Extends.size_le (copyFields_extends fuel h o.fields)

/-- a write to an address allocated after h0 leaves every object of h0 as it was -/
theorem setField_fresh_preserves (h0 h : Heap) (a i : Nat) (v : Val) (e : Extends h0 h) (ha : h0.size ≤ a) :
    Extends h0 (h.setField a i v) := by
  unfold Heap.setField
  split
  · exact e
  · rename_i o _
    obtain ⟨t, ht⟩ := e
    refine ⟨t.set (a - h0.size) { o with fields := o.fields.set i v }, ?_⟩
    simp only [Heap.size] at ha ⊢
    rw [← ht, List.set_append_right _ _ ha]

theorem copyElems_extends (fuel : Nat) (h : Heap) (l : Nat) : Extends h (copyElems fuel h l).1 := by
  unfold copyElems
  split
  · exact Extends.refl h
  · exact Extends.trans (copyFields_extends fuel h _) (alloc_extends _ _)

theorem attrCopy_root_ge (fuel : Nat) (h : Heap) (p : Nat) :
    (attrCopy fuel h p).2 = p ∨ h.size ≤ (attrCopy fuel h p).2 := by
  cases fuel with
  | zero => left; simp [attrCopy]
  | succ f =>
    cases hg : h.get p with
    | none => left; simp [attrCopy, hg]
    | some o => right; exact attrCopy_fresh f h p o hg

/-- the root of a derive's copy is fresh whenever the phase exists -/
theorem root_fresh_or_missing (fuel : Nat) (h : Heap) (p : Nat) :
    h.get p = none ∨ h.size ≤ (attrCopy (fuel + 1) h p).2 := by
  cases hp : h.get p with
  | none => left; rfl
  | some o => right; exact attrCopy_fresh fuel h p o hp

theorem attrCopy_missing (fuel : Nat) (h : Heap) (p : Nat) (hp : h.get p = none) : attrCopy (fuel + 1) h p = (h, p) := by
  simp [attrCopy, hp]

/-- C11: every way of deriving a phase only allocates: the phase it was derived from, and everything reachable
    from it, is exactly as before -/
theorem c11_derive_leaves_original_unchanged (fuel : Nat) (h : Heap) (p : Nat) (op : Derive) :
    Extends h (derive fuel h p op).1 := by
  have e1 := attrCopy_extends (fuel + 1) h p
  cases op with
  | copy => exact e1
  | withPlugsNone => exact e1
  | withArgs =>
    simp only [derive]
    rcases root_fresh_or_missing fuel h p with hp | hr
    · rw [attrCopy_missing fuel h p hp]; simp [hp]; exact Extends.refl h
    · split
      · exact e1
      · split
        · rename_i o hg ml hf
          exact setField_fresh_preserves h _ _ _ _ (Extends.trans e1 (copyElems_extends fuel _ ml)) hr
        · exact e1
  | withPlugsMatch =>
    simp only [derive]
    rcases root_fresh_or_missing fuel h p with hp | hr
    · rw [attrCopy_missing fuel h p hp]; simp [hp]; exact Extends.refl h
    · split
      · exact e1
      · split
        · rename_i o hg pl ml hf2 hf3
          have e2 := Extends.trans e1 (copyElems_extends fuel _ pl)
          have e3 := Extends.trans e2 (copyElems_extends fuel _ ml)
          exact setField_fresh_preserves h _ _ _ _ (setField_fresh_preserves h _ _ _ _ e3 hr) hr
        · exact e1

/-- the derived phase is a new object (never the phase it was derived from), for every derive operation -/
theorem c11_derived_phase_is_a_new_object (fuel : Nat) (h : Heap) (p : Nat) (o : Obj) (hp : h.get p = some o)
    (op : Derive) : h.size ≤ (derive fuel h p op).2 := by
  have hr := attrCopy_fresh fuel h p o hp
  cases op <;> simp only [derive] <;> (try exact hr)
  · split
    · exact hr
    · split <;> exact hr
  · split
    · exact hr
    · split <;> exact hr

/-- any sequence of derive operations (each applied to any phase that exists by then) leaves every object that
    existed at the start unchanged -/
def deriveAll (fuel : Nat) : Heap → List (Nat × Derive) → Heap
  | h, [] => h
  | h, (p, op) :: rest => deriveAll fuel (derive fuel h p op).1 rest

theorem c11_histories_of_derivations_leave_originals_unchanged (fuel : Nat) (h : Heap) (ops : List (Nat × Derive)) :
    Extends h (deriveAll fuel h ops) := by
  induction ops generalizing h with
  | nil => exact Extends.refl h
  | cons x rest ih =>
    obtain ⟨p, op⟩ := x
    exact Extends.trans (c11_derive_leaves_original_unchanged fuel h p op) (ih _)

/-! ### runs: per-run copies, writes confined to what the run allocated -/

def applyWrites (h : Heap) (ws : List (Nat × Nat × Val)) : Heap :=
  ws.foldl (fun h w => h.setField w.1 w.2.1 w.2.2) h

/-- C11: a run that only writes to objects it allocated itself (its deep copies of the measurements, its phase
    states, its record, its plug and diagnoses managers) leaves every descriptor object unchanged -/
theorem c11_run_writes_only_run_owned (h0 h : Heap) (ws : List (Nat × Nat × Val)) (e : Extends h0 h)
    (hown : ∀ w ∈ ws, h0.size ≤ w.1) : Extends h0 (applyWrites h ws) := by
  induction ws generalizing h with
  | nil => exact e
  | cons w ws ih =>
    simp only [applyWrites, List.foldl_cons]
    exact ih _ (setField_fresh_preserves h0 h w.1 w.2.1 w.2.2 e (hown w List.mem_cons_self))
      (fun x hx => hown x (List.mem_cons_of_mem _ hx))

theorem setField_size (h : Heap) (a i : Nat) (v : Val) : (h.setField a i v).size = h.size := by
  unfold Heap.setField; split <;> simp [Heap.size]

theorem setField_get_ne (h : Heap) (a b i : Nat) (v : Val) (hne : a ≠ b) : (h.setField a i v).get b = h.get b := by
  unfold Heap.setField
  split
  · rfl
  · simp [Heap.get, List.getElem?_set_ne hne]

/-- C11 (concurrent runs): writes to different objects commute, so the order in which two runs that own disjoint
    objects are interleaved does not matter -/
theorem c11_writes_to_different_objects_commute (h : Heap) (a b i j : Nat) (v w : Val) (hne : a ≠ b) :
    (h.setField a i v).setField b j w = (h.setField b j w).setField a i v := by
  unfold Heap.setField
  cases ha : h.get a with
  | none =>
    cases hb : h.get b with
    | none => simp [ha, hb]
    | some ob =>
      simp only [ha, hb]
      have : (Heap.get ⟨h.objs.set b { ob with fields := ob.fields.set j w }⟩ a) = none := by
        simp [Heap.get, List.getElem?_set_ne (Ne.symm hne)]; simpa [Heap.get] using ha
      simp [this]
  | some oa =>
    cases hb : h.get b with
    | none =>
      simp only [ha, hb]
      have : (Heap.get ⟨h.objs.set a { oa with fields := oa.fields.set i v }⟩ b) = none := by
        simp [Heap.get, List.getElem?_set_ne hne]; simpa [Heap.get] using hb
      simp [this]
    | some ob =>
      simp only [ha, hb]
      have h1 : (Heap.get ⟨h.objs.set a { oa with fields := oa.fields.set i v }⟩ b) = some ob := by
        simp [Heap.get, List.getElem?_set_ne hne]; simpa [Heap.get] using hb
      have h2 : (Heap.get ⟨h.objs.set b { ob with fields := ob.fields.set j w }⟩ a) = some oa := by
        simp [Heap.get, List.getElem?_set_ne (Ne.symm hne)]; simpa [Heap.get] using ha
      simp only [h1, h2]
      congr 1
      exact List.set_comm _ _ hne

end OpenHTF.Heap
