import OpenHTF.Model.AdbFrame
/-
C13 — ADB message framing. Theorems for every command of the (regenerated) command list, all 32-bit
arguments, every payload, every corrupted/truncated transport script, every writer schedule.
-/
namespace OpenHTF.AdbFrame

/-- the struct format in the source is six little-endian 32-bit words, which is what `header` models -/
theorem c13_header_format : Gen.c13_headerFormat = "<6I" := by decide

theorem c13_header_layout (m : Msg) :
    (header m).length = 24 ∧
    header m = le32 m.cmd ++ le32 m.arg0 ++ le32 m.arg1 ++ le32 m.data.length ++ le32 (csum m.data) ++
               le32 (m.cmd ^^^ 0xFFFFFFFF) := by
  simp [header, le32, magic]

/-- the wire values of the commands are pairwise distinct 32-bit words (so WIRE_TO_CMD inverts CMD_TO_WIRE) -/
theorem c13_wire_commands_injective : cmds.Nodup ∧ cmdNames.Nodup ∧ ∀ c ∈ cmds, c < 4294967296 := by
  decide +kernel

theorem unle32_le32 (w : Nat) (h : w < 4294967296) : unle32 (le32 w) = some w := by
  simp only [le32, unle32]; congr 1; omega

theorem parse_header (m : Msg) (hc : m.cmd < 4294967296) (h0 : m.arg0 < 4294967296) (h1 : m.arg1 < 4294967296)
    (hl : m.data.length < 4294967296) :
    parseHeader (header m) = some ⟨m.cmd, m.arg0, m.arg1, m.data.length, csum m.data, magic m.cmd⟩ := by
  have hs : csum m.data < 4294967296 := by unfold csum; omega
  have hx : magic m.cmd < 4294967296 := by
    have : m.cmd ^^^ 0xFFFFFFFF < 2 ^ 32 := Nat.xor_lt_two_pow (by simpa using hc) (by decide)
    simpa [magic] using this
  have raw : ∀ w, w < 4294967296 →
      unle32 [w % 256, w / 256 % 256, w / 65536 % 256, w / 16777216 % 256] = some w :=
    fun w hw => unle32_le32 w hw
  simp only [header, le32, List.cons_append, List.nil_append, parseHeader,
    raw _ hc, raw _ h0, raw _ h1, raw _ hl, raw _ hs, raw _ hx]

/-- what a reader sees on the wire for one written message (an empty payload write carries no bytes) -/
def frame (m : Msg) : List (List Nat) := if m.data = [] then [header m] else [header m, m.data]

/-- Lossless round trip: reading back any written frame yields the same command, arguments and
    payload, and leaves the rest of the stream untouched. -/
theorem c13_roundtrip (m : Msg) (rest : List (List Nat)) (hcmd : m.cmd ∈ cmds)
    (h0 : m.arg0 < 4294967296) (h1 : m.arg1 < 4294967296) (hl : m.data.length < 4294967296) :
    readMessage (frame m ++ rest) = (.ok m, rest) := by
  have hc : m.cmd < 4294967296 := c13_wire_commands_injective.2.2 _ hcmd
  have hp := parse_header m hc h0 h1 hl
  have hne : header m ≠ [] := by
    intro h; have := (c13_header_layout m).1; rw [h] at this; simp at this
  unfold frame
  by_cases hd : m.data = []
  · simp only [hd, if_true, List.cons_append, List.nil_append, readMessage, hne, if_false]
    rw [hd] at hp
    simp only [hp]
    simp [toAdbMessage, hcmd]
    cases m; simp_all
  · have hpos : m.data.length > 0 := List.length_pos_iff.mpr hd
    simp only [hd, if_false, List.cons_append, List.nil_append, readMessage, hne, hp]
    simp [hpos, toAdbMessage, hcmd]

/-- non-vacuity: an OKAY message with a payload satisfies the hypotheses -/
example : (⟨wire "OKAY", 1, 2, [104, 105]⟩ : Msg).cmd ∈ cmds := by decide +kernel

/-- Whatever `read_message` delivers is consistent with the header it came with: known command,
    announced length, announced checksum. A corrupt frame is therefore never delivered. -/
theorem c13_delivered_is_consistent (script : List (List Nat)) (m : Msg) (rest : List (List Nat))
    (h : readMessage script = (.ok m, rest)) :
    ∃ hdr r tail, script = hdr :: tail ∧ parseHeader hdr = some r ∧ m.cmd = r.cmd ∧ r.cmd ∈ cmds ∧
      m.arg0 = r.arg0 ∧ m.arg1 = r.arg1 ∧ m.data.length = r.len ∧ csum m.data = r.sum := by
  cases script with
  | nil => simp [readMessage] at h
  | cons hdr tail =>
    simp only [readMessage] at h
    split at h
    · simp at h
    · split at h
      · simp at h
      · rename_i r hr
        refine ⟨hdr, r, tail, rfl, hr, ?_⟩
        have key : ∀ d, toAdbMessage r d = .ok m →
            m.cmd = r.cmd ∧ r.cmd ∈ cmds ∧ m.arg0 = r.arg0 ∧ m.arg1 = r.arg1 ∧ m.data.length = r.len ∧ csum m.data = r.sum := by
          intro d hd
          unfold toAdbMessage at hd
          split at hd
          · simp at hd
          · rename_i hin
            split at hd
            · simp at hd
            · rename_i hok
              simp only [Except.ok.injEq] at hd
              subst hd
              simp only [not_or, Decidable.not_not] at hok hin
              exact ⟨rfl, hin, rfl, rfl, hok.1, hok.2⟩
        split at h
        · cases tail with
          | nil => simp at h
          | cons d t => simp only [Prod.mk.injEq] at h; exact key d h.1
        · simp only [Prod.mk.injEq] at h; exact key [] h.1

/-- a payload whose length disagrees with the header is an integrity error -/
theorem c13_rejects_length_mismatch (hdr d : List Nat) (r : Raw) (rest : List (List Nat))
    (hp : parseHeader hdr = some r) (hk : r.cmd ∈ cmds) (hlen : r.len > 0) (hne : d.length ≠ r.len) :
    readMessage (hdr :: d :: rest) = (.error .integrity, rest) := by
  have h0 : hdr ≠ [] := by intro e; subst e; simp [parseHeader] at hp
  simp [readMessage, h0, hp, hlen, toAdbMessage, hk, hne]

/-- a payload whose byte sum disagrees with the header is an integrity error -/
theorem c13_rejects_checksum_mismatch (hdr d : List Nat) (r : Raw) (rest : List (List Nat))
    (hp : parseHeader hdr = some r) (hk : r.cmd ∈ cmds) (hlen : r.len > 0) (hne : csum d ≠ r.sum) :
    readMessage (hdr :: d :: rest) = (.error .integrity, rest) := by
  have h0 : hdr ≠ [] := by intro e; subst e; simp [parseHeader] at hp
  simp [readMessage, h0, hp, hlen, toAdbMessage, hk, hne]

/-- an unknown command word is a protocol error (with or without payload) -/
theorem c13_rejects_unknown_command (hdr : List Nat) (r : Raw) (tail : List (List Nat))
    (hp : parseHeader hdr = some r) (hk : r.cmd ∉ cmds) (ht : r.len > 0 → tail ≠ []) :
    (readMessage (hdr :: tail)).1 = .error .protocol := by
  have h0 : hdr ≠ [] := by intro e; subst e; simp [parseHeader] at hp
  simp only [readMessage, h0, if_false, hp]
  split
  · rename_i hl
    cases tail with
    | nil => exact absurd rfl (ht hl)
    | cons d t => simp [toAdbMessage, hk]
  · simp [toAdbMessage, hk]

/-- an empty or short (or over-long) header is a protocol error -/
theorem c13_rejects_short_or_empty_header (hdr : List Nat) (tail : List (List Nat)) (h : hdr.length ≠ 24) :
    (readMessage (hdr :: tail)).1 = .error .protocol := by
  simp only [readMessage]
  split
  · rfl
  · have : parseHeader hdr = none := by
      unfold parseHeader
      split
      · simp at h
      · rfl
    simp [this]

/-- once the header went out the payload goes out too, expired timeout or not -/
theorem c13_payload_follows_header_even_if_expired (m : Msg) (expired : Bool) :
    writeMessage m expired = [header m, m.data] := rfl

/-! #### concurrent writers -/

theorem framed_append_hdr (i : Nat) : ∀ (l : List (Nat × Bool)), framed l = some none →
    framed (l ++ [(i, true)]) = some (some i)
  | [], _ => by simp [framed]
  | [(j, true)], h => by simp [framed] at h
  | (j, true) :: (k, false) :: rest, h => by
    simp only [framed] at h
    split at h
    · rename_i e; subst e
      simp only [List.cons_append, framed, if_true]
      exact framed_append_hdr i rest h
    · simp at h
  | (j, false) :: rest, h => by simp [framed] at h
  | (j, true) :: (k, true) :: rest, h => by simp [framed] at h

theorem framed_append_data (i : Nat) : ∀ (l : List (Nat × Bool)), framed l = some (some i) →
    framed (l ++ [(i, false)]) = some none
  | [], h => by simp [framed] at h
  | [(j, true)], h => by
    simp only [framed, Option.some.injEq] at h; subst h
    simp [framed]
  | (j, true) :: (k, false) :: rest, h => by
    simp only [framed] at h
    split at h
    · rename_i e; subst e
      simp only [List.cons_append, framed, if_true]
      exact framed_append_data i rest h
    · simp at h
  | (j, false) :: rest, h => by simp [framed] at h
  | (j, true) :: (k, true) :: rest, h => by simp [framed] at h

def WInv (s : WS) : Prop :=
  (∀ i, s.pc i ≠ 0 → s.holder = some i) ∧
  framed s.log = some (match s.holder with
    | some i => if s.pc i = 2 then some i else none
    | none => none)

theorem winv_step (s : WS) (a : WAct) (h : WInv s) : WInv (wstep s a) := by
  obtain ⟨hmx, hfr⟩ := h
  cases a with
  | acquire i =>
    simp only [wstep]
    split
    · rename_i hc
      refine ⟨?_, ?_⟩
      · intro j hj
        simp only [updPc] at hj
        split at hj
        · rename_i e; subst e; rfl
        · have := hmx j hj; rw [hc.1] at this; simp at this
      · simp only [updPc, if_true]
        rw [hfr, hc.1]; simp
    · exact ⟨hmx, hfr⟩
  | writeHdr i =>
    simp only [wstep]
    split
    · rename_i hc
      have hh : s.holder = some i := hmx i (by omega)
      refine ⟨?_, ?_⟩
      · intro j hj
        simp only [updPc] at hj
        split at hj
        · rename_i e; subst e; exact hh
        · exact hmx j hj
      · simp only [hh, updPc, if_true]
        rw [hh] at hfr; simp only [hc] at hfr
        exact framed_append_hdr i _ (by simpa using hfr)
    · exact ⟨hmx, hfr⟩
  | writeData i =>
    simp only [wstep]
    split
    · rename_i hc
      have hh : s.holder = some i := hmx i (by omega)
      refine ⟨?_, ?_⟩
      · intro j hj
        simp only [updPc] at hj
        split at hj
        · rename_i e; subst e; exact hh
        · exact hmx j hj
      · simp only [hh, updPc, if_true]
        rw [hh] at hfr; simp only [hc, if_true] at hfr
        simpa using framed_append_data i _ hfr
    · exact ⟨hmx, hfr⟩
  | release i =>
    simp only [wstep]
    split
    · rename_i hc
      have hh : s.holder = some i := hmx i (by omega)
      refine ⟨?_, ?_⟩
      · intro j hj
        simp only [updPc] at hj
        split at hj
        · simp at hj
        · rename_i ne
          have := hmx j hj; rw [hh] at this
          exact absurd (Option.some.inj this).symm ne
      · rw [hh] at hfr; simp only [hc] at hfr
        simpa using hfr
    · exact ⟨hmx, hfr⟩

/-- Under every interleaving of any number of writer threads, the sequence of transport writes is a
    concatenation of complete header·payload pairs, each pair from one thread, followed by at most
    one dangling header of the thread currently holding the writer lock: headers and payloads of
    concurrent writers never interleave. (`read_message` uses the same lock discipline with
    `_reader_lock`.) -/
theorem c13_writers_do_not_interleave (acts : List WAct) :
    framed (acts.foldl wstep {}).log ≠ none := by
  have : ∀ s, WInv s → WInv (acts.foldl wstep s) := by
    induction acts with
    | nil => intro s h; exact h
    | cons a as ih => intro s h; exact ih _ (winv_step s a h)
  have h := (this {} ⟨by intro i hi; simp at hi, by simp [framed]⟩).2
  rw [h]; simp

/-- non-vacuity: two writers really interleave their critical sections in the model -/
example : framed ([WAct.acquire 1, .acquire 2, .writeHdr 1, .writeHdr 2, .writeData 1, .release 1, .acquire 2,
    .writeHdr 2].foldl wstep {}).log = some (some 2) := by decide

/-! #### concurrent readers -/

def RInv (s : RS) : Prop :=
  (∀ i, s.pc i ≠ 0 → s.holder = some i) ∧
  ∃ st, s.log.foldl racc (some none) = some st ∧ ∀ i, s.pc i = 2 → st = some i

theorem rinv_step (s : RS) (a : RAct) (h : RInv s) : RInv (rstep s a) := by
  obtain ⟨hmx, st, hst, h2⟩ := h
  cases a with
  | acquire i =>
    simp only [rstep]
    split
    · rename_i hc
      refine ⟨?_, st, hst, ?_⟩
      · intro j hj
        simp only [updPc] at hj
        split at hj
        · rename_i e; subst e; rfl
        · have := hmx j hj; rw [hc.1] at this; simp at this
      · intro j hj
        simp only [updPc] at hj
        split at hj
        · simp at hj
        · exact h2 j hj
    · exact ⟨hmx, st, hst, h2⟩
  | readHdr i due =>
    simp only [rstep]
    split
    · rename_i hc
      have hh : s.holder = some i := hmx i (by omega)
      refine ⟨?_, some i, ?_, ?_⟩
      · intro j hj
        simp only [updPc] at hj
        split at hj
        · rename_i e; subst e; exact hh
        · exact hmx j hj
      · simp [List.foldl_append, hst, racc]
      · intro j hj
        simp only [updPc] at hj
        split at hj
        · rename_i e; subst e; rfl
        · have := hmx j (by omega); rw [hh] at this
          exact (Option.some.inj this) ▸ rfl
    · exact ⟨hmx, st, hst, h2⟩
  | readData i =>
    simp only [rstep]
    split
    · rename_i hc
      have hh : s.holder = some i := hmx i (by omega)
      have hs : st = some i := h2 i hc
      refine ⟨?_, none, ?_, ?_⟩
      · intro j hj
        simp only [updPc] at hj
        split at hj
        · rename_i e; subst e; exact hh
        · exact hmx j hj
      · simp [List.foldl_append, hst, hs, racc]
      · intro j hj
        simp only [updPc] at hj
        split at hj
        · simp at hj
        · rename_i ne
          have := hmx j (by omega); rw [hh] at this
          exact absurd (Option.some.inj this).symm ne
    · exact ⟨hmx, st, hst, h2⟩
  | release i =>
    simp only [rstep]
    split
    · rename_i hc
      have hh : s.holder = some i := hmx i hc
      refine ⟨?_, st, hst, ?_⟩
      · intro j hj
        simp only [updPc] at hj
        split at hj
        · simp at hj
        · rename_i ne
          have := hmx j hj; rw [hh] at this
          exact absurd (Option.some.inj this).symm ne
      · intro j hj
        simp only [updPc] at hj
        split at hj
        · simp at hj
        · exact h2 j hj
    · exact ⟨hmx, st, hst, h2⟩

theorem rinv_run (acts : List RAct) : RInv (acts.foldl rstep {}) := by
  have : ∀ s, RInv s → RInv (acts.foldl rstep s) := by
    induction acts with
    | nil => intro s h; exact h
    | cons a as ih => intro s h; exact ih _ (rinv_step s a h)
  exact this {} ⟨by intro i hi; simp at hi, none, rfl, by intro i hi; simp at hi⟩

/-- Under every interleaving of any number of reader threads — each may find a header without payload, a
    rejected header, or have either transport read raise — every payload read directly follows the header
    read of the same thread: no other thread's read falls between the header and the payload of a message,
    and at most one thread is inside `read_message`'s critical section. -/
theorem c13_readers_do_not_interleave (acts : List RAct) :
    rframed (acts.foldl rstep {}).log = true ∧
    (∀ i j, (acts.foldl rstep {}).pc i ≠ 0 → (acts.foldl rstep {}).pc j ≠ 0 → i = j) := by
  obtain ⟨hmx, st, hst, _⟩ := rinv_run acts
  refine ⟨by simp [rframed, hst], ?_⟩
  intro i j hi hj
  have a := hmx i hi; have b := hmx j hj
  rw [a] at b; exact Option.some.inj b

/-- non-vacuity: two readers alternate, one message without payload, one read failing mid-message -/
example : rframed ([RAct.acquire 1, .acquire 2, .readHdr 1 true, .readHdr 2 true, .readData 1, .release 1, .acquire 2,
    .readHdr 2 false, .release 2, .acquire 1, .readHdr 1 true, .release 1, .acquire 2, .readHdr 2 true,
    .readData 2].foldl rstep {}).log = true := by decide

/-- what the lock is for: without it (a reader entering while another is between header and payload)
    the acceptor rejects the log -/
example : rframed [(1, true), (2, true), (1, false)] = false := by decide

end OpenHTF.AdbFrame
