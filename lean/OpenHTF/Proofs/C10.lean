import OpenHTF.Model.Render
import OpenHTF.Model.PendingSet
/-
C10 — serialized (base-type) view equals the in-memory record: conversion closure and the
measurement caches, for every value of the family and every operation history.
-/
namespace OpenHTF.Render

/-- the conversion produces only base types -/
theorem c10_convert_base_types_closed (js : Bool) : ∀ (v : PyVal), isBase (convert js v) = true
  | .none => rfl
  | .bool _ => rfl
  | .int _ => rfl
  | .nonfinite f => by simp only [convert]; split <;> rfl
  | .str _ => rfl
  | .enum _ => rfl
  | .list l => by simp only [convert, isBase]; exact lst l
  | .tuple l => by simp only [convert, isBase]; exact lst l
  | .dict kvs => by simp only [convert, isBase]; exact kv kvs
where
  lst : ∀ (l : List PyVal), allBase (convertList js l) = true
    | [] => rfl
    | v :: vs => by simp only [convertList, allBase, c10_convert_base_types_closed js v, lst vs, Bool.and_self]
  kv : ∀ (kvs : List (String × PyVal)), allBaseKvs (convertKvs kvs) = true
    | [] => rfl
    | (k, v) :: kvs => by simp only [convertKvs, allBaseKvs, c10_convert_base_types_closed true v, kv kvs, Bool.and_self]

/-- with json_safe no NaN / Infinity leaf survives, at any depth (lists, tuples, dicts) -/
theorem c10_json_safe_no_nonfinite_leaves : ∀ (v : PyVal), finite (convert true v) = true
  | .none => rfl
  | .bool _ => rfl
  | .int _ => rfl
  | .nonfinite f => rfl
  | .str _ => rfl
  | .enum _ => rfl
  | .list l => by simp only [convert, finite]; exact lst l
  | .tuple l => by simp only [convert, finite]; exact lst l
  | .dict kvs => by simp only [convert, finite]; exact kv kvs
where
  lst : ∀ (l : List PyVal), allFinite (convertList true l) = true
    | [] => rfl
    | v :: vs => by simp only [convertList, allFinite, c10_json_safe_no_nonfinite_leaves v, lst vs, Bool.and_self]
  kv : ∀ (kvs : List (String × PyVal)), allFiniteKvs (convertKvs kvs) = true
    | [] => rfl
    | (k, v) :: kvs => by simp only [convertKvs, allFiniteKvs, c10_json_safe_no_nonfinite_leaves v, kv kvs, Bool.and_self]

/-- the rendering is a fixed point of the conversion: rendering a rendering changes nothing -/
theorem c10_convert_idempotent (js : Bool) : ∀ (v : PyVal), convert js (convert js v) = convert js v
  | .none => rfl
  | .bool _ => rfl
  | .int _ => rfl
  | .nonfinite f => by cases js <;> simp [convert]
  | .str _ => rfl
  | .enum _ => rfl
  | .list l => by simp only [convert]; rw [lst l]
  | .tuple l => by simp only [convert]; rw [lst l]
  | .dict kvs => by simp only [convert]; rw [kv kvs]
where
  lst : ∀ (l : List PyVal), convertList js (convertList js l) = convertList js l
    | [] => rfl
    | v :: vs => by simp only [convertList, c10_convert_idempotent js v, lst vs]
  kv : ∀ (kvs : List (String × PyVal)), convertKvs (convertKvs kvs) = convertKvs kvs
    | [] => rfl
    | (k, v) :: kvs => by
      simp only [convertKvs, kv kvs]
      rw [idem_true v]
  idem_true : ∀ (v : PyVal), convert true (convert true v) = convert true v
    | .none => rfl
    | .bool _ => rfl
    | .int _ => rfl
    | .nonfinite f => rfl
    | .str _ => rfl
    | .enum _ => rfl
    | .list l => by simp only [convert]; rw [lst_true l]
    | .tuple l => by simp only [convert]; rw [lst_true l]
    | .dict kvs => by simp only [convert]; rw [kv kvs]
  lst_true : ∀ (l : List PyVal), convertList true (convertList true l) = convertList true l
    | [] => rfl
    | v :: vs => by simp only [convertList, idem_true v, lst_true vs]

/-! #### cache coherence -/

/-- the caches agree with the in-memory objects -/
def Coh (m : MeasState) : Prop :=
  m.cachedOutcome = m.outcome ∧ m.cachedValue = m.stored.map (convert true) ∧
  (∀ rows, m.cachedRows = some rows → rows = freshRows m.entries)

theorem upsert_notfound (eqc : List PyVal → List PyVal → Bool) (c : List PyVal) (v : PyVal) :
    ∀ (l : List (List PyVal × PyVal)), (upsert c v eqc l).2 = false → (upsert c v eqc l).1 = l ++ [(c, v)]
  | [], _ => rfl
  | (c', v') :: rest, h => by
    simp only [upsert] at h ⊢
    split
    · rename_i he; simp [he] at h
    · rename_i he
      simp only [he, Bool.false_eq_true, if_false] at h
      simp [upsert_notfound eqc c v rest h]

theorem coh_step (eqc : List PyVal → List PyVal → Bool) (m : MeasState) (o : Op) (h : Coh m) : Coh (step eqc m o) := by
  obtain ⟨h1, h2, h3⟩ := h
  cases o with
  | set v oc => exact ⟨rfl, by simp [step], fun rows hr => h3 rows (by simpa [step] using hr)⟩
  | validate oc => exact ⟨rfl, h2, h3⟩
  | setDim c v =>
    refine ⟨rfl, h2, ?_⟩
    intro rows hr
    simp only [step] at hr ⊢
    cases hf : (upsert c v eqc m.entries).2
    · simp only [hf, Bool.false_eq_true, if_false] at hr
      cases hc : m.cachedRows with
      | none => simp [hc] at hr
      | some old =>
        simp only [hc, Option.map_some, Option.some.injEq] at hr
        rw [← hr, h3 old hc, upsert_notfound eqc c v m.entries hf]
        simp [freshRows]
    · simp [hf] at hr
  | read =>
    simp only [step]
    have key : Coh (basetypeValue m).2 := by
      unfold basetypeValue
      split
      · split
        · exact ⟨h1, h2, h3⟩
        · exact ⟨h1, h2, fun rows hr => by simp at hr; exact hr.symm⟩
      · exact ⟨h1, h2, h3⟩
    split
    · exact ⟨key.1, key.2.1, key.2.2⟩
    · exact key

theorem coh_run (eqc : List PyVal → List PyVal → Bool) : ∀ (ops : List Op) (m : MeasState), Coh m → Coh (ops.foldl (step eqc) m)
  | [], m, h => h
  | o :: os, m, h => coh_run eqc os _ (coh_step eqc m o h)

theorem basetypeValue_fresh (m : MeasState) (h : Coh m) :
    (basetypeValue m).1 = (renderFresh m).2 ∧ (basetypeValue m).2.entries = m.entries ∧
    (basetypeValue m).2.stored = m.stored ∧ (basetypeValue m).2.outcome = m.outcome ∧
    (basetypeValue m).2.dimensioned = m.dimensioned ∧ (basetypeValue m).2.cachedOutcome = m.cachedOutcome := by
  obtain ⟨h1, h2, h3⟩ := h
  unfold basetypeValue renderFresh
  cases hd : m.dimensioned
  · simp only [Bool.false_eq_true, if_false, h2]
    cases m.stored <;> simp [hd]
  · simp only [if_true]
    cases hc : m.cachedRows with
    | none => simp [hd]
    | some rows => simp [h3 rows hc, hd]

/-- Cache coherence: after ANY history of assignments, overrides, per-coordinate overrides, validations
    and reads of the live view, reading the base-type view gives exactly the from-scratch rendering of
    the in-memory measurement (value and outcome): never stale, pre-transform or missing data. -/
theorem c10_cache_coherent (eqc : List PyVal → List PyVal → Bool) (dimensioned : Bool) (ops : List Op) :
    let m := (ops ++ [Op.read]).foldl (step eqc) { dimensioned := dimensioned }
    renderCached m = renderFresh m ∨ ((renderFresh m).2 = none ∧ (renderCached m).1 = (renderFresh m).1) := by
  intro m
  have h0 : Coh ({ dimensioned := dimensioned } : MeasState) := ⟨rfl, rfl, fun rows hr => by simp at hr; simp [← hr, freshRows]⟩
  have hm : Coh (ops.foldl (step eqc) { dimensioned := dimensioned }) := coh_run eqc ops _ h0
  simp only [m, List.foldl_append, List.foldl_cons, List.foldl_nil]
  generalize ops.foldl (step eqc) { dimensioned := dimensioned } = s at hm
  have hb := basetypeValue_fresh s hm
  obtain ⟨b1, b2, b3, b4, b5, b6⟩ := hb
  simp only [step]
  cases hv : (basetypeValue s).1 with
  | none =>
    right
    simp only [renderFresh, renderCached, b2, b3, b4, b5, b6]
    rw [hv] at b1
    exact ⟨by simpa [renderFresh] using b1.symm, hm.1⟩
  | some v =>
    left
    rw [hv] at b1
    simp only [renderFresh, renderCached, b2, b3, b4, b5, b6, hm.1]
    simp only [renderFresh] at b1
    rw [← b1]

/-- non-vacuity: the fixed defect — a transformed dimensioned value, then an override, then a read -/
example :
    let eqc : List PyVal → List PyVal → Bool := fun a b => match a, b with | [.int x], [.int y] => x == y | _, _ => false
    let m := ([Op.setDim [.int 1] (.int 100), .read, .setDim [.int 2] (.nonfinite .nan), .setDim [.int 1] (.int 7), .read] : List Op).foldl
      (step eqc) { dimensioned := true }
    (renderCached m).1 = "PARTIALLY_SET" ∧ (renderCached m).2.isSome = true := by decide

end OpenHTF.Render

namespace OpenHTF.PendingSet

/-- every measurement whose cached rendering is out of date is accounted for: it is in the pending set, or in what the
    watcher still has to refresh, or the phase thread is just about to mark it; and the watcher holds a list only while
    it renders -/
structure Inv (s : S) : Prop where
  accounted : ∀ m, s.cached m = s.actual m ∨ m ∈ s.pend ∨ m ∈ s.wlist ∨ s.ppc = some m
  idleEmpty : s.wpc ≠ .rendering → s.wlist = []

theorem inv_init : Inv {} := ⟨fun _ => Or.inl rfl, fun _ => rfl⟩

theorem inv_step (s s' : S) (a : Act) (h : Inv s) (hs : step s a = some s') : Inv s' := by
  obtain ⟨h1, h2⟩ := h
  cases a with
  | store m v =>
    simp only [step] at hs
    split at hs <;> cases hs
    rename_i hp
    refine ⟨fun x => ?_, h2⟩
    by_cases hx : x = m
    · subst hx; right; right; right; rfl
    · rcases h1 x with a | a | a | a
      · left; simpa [updN, hx] using a
      · right; left; exact a
      · right; right; left; exact a
      · rw [hp] at a; cases a
  | mark =>
    simp only [step] at hs
    split at hs <;> cases hs
    rename_i m hm
    refine ⟨fun x => ?_, h2⟩
    rcases h1 x with a | a | a | a
    · left; exact a
    · right; left; exact List.mem_cons_of_mem _ a
    · right; right; left; exact a
    · rw [hm] at a; cases a; right; left; exact List.mem_cons_self
  | wStart =>
    simp only [step] at hs
    split at hs <;> cases hs
    rename_i hi
    exact ⟨h1, fun _ => h2 (by rw [hi]; decide)⟩
  | wSwap =>
    simp only [step] at hs
    split at hs <;> cases hs
    rename_i ha
    have hw : s.wlist = [] := h2 (by rw [ha]; decide)
    refine ⟨fun x => ?_, fun hn => absurd rfl hn⟩
    rcases h1 x with a | a | a | a
    · left; exact a
    · right; right; left; exact a
    · rw [hw] at a; cases a
    · right; right; right; exact a
  | wRender =>
    simp only [step] at hs
    split at hs
    · rename_i hr
      split at hs <;> cases hs
      rename_i m rest hw
      refine ⟨fun x => ?_, fun hn => absurd hr hn⟩
      by_cases hx : x = m
      · subst hx; left; simp [updN]
      · rcases h1 x with a | a | a | a
        · left; simpa [updN, hx] using a
        · right; left; exact a
        · right; right; left
          rw [hw] at a
          rcases List.mem_cons.1 a with e | e
          · exact absurd e hx
          · exact e
        · right; right; right; exact a
    · cases hs
  | wDone =>
    simp only [step] at hs
    split at hs <;> cases hs
    rename_i hd
    exact ⟨h1, fun _ => hd.2⟩

theorem inv_run : ∀ (as : List Act) (s s' : S), Inv s → run s as = some s' → Inv s'
  | [], s, s', h, hr => by simp [run] at hr; subst hr; exact h
  | a :: as, s, s', h, hr => by
    simp only [run] at hr
    split at hr
    · cases hr
    · rename_i s1 hs1
      exact inv_run as s1 s' (inv_step s s1 a h hs1) hr

/-- C10 (live view under concurrent rendering): under EVERY interleaving of the phase thread's assignments with a
    watcher thread's renderings, no update is ever lost: a measurement whose cached rendering is stale is still pending,
    still on the watcher's list, or about to be marked -/
theorem c10_live_view_never_loses_an_update (as : List Act) (s : S) (hr : run {} as = some s) (m : Nat) :
    s.cached m = s.actual m ∨ m ∈ s.pend ∨ m ∈ s.wlist ∨ s.ppc = some m :=
  (inv_run as {} s inv_init hr).accounted m

/-- … so that whenever things are quiet (nothing pending, no rendering in progress, no assignment half done) the live
    view shows the current value of every measurement -/
theorem c10_quiescent_live_view_is_current (as : List Act) (s : S) (hr : run {} as = some s)
    (hq : s.pend = [] ∧ s.wlist = [] ∧ s.ppc = none) (m : Nat) : s.cached m = s.actual m := by
  rcases c10_live_view_never_loses_an_update as s hr m with a | a | a | a
  · exact a
  · rw [hq.1] at a; cases a
  · rw [hq.2.1] at a; cases a
  · rw [hq.2.2] at a; cases a

/-- … and a watcher can always finish: one more full rendering pass after the last assignment empties everything -/
theorem c10_render_pass_refreshes (s : S) (m : Nat) (rest : List Nat) (hw : s.wpc = .rendering) (hl : s.wlist = m :: rest) :
    step s .wRender = some { s with cached := updN s.cached m (s.actual m), wlist := rest } ∧
      updN s.cached m (s.actual m) m = s.actual m := by
  constructor
  · simp [step, hw, hl]
  · simp [updN]

/-- iterating a snapshot and clearing afterwards is NOT safe: an assignment made while the watcher renders is wiped from
    the pending set without being refreshed, and the quiet state shows a stale value -/
theorem clear_after_iterate_loses_an_update :
    ∃ s, crun {} [.store 1 5, .mark, .wSnap, .store 2 7, .mark, .wRender, .wClear] = some s ∧
      s.pend = [] ∧ s.wlist = [] ∧ s.ppc = none ∧ s.cached 2 ≠ s.actual 2 := by
  refine ⟨_, rfl, ?_⟩
  decide

example : ∃ s, run {} [.store 1 5, .mark, .wStart, .store 2 7, .mark, .wSwap, .wRender, .wRender, .wDone] = some s ∧
    s.cached 1 = 5 ∧ s.cached 2 = 7 := by
  refine ⟨_, rfl, ?_⟩
  decide

end OpenHTF.PendingSet
