import OpenHTF.Model.Kill
/-
C12 — thread kill (all interleavings of any number of kill() callers with the target thread's
start / lock / body / handlers / exit) and the deadline-polling join (all durations, deadlines, poll
intervals).
-/
namespace OpenHTF.Kill

/-! ### kill -/

def KInv (s : S) (k : Nat) : Prop :=
  let kk := s.ks k
  (kk.pc = 0 ∨ kk.pc = 1 ∨ kk.pc = 2 ∨ kk.pc = 3 ∨ kk.pc = 4 ∨ kk.pc = 9) ∧
  (1 ≤ kk.pc → s.t.killed = true) ∧
  -- a kill requested after the body returned never gets as far as raising
  (kk.afterBody = true → kk.pc ≠ 3 ∧ kk.pc ≠ 4) ∧
  (kk.afterBody = true → 1 ≤ kk.pc ∧ 4 ≤ s.t.pc) ∧
  -- a killer that saw the body running was called while the thread was already started
  ((kk.pc = 3 ∨ kk.pc = 4) → 2 ≤ s.t.pc)

def TInv (s : S) : Prop :=
  (s.t.pc ≤ 5) ∧
  (s.t.killedBeforeStart = true → s.t.killed = true ∧ s.t.bodyRan = false) ∧
  (s.t.pc ≤ 2 → s.t.bodyRan = false) ∧
  (s.t.pc = 0 → s.t.pending = false ∧ s.t.raises = 0 ∧ s.t.killedBeforeStart = false) ∧
  (s.t.pending = true → 1 ≤ s.t.raises) ∧
  ((s.t.raisedInBody = true ∨ s.t.raisedInHandlers = true) → 1 ≤ s.t.raises) ∧
  (s.t.raisedInBody = true → s.t.bodyRan = true) ∧
  (s.t.pending = true → 2 ≤ s.t.pc) ∧
  (s.t.pc = 3 → s.t.bodyRan = true)

/-- an effective raise was issued by a kill() that was requested while the body had not yet returned -/
def RInv (s : S) : Prop := 1 ≤ s.t.raises → ∃ k, (s.ks k).pc ≠ 0 ∧ (s.ks k).afterBody = false

def Inv (s : S) : Prop := TInv s ∧ (∀ k, KInv s k) ∧ RInv s

theorem inv_init : Inv {} := by
  refine ⟨by simp [TInv], fun k => by simp [KInv], by simp [RInv]⟩

/-- actions of the target thread do not touch the killers -/
theorem rinv_of_ks_eq (s s' : S) (h : RInv s) (hk : s'.ks = s.ks) (hr : s'.t.raises = s.t.raises) : RInv s' := by
  simp only [RInv] at *; rw [hk, hr]; exact h

theorem inv_step (s s' : S) (a : Act) (h : Inv s) (hs : step s a = some s') : Inv s' := by
  obtain ⟨ht, hk, hr⟩ := h
  cases a with
  | start | tAcq | tBody | tBodyEnd | tHandler | tFinish =>
    simp only [step] at hs
    split at hs
    · cases hs
      refine ⟨by simp only [TInv] at *; grind, fun k => ?_, rinv_of_ks_eq _ _ hr rfl rfl⟩
      have := hk k
      simp only [KInv] at *; grind
    · cases hs
  | tCheck =>
    simp only [step] at hs
    split at hs
    · split at hs <;> cases hs
      · refine ⟨by simp only [TInv] at *; grind, fun k => ?_, rinv_of_ks_eq _ _ hr rfl rfl⟩
        have := hk k
        simp only [KInv] at *; grind
      · refine ⟨by simp only [TInv] at *; grind, fun k => ?_, rinv_of_ks_eq _ _ hr rfl rfl⟩
        have := hk k
        simp only [KInv] at *; grind
    · cases hs
  | tDeliver =>
    simp only [step] at hs
    split at hs
    · split at hs
      · cases hs
        refine ⟨by simp only [TInv] at *; grind, fun k => ?_, rinv_of_ks_eq _ _ hr rfl rfl⟩
        have := hk k
        simp only [KInv] at *; grind
      · split at hs <;> cases hs
        · refine ⟨by simp only [TInv] at *; grind, fun k => ?_, rinv_of_ks_eq _ _ hr rfl rfl⟩
          have := hk k
          simp only [KInv] at *; grind
        · refine ⟨by simp only [TInv] at *; grind, fun k => ?_, rinv_of_ks_eq _ _ hr rfl rfl⟩
          have := hk k
          simp only [KInv] at *; grind
    · cases hs
  | kSet i =>
    simp only [step] at hs
    split at hs
    · rename_i hpc
      cases hs
      refine ⟨by simp only [TInv] at *; grind, fun k => ?_, ?_⟩
      · have hk' := hk k
        have hi := hk i
        simp only [KInv, updK] at *
        by_cases hki : k = i
        · subst hki; simp only [if_true]; grind
        · simp only [hki, if_false]; grind
      · intro h1
        obtain ⟨w, hw0, hwa⟩ := hr h1
        refine ⟨w, ?_⟩
        have : w ≠ i := fun e => hw0 (e ▸ hpc)
        simp [updK, this, hw0, hwa]
    · cases hs
  | kAlive i | kTry i | kRaiseCheck i =>
    simp only [step] at hs
    split at hs
    · rename_i hpc
      cases hs
      refine ⟨ht, fun k => ?_, ?_⟩
      · have hk' := hk k
        have hi := hk i
        simp only [KInv, updK, alive, lockHeld] at *
        by_cases hki : k = i
        · subst hki; simp only [if_true]; grind
        · simp only [hki, if_false]; exact hk'
      · intro h1
        obtain ⟨w, hw0, hwa⟩ := hr h1
        refine ⟨w, ?_⟩
        by_cases hwi : w = i
        · subst hwi; simp only [updK, if_true]; refine ⟨?_, hwa⟩; split <;> omega
        · simp [updK, hwi, hw0, hwa]
    · cases hs
  | kRaise i =>
    simp only [step] at hs
    split at hs
    · rename_i hpc
      cases hs
      have hi := hk i
      refine ⟨?_, fun k => ?_, ?_⟩
      · simp only [TInv, KInv, alive] at *; grind
      · have hk' := hk k
        simp only [KInv, updK, alive] at *
        by_cases hki : k = i
        · subst hki; simp only [if_true]; grind
        · simp only [hki, if_false]; grind
      · intro _
        refine ⟨i, ?_⟩
        simp only [KInv] at hi
        have hna : (s.ks i).afterBody = false := by
          cases hab : (s.ks i).afterBody with
          | false => rfl
          | true => exact absurd hpc (hi.2.2.1 hab).2
        simp [updK, hna]
    · cases hs

theorem inv_run : ∀ (as : List Act) (s s' : S), Inv s → run s as = some s' → Inv s'
  | [], s, s', h, hr => by simp [run] at hr; subst hr; exact h
  | a :: as, s, s', h, hr => by
    simp only [run] at hr
    cases hst : step s a with
    | none => simp [hst] at hr
    | some s1 => simp [hst] at hr; exact inv_run as s1 s' (inv_step s s1 a h hst) hr

/-- C12: a kill requested before the thread was started prevents its body from ever running, under
    every interleaving and whatever happens later. -/
theorem c12_kill_before_start_no_body (as : List Act) (s : S) (hr : run {} as = some s)
    (h : s.t.killedBeforeStart = true) : s.t.bodyRan = false :=
  ((inv_run as {} s inv_init hr).1.2.1 h).2

/-- the flag seen at start is the flag: if any kill() had set `_killed` before `start`, it is recorded -/
theorem c12_killed_flag_never_cleared (s s' : S) (a : Act) (hs : step s a = some s')
    (h : s.t.killed = true) : s'.t.killed = true := by
  cases a <;> simp only [step] at hs <;> (repeat' (split at hs)) <;> (try cases hs) <;>
    (try simp_all) <;> (try (split <;> simp_all))

/-- a kill() that is requested after the body returned (handlers running, or thread finished) never
    issues an asynchronous exception: it returns at the is-alive or at the running-lock test. -/
theorem c12_kill_after_body_no_raise (as : List Act) (s : S) (hr : run {} as = some s) (k : Nat)
    (h : (s.ks k).afterBody = true) : (s.ks k).pc ≠ 3 ∧ (s.ks k).pc ≠ 4 :=
  ((inv_run as {} s inv_init hr).2.1 k).2.2.1 h

/-- every SetAsyncExc that takes effect is performed by a kill() that saw the body running, and no
    exception is ever pending or delivered without one -/
theorem c12_no_exception_without_effective_raise (as : List Act) (s : S) (hr : run {} as = some s) :
    (s.t.pending = true ∨ s.t.raisedInBody = true ∨ s.t.raisedInHandlers = true) → 1 ≤ s.t.raises := by
  have h := (inv_run as {} s inv_init hr).1
  rintro (hp | hb | hh)
  · exact h.2.2.2.2.1 hp
  · exact h.2.2.2.2.2.1 (Or.inl hb)
  · exact h.2.2.2.2.2.1 (Or.inr hh)

/-- if every kill() was requested after the body returned, nothing is ever raised anywhere -/
theorem c12_kills_after_body_have_no_effect (as : List Act) (s : S) (hr : run {} as = some s)
    (hall : ∀ k, (s.ks k).pc = 0 ∨ (s.ks k).afterBody = true) :
    s.t.raises = 0 ∧ s.t.pending = false ∧ s.t.raisedInBody = false ∧ s.t.raisedInHandlers = false := by
  have hr3 := (inv_run as {} s inv_init hr).2.2
  have h0 : s.t.raises = 0 := by
    cases hz : s.t.raises with
    | zero => rfl
    | succ n =>
      obtain ⟨w, hw0, hwa⟩ := hr3 (by omega)
      cases hall w with
      | inl h => exact absurd h hw0
      | inr h => simp [h] at hwa
  have hi := (inv_run as {} s inv_init hr).1
  refine ⟨h0, ?_, ?_, ?_⟩
  · cases hp : s.t.pending with
    | false => rfl
    | true => have := hi.2.2.2.2.1 hp; omega
  · cases hp : s.t.raisedInBody with
    | false => rfl
    | true => have := hi.2.2.2.2.2.1 (Or.inl hp); omega
  · cases hp : s.t.raisedInHandlers with
    | false => rfl
    | true => have := hi.2.2.2.2.2.1 (Or.inr hp); omega

/-- a kill that finds the body running makes the exception pending, and it surfaces at the target's
    very next step: no body step is possible while it is pending -/
theorem c12_pending_exception_preempts_body (s : S) (h : s.t.pending = true) :
    step s .tBody = none ∧ step s .tBodyEnd = none ∧ step s .tHandler = none ∧ step s .tFinish = none := by
  simp [step, h]

/-- non-vacuity: kill while the body runs terminates the body -/
example : ∃ s, run {} [.start, .tAcq, .tCheck, .tBody, .kSet 0, .kAlive 0, .kTry 0, .kRaiseCheck 0, .kRaise 0, .tDeliver] = some s ∧
    s.t.raisedInBody = true ∧ s.t.pc = 4 := ⟨_, rfl, by decide, by decide⟩

/-- non-vacuity: the straddling kill (body seen running, body returns, then the raise) lands in the handlers -
    this is why the property only speaks of kills *requested* after the body returned -/
example : ∃ s, run {} [.start, .tAcq, .tCheck, .kSet 0, .kAlive 0, .kTry 0, .tBodyEnd, .kRaiseCheck 0, .kRaise 0, .tDeliver] = some s ∧
    s.t.raisedInHandlers = true := ⟨_, rfl, by decide⟩

/-! ### join_or_die -/

theorem fuel_enough (timeout interval : Nat) (hi : 0 < interval) :
    timeout ≤ 0 + (timeout + 1) * interval := by
  have h1 : timeout ≤ timeout * interval := Nat.le_mul_of_pos_right _ hi
  have h2 : (timeout + 1) * interval = timeout * interval + interval := by rw [Nat.add_mul]; simp
  omega

theorem joinLoop_own_of_lt (fuel now deadline interval dv h : Nat) (tie : Bool)
    (hf : deadline ≤ now + fuel * interval) (hn : now ≤ deadline) (hd : dv < deadline) :
    (joinLoop fuel now deadline interval (some dv) h tie).1 = .own := by
  induction fuel generalizing now with
  | zero =>
    have : dv < now := by simp at hf; omega
    simp [joinLoop, joinExit, this]
  | succ fuel ih =>
    simp only [joinLoop]
    have hmul : (fuel + 1) * interval = fuel * interval + interval := by rw [Nat.add_mul]; simp
    split
    · split
      · rfl
      · apply ih <;> omega
    · have : dv < now := by omega
      simp [joinExit, this]

/-- C12: a body that returns before its deadline is never reported as timed out, for every duration,
    deadline, poll interval, handler duration and tie-break. -/
theorem c12_no_false_timeout (timeout interval dv h : Nat) (tie : Bool) (hi : 0 < interval) (hd : dv < timeout) :
    (joinOrDie timeout interval (some dv) h tie).1 = .own := by
  unfold joinOrDie
  exact joinLoop_own_of_lt _ _ _ _ _ _ _ (fuel_enough _ _ hi) (by omega) hd

theorem joinExit_time (now : Nat) (d : Option Nat) (tie : Bool) : (joinExit now d tie).2 = now := by
  unfold joinExit; cases d with
  | none => rfl
  | some dv => simp only; split <;> rfl

theorem joinLoop_time_bound (fuel now deadline interval h : Nat) (d : Option Nat) (tie : Bool)
    (hf : deadline ≤ now + fuel * interval) (hn : now ≤ deadline) :
    (joinLoop fuel now deadline interval d h tie).2 ≤ deadline := by
  induction fuel generalizing now with
  | zero => simp only [joinLoop, joinExit_time]; exact hn
  | succ fuel ih =>
    simp only [joinLoop]
    have hmul : (fuel + 1) * interval = fuel * interval + interval := by rw [Nat.add_mul]; simp
    split
    · rename_i hlt
      cases d with
      | none => simp only; apply ih <;> omega
      | some dv =>
        simp only
        split
        · rename_i hc; simp only; omega
        · apply ih <;> omega
    · rw [joinExit_time]; exact hn

/-- C12: the executor proceeds no later than the deadline, even if the body never returns (no join waits
    beyond the deadline) -/
theorem c12_bounded_delay (timeout interval h : Nat) (d : Option Nat) (tie : Bool) (hi : 0 < interval) :
    (joinOrDie timeout interval d h tie).2 ≤ timeout := by
  unfold joinOrDie
  exact joinLoop_time_bound _ _ _ _ _ _ _ (fuel_enough _ _ hi) (by omega)

theorem joinLoop_never_returns (fuel now deadline interval h : Nat) (tie : Bool) :
    (joinLoop fuel now deadline interval none h tie).1 = .timeout := by
  induction fuel generalizing now with
  | zero => rfl
  | succ fuel ih => simp only [joinLoop]; split <;> simp [ih, joinExit]

/-- a body that never returns is reported as a timeout -/
theorem c12_hung_body_times_out (timeout interval h : Nat) (tie : Bool) :
    (joinOrDie timeout interval none h tie).1 = .timeout := joinLoop_never_returns _ _ _ _ _ _

theorem joinLoop_timeout_only_late (fuel now deadline interval dv h : Nat) (tie : Bool)
    (hres : (joinLoop fuel now deadline interval (some dv) h tie).1 = .timeout)
    (hf : deadline ≤ now + fuel * interval) (hn : now ≤ deadline) : deadline ≤ dv := by
  false_or_by_contra
  rename_i hlt
  have := joinLoop_own_of_lt fuel now deadline interval dv h tie hf hn (by omega)
  rw [this] at hres; cases hres

/-- C12: TIMEOUT is only ever reported for a body still running at its deadline -/
theorem c12_timeout_only_if_still_running_at_deadline (timeout interval dv h : Nat) (tie : Bool) (hi : 0 < interval)
    (hres : (joinOrDie timeout interval (some dv) h tie).1 = .timeout) : timeout ≤ dv := by
  unfold joinOrDie at hres
  exact joinLoop_timeout_only_late _ 0 timeout interval dv h tie hres (fuel_enough _ _ hi) (by omega)

theorem joinLoop_late_times_out (fuel now deadline interval dv h : Nat) (tie : Bool)
    (hn : now ≤ deadline) (hd : deadline < dv) :
    (joinLoop fuel now deadline interval (some dv) h tie).1 = .timeout := by
  induction fuel generalizing now with
  | zero =>
    have h1 : ¬ dv < now := by omega
    have h2 : ¬ dv = now := by omega
    simp [joinLoop, joinExit, h1, h2]
  | succ fuel ih =>
    simp only [joinLoop]
    split
    · have h1 : ¬ dv + h < min (now + interval) deadline := by omega
      have h2 : ¬ dv + h = min (now + interval) deadline := by omega
      simp only [h1, h2, false_and, or_self, if_false]
      apply ih; omega
    · have h1 : ¬ dv < now := by omega
      have h2 : ¬ dv = now := by omega
      simp [joinExit, h1, h2]

/-- C12: a body still running when its timeout expires is reported as TIMEOUT, whatever the poll interval
    (also a time-out shorter than the interval, and a body that would have returned before the next poll) -/
theorem c12_still_running_at_deadline_times_out (timeout interval dv h : Nat) (tie : Bool) (hd : timeout < dv) :
    (joinOrDie timeout interval (some dv) h tie).1 = .timeout := by
  unfold joinOrDie
  exact joinLoop_late_times_out _ 0 timeout interval dv h tie (by omega) hd

/-- the join that waited a whole interval regardless of the deadline (before the `fix:` commit) let a body
    that overran its time-out keep its result: time-out 1, interval 3, body returns at 2 -/
example : (joinOrDie 1 3 (some 2) 0 false).1 = .timeout := by decide

/-- the default timeout, DEFAULT_PHASE_TIMEOUT_S regenerated from the source, is the documented 180 s -/
theorem c12_default_timeout : effectiveTimeoutS none = 180 ∧
    ∀ t, effectiveTimeoutS (some t) = t := ⟨by decide, fun _ => rfl⟩

example : joinOrDie 10 3 (some 9) 0 false = (.own, 9) := by decide
example : joinOrDie 10 3 (some 11) 0 false = (.timeout, 10) := by decide   -- overran its time-out: the last join ends at the deadline
example : joinOrDie 10 3 (some 13) 0 false = (.timeout, 10) := by decide
-- the body returned at 9 < 10 but its thread lives until 14: the outcome recorded at 9 is what counts
example : joinOrDie 10 3 (some 9) 5 false = (.own, 10) := by decide
example : joinOrDie 0 3 none 0 false = (.timeout, 0) := by decide

/-! #### the lock probe -/

/-- before the fix: with the target past its body (the lock is free) two killers probing at the same time —
    the second try-acquire falls between the first killer's acquire and release — make the second one
    conclude that the body is running: it goes on to raise the exception in a thread that is in its handlers -/
theorem probe_by_acquire_misleads_a_second_killer :
    (([ProbeAct.tryAcquire 0, .tryAcquire 1, .release 0].foldl probeStep {}).sawRunning 1 = some true) ∧
    (([ProbeAct.tryAcquire 0, .tryAcquire 1, .release 0].foldl probeStep {}).sawRunning 0 = some false) := by
  constructor <;> rfl

/-- the probe that only reads the lock says "running" exactly when somebody holds it, and nobody but the
    target ever takes it (`kTry` of the transition system above is this read) -/
theorem c12_locked_probe_is_the_targets_hold (t : T) :
    lockedProbe (if lockHeld t then some 0 else none) = lockHeld t := by
  cases h : lockHeld t <;> simp [lockedProbe]


end OpenHTF.Kill
