import OpenHTF.Model.TestObject
import OpenHTF.Model.TestObjectConc
import OpenHTF.Proofs.C08
/-
C09 — execute() hands the record to every callback exactly once; the Test object is deregistered
afterwards and refuses overlapping execute() calls.
-/
namespace OpenHTF.Plugs
open OpenHTF.Exec

def NoCb (evs : List Ev) : Prop := ∀ e ∈ evs, isCallback e = false

theorem NoCb.append {a b : List Ev} (ha : NoCb a) (hb : NoCb b) : NoCb (a ++ b) := by
  intro e he; rcases List.mem_append.mp he with h | h
  · exact ha e h
  · exact hb e h

theorem tearDown_noCb (s : PSt) (h : NoCb s.events) : NoCb (tearDownPlugs s).events := by
  apply h.append; intro e he; simp only [List.mem_map] at he; obtain ⟨c, _, rfl⟩ := he; rfl

theorem init_noCb (b : PlugBeh) : ∀ (cs : List Nat) (s : PSt), NoCb s.events → NoCb (initializePlugs cs b s).1.events
  | [], s, h => by simpa [initializePlugs] using h
  | c :: cs, s, h => by
    simp only [initializePlugs]
    split
    · exact init_noCb b cs s h
    · split
      · apply tearDown_noCb
        exact h.append (by intro e he; simp at he; subst he; rfl)
      · apply init_noCb b cs
        exact h.append (by intro e he; simp at he; subst he; rfl)

theorem sync_noCb (p : PSt) (a b : St) (hx : Ext a b) (h : NoCb p.events) : NoCb (sync p a b).events := by
  obtain ⟨es, he, _, hq⟩ := sync_events p a b hx
  rw [he]
  apply h.append
  intro e hm
  have := hq e hm
  cases e <;> simp_all [isExecEv, isCallback]

theorem runStart_noCb (cfg : Cfg) (r : Run) : NoCb (runStart cfg r).1.events := by
  have h0 : NoCb ({} : PSt).events := by intro e he; simp at he
  unfold runStart
  cases r.test.testStart with
  | none => exact h0
  | some ph =>
    simp only
    have hi := init_noCb r.beh r.startPlugs {} h0
    split
    · exact hi
    · have := sync_noCb _ {} (executePhase cfg ph none {}).1 (loop_ext cfg ph none _ _ 1 {}) hi
      split <;> exact this

/-- C09: every registered output callback is called exactly once, in registration order, after
    everything else of the run — whichever of them raise (`r.callbacks` only contributes its length) -/
theorem c09_callbacks_once_in_order (cfg : Cfg) (r : Run) :
    ∃ before, (execute cfg r).events = before ++ (List.range r.callbacks.length).map Ev.callback ∧ NoCb before := by
  unfold execute
  simp only
  have hs := runStart_noCb cfg r
  split
  · exact ⟨_, rfl, tearDown_noCb _ hs⟩
  · have hi := init_noCb r.beh r.allPlugs _ hs
    split
    · exact ⟨_, rfl, tearDown_noCb _ hi⟩
    · refine ⟨_, rfl, tearDown_noCb _ ?_⟩
      have := sync_noCb _ (runStart cfg r).2.1 (execAb cfg r.test.nodes none (runStart cfg r).2.1).1
        (exec_ext.execAb_ext cfg r.test.nodes none _) hi
      exact this.append (by
        intro e he; simp only [testDiagEvents, List.mem_map] at he; obtain ⟨j, _, rfl⟩ := he; rfl)

/-- C09: raising callbacks change nothing about the run -/
theorem c09_raising_callbacks_do_not_matter (cfg : Cfg) (r : Run) (cbs : List Bool) (h : cbs.length = r.callbacks.length) :
    execute cfg { r with callbacks := cbs } = execute cfg r := by
  simp only [execute, runStart, finishRun, h]

/-- C09: execute() returns True iff the outcome is PASS -/
theorem c09_returns_true_iff_pass (cfg : Cfg) (r : Run) :
    (execute cfg r).returned = true ↔ (execute cfg r).outcome = .pass := by
  unfold execute
  simp only
  split
  · simp [finishRun]
  · split <;> simp [finishRun]

end OpenHTF.Plugs

namespace OpenHTF.TestObject

/-- handlers and registration track "an execute is in progress" -/
def Inv (s : TS) : Prop := s.handlers = (if s.running then 1 else 0) ∧ s.registered = s.running

theorem inv_step (s : TS) (o : Op) (h : Inv s) : Inv (step s o).1 := by
  obtain ⟨h1, h2⟩ := h
  cases o <;> simp only [step] <;> split <;> simp_all [Inv]

theorem inv_run : ∀ (ops : List Op) (s : TS), Inv s → Inv (run s ops).1
  | [], s, h => h
  | o :: os, s, h => by simp only [run]; exact inv_run os _ (inv_step s o h)

/-- C09: after any history of repeated / overlapping execute() calls on one Test object: whenever no
    execute is in progress the Test holds no executor, is not registered for SIGINT and its record log
    handler is removed (so it can be executed again); while one is in progress exactly one handler is
    attached. -/
theorem c09_deregistered_after (ops : List Op) :
    let s := (run {} ops).1
    (s.running = false → s.registered = false ∧ s.handlers = 0) ∧ (s.running = true → s.handlers = 1) := by
  have h := inv_run ops {} (by simp [Inv])
  obtain ⟨h1, h2⟩ := h
  constructor <;> intro hr <;> simp_all

/-- C09: an execute() overlapping a running one is refused and changes nothing -/
theorem c09_overlap_refused (s : TS) (h : s.running = true) : step s .begin = (s, .refused) := by
  simp [step, h]

/-- C09: and after the running one returned the Test can be executed again -/
theorem c09_reexecutable (s : TS) (h : s.running = true) : (step (step s .finish).1 .begin).2 = .started := by
  simp [step, h]

example : (run {} [.begin, .begin, .finish, .begin, .finish]).2 = [.started, .refused, .returned, .started, .returned] := by decide

end OpenHTF.TestObject

namespace OpenHTF.TestObjectConc

/-- the lock and the executor slot agree with the program counters -/
structure Inv (s : S) : Prop where
  lockOwner : ∀ t, s.lock = some t ↔ (s.pc t = .inLock ∨ s.pc t = .creating ∨ s.pc t = .started)
  execOwner : ∀ t, s.exec = some t ↔ (s.pc t = .started ∨ s.pc t = .running)
  creatingFree : ∀ t, s.pc t = .creating → s.exec = none
  liveCount : s.live = (if s.exec.isSome then 1 else 0)
  maxOne : s.maxLive ≤ 1

theorem inv_init : Inv {} := by
  constructor <;> simp

theorem inv_step (s s' : S) (a : Act) (h : Inv s) (hs : step s a = some s') : Inv s' := by
  obtain ⟨h1, h2, h3, h4, h5⟩ := h
  cases a <;> simp only [step] at hs <;> (repeat' split at hs) <;> (try cases hs) <;> constructor
  all_goals (try simp only [upd])
  all_goals (try simp only [Option.not_isSome_iff_eq_none] at *)
  all_goals (try (intro x; by_cases hx : x = _ <;> (try subst hx) <;> grind (splits := 30)))
  all_goals (try grind (splits := 30))

theorem inv_run : ∀ (as : List Act) (s s' : S), Inv s → run s as = some s' → Inv s'
  | [], s, s', h, hr => by simp [run] at hr; subst hr; exact h
  | a :: as, s, s', h, hr => by
    simp only [run] at hr
    split at hr
    · cases hr
    · rename_i s1 hs1
      exact inv_run as s1 s' (inv_step s s1 a h hs1) hr

/-- C09 (overlapping execute() from several threads): under EVERY interleaving of any number of threads calling
    execute() on one Test object, at most one executor of that Test is alive at a time: two threads are never both
    between creating their executor and clearing it. -/
theorem c09_at_most_one_execution_at_a_time (as : List Act) (s : S) (hr : run {} as = some s) (t u : Nat)
    (ht : active s t = true) (hu : active s u = true) : t = u := by
  have h := inv_run as {} s inv_init hr
  have e1 : s.exec = some t := (h.execOwner t).2 (by simp [active] at ht; exact ht)
  have e2 : s.exec = some u := (h.execOwner u).2 (by simp [active] at hu; exact hu)
  rw [e1] at e2; exact Option.some.inj e2

/-- … and the ghost high-water mark of live executors never exceeds one -/
theorem c09_live_executors_le_one (as : List Act) (s : S) (hr : run {} as = some s) : s.maxLive ≤ 1 ∧ s.live ≤ 1 := by
  have h := inv_run as {} s inv_init hr
  refine ⟨h.maxOne, ?_⟩
  rw [h.liveCount]; split <;> omega

/-- C09: a thread that looks at the executor slot while another thread's executor is alive is refused, and the
    refusal changes nothing but releasing the lock -/
theorem c09_concurrent_overlap_refused (s : S) (t u : Nat) (hu : active s u = true) (ht : s.pc t = .inLock)
    (h : Inv s) : step s (.check t) =
      some { s with pc := upd s.pc t .idle, lock := none, refused := s.refused + 1 } := by
  have e : s.exec = some u := (h.execOwner u).2 (by simp [active] at hu; exact hu)
  simp [step, ht, e]

/-- the check-before-the-lock variant is NOT safe: two threads both pass the check, then both create an executor -/
theorem unlocked_check_lets_two_executions_overlap :
    ∃ s, urun {} [.check 0, .check 1, .acquire 0, .create 0, .release 0, .acquire 1, .create 1] = some s ∧ s.maxLive = 2 := by
  refine ⟨_, rfl, ?_⟩
  decide

example : ∃ s, run {} [.enter 0, .enter 1, .acquire 0, .check 0, .create 0, .release 0, .acquire 1, .check 1, .finish 0,
    .enter 1, .acquire 1, .check 1, .create 1, .release 1, .finish 1] = some s ∧ s.refused = 1 ∧ s.completed = 2 := by
  refine ⟨_, rfl, ?_⟩
  decide

end OpenHTF.TestObjectConc
