import OpenHTF.Model.AtomicFile
/-
C17 — file output is atomic: for every old content, every serialization (any chunks), every fault and
every crash point.
-/
namespace OpenHTF.AtomicFile

theorem applyAll_append (fs : Fs) (a b : List FsOp) : applyAll fs (a ++ b) = applyAll (applyAll fs a) b := by
  simp [applyAll, List.foldl_append]

theorem applyAll_cons (fs : Fs) (a : FsOp) (b : List FsOp) : applyAll fs (a :: b) = applyAll (apply fs a) b := rfl

/-- appending chunks through the open handle on the temporary file only fills the buffer, in order -/
theorem appends (cs : List Bytes) (fs : Fs) (h : fs.handle = .onTemp) :
    applyAll fs (cs.map .append) = { fs with buf := fs.buf ++ cs.flatten } := by
  induction cs generalizing fs with
  | nil => simp [applyAll]
  | cons c cs ih =>
    simp only [List.map_cons, applyAll_cons]
    have h' : (apply fs (.append c)).handle = .onTemp := by simp [apply, h]
    rw [ih _ h']
    simp [apply, h, List.append_assoc]

/-- the state after creating the temporary file and writing the chunks -/
theorem written (old : Option Bytes) (cs : List Bytes) :
    applyAll { dest := old } ([FsOp.createTemp] ++ cs.map FsOp.append) =
      { dest := old, temp := some [], buf := cs.flatten, handle := .onTemp } := by
  rw [applyAll_append]
  have : applyAll { dest := old } [FsOp.createTemp] = { dest := old, temp := some [], buf := [], handle := .onTemp } := rfl
  rw [this, appends cs _ rfl]
  simp

/-- as long as nothing was renamed the open handle is not on the destination, and the destination is not touched -/
theorem dest_unchanged (ops : List FsOp) (fs : Fs) (h : FsOp.rename ∉ ops) (hh : fs.handle ≠ .onDest) :
    (applyAll fs ops).dest = fs.dest ∧ (applyAll fs ops).handle ≠ .onDest := by
  induction ops generalizing fs with
  | nil => exact ⟨rfl, hh⟩
  | cons o os ih =>
    rw [applyAll_cons]
    have ho : o ≠ .rename := fun e => h (e ▸ List.mem_cons_self)
    have step : (apply fs o).dest = fs.dest ∧ (apply fs o).handle ≠ .onDest := by
      cases o <;> simp_all [apply, flushBuf] <;> (try split) <;> simp_all
      all_goals (cases hc : fs.handle <;> simp_all)
    have := ih (apply fs o) (fun hm => h (List.mem_cons_of_mem _ hm)) step.2
    exact ⟨this.1.trans step.1, this.2⟩

theorem take_no_rename (pre : List FsOp) (k : Nat) (h : FsOp.rename ∉ pre) : FsOp.rename ∉ pre.take k :=
  fun hm => h (List.mem_of_mem_take hm)

theorem no_rename_in (cs : List Bytes) (tail : List FsOp) (ht : FsOp.rename ∉ tail) :
    FsOp.rename ∉ ([FsOp.createTemp] ++ cs.map FsOp.append ++ tail) := by
  intro h
  simp only [List.mem_append, List.mem_singleton, List.mem_map] at h
  rcases h with (h | ⟨c, _, h⟩) | h
  · simp at h
  · simp at h
  · exact ht h

/-- a program without any rename leaves the destination as it was, wherever it is cut -/
theorem unpublished (old : Option Bytes) (ops : List FsOp) (j : Nat) (h : FsOp.rename ∉ ops) :
    (applyAll { dest := old } (crashAfter j ops)).dest = old :=
  (dest_unchanged _ { dest := old } (take_no_rename ops j h) (by simp)).1

/-- state once the temporary file has been written and closed (with or without an explicit flush first) -/
theorem closed_full (old : Option Bytes) (cs : List Bytes) (fl : List FsOp) (hfl : fl = [] ∨ fl = [.flush]) :
    applyAll { dest := old } ([FsOp.createTemp] ++ cs.map FsOp.append ++ (fl ++ [.close])) =
      { dest := old, temp := some (full cs), buf := [], handle := .closed } := by
  rw [applyAll_append, written]
  rcases hfl with rfl | rfl <;> simp [applyAll, apply, flushBuf, full]

/-- the successful run writes exactly the serialization -/
theorem c17_success_exact (old : Option Bytes) (chunks : List Bytes) (fsync : Bool) :
    (applyAll { dest := old } (outputToFile chunks .none)).dest = some (full chunks) ∧
    (applyAll { dest := old } (atomicWrite chunks fsync .none)).dest = some (full chunks) := by
  constructor
  · simp only [outputToFile]
    have hc := closed_full old chunks [] (Or.inl rfl)
    simp only [List.nil_append] at hc
    rw [applyAll_append, hc]; simp [applyAll, apply]
  · simp only [atomicWrite]
    rw [applyAll_append, closed_full old chunks _ (by cases fsync <;> simp)]; simp [applyAll, apply]

/-- publishing core: `pre ++ post` where `pre` (no rename) ends with the temporary file complete and closed and `post`
    starts with the rename: cut anywhere, the destination is old or complete -/
theorem publish (old : Option Bytes) (cs : List Bytes) (pre post : List FsOp) (j : Nat)
    (hpre : FsOp.rename ∉ pre)
    (hst : applyAll { dest := old } pre = { dest := old, temp := some (full cs), buf := [], handle := .closed })
    (hpost : post = [.rename] ∨ post = [.rename, .removeTemp]) :
    let d := (applyAll { dest := old } (crashAfter j (pre ++ post))).dest
    d = old ∨ d = some (full cs) := by
  intro d
  by_cases hj : j ≤ pre.length
  · left
    simp only [d, crashAfter, List.take_append_of_le_length hj]
    exact (dest_unchanged _ { dest := old } (take_no_rename pre j hpre) (by simp)).1
  · right
    have hj' : pre.length < j := by omega
    simp only [d, crashAfter]
    rw [List.take_append, List.take_of_length_le (by omega), applyAll_append, hst]
    generalize hk : j - pre.length = k
    have hk1 : 1 ≤ k := by omega
    rcases hpost with rfl | rfl
    · cases k with
      | zero => omega
      | succ k => simp [applyAll, apply]
    · cases k with
      | zero => omega
      | succ k =>
        cases k with
        | zero => simp [applyAll, apply]
        | succ k => simp [applyAll, apply]

/-- Atomicity of `OutputToFile` with a filename pattern: whatever the fault (serializer after k chunks,
    k-th write, close) and wherever the process is killed (after any number j of file-system
    operations, buffered data being lost), the destination either still holds its previous state (absent or the
    old complete content) or holds the complete new serialization — never a truncated or partial record. -/
theorem c17_atomic_output_to_file (old : Option Bytes) (chunks : List Bytes) (fault : Fault) (j : Nat) :
    let d := (applyAll { dest := old } (crashAfter j (outputToFile chunks fault))).dest
    d = old ∨ d = some (full chunks) := by
  intro d
  cases fault with
  | serializer k => left; exact unpublished old _ j (no_rename_in _ _ (by simp))
  | write k => left; exact unpublished old _ j (no_rename_in _ _ (by simp))
  | close => left; exact unpublished old _ j (no_rename_in _ _ (by simp))
  | none =>
    have hc := closed_full old chunks [] (Or.inl rfl)
    simp only [List.nil_append] at hc
    exact publish old chunks ([FsOp.createTemp] ++ chunks.map FsOp.append ++ [.close]) [.rename] j
      (no_rename_in _ _ (by simp)) hc (Or.inl rfl)

/-- the same for `atomic_write`, with and without filesync -/
theorem c17_atomic_atomic_write (old : Option Bytes) (chunks : List Bytes) (fsync : Bool) (fault : Fault) (j : Nat) :
    let d := (applyAll { dest := old } (crashAfter j (atomicWrite chunks fsync fault))).dest
    d = old ∨ d = some (full chunks) := by
  intro d
  cases fault with
  | serializer k => left; exact unpublished old _ j (no_rename_in _ _ (by simp))
  | write k => left; exact unpublished old _ j (no_rename_in _ _ (by simp))
  | close => left; exact unpublished old _ j (no_rename_in _ _ (by simp))
  | none =>
    exact publish old chunks _ [.rename, .removeTemp] j
      (no_rename_in _ _ (by cases fsync <;> simp)) (closed_full old chunks _ (by cases fsync <;> simp)) (Or.inr rfl)

/-! ### explicit flushes anywhere among the writes change nothing -/

/-- a write phase: appends and explicit flushes in any order -/
def isBody : FsOp → Bool
  | .append _ => true
  | .flush => true
  | _ => false

def dataOf : List FsOp → Bytes
  | [] => []
  | .append d :: rest => d ++ dataOf rest
  | _ :: rest => dataOf rest

/-- while the handle is on the temporary file, a write phase keeps `temp ++ buf` = everything written so far -/
theorem body_content (body : List FsOp) (hb : body.all isBody = true) (fs : Fs) (t : Bytes)
    (hh : fs.handle = .onTemp) (ht : fs.temp = some t) :
    ∃ t', (applyAll fs body).temp = some t' ∧ t' ++ (applyAll fs body).buf = t ++ fs.buf ++ dataOf body ∧
      (applyAll fs body).dest = fs.dest ∧ (applyAll fs body).handle = .onTemp := by
  induction body generalizing fs t with
  | nil => exact ⟨t, ht, by simp [applyAll, dataOf], rfl, hh⟩
  | cons o os ih =>
    simp only [List.all_cons, Bool.and_eq_true] at hb
    rw [applyAll_cons]
    cases o with
    | append d =>
      have hs : apply fs (.append d) = { fs with buf := fs.buf ++ d } := by simp [apply, hh]
      obtain ⟨t', h1, h2, h3, h4⟩ := ih hb.2 (apply fs (.append d)) t (by rw [hs]; exact hh) (by rw [hs]; exact ht)
      refine ⟨t', h1, ?_, ?_, h4⟩
      · rw [h2, hs]; simp [dataOf, List.append_assoc]
      · rw [h3, hs]
    | flush =>
      have hs : apply fs .flush = { fs with temp := some (t ++ fs.buf), buf := [] } := by
        simp [apply, flushBuf, hh, ht]
      obtain ⟨t', h1, h2, h3, h4⟩ := ih hb.2 (apply fs .flush) (t ++ fs.buf) (by rw [hs]; exact hh) (by rw [hs])
      refine ⟨t', h1, ?_, ?_, h4⟩
      · rw [h2, hs]; simp [dataOf]
      · rw [h3, hs]
    | createTemp => simp [isBody] at hb
    | close => simp [isBody] at hb
    | closeFail => simp [isBody] at hb
    | rename => simp [isBody] at hb
    | removeTemp => simp [isBody] at hb

theorem body_no_rename (body : List FsOp) (hb : body.all isBody = true) : FsOp.rename ∉ body := by
  intro h
  have := List.all_eq_true.1 hb _ h
  simp [isBody] at this

/-- Atomicity with explicit flushes anywhere: a program that creates the temporary file, performs ANY sequence of
    writes and flushes, closes, and only then renames (optionally removing the temporary name afterwards) leaves the
    destination old or complete wherever it is cut. `OutputToFile` and `atomic_write` (with or without filesync, with
    or without additional flushes) are instances; this is why the correspondence does not compare flush operations. -/
theorem c17_atomic_with_any_flushes (old : Option Bytes) (body : List FsOp) (hb : body.all isBody = true)
    (post : List FsOp) (hpost : post = [.rename] ∨ post = [.rename, .removeTemp]) (j : Nat) :
    let d := (applyAll { dest := old } (crashAfter j ([FsOp.createTemp] ++ body ++ [.close] ++ post))).dest
    d = old ∨ d = some (dataOf body) := by
  have hst : applyAll { dest := old } ([FsOp.createTemp] ++ body ++ [.close]) =
      { dest := old, temp := some (dataOf body), buf := [], handle := .closed } := by
    rw [applyAll_append, applyAll_append]
    have h0 : applyAll { dest := old } [FsOp.createTemp] = { dest := old, temp := some [], buf := [], handle := .onTemp } := rfl
    rw [h0]
    obtain ⟨t', h1, h2, h3, h4⟩ := body_content body hb { dest := old, temp := some [], buf := [], handle := .onTemp } [] rfl rfl
    generalize hfs : applyAll { dest := old, temp := some [], buf := [], handle := .onTemp } body = fs at h1 h2 h3 h4
    cases fs with
    | mk d tmp b hd =>
      simp only at h1 h2 h3 h4
      subst h1 h3 h4
      simp only [List.nil_append] at h2
      simp [applyAll, apply, flushBuf, h2]
  have hnr : FsOp.rename ∉ ([FsOp.createTemp] ++ body ++ [.close]) := by
    intro h
    simp only [List.mem_append, List.mem_singleton] at h
    rcases h with (h | h) | h
    · cases h
    · exact body_no_rename body hb h
    · cases h
  have := publish old [dataOf body] ([FsOp.createTemp] ++ body ++ [.close]) post j hnr (by simpa [full] using hst) hpost
  simpa [full] using this

/-- publishing BEFORE closing is not atomic: killed right after the rename, the destination is an empty (truncated)
    file although an old complete record existed and the new one is non-empty -/
theorem rename_before_close_is_not_atomic :
    let d := (applyAll { dest := some [9, 9] } (crashAfter 3 (atomicWriteRenameBeforeClose [[1, 2]]))).dest
    d ≠ some [9, 9] ∧ d ≠ some (full [[1, 2]]) := by
  decide

/-- non-vacuity: an old record, three chunks, the serializer fails after two: the old record survives -/
example : (applyAll { dest := some [9, 9] } (outputToFile [[1], [2], [3]] (.serializer 2))).dest = some [9, 9] := by decide
example : (applyAll { dest := some [9, 9] } (atomicWrite [[1], [2], [3]] true .none)).dest = some [1, 2, 3] := by decide

/-! #### two simultaneous calls of one callback -/

theorem applyAll2_split : ∀ (ops : List (Bool × FsOp)) (s : Fs × Fs),
    applyAll2 s ops = (applyAll s.1 (opsOf false ops), applyAll s.2 (opsOf true ops))
  | [], s => by simp [applyAll2, applyAll, opsOf]
  | (b, o) :: ops, s => by
    have ih := applyAll2_split ops (apply2 s (b, o))
    simp only [applyAll2, List.foldl_cons] at ih ⊢
    rw [ih]
    cases b <;> simp [apply2, opsOf, applyAll, List.filter_cons]

/-- C17, one callback object serving two tests at once: however the file-system operations of the two calls
    interleave, each destination ends up exactly as if its call had run alone — in particular, if both calls are
    fault-free, each destination holds exactly its own serialization (the calls share no handle and no
    temporary file) -/
theorem c17_interleaved_calls_are_independent (ops : List (Bool × FsOp)) (old0 old1 : Option Bytes)
    (chunks0 chunks1 : List Bytes)
    (h0 : opsOf false ops = outputToFile chunks0 .none) (h1 : opsOf true ops = outputToFile chunks1 .none) :
    (applyAll2 ({ dest := old0 }, { dest := old1 }) ops).1.dest = some (full chunks0) ∧
    (applyAll2 ({ dest := old0 }, { dest := old1 }) ops).2.dest = some (full chunks1) := by
  rw [applyAll2_split]
  simp only [h0, h1]
  exact ⟨(c17_success_exact old0 chunks0 false).1, (c17_success_exact old1 chunks1 false).1⟩

/-- what sharing the handle between the calls does: the second call's `open` replaces the handle the first call
    writes through, so the first destination is published truncated -/
example : (applyAll { dest := none } ([.createTemp] ++ ([] : List Bytes).map .append ++ [.close] ++ [.rename])).dest
    ≠ some (full [[1], [2]]) := by decide


end OpenHTF.AtomicFile
