import OpenHTF.Model.AtomicFile
/-
C17 — file output is atomic: for every old content, every serialization (any chunks), every fault and
every crash point.
-/
namespace OpenHTF.AtomicFile

/-- appending chunks to the temporary file never touches the destination and accumulates in order -/
theorem appends (cs : List Bytes) (fs : Fs) (t : Bytes) (h : fs.temp = some t) :
    applyAll fs (cs.map .append) = { dest := fs.dest, temp := some (t ++ cs.flatten) } := by
  induction cs generalizing fs t with
  | nil => simp [applyAll, ← h]
  | cons c cs ih =>
    simp only [List.map_cons, applyAll, List.foldl_cons]
    have := ih (apply fs (.append c)) (t ++ c) (by simp [apply, h])
    simp only [applyAll] at this
    rw [this]
    simp [apply, List.append_assoc]

theorem applyAll_append (fs : Fs) (a b : List FsOp) : applyAll fs (a ++ b) = applyAll (applyAll fs a) b := by
  simp [applyAll, List.foldl_append]

/-- the destination is only ever changed by `rename`, and a program prefix without `rename` leaves it alone -/
theorem dest_unchanged (ops : List FsOp) (fs : Fs) (h : FsOp.rename ∉ ops) : (applyAll fs ops).dest = fs.dest := by
  induction ops generalizing fs with
  | nil => rfl
  | cons o os ih =>
    simp only [applyAll, List.foldl_cons]
    have ho : o ≠ .rename := fun e => h (e ▸ List.mem_cons_self)
    have := ih (apply fs o) (fun hm => h (List.mem_cons_of_mem _ hm))
    simp only [applyAll] at this
    rw [this]
    cases o <;> simp_all [apply]

theorem take_no_rename (pre : List FsOp) (k : Nat) (h : FsOp.rename ∉ pre) : FsOp.rename ∉ pre.take k :=
  fun hm => h (List.mem_of_mem_take hm)

theorem maps_no_rename (cs : List Bytes) : FsOp.rename ∉ ([FsOp.createTemp] ++ cs.map FsOp.append) := by
  intro h
  simp only [List.mem_append, List.mem_singleton, List.mem_map] at h
  rcases h with h | ⟨c, _, h⟩ <;> simp at h

/-- the successful run writes exactly the serialization -/
theorem c17_success_exact (old : Option Bytes) (chunks : List Bytes) :
    (applyAll { dest := old } (outputToFile chunks .none)).dest = some (full chunks) ∧
    (applyAll { dest := old } (atomicWrite chunks .none)).dest = some (full chunks) := by
  have h1 : applyAll { dest := old } ([FsOp.createTemp] ++ chunks.map FsOp.append) = { dest := old, temp := some (full chunks) } := by
    rw [applyAll_append]
    have := appends chunks (applyAll { dest := old } [.createTemp]) [] (by simp [applyAll, apply])
    rw [this]; simp [applyAll, apply, full]
  constructor
  · simp only [outputToFile]
    rw [applyAll_append, h1]; simp [applyAll, apply]
  · simp only [atomicWrite]
    rw [applyAll_append, h1]; simp [applyAll, apply]

/-- Atomicity of `OutputToFile` with a filename pattern: whatever the fault (serializer after k chunks,
    k-th write, close) and wherever the process is killed (after any number j of file-system
    operations), the destination either still holds its previous state (absent or the old complete
    content) or holds the complete new serialization — never a truncated or partial record. -/
theorem c17_atomic_output_to_file (old : Option Bytes) (chunks : List Bytes) (fault : Fault) (j : Nat) :
    let d := (applyAll { dest := old } (crashAfter j (outputToFile chunks fault))).dest
    d = old ∨ d = some (full chunks) := by
  intro d
  cases fault with
  | serializer k =>
    left
    apply dest_unchanged
    apply take_no_rename
    intro h
    simp only [outputToFile, List.mem_append, List.mem_singleton, List.mem_map] at h
    rcases h with (h | ⟨c, _, h⟩) | h <;> simp at h
  | write k =>
    left
    apply dest_unchanged
    apply take_no_rename
    intro h
    simp only [outputToFile, List.mem_append, List.mem_singleton, List.mem_map] at h
    rcases h with (h | ⟨c, _, h⟩) | h <;> simp at h
  | close =>
    left
    apply dest_unchanged
    apply take_no_rename
    exact maps_no_rename chunks
  | none =>
    -- the program is  pre ++ [rename]  with no rename in pre
    simp only [d, crashAfter, outputToFile]
    by_cases hj : j ≤ ([FsOp.createTemp] ++ chunks.map FsOp.append).length
    · left
      rw [List.take_append_of_le_length hj]
      exact dest_unchanged _ _ (take_no_rename _ _ (maps_no_rename chunks))
    · right
      have hlen : ([FsOp.createTemp] ++ chunks.map FsOp.append ++ [FsOp.rename]).length ≤ j := by
        simp only [List.length_append, List.length_cons, List.length_nil] at hj ⊢; omega
      rw [List.take_of_length_le hlen]
      exact (c17_success_exact old chunks).1

/-- the same for `atomic_write` -/
theorem c17_atomic_atomic_write (old : Option Bytes) (chunks : List Bytes) (fault : Fault) (j : Nat) :
    let d := (applyAll { dest := old } (crashAfter j (atomicWrite chunks fault))).dest
    d = old ∨ d = some (full chunks) := by
  intro d
  cases fault with
  | serializer k =>
    left
    apply dest_unchanged
    apply take_no_rename
    intro h
    simp only [atomicWrite, List.mem_append, List.mem_singleton, List.mem_map] at h
    rcases h with (h | ⟨c, _, h⟩) | h <;> simp at h
  | write k =>
    left
    apply dest_unchanged
    apply take_no_rename
    intro h
    simp only [atomicWrite, List.mem_append, List.mem_singleton, List.mem_map] at h
    rcases h with (h | ⟨c, _, h⟩) | h <;> simp at h
  | close =>
    left
    apply dest_unchanged
    apply take_no_rename
    intro h
    simp only [atomicWrite, List.mem_append, List.mem_singleton, List.mem_map] at h
    rcases h with (h | ⟨c, _, h⟩) | h <;> simp at h
  | none =>
    simp only [d, crashAfter, atomicWrite]
    by_cases hj : j ≤ ([FsOp.createTemp] ++ chunks.map FsOp.append).length
    · left
      rw [List.take_append_of_le_length hj]
      exact dest_unchanged _ _ (take_no_rename _ _ (maps_no_rename chunks))
    · right
      -- at least the rename happened; the trailing remove does not touch the destination
      have h1 : applyAll { dest := old } ([FsOp.createTemp] ++ chunks.map FsOp.append) = { dest := old, temp := some (full chunks) } := by
        rw [applyAll_append]
        have := appends chunks (applyAll { dest := old } [.createTemp]) [] (by simp [applyAll, apply])
        rw [this]; simp [applyAll, apply, full]
      have hj' : ([FsOp.createTemp] ++ chunks.map FsOp.append).length < j := by omega
      rw [List.take_append, List.take_of_length_le (by omega), applyAll_append, h1]
      generalize hk : j - ([FsOp.createTemp] ++ chunks.map FsOp.append).length = k
      have hk1 : 1 ≤ k := by omega
      cases k with
      | zero => omega
      | succ k =>
        cases k with
        | zero => simp [applyAll, apply]
        | succ k => simp [applyAll, apply]

/-- non-vacuity: an old record, three chunks, the serializer fails after two: the old record survives -/
example : (applyAll { dest := some [9, 9] } (outputToFile [[1], [2], [3]] (.serializer 2))).dest = some [9, 9] := by decide

end OpenHTF.AtomicFile
