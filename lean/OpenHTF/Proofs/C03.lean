import OpenHTF.Proofs.C04
import OpenHTF.Proofs.Lemmas.Exec
/-
C03 — PhaseGroup teardown always runs once the group was entered (sequential part: every nesting,
every behaviour of main). The single-abort part is in Proofs/C04 (interleaving model, theorems c03_*).
-/
namespace OpenHTF.Exec

/-- the part of a group's execution that decides whether it is "entered" -/
def setupOf (cfg : Cfg) (s : List Node) (sub : Option Nat) (td : Bool) (st : St) : St × Ret :=
  if td then execTd cfg s sub st else execAb cfg s sub st
def mainOf (cfg : Cfg) (m : List Node) (sub : Option Nat) (td : Bool) (st : St) : St × Ret :=
  if td then execTd cfg m sub st else execAb cfg m sub st

/-- the enclosing subtest (if any) has failed and we are not inside a teardown: nodes are skipped -/
def skipping (sub : Option Nat) (td : Bool) (st : St) : Bool := !td && sub.isSome && st.subFail

/-- If every setup node completed without a terminal result, and the enclosing subtest had not failed
    by then, the group's result is: main, then the WHOLE teardown sequence run as a teardown on the
    state main left behind — no matter how main ended (exception, STOP, timeout, failed subtest, failure
    inside a nested group: all of that is `r2`, which is not inspected). The return value is the more
    critical of main's and teardown's. -/
theorem c03_teardown_runs_after_main_however_it_ended (cfg : Cfg) (s m t : List Node) (sub : Option Nat) (td : Bool) (st : St)
    (hsetup : (setupOf cfg s sub td st).2 = .cont)
    (hnot0 : skipping sub td st = false) (hnot1 : skipping sub td (setupOf cfg s sub td st).1 = false) :
    let r2 := mainOf cfg m sub td (setupOf cfg s sub td st).1
    let r3 := execTd cfg t sub r2.1
    exec cfg (.group s m t) sub td st = (r3.1, r2.2.max r3.2) := by
  unfold setupOf mainOf skipping at *
  cases td
  · simp only [Bool.false_eq_true, if_false, Bool.not_false, Bool.true_and] at *
    simp [exec, hsetup, hnot0, hnot1]
  · simp only [if_true] at *
    simp [exec, hsetup]

/-- every node of a teardown sequence is executed exactly once, in order, whatever the earlier ones
    returned: the sequence is a fold over ALL its nodes -/
theorem c03_every_teardown_node_once_in_order (cfg : Cfg) (sub : Option Nat) (ns : List Node) (st : St) :
    execTd cfg ns sub st =
      ns.foldl (fun (acc : St × Ret) n => ((exec cfg n sub true acc.1).1, acc.2.max (exec cfg n sub true acc.1).2)) (st, .cont) := by
  have key : ∀ (ns : List Node) (st : St) (a : Ret),
      ns.foldl (fun (acc : St × Ret) n => ((exec cfg n sub true acc.1).1, acc.2.max (exec cfg n sub true acc.1).2)) (st, a) =
      ((execTd cfg ns sub st).1, a.max (execTd cfg ns sub st).2) := by
    intro ns
    induction ns with
    | nil => intro st a; cases a <;> simp [execTd, Ret.max]
    | cons n ns ih =>
      intro st a
      simp only [List.foldl_cons, ih, execTd]
      congr 1
      cases a <;> cases (exec cfg n sub true st).2 <;> cases (execTd cfg ns sub (exec cfg n sub true st).1).2 <;> rfl
  rw [key ns st .cont]
  cases h : (execTd cfg ns sub st).2 <;> simp [Ret.max, ← h]

/-- a terminal result inside the teardown propagates outward — after the remaining teardown nodes ran
    (previous theorem): the teardown sequence is terminal iff one of its nodes was -/
theorem c03_teardown_terminal_propagates (cfg : Cfg) (sub : Option Nat) :
    ∀ (ns : List Node) (st : St), (execTd cfg ns sub st).2 = .term ↔
      ∃ pre n post, ns = pre ++ n :: post ∧ (exec cfg n sub true (execTd cfg pre sub st).1).2 = .term
  | [], st => by simp [execTd]
  | n :: ns, st => by
    simp only [execTd]
    constructor
    · intro h
      cases h1 : (exec cfg n sub true st).2 with
      | term => exact ⟨[], n, ns, rfl, by simpa [execTd] using h1⟩
      | cont =>
        rw [h1] at h
        have h2 : (execTd cfg ns sub (exec cfg n sub true st).1).2 = .term := by
          cases h3 : (execTd cfg ns sub (exec cfg n sub true st).1).2 <;> simp_all [Ret.max]
        obtain ⟨pre, x, post, e, hx⟩ := (c03_teardown_terminal_propagates cfg sub ns _).mp h2
        exact ⟨n :: pre, x, post, by simp [e], by simpa [execTd] using hx⟩
    · rintro ⟨pre, x, post, e, hx⟩
      cases pre with
      | nil =>
        simp only [List.nil_append, List.cons.injEq] at e
        obtain ⟨rfl, rfl⟩ := e
        simp only [execTd] at hx
        rw [hx]; cases (execTd cfg ns sub (exec cfg n sub true st).1).2 <;> rfl
      | cons p pre =>
        simp only [List.cons_append, List.cons.injEq] at e
        obtain ⟨e1, e2⟩ := e
        subst e2
        rw [← e1] at hx
        simp only [execTd] at hx
        have := (c03_teardown_terminal_propagates cfg sub (pre ++ x :: post) (exec cfg n sub true st).1).mpr ⟨pre, x, post, rfl, hx⟩
        rw [this]; cases (exec cfg n sub true st).2 <;> rfl

/-- if setup does not complete, neither main nor teardown of that group runs: the group's effect is
    exactly the setup's -/
theorem c03_no_entry_no_teardown (cfg : Cfg) (s m t : List Node) (sub : Option Nat) (td : Bool) (st : St)
    (hsetup : (setupOf cfg s sub td st).2 = .term) :
    exec cfg (.group s m t) sub td st = setupOf cfg s sub td st := by
  unfold setupOf at *
  cases td <;> simp_all [exec]

/-- the teardown comes before anything following the group: the successors of a group in a sequence
    start from the state the teardown left, and only if the group was not terminal -/
theorem c03_before_successors (cfg : Cfg) (s m t : List Node) (rest : List Node) (sub : Option Nat) (st : St) :
    execAb cfg (.group s m t :: rest) sub st =
      if (exec cfg (.group s m t) sub false st).2 != .cont then exec cfg (.group s m t) sub false st
      else execAb cfg rest sub (exec cfg (.group s m t) sub false st).1 := by
  simp [execAb]

/-- and in the call log: whatever the teardown does is appended after everything main (and setup) did -/
theorem c03_teardown_events_after_main (cfg : Cfg) (s m t : List Node) (sub : Option Nat) (td : Bool) (st : St)
    (hsetup : (setupOf cfg s sub td st).2 = .cont)
    (hnot0 : skipping sub td st = false) (hnot1 : skipping sub td (setupOf cfg s sub td st).1 = false) :
    ∃ tdEvents, (exec cfg (.group s m t) sub td st).1.events =
      (mainOf cfg m sub td (setupOf cfg s sub td st).1).1.events ++ tdEvents ∧
      tdEvents = ((execTd cfg t sub (mainOf cfg m sub td (setupOf cfg s sub td st).1).1).1.events).drop
        (mainOf cfg m sub td (setupOf cfg s sub td st).1).1.events.length := by
  rw [c03_teardown_runs_after_main_however_it_ended cfg s m t sub td st hsetup hnot0 hnot1]
  obtain ⟨es, h, _⟩ := exec_ext.execTd_ext cfg t sub (mainOf cfg m sub td (setupOf cfg s sub td st).1).1
  exact ⟨es, h, by simp [h]⟩

/-- non-vacuity: main raises, both teardown phases still run, in order, after main, and before the
    phase that follows the group would (it does not run: the exception is terminal) -/
example :
    let ph : Nat → Raw → Node := fun i r => .phase { id := i, beh := fun _ => { raw := r } }
    let st := (execAb {} [.group [ph 1 (.ret .cont)] [ph 2 (.exc false), ph 3 (.ret .cont)] [ph 4 (.ret .stop), ph 5 (.ret .cont)],
                          ph 6 (.ret .cont)] none {}).1
    st.bodyCalls = [1, 2, 4, 5] ∧ st.last = some (.exc false) := by decide +kernel

end OpenHTF.Exec
