import OpenHTF.Spec.Exec
/- Helper lemmas about the executor model (no property statements here). -/
namespace OpenHTF.Exec


def diagsOf (ds : List DiagRun) : List (Nat × Bool) :=
  ds.flatMap (fun d => match d with | .results rs => rs | .raises => [])

theorem fold_count (ds : List DiagRun) (acc : Res × List (Nat × Bool) × Nat) :
    (ds.foldl diagStep acc).2.2 = acc.2.2 + ds.length := by
  induction ds generalizing acc with
  | nil => simp
  | cons d ds ih => simp only [List.foldl_cons, ih]; cases d <;> simp [diagStep] <;> omega

theorem fold_diags (ds : List DiagRun) (acc : Res × List (Nat × Bool) × Nat) :
    (ds.foldl diagStep acc).2.1 = acc.2.1 ++ diagsOf ds := by
  induction ds generalizing acc with
  | nil => simp [diagsOf]
  | cons d ds ih => simp only [List.foldl_cons, ih]; cases d <;> simp [diagStep, diagsOf]

theorem fold_res_terminal (ds : List DiagRun) (acc : Res × List (Nat × Bool) × Nat) (h : acc.1.isTerminal = true) :
    (ds.foldl diagStep acc).1 = acc.1 := by
  induction ds generalizing acc with
  | nil => simp
  | cons d ds ih =>
    simp only [List.foldl_cons]
    cases d with
    | results rs => rw [ih]; simp [diagStep]; simpa [diagStep] using h
    | raises => rw [ih]; simp [diagStep, h]; simp [diagStep, h]

theorem fold_res_nonterminal (ds : List DiagRun) (acc : Res × List (Nat × Bool) × Nat) (h : acc.1.isTerminal = false) :
    (ds.foldl diagStep acc).1 = if ds.any (· == .raises) then .exc false else acc.1 := by
  induction ds generalizing acc with
  | nil => simp
  | cons d ds ih =>
    simp only [List.foldl_cons]
    cases d with
    | results rs =>
      rw [ih _ (by simpa [diagStep] using h)]
      simp [diagStep]
    | raises =>
      have e : (diagStep acc .raises).1 = .exc false := by simp [diagStep, h]
      rw [fold_res_terminal _ _ (by rw [e]; rfl), e]
      simp
theorem runDiagnosers_eq (res : Res) (ds : List DiagRun) :
    runDiagnosers res ds =
      if res == .pr .rep || res == .pr .skip then (res, [], 0)
      else (if res.isTerminal then res else if ds.any (· == .raises) then .exc false else res, diagsOf ds, ds.length) := by
  unfold runDiagnosers
  split
  · rfl
  · have h1 := fold_count ds (res, [], 0)
    have h2 := fold_diags ds (res, [], 0)
    cases ht : res.isTerminal
    · have h3 := fold_res_nonterminal ds (res, [], 0) ht
      ext <;> simp_all
    · have h3 := fold_res_terminal ds (res, [], 0) ht
      ext <;> simp_all

theorem filter_map_isEmpty (rs : List (Nat × Bool)) :
    ((rs.filter (·.2)).map (·.1)).isEmpty = !rs.any (·.2) := by
  induction rs with
  | nil => rfl
  | cons r rs ih =>
    cases h : r.2 <;> simp [h, ih]

/-- one invocation attempt: either nothing is recorded and no body ran (run_if false or raising), or
    exactly one body ran and exactly one record of this phase was appended -/
theorem once_shape (cfg : Cfg) (p : Phase) (sub : Option Nat) (isLast : Bool) (st : St) :
    let r := executePhaseOnce cfg p sub isLast st
    (r.1.phases = st.phases ∧ r.1.bodyCalls = st.bodyCalls ∧ (r.2 = .pr .skip ∨ r.2 = .exc false) ∧ p.opts.runIf.isSome) ∨
    (∃ rec_, rec_.id = p.id ∧ r.1.phases = st.phases ++ [rec_] ∧ r.1.bodyCalls = st.bodyCalls ++ [p.id]) := by
  unfold executePhaseOnce
  cases hri : p.opts.runIf with
  | none => right; simp [addDiagnoses]
  | some f =>
    simp only
    cases hf : f (count st.runIfCalls p.id) with
    | none => left; simp
    | some b =>
      cases b
      · left; simp
      · right; simp [addDiagnoses]

theorem loop_shape (cfg : Cfg) (p : Phase) (sub : Option Nat) (limit : Nat) :
    ∀ (fuel n : Nat) (st : St),
      ∃ recs : List PhaseRec, (executePhaseLoop cfg p sub limit fuel n st).1.phases = st.phases ++ recs ∧
        (executePhaseLoop cfg p sub limit fuel n st).1.bodyCalls = st.bodyCalls ++ List.replicate recs.length p.id ∧
        recs.length ≤ fuel ∧ ∀ r ∈ recs, r.id = p.id
  | 0, n, st => ⟨[], by simp [executePhaseLoop]⟩
  | fuel+1, n, st => by
    simp only [executePhaseLoop]
    have h1 := once_shape cfg p sub (decide (n ≥ limit)) st
    simp only at h1
    split
    · obtain ⟨recs, e1, e2, e3, e4⟩ := loop_shape cfg p sub limit fuel (n + 1) (executePhaseOnce cfg p sub (decide (n ≥ limit)) st).1
      rcases h1 with ⟨a, b, _, _⟩ | ⟨rec_, hid, a, b⟩
      · exact ⟨recs, by rw [e1, a], by rw [e2, b], by omega, e4⟩
      · refine ⟨rec_ :: recs, by rw [e1, a]; simp, by rw [e2, b]; simp [List.replicate_succ], by simp; omega, ?_⟩
        intro r hr; rcases List.mem_cons.mp hr with rfl | hr
        · exact hid
        · exact e4 r hr
    · rcases h1 with ⟨a, b, _, _⟩ | ⟨rec_, hid, a, b⟩
      · exact ⟨[], by simp [a], by simp [b], by simp, by simp⟩
      · exact ⟨[rec_], by simp [a], by simp [b], by simp, by simp [hid]⟩


section traversal
open Spec

/-- (a) in skipping mode every node is processed as `skipNode`, returns CONTINUE and leaves the subtest failed -/
theorem exec_skip (cfg : Cfg) : ∀ (n : Node) (sub : Option Nat) (st : St), sub.isSome = true → st.subFail = true →
    exec cfg n sub false st = (skipNode n sub st, .cont) ∧ (skipNode n sub st).subFail = true
  | .phase p, sub, st, hs, hf => by
    simp [exec, execPhaseNode, hs, hf, skipNode, skipPhase]
  | .checkpoint c, sub, st, hs, hf => by
    simp [exec, execCheckpoint, hs, hf, skipNode]
  | .seq ns, sub, st, hs, hf => by
    have := execAb_skip cfg ns sub st hs hf
    simp [exec, skipNode, this]
  | .subtest name ns, sub, st, hs, hf => by
    have e0 : ({ st with subFail := sub.isSome && st.subFail } : St) = st := by
      cases st; simp_all
    have h := execAb_skip cfg ns (some name) st rfl hf
    simp only [exec, Bool.false_eq_true, if_false, e0, h.1, skipNode]
    simp [h.2, hf]
  | .branch id c ns, sub, st, hs, hf => by
    simp [exec, hs, hf, skipNode]
  | .group s m t, sub, st, hs, hf => by
    have h1 := execAb_skip cfg s sub st hs hf
    have h2 := execAb_skip cfg m sub _ hs h1.2
    have h3 := execAb_skip cfg t sub _ hs h2.2
    simp [exec, hs, hf, h1.1, h2.1, h3.1, skipNode, Ret.max, h3.2]
where
  execAb_skip (cfg : Cfg) : ∀ (ns : List Node) (sub : Option Nat) (st : St), sub.isSome = true → st.subFail = true →
      execAb cfg ns sub st = (skipList ns sub st, .cont) ∧ (skipList ns sub st).subFail = true
    | [], sub, st, hs, hf => by simp [execAb, skipList, hf]
    | n :: ns, sub, st, hs, hf => by
      have h1 := exec_skip cfg n sub st hs hf
      have h2 := execAb_skip cfg ns sub _ hs h1.2
      simp [execAb, skipList, h1.1, h2.1, h2.2]

def modeOf (td : Bool) : Mode := if td then .td else .run

theorem eff_td (sub : Option Nat) (st : St) : eff .td sub st = .td := rfl
theorem eff_run (sub : Option Nat) (st : St) : eff .run sub st = if sub.isSome && st.subFail then .skip else .run := rfl

theorem skipping_or_not (sub : Option Nat) (st : St) :
    (sub.isSome = true ∧ st.subFail = true) ∨ (sub.isSome && st.subFail) = false := by
  cases sub.isSome <;> cases st.subFail <;> simp

theorem eff_run_not_skip (sub : Option Nat) (st : St) (h : (sub.isSome && st.subFail) = false) : eff .run sub st = .run := by
  simp [eff, h]
theorem eff_run_is_skip (sub : Option Nat) (st : St) (hs : sub.isSome = true) (hf : st.subFail = true) : eff .run sub st = .skip := by
  simp [eff, hs, hf]

/-- C02 refinement: the executor's traversal computes exactly the mode reading of the document -/
theorem exec_refines (cfg : Cfg) : ∀ (n : Node) (sub : Option Nat) (td : Bool) (st : St),
    exec cfg n sub td st = Spec.node cfg n (modeOf td) sub st
  | .phase p, sub, td, st => by
    cases td
    · rcases skipping_or_not sub st with ⟨hs, hf⟩ | h
      · simp [exec, execPhaseNode, Spec.node, modeOf, eff_run_is_skip sub st hs hf, hs, hf, skipNode]
      · have h' : ¬ (sub.isSome = true ∧ st.subFail = true) := by simpa using h
        simp [exec, execPhaseNode, Spec.node, modeOf, eff_run_not_skip sub st h, h']
    · simp [exec, execPhaseNode, Spec.node, modeOf, eff_td]
  | .checkpoint c, sub, td, st => by
    cases td
    · rcases skipping_or_not sub st with ⟨hs, hf⟩ | h
      · simp [exec, execCheckpoint, Spec.node, modeOf, eff_run_is_skip sub st hs hf, hs, hf, skipNode]
      · have h' : ¬ (sub.isSome = true ∧ st.subFail = true) := by simpa using h
        simp [exec, execCheckpoint, Spec.node, modeOf, eff_run_not_skip sub st h, h']
    · simp [exec, execCheckpoint, Spec.node, modeOf, eff_td]
  | .seq ns, sub, td, st => by
    cases td
    · rcases skipping_or_not sub st with ⟨hs, hf⟩ | h
      · have := (exec_skip.execAb_skip cfg ns sub st hs hf).1
        simp [exec, this, Spec.node, modeOf, eff_run_is_skip sub st hs hf]
      · simp [exec, Spec.node, modeOf, eff_run_not_skip sub st h, execAb_refines cfg ns sub st]
    · simp [exec, Spec.node, modeOf, eff_td, execTd_refines cfg ns sub st]
  | .branch id c ns, sub, td, st => by
    cases td
    · rcases skipping_or_not sub st with ⟨hs, hf⟩ | h
      · simp [exec, Spec.node, modeOf, eff_run_is_skip sub st hs hf, hs, hf]
      · have h' : ¬ (sub.isSome = true ∧ st.subFail = true) := by simpa using h
        simp [exec, Spec.node, modeOf, eff_run_not_skip sub st h, h', execAb_refines cfg ns sub st]
    · simp [exec, Spec.node, modeOf, eff_td, execTd_refines cfg ns sub st]
  | .subtest name ns, sub, td, st => by
    cases td
    · rcases skipping_or_not sub st with ⟨hs, hf⟩ | h
      · have := (exec_skip cfg (.subtest name ns) sub st hs hf).1
        simp [this, Spec.node, modeOf, eff_run_is_skip sub st hs hf]
      · simp [exec, Spec.node, modeOf, eff_run_not_skip sub st h, execAb_refines cfg ns (some name)]
    · simp [exec, Spec.node, modeOf, eff_td, execTd_refines cfg ns (some name)]
  | .group s m t, sub, td, st => by
    cases td
    · rcases skipping_or_not sub st with ⟨hs, hf⟩ | h
      · have := (exec_skip cfg (.group s m t) sub st hs hf).1
        simp [this, Spec.node, modeOf, eff_run_is_skip sub st hs hf]
      · have h' : ¬ (sub.isSome = true ∧ st.subFail = true) := by simpa using h
        simp only [exec, Spec.node, modeOf, eff_run_not_skip sub st h, execAb_refines cfg s sub st, Bool.false_eq_true, if_false,
          Bool.not_false, Bool.true_and, Bool.false_or, h]
        simp only [show (Mode.run = Mode.skip) = False by simp, if_false]
        split
        · rfl
        · rcases skipping_or_not sub (Spec.seq cfg s .run sub st).1 with ⟨hs2, hf2⟩ | h2
          · have e2 := exec_skip.execAb_skip cfg m sub _ hs2 hf2
            have e3 := exec_skip.execAb_skip cfg t sub _ hs2 e2.2
            simp [hs2, hf2, e2.1, e3.1, Ret.max, eff_run_is_skip _ _ hs2 hf2]
          · simp [h2, execAb_refines cfg m sub, execTd_refines cfg t sub, eff_run_not_skip _ _ h2]
    · simp only [exec, Spec.node, modeOf, eff_td, execTd_refines cfg s sub st, execTd_refines cfg m sub,
        execTd_refines cfg t sub, if_true, Bool.not_true, Bool.false_and, Bool.or_false, Bool.not_false]
      simp
where
  execAb_refines (cfg : Cfg) : ∀ (ns : List Node) (sub : Option Nat) (st : St),
      execAb cfg ns sub st = Spec.seq cfg ns .run sub st
    | [], sub, st => by simp [execAb, Spec.seq]
    | n :: ns, sub, st => by
      simp only [execAb, Spec.seq, exec_refines cfg n sub false st, modeOf, Bool.false_eq_true, if_false]
      simp only [show (Mode.run = Mode.td) = False by simp, if_false]
      split
      · rfl
      · exact execAb_refines cfg ns sub _
  execTd_refines (cfg : Cfg) : ∀ (ns : List Node) (sub : Option Nat) (st : St),
      execTd cfg ns sub st = Spec.seq cfg ns .td sub st
    | [], sub, st => by simp [execTd, Spec.seq]
    | n :: ns, sub, st => by
      simp only [execTd, Spec.seq, exec_refines cfg n sub true st, modeOf, if_true]
      rw [execTd_refines cfg ns sub]

end traversal

end OpenHTF.Exec
