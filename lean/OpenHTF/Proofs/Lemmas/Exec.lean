import OpenHTF.Spec.Exec
/- Helper lemmas about the executor model (no property statements here). -/
namespace OpenHTF.Exec


def diagsOf (ds : List DiagRun) : List (Nat × Bool) :=
  ds.flatMap (fun d => match d with | .results rs => rs | .raises => [])

theorem fold_count (ds : List DiagRun) (acc : Res × List (Nat × Bool) × Nat) :
    (ds.foldl diagStep acc).2.2 = acc.2.2 + ds.length := by
  induction ds generalizing acc with
  | nil => simp
  | cons d ds ih => simp only [List.foldl_cons, ih]; cases d <;> simp [diagStep] <;> omega

theorem fold_diags (ds : List DiagRun) (acc : Res × List (Nat × Bool) × Nat) :
    (ds.foldl diagStep acc).2.1 = acc.2.1 ++ diagsOf ds := by
  induction ds generalizing acc with
  | nil => simp [diagsOf]
  | cons d ds ih => simp only [List.foldl_cons, ih]; cases d <;> simp [diagStep, diagsOf]

theorem fold_res_terminal (ds : List DiagRun) (acc : Res × List (Nat × Bool) × Nat) (h : acc.1.isTerminal = true) :
    (ds.foldl diagStep acc).1 = acc.1 := by
  induction ds generalizing acc with
  | nil => simp
  | cons d ds ih =>
    simp only [List.foldl_cons]
    cases d with
    | results rs => rw [ih]; simp [diagStep]; simpa [diagStep] using h
    | raises => rw [ih]; simp [diagStep, h]; simp [diagStep, h]

theorem fold_res_nonterminal (ds : List DiagRun) (acc : Res × List (Nat × Bool) × Nat) (h : acc.1.isTerminal = false) :
    (ds.foldl diagStep acc).1 = if ds.any (· == .raises) then .exc false else acc.1 := by
  induction ds generalizing acc with
  | nil => simp
  | cons d ds ih =>
    simp only [List.foldl_cons]
    cases d with
    | results rs =>
      rw [ih _ (by simpa [diagStep] using h)]
      simp [diagStep]
    | raises =>
      have e : (diagStep acc .raises).1 = .exc false := by simp [diagStep, h]
      rw [fold_res_terminal _ _ (by rw [e]; rfl), e]
      simp
theorem runDiagnosers_eq (res : Res) (ds : List DiagRun) :
    runDiagnosers res ds =
      if res == .pr .rep || res == .pr .skip then (res, [], 0)
      else (if res.isTerminal then res else if ds.any (· == .raises) then .exc false else res, diagsOf ds, ds.length) := by
  unfold runDiagnosers
  split
  · rfl
  · have h1 := fold_count ds (res, [], 0)
    have h2 := fold_diags ds (res, [], 0)
    cases ht : res.isTerminal
    · have h3 := fold_res_nonterminal ds (res, [], 0) ht
      ext <;> simp_all
    · have h3 := fold_res_terminal ds (res, [], 0) ht
      ext <;> simp_all

theorem filter_map_isEmpty (rs : List (Nat × Bool)) :
    ((rs.filter (·.2)).map (·.1)).isEmpty = !rs.any (·.2) := by
  induction rs with
  | nil => rfl
  | cons r rs ih =>
    cases h : r.2 <;> simp [h, ih]

/-- one invocation attempt: either nothing is recorded and no body ran (run_if false or raising), or
    exactly one body ran and exactly one record of this phase was appended -/
theorem once_shape (cfg : Cfg) (p : Phase) (sub : Option Nat) (isLast : Bool) (st : St) :
    let r := executePhaseOnce cfg p sub isLast st
    (r.1.phases = st.phases ∧ r.1.bodyCalls = st.bodyCalls ∧ (r.2 = .pr .skip ∨ r.2 = .exc false) ∧ p.opts.runIf.isSome) ∨
    (∃ rec_, rec_.id = p.id ∧ r.1.phases = st.phases ++ [rec_] ∧ r.1.bodyCalls = st.bodyCalls ++ [p.id]) := by
  unfold executePhaseOnce
  cases hri : p.opts.runIf with
  | none => right; simp [addDiagnoses]
  | some f =>
    simp only
    cases hf : f (count st.runIfCalls p.id) with
    | none => left; simp
    | some b =>
      cases b
      · left; simp
      · right; simp [addDiagnoses]

theorem loop_shape (cfg : Cfg) (p : Phase) (sub : Option Nat) (limit : Nat) :
    ∀ (fuel n : Nat) (st : St),
      ∃ recs : List PhaseRec, (executePhaseLoop cfg p sub limit fuel n st).1.phases = st.phases ++ recs ∧
        (executePhaseLoop cfg p sub limit fuel n st).1.bodyCalls = st.bodyCalls ++ List.replicate recs.length p.id ∧
        recs.length ≤ fuel ∧ ∀ r ∈ recs, r.id = p.id
  | 0, n, st => ⟨[], by simp [executePhaseLoop]⟩
  | fuel+1, n, st => by
    simp only [executePhaseLoop]
    have h1 := once_shape cfg p sub (decide (n ≥ limit)) st
    simp only at h1
    split
    · obtain ⟨recs, e1, e2, e3, e4⟩ := loop_shape cfg p sub limit fuel (n + 1) (executePhaseOnce cfg p sub (decide (n ≥ limit)) st).1
      rcases h1 with ⟨a, b, _, _⟩ | ⟨rec_, hid, a, b⟩
      · exact ⟨recs, by rw [e1, a], by rw [e2, b], by omega, e4⟩
      · refine ⟨rec_ :: recs, by rw [e1, a]; simp, by rw [e2, b]; simp [List.replicate_succ], by simp; omega, ?_⟩
        intro r hr; rcases List.mem_cons.mp hr with rfl | hr
        · exact hid
        · exact e4 r hr
    · rcases h1 with ⟨a, b, _, _⟩ | ⟨rec_, hid, a, b⟩
      · exact ⟨[], by simp [a], by simp [b], by simp, by simp⟩
      · exact ⟨[rec_], by simp [a], by simp [b], by simp, by simp [hid]⟩

end OpenHTF.Exec
