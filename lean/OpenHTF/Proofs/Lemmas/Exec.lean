import OpenHTF.Spec.Exec
/- Helper lemmas about the executor model (no property statements here). -/
namespace OpenHTF.Exec


def diagsOf (ds : List DiagRun) : List (Nat × Bool) :=
  ds.flatMap (fun d => match d with | .results rs => rs | .raises => [])

theorem fold_count (ds : List DiagRun) (acc : Res × List (Nat × Bool) × Nat) :
    (ds.foldl diagStep acc).2.2 = acc.2.2 + ds.length := by
  induction ds generalizing acc with
  | nil => simp
  | cons d ds ih => simp only [List.foldl_cons, ih]; cases d <;> simp [diagStep] <;> omega

theorem fold_diags (ds : List DiagRun) (acc : Res × List (Nat × Bool) × Nat) :
    (ds.foldl diagStep acc).2.1 = acc.2.1 ++ diagsOf ds := by
  induction ds generalizing acc with
  | nil => simp [diagsOf]
  | cons d ds ih => simp only [List.foldl_cons, ih]; cases d <;> simp [diagStep, diagsOf]

theorem fold_res_terminal (ds : List DiagRun) (acc : Res × List (Nat × Bool) × Nat) (h : acc.1.isTerminal = true) :
    (ds.foldl diagStep acc).1 = acc.1 := by
  induction ds generalizing acc with
  | nil => simp
  | cons d ds ih =>
    simp only [List.foldl_cons]
    cases d with
    | results rs => rw [ih]; simp [diagStep]; simpa [diagStep] using h
    | raises => rw [ih]; simp [diagStep, h]; simp [diagStep, h]

theorem fold_res_nonterminal (ds : List DiagRun) (acc : Res × List (Nat × Bool) × Nat) (h : acc.1.isTerminal = false) :
    (ds.foldl diagStep acc).1 = if ds.any (· == .raises) then .exc false else acc.1 := by
  induction ds generalizing acc with
  | nil => simp
  | cons d ds ih =>
    simp only [List.foldl_cons]
    cases d with
    | results rs =>
      rw [ih _ (by simpa [diagStep] using h)]
      simp [diagStep]
    | raises =>
      have e : (diagStep acc .raises).1 = .exc false := by simp [diagStep, h]
      rw [fold_res_terminal _ _ (by rw [e]; rfl), e]
      simp
theorem runDiagnosers_eq (res : Res) (ds : List DiagRun) :
    runDiagnosers res ds =
      if res == .pr .rep || res == .pr .skip then (res, [], 0)
      else (if res.isTerminal then res else if ds.any (· == .raises) then .exc false else res, diagsOf ds, ds.length) := by
  unfold runDiagnosers
  split
  · rfl
  · have h1 := fold_count ds (res, [], 0)
    have h2 := fold_diags ds (res, [], 0)
    cases ht : res.isTerminal
    · have h3 := fold_res_nonterminal ds (res, [], 0) ht
      ext <;> simp_all
    · have h3 := fold_res_terminal ds (res, [], 0) ht
      ext <;> simp_all

theorem filter_map_isEmpty (rs : List (Nat × Bool)) :
    ((rs.filter (·.2)).map (·.1)).isEmpty = !rs.any (·.2) := by
  induction rs with
  | nil => rfl
  | cons r rs ih =>
    cases h : r.2 <;> simp [h, ih]

theorem failDiags_isEmpty (ds : List DiagRun) :
    (((diagsOf ds).filter (·.2)).map (·.1)).isEmpty =
      !ds.any (fun d => match d with | .results rs => rs.any (·.2) | .raises => false) := by
  induction ds with
  | nil => simp [diagsOf]
  | cons d ds ih =>
    cases d with
    | results rs =>
      simp only [diagsOf, List.flatMap_cons, List.filter_append, List.map_append, List.any_cons] at ih ⊢
      have app : ∀ (a b : List Nat), (a ++ b).isEmpty = (a.isEmpty && b.isEmpty) := by
        intro a b; cases a <;> simp
      rw [app, ih, filter_map_isEmpty, Bool.not_or]
    | raises => simpa [diagsOf] using ih

theorem outcome_table (cfg : Cfg) (o : Opts) (inSub isLast : Bool) (inv : Inv) :
    (finalizeInvocation cfg o inSub isLast inv).outcome = Spec.phaseOutcome cfg o inSub isLast inv := by
  unfold finalizeInvocation Spec.phaseOutcome
  simp only [runDiagnosers_eq]
  generalize hmp : measurementsPass cfg inv.meas = mp
  generalize hpr : inv.meas.any (· == .partialRaise) = praise
  generalize har : inv.diags.any (· == .raises) = anyRaise
  have hfd := failDiags_isEmpty inv.diags
  generalize hfdv : (inv.diags.any (fun d => match d with | .results rs => rs.any (·.2) | .raises => false)) = failDiag at hfd
  generalize hfe : (((diagsOf inv.diags).filter (·.2)).map (·.1)).isEmpty = fe at hfd
  subst hfd
  cases hraw : inv.raw with
  | invalid => cases praise <;> cases anyRaise <;> simp [threadResult, finalizeMeasurements, hpr, prediagnosis, postdiagnosis, Res.isTerminal]
  | timeout => cases praise <;> cases anyRaise <;> simp [threadResult, finalizeMeasurements, hpr, prediagnosis, postdiagnosis, Res.isTerminal]
  | exc b => cases praise <;> cases anyRaise <;> simp [threadResult, finalizeMeasurements, hpr, prediagnosis, postdiagnosis, Res.isTerminal]
  | ret r =>
    cases r <;> cases inSub <;> cases isLast <;> cases praise <;> cases anyRaise <;> cases mp <;> cases failDiag <;>
      cases hs : o.stopOnMeasFail <;>
      simp [threadResult, finalizeMeasurements, hpr, prediagnosis, postdiagnosis, Res.isTerminal, hmp, hfe, hs]


/-- the record outcome is ERROR exactly when the executor sees a terminal result -/
theorem error_iff_terminal (cfg : Cfg) (o : Opts) (inSub isLast : Bool) (inv : Inv) :
    (finalizeInvocation cfg o inSub isLast inv).outcome = .error ↔
    (finalizeInvocation cfg o inSub isLast inv).effective.isTerminal = true := by
  unfold finalizeInvocation
  simp only [runDiagnosers_eq]
  generalize hmp : measurementsPass cfg inv.meas = mp
  generalize hpr : inv.meas.any (· == .partialRaise) = praise
  generalize har : inv.diags.any (· == .raises) = anyRaise
  generalize hfe : (((diagsOf inv.diags).filter (·.2)).map (·.1)).isEmpty = fe
  cases hraw : inv.raw with
  | invalid => cases praise <;> cases anyRaise <;> simp [threadResult, finalizeMeasurements, hpr, prediagnosis, postdiagnosis, Res.isTerminal]
  | timeout => cases praise <;> cases anyRaise <;> simp [threadResult, finalizeMeasurements, hpr, prediagnosis, postdiagnosis, Res.isTerminal]
  | exc b => cases praise <;> cases anyRaise <;> simp [threadResult, finalizeMeasurements, hpr, prediagnosis, postdiagnosis, Res.isTerminal]
  | ret r =>
    cases r <;> cases inSub <;> cases isLast <;> cases praise <;> cases anyRaise <;> cases mp <;> cases fe <;>
      cases hs : o.stopOnMeasFail <;>
      simp [threadResult, finalizeMeasurements, hpr, prediagnosis, postdiagnosis, Res.isTerminal, hmp, hfe, hs]


theorem eff_timeout (cfg : Cfg) (o : Opts) (inSub isLast : Bool) (inv : Inv)
    (h : (finalizeInvocation cfg o inSub isLast inv).effective = .timeout) :
    (finalizeInvocation cfg o inSub isLast inv).recResult = .timeout := by
  unfold finalizeInvocation at *
  simp only at *
  split at h
  · simp at h
  · exact h

/-- one invocation attempt: either nothing is recorded and no body ran (run_if false or raising), or
    exactly one body ran and exactly one record of this phase was appended -/
theorem once_shape (cfg : Cfg) (p : Phase) (sub : Option Nat) (isLast : Bool) (st : St) :
    let r := executePhaseOnce cfg p sub isLast st
    (r.1.phases = st.phases ∧ r.1.bodyCalls = st.bodyCalls ∧ (r.2 = .pr .skip ∨ r.2 = .exc false) ∧ p.opts.runIf.isSome) ∨
    (∃ rec_, rec_.id = p.id ∧ r.1.phases = st.phases ++ [rec_] ∧ r.1.bodyCalls = st.bodyCalls ++ [p.id]) := by
  unfold executePhaseOnce
  cases hri : p.opts.runIf with
  | none => right; simp [addDiagnoses]
  | some f =>
    simp only
    cases hf : f (count st.runIfCalls p.id) with
    | none => left; simp
    | some b =>
      cases b
      · left; simp
      · right; simp [addDiagnoses]

theorem loop_shape (cfg : Cfg) (p : Phase) (sub : Option Nat) (limit : Nat) :
    ∀ (fuel n : Nat) (st : St),
      ∃ recs : List PhaseRec, (executePhaseLoop cfg p sub limit fuel n st).1.phases = st.phases ++ recs ∧
        (executePhaseLoop cfg p sub limit fuel n st).1.bodyCalls = st.bodyCalls ++ List.replicate recs.length p.id ∧
        recs.length ≤ fuel ∧ ∀ r ∈ recs, r.id = p.id
  | 0, n, st => ⟨[], by simp [executePhaseLoop]⟩
  | fuel+1, n, st => by
    simp only [executePhaseLoop]
    have h1 := once_shape cfg p sub (decide (n ≥ limit)) st
    simp only at h1
    split
    · obtain ⟨recs, e1, e2, e3, e4⟩ := loop_shape cfg p sub limit fuel (n + 1) (executePhaseOnce cfg p sub (decide (n ≥ limit)) st).1
      rcases h1 with ⟨a, b, _, _⟩ | ⟨rec_, hid, a, b⟩
      · exact ⟨recs, by rw [e1, a], by rw [e2, b], by omega, e4⟩
      · refine ⟨rec_ :: recs, by rw [e1, a]; simp, by rw [e2, b]; simp [List.replicate_succ], by simp; omega, ?_⟩
        intro r hr; rcases List.mem_cons.mp hr with rfl | hr
        · exact hid
        · exact e4 r hr
    · rcases h1 with ⟨a, b, _, _⟩ | ⟨rec_, hid, a, b⟩
      · exact ⟨[], by simp [a], by simp [b], by simp, by simp⟩
      · exact ⟨[rec_], by simp [a], by simp [b], by simp, by simp [hid]⟩


section traversal
open Spec

/-- (a) in skipping mode every node is processed as `skipNode`, returns CONTINUE and leaves the subtest failed -/
theorem exec_skip (cfg : Cfg) : ∀ (n : Node) (sub : Option Nat) (st : St), sub.isSome = true → st.subFail = true →
    exec cfg n sub false st = (skipNode n sub st, .cont) ∧ (skipNode n sub st).subFail = true
  | .phase p, sub, st, hs, hf => by
    simp [exec, execPhaseNode, hs, hf, skipNode, skipPhase]
  | .checkpoint c, sub, st, hs, hf => by
    simp [exec, execCheckpoint, hs, hf, skipNode]
  | .seq ns, sub, st, hs, hf => by
    have := execAb_skip cfg ns sub st hs hf
    simp [exec, skipNode, this]
  | .subtest name ns, sub, st, hs, hf => by
    have e0 : ({ st with subFail := sub.isSome && st.subFail } : St) = st := by
      cases st; simp_all
    have h := execAb_skip cfg ns (some name) st rfl hf
    simp only [exec, Bool.false_eq_true, if_false, e0, h.1, skipNode]
    simp [h.2, hf]
  | .branch id c ns, sub, st, hs, hf => by
    simp [exec, hs, hf, skipNode]
  | .group s m t, sub, st, hs, hf => by
    have h1 := execAb_skip cfg s sub st hs hf
    have h2 := execAb_skip cfg m sub _ hs h1.2
    have h3 := execAb_skip cfg t sub _ hs h2.2
    simp [exec, hs, hf, h1.1, h2.1, h3.1, skipNode, Ret.max, h3.2]
where
  execAb_skip (cfg : Cfg) : ∀ (ns : List Node) (sub : Option Nat) (st : St), sub.isSome = true → st.subFail = true →
      execAb cfg ns sub st = (skipList ns sub st, .cont) ∧ (skipList ns sub st).subFail = true
    | [], sub, st, hs, hf => by simp [execAb, skipList, hf]
    | n :: ns, sub, st, hs, hf => by
      have h1 := exec_skip cfg n sub st hs hf
      have h2 := execAb_skip cfg ns sub _ hs h1.2
      simp [execAb, skipList, h1.1, h2.1, h2.2]

def modeOf (td : Bool) : Mode := if td then .td else .run

theorem eff_td (sub : Option Nat) (st : St) : eff .td sub st = .td := rfl
theorem eff_run (sub : Option Nat) (st : St) : eff .run sub st = if sub.isSome && st.subFail then .skip else .run := rfl

theorem skipping_or_not (sub : Option Nat) (st : St) :
    (sub.isSome = true ∧ st.subFail = true) ∨ (sub.isSome && st.subFail) = false := by
  cases sub.isSome <;> cases st.subFail <;> simp

theorem eff_run_not_skip (sub : Option Nat) (st : St) (h : (sub.isSome && st.subFail) = false) : eff .run sub st = .run := by
  simp [eff, h]
theorem eff_run_is_skip (sub : Option Nat) (st : St) (hs : sub.isSome = true) (hf : st.subFail = true) : eff .run sub st = .skip := by
  simp [eff, hs, hf]

/-- C02 refinement: the executor's traversal computes exactly the mode reading of the document -/
theorem exec_refines (cfg : Cfg) : ∀ (n : Node) (sub : Option Nat) (td : Bool) (st : St),
    exec cfg n sub td st = Spec.node cfg n (modeOf td) sub st
  | .phase p, sub, td, st => by
    cases td
    · rcases skipping_or_not sub st with ⟨hs, hf⟩ | h
      · simp [exec, execPhaseNode, Spec.node, modeOf, eff_run_is_skip sub st hs hf, hs, hf, skipNode]
      · have h' : ¬ (sub.isSome = true ∧ st.subFail = true) := by simpa using h
        simp [exec, execPhaseNode, Spec.node, modeOf, eff_run_not_skip sub st h, h']
    · simp [exec, execPhaseNode, Spec.node, modeOf, eff_td]
  | .checkpoint c, sub, td, st => by
    cases td
    · rcases skipping_or_not sub st with ⟨hs, hf⟩ | h
      · simp [exec, execCheckpoint, Spec.node, modeOf, eff_run_is_skip sub st hs hf, hs, hf, skipNode]
      · have h' : ¬ (sub.isSome = true ∧ st.subFail = true) := by simpa using h
        simp [exec, execCheckpoint, Spec.node, modeOf, eff_run_not_skip sub st h, h']
    · simp [exec, execCheckpoint, Spec.node, modeOf, eff_td]
  | .seq ns, sub, td, st => by
    cases td
    · rcases skipping_or_not sub st with ⟨hs, hf⟩ | h
      · have := (exec_skip.execAb_skip cfg ns sub st hs hf).1
        simp [exec, this, Spec.node, modeOf, eff_run_is_skip sub st hs hf]
      · simp [exec, Spec.node, modeOf, eff_run_not_skip sub st h, execAb_refines cfg ns sub st]
    · simp [exec, Spec.node, modeOf, eff_td, execTd_refines cfg ns sub st]
  | .branch id c ns, sub, td, st => by
    cases td
    · rcases skipping_or_not sub st with ⟨hs, hf⟩ | h
      · simp [exec, Spec.node, modeOf, eff_run_is_skip sub st hs hf, hs, hf]
      · have h' : ¬ (sub.isSome = true ∧ st.subFail = true) := by simpa using h
        simp [exec, Spec.node, modeOf, eff_run_not_skip sub st h, h', execAb_refines cfg ns sub st]
    · simp [exec, Spec.node, modeOf, eff_td, execTd_refines cfg ns sub st]
  | .subtest name ns, sub, td, st => by
    cases td
    · rcases skipping_or_not sub st with ⟨hs, hf⟩ | h
      · have := (exec_skip cfg (.subtest name ns) sub st hs hf).1
        simp [this, Spec.node, modeOf, eff_run_is_skip sub st hs hf]
      · simp [exec, Spec.node, modeOf, eff_run_not_skip sub st h, execAb_refines cfg ns (some name)]
    · simp [exec, Spec.node, modeOf, eff_td, execTd_refines cfg ns (some name)]
  | .group s m t, sub, td, st => by
    cases td
    · rcases skipping_or_not sub st with ⟨hs, hf⟩ | h
      · have := (exec_skip cfg (.group s m t) sub st hs hf).1
        simp [this, Spec.node, modeOf, eff_run_is_skip sub st hs hf]
      · have h' : ¬ (sub.isSome = true ∧ st.subFail = true) := by simpa using h
        simp only [exec, Spec.node, modeOf, eff_run_not_skip sub st h, execAb_refines cfg s sub st, Bool.false_eq_true, if_false,
          Bool.not_false, Bool.true_and, Bool.false_or, h]
        simp only [show (Mode.run = Mode.skip) = False by simp, if_false]
        split
        · rfl
        · rcases skipping_or_not sub (Spec.seq cfg s .run sub st).1 with ⟨hs2, hf2⟩ | h2
          · have e2 := exec_skip.execAb_skip cfg m sub _ hs2 hf2
            have e3 := exec_skip.execAb_skip cfg t sub _ hs2 e2.2
            simp [hs2, hf2, e2.1, e3.1, Ret.max, eff_run_is_skip _ _ hs2 hf2]
          · simp [h2, execAb_refines cfg m sub, execTd_refines cfg t sub, eff_run_not_skip _ _ h2]
    · simp only [exec, Spec.node, modeOf, eff_td, execTd_refines cfg s sub st, execTd_refines cfg m sub,
        execTd_refines cfg t sub, if_true, Bool.not_true, Bool.false_and, Bool.or_false, Bool.not_false]
      simp
where
  execAb_refines (cfg : Cfg) : ∀ (ns : List Node) (sub : Option Nat) (st : St),
      execAb cfg ns sub st = Spec.seq cfg ns .run sub st
    | [], sub, st => by simp [execAb, Spec.seq]
    | n :: ns, sub, st => by
      simp only [execAb, Spec.seq, exec_refines cfg n sub false st, modeOf, Bool.false_eq_true, if_false]
      simp only [show (Mode.run = Mode.td) = False by simp, if_false]
      split
      · rfl
      · exact execAb_refines cfg ns sub _
  execTd_refines (cfg : Cfg) : ∀ (ns : List Node) (sub : Option Nat) (st : St),
      execTd cfg ns sub st = Spec.seq cfg ns .td sub st
    | [], sub, st => by simp [execTd, Spec.seq]
    | n :: ns, sub, st => by
      simp only [execTd, Spec.seq, exec_refines cfg n sub true st, modeOf, if_true]
      rw [execTd_refines cfg ns sub]

end traversal


/-! #### the call log only grows -/

/-- events the executor itself emits: body invocations, run_if evaluations, phase diagnosers -/
def isExecEv : Ev → Bool
  | .body _ _ | .runIf _ _ | .diag _ _ _ => true
  | _ => false

/-- the call log only grows, and only by executor events -/
def Ext (a b : St) : Prop := ∃ es, b.events = a.events ++ es ∧ ∀ e ∈ es, isExecEv e = true
theorem Ext.refl (a : St) : Ext a a := ⟨[], by simp, by simp⟩
theorem Ext.trans {a b c : St} (h1 : Ext a b) (h2 : Ext b c) : Ext a c := by
  obtain ⟨e1, h1, q1⟩ := h1; obtain ⟨e2, h2, q2⟩ := h2
  refine ⟨e1 ++ e2, by rw [h2, h1, List.append_assoc], ?_⟩
  intro e he; rcases List.mem_append.mp he with h | h
  · exact q1 e h
  · exact q2 e h
theorem Ext.of_eq {a b : St} (h : b.events = a.events) : Ext a b := ⟨[], by simp [h], by simp⟩

theorem bodyEvs_exec (id k n : Nat) : ∀ e ∈ [Ev.body id k] ++ (List.range n).map (fun j => Ev.diag id k j), isExecEv e = true := by
  intro e he
  simp only [List.cons_append, List.nil_append, List.mem_cons, List.mem_map, List.mem_range] at he
  rcases he with rfl | ⟨j, _, rfl⟩ <;> rfl

theorem once_ext (cfg : Cfg) (p : Phase) (sub : Option Nat) (isLast : Bool) (st : St) :
    Ext st (executePhaseOnce cfg p sub isLast st).1 := by
  unfold executePhaseOnce
  cases hri : p.opts.runIf with
  | none =>
    exact ⟨[Ev.body p.id (count st.bodyCalls p.id)] ++ (List.range (finalizeInvocation cfg p.opts sub.isSome isLast
      (p.beh (count st.bodyCalls p.id))).diagsRun).map (fun j => Ev.diag p.id (count st.bodyCalls p.id) j),
      by simp [addDiagnoses], bodyEvs_exec _ _ _⟩
  | some f =>
    simp only
    cases hf : f (count st.runIfCalls p.id) with
    | none => exact ⟨[Ev.runIf p.id (count st.runIfCalls p.id)], by simp, by intro e he; simp at he; subst he; rfl⟩
    | some b =>
      cases b
      · exact ⟨[Ev.runIf p.id (count st.runIfCalls p.id)], by simp, by intro e he; simp at he; subst he; rfl⟩
      · refine ⟨[Ev.runIf p.id (count st.runIfCalls p.id)] ++ ([Ev.body p.id (count st.bodyCalls p.id)] ++
          (List.range (finalizeInvocation cfg p.opts sub.isSome isLast (p.beh (count st.bodyCalls p.id))).diagsRun).map
            (fun j => Ev.diag p.id (count st.bodyCalls p.id) j)), by simp [addDiagnoses, List.append_assoc], ?_⟩
        intro e he
        rcases List.mem_append.mp he with h | h
        · simp at h; subst h; rfl
        · exact bodyEvs_exec _ _ _ e h

theorem loop_ext (cfg : Cfg) (p : Phase) (sub : Option Nat) (limit : Nat) :
    ∀ (fuel n : Nat) (st : St), Ext st (executePhaseLoop cfg p sub limit fuel n st).1
  | 0, n, st => by simp [executePhaseLoop]; exact Ext.refl st
  | fuel+1, n, st => by
    simp only [executePhaseLoop]
    split
    · exact (once_ext cfg p sub _ st).trans (loop_ext cfg p sub limit fuel (n+1) _)
    · exact once_ext cfg p sub _ st

theorem finishNode_events (st : St) (o : Res) : (finishNode st o).1.events = st.events := by
  unfold finishNode; split
  · simp [setLast]
  · split <;> rfl

theorem runPhase_ext (cfg : Cfg) (p : Phase) (sub : Option Nat) (st : St) : Ext st (runPhase cfg p sub st).1 := by
  have h : Ext st (executePhase cfg p sub st).1 := loop_ext cfg p sub _ _ 1 st
  exact h.trans (Ext.of_eq (finishNode_events _ _))

theorem evalCheckpoint_ext (c : Ckpt) (sub : Option Nat) (st : St) : Ext st (evalCheckpoint c sub st).1 := by
  exact Ext.of_eq (by simp [evalCheckpoint, finishNode_events])

theorem exec_ext (cfg : Cfg) : ∀ (n : Node) (sub : Option Nat) (td : Bool) (st : St), Ext st (exec cfg n sub td st).1
  | .phase p, sub, td, st => by
    simp only [exec, execPhaseNode]
    split
    · exact Ext.of_eq (by simp [skipPhase])
    · exact runPhase_ext cfg p sub st
  | .checkpoint c, sub, td, st => by
    simp only [exec, execCheckpoint]
    split
    · exact Ext.of_eq rfl
    · exact evalCheckpoint_ext c sub st
  | .seq ns, sub, td, st => by
    simp only [exec]; split
    · exact execTd_ext cfg ns sub st
    · exact execAb_ext cfg ns sub st
  | .subtest name ns, sub, td, st => by
    simp only [exec]
    have h0 : Ext st ({ st with subFail := sub.isSome && st.subFail } : St) := Ext.of_eq rfl
    split
    · exact h0.trans ((execTd_ext cfg ns (some name) _).trans (Ext.of_eq rfl))
    · exact h0.trans ((execAb_ext cfg ns (some name) _).trans (Ext.of_eq rfl))
  | .branch id c ns, sub, td, st => by
    simp only [exec]
    split
    · exact Ext.refl st
    · split
      · split
        · exact (execTd_ext cfg ns sub st).trans (Ext.of_eq rfl)
        · exact (execAb_ext cfg ns sub st).trans (Ext.of_eq rfl)
      · exact Ext.of_eq rfl
  | .group s m t, sub, td, st => by
    simp only [exec]
    cases td
    · simp only [Bool.false_eq_true, if_false]
      have h1 := execAb_ext cfg s sub st
      split
      · exact h1
      · have h2 := execAb_ext cfg m sub (execAb cfg s sub st).1
        split
        · exact h1.trans (h2.trans (execTd_ext cfg t sub _))
        · exact h1.trans (h2.trans (execAb_ext cfg t sub _))
    · simp only [if_true]
      have h1 := execTd_ext cfg s sub st
      split
      · exact h1
      · have h2 := execTd_ext cfg m sub (execTd cfg s sub st).1
        split
        · exact h1.trans (h2.trans (execTd_ext cfg t sub _))
        · exact h1.trans (h2.trans (execAb_ext cfg t sub _))
where
  execAb_ext (cfg : Cfg) : ∀ (ns : List Node) (sub : Option Nat) (st : St), Ext st (execAb cfg ns sub st).1
    | [], sub, st => by simp [execAb]; exact Ext.refl st
    | n :: ns, sub, st => by
      simp only [execAb]
      split
      · exact exec_ext cfg n sub false st
      · exact (exec_ext cfg n sub false st).trans (execAb_ext cfg ns sub _)
  execTd_ext (cfg : Cfg) : ∀ (ns : List Node) (sub : Option Nat) (st : St), Ext st (execTd cfg ns sub st).1
    | [], sub, st => by simp [execTd]; exact Ext.refl st
    | n :: ns, sub, st => by
      simp only [execTd]
      exact (exec_ext cfg n sub true st).trans (execTd_ext cfg ns sub _)


/-! #### ERROR records and the remembered terminal outcome -/

/-- every ERROR record is accompanied by a remembered terminal outcome — except a timeout record
    (which `repeat_on_timeout` may have retried) -/
def ErrInv (st : St) : Prop := ∀ r ∈ st.phases, r.outcome = .error → r.result = .timeout ∨ st.last.isSome = true

theorem ErrInv.of_same {a b : St} (hp : b.phases = a.phases) (hl : a.last.isSome = true → b.last.isSome = true) (h : ErrInv a) : ErrInv b := by
  intro r hr he
  rw [hp] at hr
  rcases h r hr he with h1 | h1
  · exact Or.inl h1
  · exact Or.inr (hl h1)

theorem setLast_isSome (st : St) (r : Res) : (setLast st r).last.isSome = true := by
  unfold setLast; cases st.last <;> simp

theorem finishNode_last (st : St) (o : Res) : st.last.isSome = true → (finishNode st o).1.last.isSome = true := by
  intro h; unfold finishNode; split
  · exact setLast_isSome st o
  · split <;> exact h
theorem finishNode_phases (st : St) (o : Res) : (finishNode st o).1.phases = st.phases := by
  unfold finishNode; split
  · simp [setLast]
  · split <;> rfl
theorem finishNode_terminal (st : St) (o : Res) (h : o.isTerminal = true) : (finishNode st o).1.last.isSome = true := by
  unfold finishNode; simp [h, setLast_isSome]

/-- the record written by one invocation is ERROR iff the effective result is terminal, and a terminal
    effective result that lets the loop continue is a timeout whose record says timeout -/
theorem once_error (cfg : Cfg) (p : Phase) (sub : Option Nat) (isLast : Bool) (st : St) :
    let r := executePhaseOnce cfg p sub isLast st
    r.1.last = st.last ∧
    ((r.1.phases = st.phases) ∨
     (∃ rec_, r.1.phases = st.phases ++ [rec_] ∧ (rec_.outcome = .error → r.2.isTerminal = true) ∧
        (r.2 = .timeout → rec_.result = .timeout))) := by
  unfold executePhaseOnce
  cases hri : p.opts.runIf with
  | none =>
    refine ⟨by simp [addDiagnoses], Or.inr ⟨_, by simp [addDiagnoses]; rfl, ?_, ?_⟩⟩
    · intro h; exact (error_iff_terminal cfg p.opts sub.isSome isLast _).mp h
    · intro h; exact eff_timeout cfg p.opts sub.isSome isLast _ h
  | some f =>
    simp only
    cases hf : f (count st.runIfCalls p.id) with
    | none => exact ⟨by simp, Or.inl (by simp)⟩
    | some b =>
      cases b
      · exact ⟨by simp, Or.inl (by simp)⟩
      · refine ⟨by simp [addDiagnoses], Or.inr ⟨_, by simp [addDiagnoses]; rfl, ?_, ?_⟩⟩
        · intro h; exact (error_iff_terminal cfg p.opts sub.isSome isLast _).mp h
        · intro h; exact eff_timeout cfg p.opts sub.isSome isLast _ h

/-- loop: all records appended are either non-ERROR, or timeout records, or the final effective result is terminal;
    `last` is untouched by the loop -/
theorem loop_error (cfg : Cfg) (p : Phase) (sub : Option Nat) (limit : Nat) :
    ∀ (fuel n : Nat) (st : St),
      let r := executePhaseLoop cfg p sub limit fuel n st
      r.1.last = st.last ∧
      ∃ recs, r.1.phases = st.phases ++ recs ∧
        ∀ x ∈ recs, x.outcome = .error → x.result = .timeout ∨ r.2.isTerminal = true
  | 0, n, st => by simp [executePhaseLoop]
  | fuel+1, n, st => by
    simp only [executePhaseLoop]
    have h1 := once_error cfg p sub (decide (n ≥ limit)) st
    simp only at h1
    obtain ⟨hl, hp⟩ := h1
    split
    · rename_i hrep
      have ih := loop_error cfg p sub limit fuel (n + 1) (executePhaseOnce cfg p sub (decide (n ≥ limit)) st).1
      simp only at ih
      obtain ⟨il, recs, ip, ie⟩ := ih
      refine ⟨by rw [il, hl], ?_⟩
      rcases hp with hp | ⟨rec_, hp, he, ht⟩
      · exact ⟨recs, by rw [ip, hp], ie⟩
      · refine ⟨rec_ :: recs, by rw [ip, hp]; simp, ?_⟩
        intro x hx hxe
        rcases List.mem_cons.mp hx with rfl | hx
        · -- the loop continued after an ERROR record: only repeat_on_timeout does that
          left
          have hterm := he hxe
          simp only [Bool.and_eq_true] at hrep
          have hs := hrep.1
          unfold shouldRepeat at hs
          split at hs
          · rename_i h2; simp at h2; exact ht h2.1
          · split at hs
            · rename_i h3; simp at h3; rw [h3] at hterm; simp [Res.isTerminal] at hterm
            · simp at hs
        · exact ie x hx hxe
    · refine ⟨hl, ?_⟩
      rcases hp with hp | ⟨rec_, hp, he, ht⟩
      · exact ⟨[], by simp [hp], by simp⟩
      · exact ⟨[rec_], hp, by intro x hx hxe; simp at hx; subst hx; exact Or.inr (he hxe)⟩

theorem sofOutcome_terminal (cfg : Cfg) (st : St) (r : Res) (h : r.isTerminal = true) : (sofOutcome cfg st r).isTerminal = true := by
  unfold sofOutcome
  by_cases hc : (cfg.stopOnFirstFailure && lastIsFail st) = true
  · rw [if_pos hc]; rfl
  · rw [if_neg hc]; exact h

theorem runPhase_ErrInv (cfg : Cfg) (p : Phase) (sub : Option Nat) (st : St) (h : ErrInv st) : ErrInv (runPhase cfg p sub st).1 := by
  unfold runPhase
  simp only
  have hl := loop_error cfg p sub (repeatLimit cfg p.opts) (repeatLimit cfg p.opts) 1 st
  simp only at hl
  obtain ⟨hlast, recs, hp, he⟩ := hl
  change (executePhase cfg p sub st).1.last = st.last at hlast
  change (executePhase cfg p sub st).1.phases = st.phases ++ recs at hp
  intro r hr hre
  rw [finishNode_phases, hp] at hr
  rcases List.mem_append.mp hr with hr | hr
  · rcases h r hr hre with h1 | h1
    · exact Or.inl h1
    · exact Or.inr (finishNode_last _ _ (by rw [hlast]; exact h1))
  · rcases he r hr hre with h1 | h1
    · exact Or.inl h1
    · exact Or.inr (finishNode_terminal _ _ (sofOutcome_terminal _ _ _ h1))

theorem runPhase_last (cfg : Cfg) (p : Phase) (sub : Option Nat) (st : St) (h : st.last.isSome = true) :
    (runPhase cfg p sub st).1.last.isSome = true := by
  unfold runPhase
  have hl := (loop_error cfg p sub (repeatLimit cfg p.opts) (repeatLimit cfg p.opts) 1 st).1
  exact finishNode_last _ _ (by rw [show (executePhase cfg p sub st).1.last = st.last from hl]; exact h)

theorem evalCheckpoint_ErrInv (c : Ckpt) (sub : Option Nat) (st : St) (h : ErrInv st) : ErrInv (evalCheckpoint c sub st).1 := by
  unfold evalCheckpoint
  exact ErrInv.of_same (by rw [finishNode_phases]) (fun hl => finishNode_last _ _ hl) h

/-- the pair (ErrInv, "a remembered terminal outcome is never forgotten") is preserved by the whole traversal -/
theorem exec_ErrInv (cfg : Cfg) : ∀ (n : Node) (sub : Option Nat) (td : Bool) (st : St),
    (ErrInv st → ErrInv (exec cfg n sub td st).1) ∧ (st.last.isSome = true → (exec cfg n sub td st).1.last.isSome = true)
  | .phase p, sub, td, st => by
    simp only [exec, execPhaseNode]
    split
    · constructor
      · intro h r hr he
        simp only [skipPhase, List.mem_append, List.mem_singleton] at hr
        rcases hr with hr | rfl
        · exact h r hr he
        · simp at he
      · intro h; exact h
    · exact ⟨runPhase_ErrInv cfg p sub st, runPhase_last cfg p sub st⟩
  | .checkpoint c, sub, td, st => by
    simp only [exec, execCheckpoint]
    split
    · exact ⟨fun h => ErrInv.of_same rfl (fun x => x) h, fun h => h⟩
    · exact ⟨evalCheckpoint_ErrInv c sub st, fun h => by unfold evalCheckpoint; exact finishNode_last _ _ h⟩
  | .seq ns, sub, td, st => by
    simp only [exec]; split
    · exact execTd_ErrInv cfg ns sub st
    · exact execAb_ErrInv cfg ns sub st
  | .subtest name ns, sub, td, st => by
    simp only [exec]
    have h0 : ∀ (x : St), ErrInv st → x.phases = st.phases → x.last = st.last → ErrInv x := by
      intro x h hp hl; exact ErrInv.of_same hp (by rw [hl]; exact fun a => a) h
    split
    · have ih := execTd_ErrInv cfg ns (some name) { st with subFail := sub.isSome && st.subFail }
      exact ⟨fun h => ErrInv.of_same rfl (fun a => a) (ih.1 (h0 _ h rfl rfl)), fun h => ih.2 h⟩
    · have ih := execAb_ErrInv cfg ns (some name) { st with subFail := sub.isSome && st.subFail }
      exact ⟨fun h => ErrInv.of_same rfl (fun a => a) (ih.1 (h0 _ h rfl rfl)), fun h => ih.2 h⟩
  | .branch id c ns, sub, td, st => by
    simp only [exec]
    split
    · exact ⟨fun h => h, fun h => h⟩
    · split
      · split
        · have ih := execTd_ErrInv cfg ns sub st
          exact ⟨fun h => ErrInv.of_same rfl (fun a => a) (ih.1 h), fun h => ih.2 h⟩
        · have ih := execAb_ErrInv cfg ns sub st
          exact ⟨fun h => ErrInv.of_same rfl (fun a => a) (ih.1 h), fun h => ih.2 h⟩
      · exact ⟨fun h => ErrInv.of_same rfl (fun a => a) h, fun h => h⟩
  | .group s m t, sub, td, st => by
    simp only [exec]
    cases td
    · simp only [Bool.false_eq_true, if_false]
      have h1 := execAb_ErrInv cfg s sub st
      split
      · exact h1
      · have h2 := execAb_ErrInv cfg m sub (execAb cfg s sub st).1
        split
        · have h3 := execTd_ErrInv cfg t sub (execAb cfg m sub (execAb cfg s sub st).1).1
          exact ⟨fun h => h3.1 (h2.1 (h1.1 h)), fun h => h3.2 (h2.2 (h1.2 h))⟩
        · have h3 := execAb_ErrInv cfg t sub (execAb cfg m sub (execAb cfg s sub st).1).1
          exact ⟨fun h => h3.1 (h2.1 (h1.1 h)), fun h => h3.2 (h2.2 (h1.2 h))⟩
    · simp only [if_true]
      have h1 := execTd_ErrInv cfg s sub st
      split
      · exact h1
      · have h2 := execTd_ErrInv cfg m sub (execTd cfg s sub st).1
        split
        · have h3 := execTd_ErrInv cfg t sub (execTd cfg m sub (execTd cfg s sub st).1).1
          exact ⟨fun h => h3.1 (h2.1 (h1.1 h)), fun h => h3.2 (h2.2 (h1.2 h))⟩
        · have h3 := execAb_ErrInv cfg t sub (execTd cfg m sub (execTd cfg s sub st).1).1
          exact ⟨fun h => h3.1 (h2.1 (h1.1 h)), fun h => h3.2 (h2.2 (h1.2 h))⟩
where
  execAb_ErrInv (cfg : Cfg) : ∀ (ns : List Node) (sub : Option Nat) (st : St),
      (ErrInv st → ErrInv (execAb cfg ns sub st).1) ∧ (st.last.isSome = true → (execAb cfg ns sub st).1.last.isSome = true)
    | [], sub, st => by simp [execAb]
    | n :: ns, sub, st => by
      simp only [execAb]
      have h1 := exec_ErrInv cfg n sub false st
      split
      · exact h1
      · have h2 := execAb_ErrInv cfg ns sub (exec cfg n sub false st).1
        exact ⟨fun h => h2.1 (h1.1 h), fun h => h2.2 (h1.2 h)⟩
  execTd_ErrInv (cfg : Cfg) : ∀ (ns : List Node) (sub : Option Nat) (st : St),
      (ErrInv st → ErrInv (execTd cfg ns sub st).1) ∧ (st.last.isSome = true → (execTd cfg ns sub st).1.last.isSome = true)
    | [], sub, st => by simp [execTd]
    | n :: ns, sub, st => by
      simp only [execTd]
      have h1 := exec_ErrInv cfg n sub true st
      have h2 := execTd_ErrInv cfg ns sub (exec cfg n sub true st).1
      exact ⟨fun h => h2.1 (h1.1 h), fun h => h2.2 (h1.2 h)⟩


/-! #### generic preservation -/

/-- generic preservation: a predicate that only looks at the phase records and the remembered terminal
    outcome, and is preserved by running/skipping a phase and evaluating a checkpoint, is preserved by
    the whole traversal -/
theorem exec_preserves (cfg : Cfg) (P : St → Prop)
    (hrun : ∀ p sub st, P st → P (runPhase cfg p sub st).1)
    (hskip : ∀ p sub st, P st → P (skipPhase p sub st))
    (hck : ∀ c sub st, P st → P (evalCheckpoint c sub st).1)
    (hmod : ∀ (a b : St), P a → b.phases = a.phases → b.last = a.last → P b) :
    ∀ (n : Node) (sub : Option Nat) (td : Bool) (st : St), P st → P (exec cfg n sub td st).1
  | .phase p, sub, td, st, h => by
    simp only [exec, execPhaseNode]; split
    · exact hskip p sub st h
    · exact hrun p sub st h
  | .checkpoint c, sub, td, st, h => by
    simp only [exec, execCheckpoint]; split
    · exact hmod st _ h rfl rfl
    · exact hck c sub st h
  | .seq ns, sub, td, st, h => by
    simp only [exec]; split
    · exact lTd ns sub st h
    · exact lAb ns sub st h
  | .subtest name ns, sub, td, st, h => by
    simp only [exec]
    have h0 := hmod st { st with subFail := sub.isSome && st.subFail } h rfl rfl
    split
    · exact hmod _ _ (lTd ns (some name) _ h0) rfl rfl
    · exact hmod _ _ (lAb ns (some name) _ h0) rfl rfl
  | .branch id c ns, sub, td, st, h => by
    simp only [exec]
    split
    · exact h
    · split
      · split
        · exact hmod _ _ (lTd ns sub st h) rfl rfl
        · exact hmod _ _ (lAb ns sub st h) rfl rfl
      · exact hmod _ _ h rfl rfl
  | .group s m t, sub, td, st, h => by
    simp only [exec]
    cases td
    · simp only [Bool.false_eq_true, if_false]
      have h1 := lAb s sub st h
      split
      · exact h1
      · have h2 := lAb m sub _ h1
        split
        · exact lTd t sub _ h2
        · exact lAb t sub _ h2
    · simp only [if_true]
      have h1 := lTd s sub st h
      split
      · exact h1
      · have h2 := lTd m sub _ h1
        split
        · exact lTd t sub _ h2
        · exact lAb t sub _ h2
where
  lAb : ∀ (ns : List Node) (sub : Option Nat) (st : St), P st → P (execAb cfg ns sub st).1
    | [], sub, st, h => by simpa [execAb] using h
    | n :: ns, sub, st, h => by
      simp only [execAb]
      have h1 := exec_preserves cfg P hrun hskip hck hmod n sub false st h
      split
      · exact h1
      · exact lAb ns sub _ h1
  lTd : ∀ (ns : List Node) (sub : Option Nat) (st : St), P st → P (execTd cfg ns sub st).1
    | [], sub, st, h => by simpa [execTd] using h
    | n :: ns, sub, st, h => by
      simp only [execTd]
      exact lTd ns sub _ (exec_preserves cfg P hrun hskip hck hmod n sub true st h)

/-- only terminal outcomes are ever remembered -/
def LastTerm (st : St) : Prop := ∀ r, st.last = some r → r.isTerminal = true

theorem finishNode_LastTerm (st : St) (o : Res) (h : LastTerm st) : LastTerm (finishNode st o).1 := by
  unfold finishNode
  split
  · rename_i ht
    intro r hr
    simp only [setLast] at hr
    cases hl : st.last with
    | none => simp [hl] at hr; rw [← hr]; exact ht
    | some x => simp [hl] at hr; rw [← hr]; exact h x hl
  · split <;> exact h

theorem runPhase_LastTerm (cfg : Cfg) (p : Phase) (sub : Option Nat) (st : St) (h : LastTerm st) :
    LastTerm (runPhase cfg p sub st).1 := by
  unfold runPhase
  apply finishNode_LastTerm
  have hl := (loop_error cfg p sub (repeatLimit cfg p.opts) (repeatLimit cfg p.opts) 1 st).1
  intro r hr
  rw [show (executePhase cfg p sub st).1.last = st.last from hl] at hr
  exact h r hr

theorem exec_LastTerm (cfg : Cfg) (n : Node) (sub : Option Nat) (td : Bool) (st : St) (h : LastTerm st) :
    LastTerm (exec cfg n sub td st).1 :=
  exec_preserves cfg LastTerm (runPhase_LastTerm cfg) (fun _ _ _ h => h)
    (fun c sub st h => by unfold evalCheckpoint; exact finishNode_LastTerm _ _ h)
    (fun a b h _ hl r hr => by rw [hl] at hr; exact h r hr) n sub td st h

theorem execAb_LastTerm (cfg : Cfg) (ns : List Node) (sub : Option Nat) (st : St) (h : LastTerm st) :
    LastTerm (execAb cfg ns sub st).1 :=
  exec_preserves.lAb cfg LastTerm (runPhase_LastTerm cfg) (fun _ _ _ h => h)
    (fun c sub st h => by unfold evalCheckpoint; exact finishNode_LastTerm _ _ h)
    (fun a b h _ hl r hr => by rw [hl] at hr; exact h r hr) ns sub st h

end OpenHTF.Exec
