import OpenHTF.Proofs.Lemmas.Exec
/- Helper lemmas: the record list only grows; a phase that is run leaves a record (no property statements here). -/
namespace OpenHTF.Exec


/-- the records of `b` extend those of `a` -/
def Grows (a b : St) : Prop := ∃ recs, b.phases = a.phases ++ recs

theorem Grows.refl (a : St) : Grows a a := ⟨[], by simp⟩
theorem Grows.trans {a b c : St} (h1 : Grows a b) (h2 : Grows b c) : Grows a c := by
  obtain ⟨r1, e1⟩ := h1; obtain ⟨r2, e2⟩ := h2
  exact ⟨r1 ++ r2, by rw [e2, e1, List.append_assoc]⟩
theorem Grows.mem {a b : St} (h : Grows a b) {r : PhaseRec} (hr : r ∈ a.phases) : r ∈ b.phases := by
  obtain ⟨rs, e⟩ := h; rw [e]; exact List.mem_append_left _ hr

theorem runPhase_grows (cfg : Cfg) (p : Phase) (sub : Option Nat) (st : St) : Grows st (runPhase cfg p sub st).1 := by
  unfold runPhase executePhase
  obtain ⟨recs, e, _⟩ := loop_shape cfg p sub (repeatLimit cfg p.opts) (repeatLimit cfg p.opts) 1 st
  exact ⟨recs, by rw [finishNode_phases, e]⟩

theorem execAb_grows (cfg : Cfg) (ns : List Node) (sub : Option Nat) (st : St) : Grows st (execAb cfg ns sub st).1 :=
  exec_preserves.lAb cfg (Grows st)
    (fun p sub s h => h.trans (runPhase_grows cfg p sub s))
    (fun p sub s h => h.trans ⟨[{ id := p.id, outcome := .skip, result := .pr .skip, subtest := sub }], by simp [skipPhase]⟩)
    (fun c sub s h => h.trans ⟨[], by simp [evalCheckpoint, finishNode_phases]⟩)
    (fun a b h hp _ => by obtain ⟨rs, e⟩ := h; exact ⟨rs, by rw [hp, e]⟩)
    ns sub st (Grows.refl st)

theorem execTd_grows (cfg : Cfg) (ns : List Node) (sub : Option Nat) (st : St) : Grows st (execTd cfg ns sub st).1 :=
  exec_preserves.lTd cfg (Grows st)
    (fun p sub s h => h.trans (runPhase_grows cfg p sub s))
    (fun p sub s h => h.trans ⟨[{ id := p.id, outcome := .skip, result := .pr .skip, subtest := sub }], by simp [skipPhase]⟩)
    (fun c sub s h => h.trans ⟨[], by simp [evalCheckpoint, finishNode_phases]⟩)
    (fun a b h hp _ => by obtain ⟨rs, e⟩ := h; exact ⟨rs, by rw [hp, e]⟩)
    ns sub st (Grows.refl st)


theorem once_leaves_record (cfg : Cfg) (p : Phase) (sub : Option Nat) (isLast : Bool) (st : St) (h : p.opts.runIf = none) :
    ∃ r ∈ (executePhaseOnce cfg p sub isLast st).1.phases, r.id = p.id := by
  rcases once_shape cfg p sub isLast st with ⟨_, _, _, hs⟩ | ⟨rec_, hid, e, _⟩
  · rw [h] at hs; simp at hs
  · exact ⟨rec_, by rw [e]; simp, hid⟩

theorem loop_grows (cfg : Cfg) (p : Phase) (sub : Option Nat) (limit fuel n : Nat) (st : St) :
    Grows st (executePhaseLoop cfg p sub limit fuel n st).1 := by
  obtain ⟨recs, e, _⟩ := loop_shape cfg p sub limit fuel n st
  exact ⟨recs, e⟩

theorem loop_leaves_record (cfg : Cfg) (p : Phase) (sub : Option Nat) (limit : Nat) (h : p.opts.runIf = none) :
    ∀ (fuel n : Nat) (st : St), 0 < fuel → ∃ r ∈ (executePhaseLoop cfg p sub limit fuel n st).1.phases, r.id = p.id
  | fuel+1, n, st, _ => by
    simp only [executePhaseLoop]
    obtain ⟨r, hr, hid⟩ := once_leaves_record cfg p sub (decide (n ≥ limit)) st h
    split
    · exact ⟨r, (loop_grows cfg p sub limit fuel (n+1) _).mem hr, hid⟩
    · exact ⟨r, hr, hid⟩

theorem repeatLimit_pos (cfg : Cfg) (o : Opts) (hc : 0 < cfg.defaultRepeatLimit) : 0 < repeatLimit cfg o := by
  unfold repeatLimit
  cases o.repeatLimit with
  | none => simpa using hc
  | some n => simp only; split <;> omega

/-- a phase that is run (not skipped) and has no `run_if` leaves at least one record of its own -/
theorem runPhase_leaves_record (cfg : Cfg) (hc : 0 < cfg.defaultRepeatLimit) (p : Phase) (sub : Option Nat) (st : St)
    (h : p.opts.runIf = none) : ∃ r ∈ (runPhase cfg p sub st).1.phases, r.id = p.id := by
  unfold runPhase executePhase
  simp only [finishNode_phases]
  exact loop_leaves_record cfg p sub _ h _ 1 st (repeatLimit_pos cfg p.opts hc)

mutual
/-- the phases a node declares unconditionally: not inside a branch (which may legitimately not be taken) or a subtest
    (whose remainder is skipped after a failure), and without `run_if` -/
def mustRun : Node → List Phase
  | .phase p => if p.opts.runIf.isNone then [p] else []
  | .checkpoint _ => []
  | .seq ns => mustRunL ns
  | .subtest _ _ => []
  | .branch _ _ _ => []
  | .group s m t => mustRunL s ++ (mustRunL m ++ mustRunL t)
def mustRunL : List Node → List Phase
  | [] => []
  | n :: ns => mustRun n ++ mustRunL ns
end

theorem Ret.max_cont {a b : Ret} (h : a.max b = .cont) : a = .cont ∧ b = .cont := by
  cases a <;> cases b <;> simp [Ret.max] at h ⊢



/-- once a terminal outcome is remembered it stays remembered -/
theorem exec_last_kept (cfg : Cfg) (n : Node) (sub : Option Nat) (td : Bool) (st : St) (h : st.last.isSome = true) :
    (exec cfg n sub td st).1.last.isSome = true :=
  exec_preserves cfg (fun s => s.last.isSome = true)
    (fun p sub s h => runPhase_last cfg p sub s h)
    (fun p sub s h => by simpa [skipPhase] using h)
    (fun c sub s h => by unfold evalCheckpoint; exact finishNode_last _ _ (by simpa using h))
    (fun a b h _ hl => by rw [hl]; exact h)
    n sub td st h

theorem execAb_last_kept (cfg : Cfg) (ns : List Node) (sub : Option Nat) (st : St) (h : st.last.isSome = true) :
    (execAb cfg ns sub st).1.last.isSome = true :=
  exec_preserves.lAb cfg (fun s => s.last.isSome = true)
    (fun p sub s h => runPhase_last cfg p sub s h)
    (fun p sub s h => by simpa [skipPhase] using h)
    (fun c sub s h => by unfold evalCheckpoint; exact finishNode_last _ _ (by simpa using h))
    (fun a b h _ hl => by rw [hl]; exact h)
    ns sub st h

theorem execTd_last_kept (cfg : Cfg) (ns : List Node) (sub : Option Nat) (st : St) (h : st.last.isSome = true) :
    (execTd cfg ns sub st).1.last.isSome = true :=
  exec_preserves.lTd cfg (fun s => s.last.isSome = true)
    (fun p sub s h => runPhase_last cfg p sub s h)
    (fun p sub s h => by simpa [skipPhase] using h)
    (fun c sub s h => by unfold evalCheckpoint; exact finishNode_last _ _ (by simpa using h))
    (fun a b h _ hl => by rw [hl]; exact h)
    ns sub st h

theorem finishNode_term (st : St) (o : Res) (h : (finishNode st o).2 = .term) : (finishNode st o).1.last.isSome = true := by
  unfold finishNode at h ⊢
  by_cases ht : o.isTerminal = true
  · simp only [ht, if_true]; exact setLast_isSome st o
  · exfalso; rw [if_neg ht] at h; split at h <;> simp at h

theorem Ret.max_term {a b : Ret} (h : a.max b = .term) : a = .term ∨ b = .term := by
  cases a <;> cases b <;> simp [Ret.max] at h ⊢

theorem Ret.ne_cont {a : Ret} (h : (a != .cont) = true) : a = .term := by cases a <;> simp at h ⊢

/-- a node returns TERMINAL only with a terminal outcome remembered -/
theorem exec_term_last (cfg : Cfg) : ∀ (n : Node) (sub : Option Nat) (td : Bool) (st : St),
    (exec cfg n sub td st).2 = .term → (exec cfg n sub td st).1.last.isSome = true
  | .phase p, sub, td, st, h => by
    simp only [exec, execPhaseNode] at h ⊢
    split at h
    · simp at h
    · rename_i hc; simp only [hc] at ⊢; exact finishNode_term _ _ h
  | .checkpoint c, sub, td, st, h => by
    simp only [exec, execCheckpoint] at h ⊢
    split at h
    · simp at h
    · rename_i hc; simp only [hc] at ⊢; exact finishNode_term _ _ h
  | .seq ns, sub, td, st, h => by
    simp only [exec] at h ⊢
    cases td
    · simp only [Bool.false_eq_true, if_false] at h ⊢; exact lAb ns sub st h
    · simp only [if_true] at h ⊢; exact lTd ns sub st h
  | .subtest name ns, sub, td, st, h => by
    simp only [exec] at h ⊢
    cases td
    · simp only [Bool.false_eq_true, if_false] at h ⊢; exact lAb ns (some name) _ h
    · simp only [if_true] at h ⊢; exact lTd ns (some name) _ h
  | .branch id c ns, sub, td, st, h => by
    simp only [exec] at h ⊢
    split at h
    · simp at h
    · rename_i h1; simp only [h1] at ⊢
      split at h
      · rename_i h2; simp only [h2, if_true] at ⊢
        cases td
        · simp only [Bool.false_eq_true, if_false] at h ⊢; exact lAb ns sub st h
        · simp only [if_true] at h ⊢; exact lTd ns sub st h
      · simp at h
  | .group s m t, sub, td, st, h => by
    simp only [exec] at h ⊢
    cases td
    · simp only [Bool.false_eq_true, if_false] at h ⊢
      split at h
      · rename_i hne; rw [if_pos hne]; exact lAb s sub st (Ret.ne_cont hne)
      · rename_i hc; rw [if_neg hc]
        rcases Ret.max_term h with h2 | h3
        · have := lAb m sub _ h2
          show (ite _ _ _ : St × Ret).1.last.isSome = true
          split
          · exact execTd_last_kept cfg t sub _ this
          · exact execAb_last_kept cfg t sub _ this
        · show (ite _ _ _ : St × Ret).1.last.isSome = true
          split at h3
          · rename_i hC; rw [if_pos hC]; exact lTd t sub _ h3
          · rename_i hC; rw [if_neg hC]; exact lAb t sub _ h3
    · simp only [if_true] at h ⊢
      split at h
      · rename_i hne; rw [if_pos hne]; exact lTd s sub st (Ret.ne_cont hne)
      · rename_i hc; rw [if_neg hc]
        rcases Ret.max_term h with h2 | h3
        · have := lTd m sub _ h2
          show (ite _ _ _ : St × Ret).1.last.isSome = true
          split
          · exact execTd_last_kept cfg t sub _ this
          · exact execAb_last_kept cfg t sub _ this
        · show (ite _ _ _ : St × Ret).1.last.isSome = true
          split at h3
          · rename_i hC; rw [if_pos hC]; exact lTd t sub _ h3
          · rename_i hC; rw [if_neg hC]; exact lAb t sub _ h3
where
  lAb : ∀ (ns : List Node) (sub : Option Nat) (st : St),
      (execAb cfg ns sub st).2 = .term → (execAb cfg ns sub st).1.last.isSome = true
    | [], _, _, h => by simp [execAb] at h
    | n :: ns, sub, st, h => by
      simp only [execAb] at h ⊢
      split at h
      · rename_i hne; simp only [hne, if_true] at ⊢; exact exec_term_last cfg n sub false st (Ret.ne_cont hne)
      · rename_i hc; simp only [hc] at ⊢; exact lAb ns sub _ h
  lTd : ∀ (ns : List Node) (sub : Option Nat) (st : St),
      (execTd cfg ns sub st).2 = .term → (execTd cfg ns sub st).1.last.isSome = true
    | [], _, _, h => by simp [execTd] at h
    | n :: ns, sub, st, h => by
      simp only [execTd] at h ⊢
      rcases Ret.max_term h with h1 | h2
      · exact execTd_last_kept cfg ns sub _ (exec_term_last cfg n sub true st h1)
      · exact lTd ns sub _ h2

theorem Ret.not_term {a : Ret} (h : ¬ a = .term) : a = .cont := by cases a <;> simp at h ⊢


end OpenHTF.Exec
