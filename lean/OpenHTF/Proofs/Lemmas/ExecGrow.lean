import OpenHTF.Proofs.Lemmas.Exec
/- Helper lemmas: the record list only grows; a phase that is run leaves a record (no property statements here). -/
namespace OpenHTF.Exec


/-- the records of `b` extend those of `a` -/
def Grows (a b : St) : Prop := ∃ recs, b.phases = a.phases ++ recs

theorem Grows.refl (a : St) : Grows a a := ⟨[], by simp⟩
theorem Grows.trans {a b c : St} (h1 : Grows a b) (h2 : Grows b c) : Grows a c := by
  obtain ⟨r1, e1⟩ := h1; obtain ⟨r2, e2⟩ := h2
  exact ⟨r1 ++ r2, by rw [e2, e1, List.append_assoc]⟩
theorem Grows.mem {a b : St} (h : Grows a b) {r : PhaseRec} (hr : r ∈ a.phases) : r ∈ b.phases := by
  obtain ⟨rs, e⟩ := h; rw [e]; exact List.mem_append_left _ hr

theorem runPhase_grows (cfg : Cfg) (p : Phase) (sub : Option Nat) (st : St) : Grows st (runPhase cfg p sub st).1 := by
  unfold runPhase executePhase
  obtain ⟨recs, e, _⟩ := loop_shape cfg p sub (repeatLimit cfg p.opts) (repeatLimit cfg p.opts) 1 st
  exact ⟨recs, by rw [finishNode_phases, e]⟩

theorem execAb_grows (cfg : Cfg) (ns : List Node) (sub : Option Nat) (st : St) : Grows st (execAb cfg ns sub st).1 :=
  exec_preserves.lAb cfg (Grows st)
    (fun p sub s h => h.trans (runPhase_grows cfg p sub s))
    (fun p sub s h => h.trans ⟨[{ id := p.id, outcome := .skip, result := .pr .skip, subtest := sub }], by simp [skipPhase]⟩)
    (fun c sub s h => h.trans ⟨[], by simp [evalCheckpoint, finishNode_phases]⟩)
    (fun a b h hp _ => by obtain ⟨rs, e⟩ := h; exact ⟨rs, by rw [hp, e]⟩)
    ns sub st (Grows.refl st)

theorem execTd_grows (cfg : Cfg) (ns : List Node) (sub : Option Nat) (st : St) : Grows st (execTd cfg ns sub st).1 :=
  exec_preserves.lTd cfg (Grows st)
    (fun p sub s h => h.trans (runPhase_grows cfg p sub s))
    (fun p sub s h => h.trans ⟨[{ id := p.id, outcome := .skip, result := .pr .skip, subtest := sub }], by simp [skipPhase]⟩)
    (fun c sub s h => h.trans ⟨[], by simp [evalCheckpoint, finishNode_phases]⟩)
    (fun a b h hp _ => by obtain ⟨rs, e⟩ := h; exact ⟨rs, by rw [hp, e]⟩)
    ns sub st (Grows.refl st)


theorem once_leaves_record (cfg : Cfg) (p : Phase) (sub : Option Nat) (isLast : Bool) (st : St) (h : p.opts.runIf = none) :
    ∃ r ∈ (executePhaseOnce cfg p sub isLast st).1.phases, r.id = p.id := by
  rcases once_shape cfg p sub isLast st with ⟨_, _, _, hs⟩ | ⟨rec_, hid, e, _⟩
  · rw [h] at hs; simp at hs
  · exact ⟨rec_, by rw [e]; simp, hid⟩

theorem loop_grows (cfg : Cfg) (p : Phase) (sub : Option Nat) (limit fuel n : Nat) (st : St) :
    Grows st (executePhaseLoop cfg p sub limit fuel n st).1 := by
  obtain ⟨recs, e, _⟩ := loop_shape cfg p sub limit fuel n st
  exact ⟨recs, e⟩

theorem loop_leaves_record (cfg : Cfg) (p : Phase) (sub : Option Nat) (limit : Nat) (h : p.opts.runIf = none) :
    ∀ (fuel n : Nat) (st : St), 0 < fuel → ∃ r ∈ (executePhaseLoop cfg p sub limit fuel n st).1.phases, r.id = p.id
  | fuel+1, n, st, _ => by
    simp only [executePhaseLoop]
    obtain ⟨r, hr, hid⟩ := once_leaves_record cfg p sub (decide (n ≥ limit)) st h
    split
    · exact ⟨r, (loop_grows cfg p sub limit fuel (n+1) _).mem hr, hid⟩
    · exact ⟨r, hr, hid⟩

theorem repeatLimit_pos (cfg : Cfg) (o : Opts) (hc : 0 < cfg.defaultRepeatLimit) : 0 < repeatLimit cfg o := by
  unfold repeatLimit
  cases o.repeatLimit with
  | none => simpa using hc
  | some n => simp only; split <;> omega

/-- a phase that is run (not skipped) and has no `run_if` leaves at least one record of its own -/
theorem runPhase_leaves_record (cfg : Cfg) (hc : 0 < cfg.defaultRepeatLimit) (p : Phase) (sub : Option Nat) (st : St)
    (h : p.opts.runIf = none) : ∃ r ∈ (runPhase cfg p sub st).1.phases, r.id = p.id := by
  unfold runPhase executePhase
  simp only [finishNode_phases]
  exact loop_leaves_record cfg p sub _ h _ 1 st (repeatLimit_pos cfg p.opts hc)

mutual
/-- the phases a node declares unconditionally: not inside a branch (which may legitimately not be taken) or a subtest
    (whose remainder is skipped after a failure), and without `run_if` -/
def mustRun : Node → List Phase
  | .phase p => if p.opts.runIf.isNone then [p] else []
  | .checkpoint _ => []
  | .seq ns => mustRunL ns
  | .subtest _ _ => []
  | .branch _ _ _ => []
  | .group s m t => mustRunL s ++ (mustRunL m ++ mustRunL t)
def mustRunL : List Node → List Phase
  | [] => []
  | n :: ns => mustRun n ++ mustRunL ns
end

theorem Ret.max_cont {a b : Ret} (h : a.max b = .cont) : a = .cont ∧ b = .cont := by
  cases a <;> cases b <;> simp [Ret.max] at h ⊢



/-- once a terminal outcome is remembered it stays remembered -/
theorem exec_last_kept (cfg : Cfg) (n : Node) (sub : Option Nat) (td : Bool) (st : St) (h : st.last.isSome = true) :
    (exec cfg n sub td st).1.last.isSome = true :=
  exec_preserves cfg (fun s => s.last.isSome = true)
    (fun p sub s h => runPhase_last cfg p sub s h)
    (fun p sub s h => by simpa [skipPhase] using h)
    (fun c sub s h => by unfold evalCheckpoint; exact finishNode_last _ _ (by simpa using h))
    (fun a b h _ hl => by rw [hl]; exact h)
    n sub td st h

theorem execAb_last_kept (cfg : Cfg) (ns : List Node) (sub : Option Nat) (st : St) (h : st.last.isSome = true) :
    (execAb cfg ns sub st).1.last.isSome = true :=
  exec_preserves.lAb cfg (fun s => s.last.isSome = true)
    (fun p sub s h => runPhase_last cfg p sub s h)
    (fun p sub s h => by simpa [skipPhase] using h)
    (fun c sub s h => by unfold evalCheckpoint; exact finishNode_last _ _ (by simpa using h))
    (fun a b h _ hl => by rw [hl]; exact h)
    ns sub st h

theorem execTd_last_kept (cfg : Cfg) (ns : List Node) (sub : Option Nat) (st : St) (h : st.last.isSome = true) :
    (execTd cfg ns sub st).1.last.isSome = true :=
  exec_preserves.lTd cfg (fun s => s.last.isSome = true)
    (fun p sub s h => runPhase_last cfg p sub s h)
    (fun p sub s h => by simpa [skipPhase] using h)
    (fun c sub s h => by unfold evalCheckpoint; exact finishNode_last _ _ (by simpa using h))
    (fun a b h _ hl => by rw [hl]; exact h)
    ns sub st h

theorem finishNode_term (st : St) (o : Res) (h : (finishNode st o).2 = .term) : (finishNode st o).1.last.isSome = true := by
  unfold finishNode at h ⊢
  by_cases ht : o.isTerminal = true
  · simp only [ht, if_true]; exact setLast_isSome st o
  · exfalso; rw [if_neg ht] at h; split at h <;> simp at h

theorem Ret.max_term {a b : Ret} (h : a.max b = .term) : a = .term ∨ b = .term := by
  cases a <;> cases b <;> simp [Ret.max] at h ⊢

theorem Ret.ne_cont {a : Ret} (h : (a != .cont) = true) : a = .term := by cases a <;> simp at h ⊢

/-- a node returns TERMINAL only with a terminal outcome remembered -/
theorem exec_term_last (cfg : Cfg) : ∀ (n : Node) (sub : Option Nat) (td : Bool) (st : St),
    (exec cfg n sub td st).2 = .term → (exec cfg n sub td st).1.last.isSome = true
  | .phase p, sub, td, st, h => by
    simp only [exec, execPhaseNode] at h ⊢
    split at h
    · simp at h
    · rename_i hc; simp only [hc] at ⊢; exact finishNode_term _ _ h
  | .checkpoint c, sub, td, st, h => by
    simp only [exec, execCheckpoint] at h ⊢
    split at h
    · simp at h
    · rename_i hc; simp only [hc] at ⊢; exact finishNode_term _ _ h
  | .seq ns, sub, td, st, h => by
    simp only [exec] at h ⊢
    cases td
    · simp only [Bool.false_eq_true, if_false] at h ⊢; exact lAb ns sub st h
    · simp only [if_true] at h ⊢; exact lTd ns sub st h
  | .subtest name ns, sub, td, st, h => by
    simp only [exec] at h ⊢
    cases td
    · simp only [Bool.false_eq_true, if_false] at h ⊢; exact lAb ns (some name) _ h
    · simp only [if_true] at h ⊢; exact lTd ns (some name) _ h
  | .branch id c ns, sub, td, st, h => by
    simp only [exec] at h ⊢
    split at h
    · simp at h
    · rename_i h1; simp only [h1] at ⊢
      split at h
      · rename_i h2; simp only [h2, if_true] at ⊢
        cases td
        · simp only [Bool.false_eq_true, if_false] at h ⊢; exact lAb ns sub st h
        · simp only [if_true] at h ⊢; exact lTd ns sub st h
      · simp at h
  | .group s m t, sub, td, st, h => by
    simp only [exec] at h ⊢
    cases td
    · simp only [Bool.false_eq_true, if_false] at h ⊢
      split at h
      · rename_i hne; rw [if_pos hne]; exact lAb s sub st (Ret.ne_cont hne)
      · rename_i hc; rw [if_neg hc]
        rcases Ret.max_term h with h2 | h3
        · have := lAb m sub _ h2
          show (ite _ _ _ : St × Ret).1.last.isSome = true
          split
          · exact execTd_last_kept cfg t sub _ this
          · exact execAb_last_kept cfg t sub _ this
        · show (ite _ _ _ : St × Ret).1.last.isSome = true
          split at h3
          · rename_i hC; rw [if_pos hC]; exact lTd t sub _ h3
          · rename_i hC; rw [if_neg hC]; exact lAb t sub _ h3
    · simp only [if_true] at h ⊢
      split at h
      · rename_i hne; rw [if_pos hne]; exact lTd s sub st (Ret.ne_cont hne)
      · rename_i hc; rw [if_neg hc]
        rcases Ret.max_term h with h2 | h3
        · have := lTd m sub _ h2
          show (ite _ _ _ : St × Ret).1.last.isSome = true
          split
          · exact execTd_last_kept cfg t sub _ this
          · exact execAb_last_kept cfg t sub _ this
        · show (ite _ _ _ : St × Ret).1.last.isSome = true
          split at h3
          · rename_i hC; rw [if_pos hC]; exact lTd t sub _ h3
          · rename_i hC; rw [if_neg hC]; exact lAb t sub _ h3
where
  lAb : ∀ (ns : List Node) (sub : Option Nat) (st : St),
      (execAb cfg ns sub st).2 = .term → (execAb cfg ns sub st).1.last.isSome = true
    | [], _, _, h => by simp [execAb] at h
    | n :: ns, sub, st, h => by
      simp only [execAb] at h ⊢
      split at h
      · rename_i hne; simp only [hne, if_true] at ⊢; exact exec_term_last cfg n sub false st (Ret.ne_cont hne)
      · rename_i hc; simp only [hc] at ⊢; exact lAb ns sub _ h
  lTd : ∀ (ns : List Node) (sub : Option Nat) (st : St),
      (execTd cfg ns sub st).2 = .term → (execTd cfg ns sub st).1.last.isSome = true
    | [], _, _, h => by simp [execTd] at h
    | n :: ns, sub, st, h => by
      simp only [execTd] at h ⊢
      rcases Ret.max_term h with h1 | h2
      · exact execTd_last_kept cfg ns sub _ (exec_term_last cfg n sub true st h1)
      · exact lTd ns sub _ h2

theorem Ret.not_term {a : Ret} (h : ¬ a = .term) : a = .cont := by cases a <;> simp at h ⊢



/-- `exec_preserves` for predicates that also look at the run_if call log -/
theorem exec_preserves2 (cfg : Cfg) (P : St → Prop)
    (hrun : ∀ p sub st, P st → P (runPhase cfg p sub st).1)
    (hskip : ∀ p sub st, P st → P (skipPhase p sub st))
    (hck : ∀ c sub st, P st → P (evalCheckpoint c sub st).1)
    (hmod : ∀ (a b : St), P a → b.phases = a.phases → b.last = a.last → b.runIfCalls = a.runIfCalls → P b) :
    ∀ (n : Node) (sub : Option Nat) (td : Bool) (st : St), P st → P (exec cfg n sub td st).1
  | .phase p, sub, td, st, h => by
    simp only [exec, execPhaseNode]; split
    · exact hskip p sub st h
    · exact hrun p sub st h
  | .checkpoint c, sub, td, st, h => by
    simp only [exec, execCheckpoint]; split
    · exact hmod st _ h rfl rfl rfl
    · exact hck c sub st h
  | .seq ns, sub, td, st, h => by
    simp only [exec]; split
    · exact lTd ns sub st h
    · exact lAb ns sub st h
  | .subtest name ns, sub, td, st, h => by
    simp only [exec]
    have h0 := hmod st { st with subFail := sub.isSome && st.subFail } h rfl rfl rfl
    split
    · exact hmod _ _ (lTd ns (some name) _ h0) rfl rfl rfl
    · exact hmod _ _ (lAb ns (some name) _ h0) rfl rfl rfl
  | .branch id c ns, sub, td, st, h => by
    simp only [exec]
    split
    · exact h
    · split
      · split
        · exact hmod _ _ (lTd ns sub st h) rfl rfl rfl
        · exact hmod _ _ (lAb ns sub st h) rfl rfl rfl
      · exact hmod _ _ h rfl rfl rfl
  | .group s m t, sub, td, st, h => by
    simp only [exec]
    cases td
    · simp only [Bool.false_eq_true, if_false]
      have h1 := lAb s sub st h
      split
      · exact h1
      · have h2 := lAb m sub _ h1
        split
        · exact lTd t sub _ h2
        · exact lAb t sub _ h2
    · simp only [if_true]
      have h1 := lTd s sub st h
      split
      · exact h1
      · have h2 := lTd m sub _ h1
        split
        · exact lTd t sub _ h2
        · exact lAb t sub _ h2
where
  lAb : ∀ (ns : List Node) (sub : Option Nat) (st : St), P st → P (execAb cfg ns sub st).1
    | [], sub, st, h => by simpa [execAb] using h
    | n :: ns, sub, st, h => by
      simp only [execAb]
      have h1 := exec_preserves2 cfg P hrun hskip hck hmod n sub false st h
      split
      · exact h1
      · exact lAb ns sub _ h1
  lTd : ∀ (ns : List Node) (sub : Option Nat) (st : St), P st → P (execTd cfg ns sub st).1
    | [], sub, st, h => by simpa [execTd] using h
    | n :: ns, sub, st, h => by
      simp only [execTd]
      exact lTd ns sub _ (exec_preserves2 cfg P hrun hskip hck hmod n sub true st h)


/-- the run_if call log of `b` extends that of `a` -/
def GrowsRI (a b : St) : Prop := ∃ l, b.runIfCalls = a.runIfCalls ++ l
theorem GrowsRI.refl (a : St) : GrowsRI a a := ⟨[], by simp⟩
theorem GrowsRI.trans {a b c : St} (h1 : GrowsRI a b) (h2 : GrowsRI b c) : GrowsRI a c := by
  obtain ⟨r1, e1⟩ := h1; obtain ⟨r2, e2⟩ := h2
  exact ⟨r1 ++ r2, by rw [e2, e1, List.append_assoc]⟩
theorem GrowsRI.mem {a b : St} (h : GrowsRI a b) {x : Nat} (hx : x ∈ a.runIfCalls) : x ∈ b.runIfCalls := by
  obtain ⟨rs, e⟩ := h; rw [e]; exact List.mem_append_left _ hx

theorem once_growsRI (cfg : Cfg) (p : Phase) (sub : Option Nat) (isLast : Bool) (st : St) :
    GrowsRI st (executePhaseOnce cfg p sub isLast st).1 := by
  unfold executePhaseOnce
  cases hri : p.opts.runIf with
  | none => exact ⟨[], by simp [addDiagnoses]⟩
  | some f =>
    simp only
    cases hf : f (count st.runIfCalls p.id) with
    | none => exact ⟨[p.id], by simp⟩
    | some b => cases b
                · exact ⟨[p.id], by simp⟩
                · exact ⟨[p.id], by simp [addDiagnoses]⟩

/-- one attempt leaves a record of the phase or an entry in the run_if call log -/
theorem once_record_or_runIf (cfg : Cfg) (p : Phase) (sub : Option Nat) (isLast : Bool) (st : St) :
    (∃ r ∈ (executePhaseOnce cfg p sub isLast st).1.phases, r.id = p.id) ∨
    (p.opts.runIf.isSome = true ∧ p.id ∈ (executePhaseOnce cfg p sub isLast st).1.runIfCalls) := by
  cases hri : p.opts.runIf with
  | none => exact Or.inl (once_leaves_record cfg p sub isLast st hri)
  | some f =>
    right
    refine ⟨rfl, ?_⟩
    unfold executePhaseOnce
    simp only [hri]
    cases hf : f (count st.runIfCalls p.id) with
    | none => simp
    | some b => cases b <;> simp [addDiagnoses]

theorem loop_growsRI (cfg : Cfg) (p : Phase) (sub : Option Nat) (limit : Nat) :
    ∀ (fuel n : Nat) (st : St), GrowsRI st (executePhaseLoop cfg p sub limit fuel n st).1
  | 0, _, st => by simp only [executePhaseLoop]; exact GrowsRI.refl st
  | fuel+1, n, st => by
    simp only [executePhaseLoop]
    split
    · exact (once_growsRI cfg p sub _ st).trans (loop_growsRI cfg p sub limit fuel (n+1) _)
    · exact once_growsRI cfg p sub _ st

theorem loop_record_or_runIf (cfg : Cfg) (p : Phase) (sub : Option Nat) (limit : Nat) :
    ∀ (fuel n : Nat) (st : St), 0 < fuel →
      (∃ r ∈ (executePhaseLoop cfg p sub limit fuel n st).1.phases, r.id = p.id) ∨
      (p.opts.runIf.isSome = true ∧ p.id ∈ (executePhaseLoop cfg p sub limit fuel n st).1.runIfCalls)
  | fuel+1, n, st, _ => by
    simp only [executePhaseLoop]
    rcases once_record_or_runIf cfg p sub (decide (n ≥ limit)) st with ⟨r, hr, hid⟩ | ⟨hs, hm⟩
    · split
      · exact Or.inl ⟨r, (loop_grows cfg p sub limit fuel (n+1) _).mem hr, hid⟩
      · exact Or.inl ⟨r, hr, hid⟩
    · split
      · exact Or.inr ⟨hs, (loop_growsRI cfg p sub limit fuel (n+1) _).mem hm⟩
      · exact Or.inr ⟨hs, hm⟩

theorem finishNode_runIfCalls (st : St) (o : Res) : (finishNode st o).1.runIfCalls = st.runIfCalls := by
  unfold finishNode; split
  · simp [setLast]
  · split <;> rfl

theorem runPhase_growsRI (cfg : Cfg) (p : Phase) (sub : Option Nat) (st : St) : GrowsRI st (runPhase cfg p sub st).1 := by
  unfold runPhase executePhase
  obtain ⟨l, e⟩ := loop_growsRI cfg p sub (repeatLimit cfg p.opts) (repeatLimit cfg p.opts) 1 st
  exact ⟨l, by rw [finishNode_runIfCalls, e]⟩

theorem runPhase_record_or_runIf (cfg : Cfg) (hc : 0 < cfg.defaultRepeatLimit) (p : Phase) (sub : Option Nat) (st : St) :
    (∃ r ∈ (runPhase cfg p sub st).1.phases, r.id = p.id) ∨
    (p.opts.runIf.isSome = true ∧ p.id ∈ (runPhase cfg p sub st).1.runIfCalls) := by
  unfold runPhase executePhase
  simp only [finishNode_phases, finishNode_runIfCalls]
  exact loop_record_or_runIf cfg p sub _ _ 1 st (repeatLimit_pos cfg p.opts hc)

theorem exec_growsRI (cfg : Cfg) (n : Node) (sub : Option Nat) (td : Bool) (st : St) : GrowsRI st (exec cfg n sub td st).1 :=
  exec_preserves2 cfg (GrowsRI st)
    (fun p sub s h => h.trans (runPhase_growsRI cfg p sub s))
    (fun p sub s h => h.trans ⟨[], by simp [skipPhase]⟩)
    (fun c sub s h => h.trans ⟨[], by simp [evalCheckpoint, finishNode_runIfCalls]⟩)
    (fun a b h _ _ hr => by obtain ⟨rs, e⟩ := h; exact ⟨rs, by rw [hr, e]⟩)
    n sub td st (GrowsRI.refl st)
theorem execAb_growsRI (cfg : Cfg) (ns : List Node) (sub : Option Nat) (st : St) : GrowsRI st (execAb cfg ns sub st).1 :=
  exec_preserves2.lAb cfg (GrowsRI st)
    (fun p sub s h => h.trans (runPhase_growsRI cfg p sub s))
    (fun p sub s h => h.trans ⟨[], by simp [skipPhase]⟩)
    (fun c sub s h => h.trans ⟨[], by simp [evalCheckpoint, finishNode_runIfCalls]⟩)
    (fun a b h _ _ hr => by obtain ⟨rs, e⟩ := h; exact ⟨rs, by rw [hr, e]⟩)
    ns sub st (GrowsRI.refl st)
theorem execTd_growsRI (cfg : Cfg) (ns : List Node) (sub : Option Nat) (st : St) : GrowsRI st (execTd cfg ns sub st).1 :=
  exec_preserves2.lTd cfg (GrowsRI st)
    (fun p sub s h => h.trans (runPhase_growsRI cfg p sub s))
    (fun p sub s h => h.trans ⟨[], by simp [skipPhase]⟩)
    (fun c sub s h => h.trans ⟨[], by simp [evalCheckpoint, finishNode_runIfCalls]⟩)
    (fun a b h _ _ hr => by obtain ⟨rs, e⟩ := h; exact ⟨rs, by rw [hr, e]⟩)
    ns sub st (GrowsRI.refl st)

mutual
/-- every phase a node declares outside branches and subtests, with or without `run_if` -/
def declaredU : Node → List Phase
  | .phase p => [p]
  | .checkpoint _ => []
  | .seq ns => declaredUL ns
  | .subtest _ _ => []
  | .branch _ _ _ => []
  | .group s m t => declaredUL s ++ (declaredUL m ++ declaredUL t)
def declaredUL : List Node → List Phase
  | [] => []
  | n :: ns => declaredU n ++ declaredUL ns
end

/-- phase `p` is accounted for in state `fin`: it has a record, or it has a `run_if` and that was evaluated -/
def Acc (fin : St) (p : Phase) : Prop :=
  (∃ r ∈ fin.phases, r.id = p.id) ∨ (p.opts.runIf.isSome = true ∧ p.id ∈ fin.runIfCalls)

theorem Acc.mono {a b : St} {p : Phase} (h1 : Grows a b) (h2 : GrowsRI a b) (h : Acc a p) : Acc b p := by
  rcases h with ⟨r, hr, hid⟩ | ⟨hs, hm⟩
  · exact Or.inl ⟨r, h1.mem hr, hid⟩
  · exact Or.inr ⟨hs, h2.mem hm⟩


end OpenHTF.Exec
