import OpenHTF.Model.Meas
/-
C06 — measurement outcome = all validators on the recorded (transformed) value. For every declaration
(any transform, any validator set), every assignment history and every value.
-/
namespace OpenHTF.Meas

theorem evalAll_some (vs : List Verdict) (b m : Bool) (h : evalAll vs = some (b, m)) :
    b = vs.all isAccept ∧ (b = true → m = vs.any (· == .accept true)) ∧ (b = false → m = false) := by
  induction vs generalizing b m with
  | nil => simp [evalAll] at h; simp [h]
  | cons v vs ih =>
    cases v with
    | reject => simp [evalAll] at h; simp [h, isAccept]
    | raises => simp [evalAll] at h
    | accept mm =>
      simp only [evalAll] at h
      cases hr : evalAll vs with
      | none => simp [hr] at h
      | some p =>
        obtain ⟨b', m'⟩ := p
        have := ih b' m' hr
        cases b' <;> simp [hr] at h <;> obtain ⟨rfl, rfl⟩ := h
        · simp [isAccept, ← this.1]
        · cases mm <;> simp_all [isAccept]

theorem evalAll_none (vs : List Verdict) (h : evalAll vs = none) : vs.all isAccept = false := by
  induction vs with
  | nil => simp [evalAll] at h
  | cons v vs ih =>
    cases v with
    | reject => simp [evalAll] at h
    | raises => simp [isAccept]
    | accept mm =>
      simp only [evalAll] at h
      cases hr : evalAll vs with
      | none => simp [isAccept, ih hr]
      | some p => obtain ⟨b', m'⟩ := p; cases b' <;> simp [hr] at h

/-- validation of a scalar: outcome PASS exactly when every validator accepts the value, else FAIL;
    marginal exactly when PASS and some validator deems the value marginal; a raising validator (reached
    before any rejection) marks the measurement FAIL and surfaces to the caller -/
theorem c06_outcome_iff_all_validators (d : Decl) (m : M) (x : Val) :
    let r := validateScalar d m x
    (r.1.outcome = .pass ↔ (d.verdicts x).all isAccept = true) ∧
    (r.1.outcome = .pass ∨ r.1.outcome = .fail) ∧
    (r.1.marginal = true ↔ (r.1.outcome = .pass ∧ (d.verdicts x).any (· == .accept true) = true)) ∧
    (r.2 = .raised → r.1.outcome = .fail) ∧
    r.1.stored = m.stored ∧ r.1.entries = m.entries := by
  simp only [validateScalar]
  cases h : evalAll (d.verdicts x) with
  | none => simp [evalAll_none _ h]
  | some p =>
    obtain ⟨b, mg⟩ := p
    have hs := evalAll_some _ b mg h
    cases b
    · simp [← hs.1]
    · simp only [← hs.1, hs.2.1 rfl]; simp

def WF (s : St) : Prop := s.ms.length = s.decls.length

theorem getM_setM_same (s : St) (i : Nat) (m : M) (h : i < s.ms.length) : getM (setM s i m) i = m := by
  simp [getM, setM, List.getD_eq_getElem?_getD, h]
theorem getM_setM_other (s : St) (i j : Nat) (m : M) (h : j ≠ i) : getM (setM s i m) j = getM s j := by
  simp [getM, setM, List.getD_eq_getElem?_getD, List.getElem?_set, h.symm]

theorem step_wf (s : St) (o : Op) (h : WF s) : WF (step s o).1 := by
  unfold WF at *
  cases o with
  | setUndeclared => exact h
  | set i v =>
    simp only [step]
    split
    · exact h
    · split
      · exact h
      · split
        · exact h
        · simp [setM, h]
  | setDim i c v =>
    simp only [step]
    split
    · exact h
    · split
      · exact h
      · split
        · exact h
        · split
          · exact h
          · simp [setM, h]
  | phaseEnd =>
    simp only [step]
    have key : ∀ (ds : List Decl) (ms : List M), (step.go ds ms).1.length = ms.length := by
      intro ds
      induction ds with
      | nil => intro ms; simp [step.go]
      | cons d ds ih =>
        intro ms
        cases ms with
        | nil => simp [step.go]
        | cons m ms => simp [step.go, ih]
    rw [key]; exact h

theorem go_res : ∀ (ds : List Decl) (ms : List M), (step.go ds ms).2 = .ok ∨ (step.go ds ms).2 = .raised
  | [], ms => by simp [step.go]
  | d :: ds, [] => by simp [step.go]
  | d :: ds, m :: ms => by
    simp only [step.go]
    by_cases h : ((if m.outcome == .partiallySet then validateDim d m else (m, Res.ok)).2 == Res.raised) = true
    · rw [if_pos h]; exact Or.inr rfl
    · rw [if_neg h]; exact go_res ds ms

/-- an assignment to an undeclared name, to a dimensioned measurement without coordinates, to a scalar
    with coordinates, with the wrong number of coordinates, or whose transform raises, is rejected and
    changes nothing -/
theorem c06_rejected_ops_change_nothing (s : St) (o : Op)
    (h : (step s o).2 = .notAMeasurement ∨ (step s o).2 = .invalidDimensions ∨
         (∃ i v d, o = .set i v ∧ s.decls[i]? = some d ∧ d.arity = none ∧ d.transform v = none) ∨
         (∃ i c v d, o = .setDim i c v ∧ s.decls[i]? = some d ∧ d.transform v = none ∧ d.arity = some c.length)) :
    (step s o).1 = s := by
  cases o with
  | setUndeclared => rfl
  | phaseEnd =>
    rcases h with h | h | ⟨i, v, d, h, _⟩ | ⟨i, c, v, d, h, _⟩
    · simp only [step] at h
      rcases go_res s.decls s.ms with h2 | h2 <;> rw [h2] at h <;> simp at h
    · simp only [step] at h
      rcases go_res s.decls s.ms with h2 | h2 <;> rw [h2] at h <;> simp at h
    · simp at h
    · simp at h
  | set i v =>
    simp only [step] at h ⊢
    split
    · rfl
    · rename_i d hd
      split
      · rfl
      · rename_i hsc
        split
        · rfl
        · rename_i x hx
          exfalso
          rcases h with h | h | ⟨i', v', d', h, hd', _, ht⟩ | ⟨i', c, v', d', h, _⟩
          · simp [hd, hsc, hx, validateScalar] at h
            split at h <;> simp at h
          · simp [hd, hsc, hx, validateScalar] at h
            split at h <;> simp at h
          · simp only [Op.set.injEq] at h; obtain ⟨rfl, rfl⟩ := h
            rw [hd] at hd'; simp only [Option.some.injEq] at hd'; subst hd'
            simp [hx] at ht
          · simp at h
  | setDim i c v =>
    simp only [step] at h ⊢
    split
    · rfl
    · rename_i d hd
      split
      · rfl
      · rename_i n hn
        split
        · rfl
        · rename_i hlen
          split
          · rfl
          · rename_i x hx
            exfalso
            rcases h with h | h | ⟨i', v', d', h, _⟩ | ⟨i', c', v', d', h, hd', ht, _⟩
            · simp [hd, hn, hlen, hx] at h
            · simp [hd, hn, hlen, hx] at h
            · simp at h
            · simp only [Op.setDim.injEq] at h; obtain ⟨rfl, rfl, rfl⟩ := h
              rw [hd] at hd'; simp only [Option.some.injEq] at hd'; subst hd'
              simp [hx] at ht

theorem validateScalar_spec (d : Decl) (m : M) (x : Val) :
    ((validateScalar d m x).1.outcome, (validateScalar d m x).1.marginal) = Spec.scalarOutcome d x ∧
    (validateScalar d m x).1.stored = m.stored := by
  simp only [validateScalar, Spec.scalarOutcome]
  cases h : evalAll (d.verdicts x) with
  | none => simp [evalAll_none _ h]
  | some p =>
    obtain ⟨b, mg⟩ := p
    have hs := evalAll_some _ b mg h
    cases b
    · simp [← hs.1]
    · simp [← hs.1, hs.2.1 rfl]

/-- after a successful scalar assignment the recorded value is the transform of the assigned value and
    outcome/marginal are the validators' verdict on THAT recorded value; other measurements are untouched -/
theorem c06_scalar_assignment (s : St) (hwf : WF s) (i : Nat) (v x : Val) (d : Decl)
    (hd : s.decls[i]? = some d) (hsc : d.arity = none) (hx : d.transform v = some x) :
    let s' := (step s (.set i v)).1
    (getM s' i).stored = some x ∧
    ((getM s' i).outcome, (getM s' i).marginal) = Spec.scalarOutcome d x ∧
    (∀ j, j ≠ i → getM s' j = getM s j) := by
  have hi : i < s.ms.length := by
    rw [hwf]; exact (List.getElem?_eq_some_iff.mp hd).1
  simp only [step, hd, hsc, Option.isSome_none, Bool.false_eq_true, if_false, hx]
  have hv := validateScalar_spec d { getM s i with stored := some x } x
  refine ⟨by rw [getM_setM_same _ _ _ hi, hv.2], by rw [getM_setM_same _ _ _ hi]; exact hv.1,
    fun j hj => getM_setM_other _ _ _ _ hj⟩

/-- the invariant "outcome is always the validators' verdict on the recorded value; UNSET iff never
    assigned" for a scalar measurement -/
def ScalarGood (d : Decl) (m : M) : Prop :=
  match m.stored with
  | none => m.outcome = .unset ∧ m.marginal = false
  | some x => (m.outcome, m.marginal) = Spec.scalarOutcome d x

theorem phaseEnd_keeps_nonpartial : ∀ (ds : List Decl) (ms : List M) (i : Nat),
    (ms.getD i {}).outcome ≠ .partiallySet → (step.go ds ms).1.getD i {} = ms.getD i {}
  | [], ms, i, _ => by simp [step.go]
  | d :: ds, [], i, _ => by simp [step.go]
  | d :: ds, m :: ms, 0, h => by
    simp only [List.getD_cons_zero] at h
    simp [step.go, h]
  | d :: ds, m :: ms, i+1, h => by
    simp only [List.getD_cons_succ] at h
    simp only [step.go, List.getD_cons_succ]
    exact phaseEnd_keeps_nonpartial ds ms i h

/-- over every history: a scalar measurement is UNSET if never (successfully) assigned, otherwise PASS
    exactly when every validator accepts the recorded value, else FAIL, and marginal only if PASS and some
    validator deems the recorded value marginal -/
theorem c06_scalar_invariant (decls : List Decl) (i : Nat) (d : Decl) (hd : decls[i]? = some d) (hsc : d.arity = none) :
    ∀ (ops : List Op) (s : St), s.decls = decls → WF s → ScalarGood d (getM s i) → (getM s i).outcome ≠ .partiallySet →
      ScalarGood d (getM (run s ops).1 i) ∧ (getM (run s ops).1 i).outcome ≠ .partiallySet
  | [], s, _, _, h, hp => ⟨h, hp⟩
  | o :: os, s, hdecl, hwf, h, hp => by
    simp only [run]
    have hdecl' : (step s o).1.decls = decls := by
      cases o <;> simp only [step] <;> (try split) <;> (try split) <;> (try split) <;> (try split) <;> simp_all [setM]
    have key : ScalarGood d (getM (step s o).1 i) ∧ (getM (step s o).1 i).outcome ≠ .partiallySet := by
      cases o with
      | setUndeclared => exact ⟨h, hp⟩
      | phaseEnd =>
        simp only [step, getM]
        rw [phaseEnd_keeps_nonpartial _ _ _ hp]
        exact ⟨h, hp⟩
      | set j v =>
        by_cases hj : j = i
        · subst hj
          cases hx : d.transform v with
          | none =>
            have : (step s (.set j v)).1 = s := by simp [step, hdecl, hd, hsc, hx]
            rw [this]; exact ⟨h, hp⟩
          | some x =>
            have := c06_scalar_assignment s hwf j v x d (by rw [hdecl]; exact hd) hsc hx
            simp only at this
            obtain ⟨h1, h2, _⟩ := this
            refine ⟨?_, ?_⟩
            · unfold ScalarGood; rw [h1]; exact h2
            · intro hps
              have : ((getM (step s (.set j v)).1 j).outcome) = (Spec.scalarOutcome d x).1 := by rw [← h2]
              rw [hps] at this
              unfold Spec.scalarOutcome at this
              split at this <;> simp at this
        · have hsame : getM (step s (.set j v)).1 i = getM s i := by
            simp only [step]
            split
            · rfl
            · split
              · rfl
              · split
                · rfl
                · exact getM_setM_other _ _ _ _ (fun e => hj e.symm)
          rw [hsame]; exact ⟨h, hp⟩
      | setDim j c v =>
        by_cases hj : j = i
        · subst hj
          have : (step s (.setDim j c v)).1 = s := by simp [step, hdecl, hd, hsc]
          rw [this]; exact ⟨h, hp⟩
        · have hsame : getM (step s (.setDim j c v)).1 i = getM s i := by
            simp only [step]
            split
            · rfl
            · split
              · rfl
              · split
                · rfl
                · split
                  · rfl
                  · exact getM_setM_other _ _ _ _ (fun e => hj e.symm)
          rw [hsame]; exact ⟨h, hp⟩
    exact c06_scalar_invariant decls i d hd hsc os _ hdecl' (step_wf s o hwf) key.1 key.2

/-! #### dimensioned measurements -/

def keys (l : List (Coord × Val)) : List Coord := l.map (·.1)

theorem upsert_lookup_same (c : Coord) (v : Val) (l : List (Coord × Val)) : (upsert c v l).lookup c = some v := by
  induction l with
  | nil => simp [upsert, List.lookup]
  | cons p l ih =>
    obtain ⟨c', v'⟩ := p
    simp only [upsert]
    split
    · simp [List.lookup]
    · rename_i hne
      simp only [List.lookup]
      have : (c == c') = false := by simp; exact fun e => hne e.symm
      simp [this, ih]

theorem upsert_lookup_other (c c2 : Coord) (v : Val) (l : List (Coord × Val)) (h : c2 ≠ c) :
    (upsert c v l).lookup c2 = l.lookup c2 := by
  induction l with
  | nil =>
    have : (c2 == c) = false := by simp [h]
    simp [upsert, List.lookup, this]
  | cons p l ih =>
    obtain ⟨c', v'⟩ := p
    simp only [upsert]
    split
    · rename_i he; subst he
      have : (c2 == c') = false := by simp [h]
      simp [List.lookup, this]
    · simp only [List.lookup]
      split <;> simp_all

/-- per coordinate the recorded value is the (transformed) last assigned one, and the coordinates keep
    first-assignment order: an override does not move its row -/
theorem c06_dim_order_is_first_assignment (c : Coord) (v : Val) (l : List (Coord × Val)) :
    (upsert c v l).lookup c = some v ∧
    (∀ c2, c2 ≠ c → (upsert c v l).lookup c2 = l.lookup c2) ∧
    keys (upsert c v l) = (if c ∈ keys l then keys l else keys l ++ [c]) := by
  refine ⟨upsert_lookup_same c v l, fun c2 h => upsert_lookup_other c c2 v l h, ?_⟩
  induction l with
  | nil => simp [upsert, keys]
  | cons p l ih =>
    obtain ⟨c', v'⟩ := p
    simp only [upsert]
    split
    · rename_i he; subst he; simp [keys]
    · rename_i hne
      simp only [keys, List.map_cons, List.mem_cons] at ih ⊢
      rw [ih]
      have : ¬ c = c' := fun e => hne e.symm
      simp only [this, false_or]
      split
      · rename_i h; simp [h]
      · rename_i h; simp [h]

/-- no measurement leaves a phase PARTIALLY_SET -/
theorem c06_never_partially_set_after_phase : ∀ (ds : List Decl) (ms : List M), ms.length ≤ ds.length →
    ∀ m ∈ (step.go ds ms).1, m.outcome ≠ .partiallySet
  | [], ms, h => by
    have : ms = [] := by cases ms <;> simp_all
    subst this; simp [step.go]
  | d :: ds, [], _ => by simp [step.go]
  | d :: ds, m :: ms, h => by
    intro x hx
    simp only [step.go, List.mem_cons] at hx
    rcases hx with rfl | hx
    · split
      · simp only [validateDim]
        split <;> simp
      · rename_i hnp; simpa using hnp
    · exact c06_never_partially_set_after_phase ds ms (by simpa using h) x hx

/-- a dimensioned measurement's outcome after the phase: PASS exactly when every validator accepts every
    row, else FAIL; a validator that raises marks it FAIL and surfaces as an error of the phase -/
theorem c06_dim_outcome (d : Decl) (m : M) :
    let r := validateDim d m
    (r.1.outcome = .pass ∨ r.1.outcome = .fail) ∧ (r.2 = .raised → r.1.outcome = .fail) ∧
    (r.1.marginal = true → r.1.outcome = .pass) ∧ r.1.entries = m.entries := by
  simp only [validateDim]
  split <;> simp

/-- non-vacuity: 9 (marginal) then 5 (not marginal): marginal is recomputed, not sticky (fixed defect #7) -/
example :
    let d : Decl := { arity := none, transform := some, verdicts := fun x => [if x = 9 then .accept true else if x ≤ 10 then .accept false else .reject] }
    let s := (run (init [d]) [.set 0 9, .set 0 5]).1
    (getM s 0).stored = some 5 ∧ (getM s 0).outcome = .pass ∧ (getM s 0).marginal = false := by decide

end OpenHTF.Meas

namespace OpenHTF.Meas

def acceptsAt (d : Decl) (j : Nat) (x : Val) : Bool := isAccept ((d.verdicts x).getD j .raises)

theorem evalRowsFor_true_iff (d : Decl) (j : Nat) : ∀ (rows : List (Coord × Val)),
    (∃ m, evalRowsFor d j rows = some (true, m)) ↔ rows.all (fun r => acceptsAt d j r.2) = true
  | [] => by simp [evalRowsFor]
  | (c, x) :: rows => by
    have ih := evalRowsFor_true_iff d j rows
    simp only [evalRowsFor, List.all_cons, Bool.and_eq_true]
    cases hv : (d.verdicts x).getD j .raises with
    | raises =>
      have hx : acceptsAt d j x = false := by unfold acceptsAt; rw [hv]; rfl
      simp [hx]
    | reject =>
      have hx : acceptsAt d j x = false := by unfold acceptsAt; rw [hv]; rfl
      simp [hx]
    | accept mm =>
      have hx : acceptsAt d j x = true := by unfold acceptsAt; rw [hv]; rfl
      simp only [hx, true_and]
      rw [← ih]
      cases hr : evalRowsFor d j rows with
      | none => simp
      | some p => obtain ⟨b, m'⟩ := p; cases b <;> simp

theorem evalDimFrom_true_iff (d : Decl) (rows : List (Coord × Val)) : ∀ (n j : Nat),
    (∃ m, evalDimFrom d rows n j = some (true, m)) ↔
      ∀ k, k < n → rows.all (fun r => acceptsAt d (j + k) r.2) = true
  | 0, j => by simp [evalDimFrom]
  | n+1, j => by
    have ih := evalDimFrom_true_iff d rows n (j + 1)
    have h0 := evalRowsFor_true_iff d j rows
    simp only [evalDimFrom]
    constructor
    · intro ⟨m, hm⟩ k hk
      cases hr : evalRowsFor d j rows with
      | none => simp [hr] at hm
      | some p =>
        obtain ⟨b, m1⟩ := p
        cases b
        · simp [hr] at hm
        · simp only [hr] at hm
          cases hd : evalDimFrom d rows n (j + 1) with
          | none => simp [hd] at hm
          | some q =>
            obtain ⟨b2, m2⟩ := q
            cases b2
            · simp [hd] at hm
            · cases k with
              | zero => simpa using h0.mp ⟨m1, hr⟩
              | succ k =>
                have := ih.mp ⟨m2, hd⟩ k (by omega)
                simpa [Nat.add_assoc, Nat.add_comm 1 k] using this
    · intro h
      have h1 := h0.mpr (by simpa using h 0 (by omega))
      obtain ⟨m1, hm1⟩ := h1
      have h2 := ih.mpr (by
        intro k hk
        have := h (k + 1) (by omega)
        simpa [Nat.add_assoc, Nat.add_comm 1 k] using this)
      obtain ⟨m2, hm2⟩ := h2
      exact ⟨m1 || m2, by simp [hm1, hm2]⟩

/-- a dimensioned measurement is PASS after the phase exactly when every validator accepts every
    recorded row, else FAIL -/
theorem c06_dim_outcome_iff_all_validators (d : Decl) (m : M) :
    (validateDim d m).1.outcome = .pass ↔
      ∀ k, k < d.nValidators → m.entries.all (fun r => acceptsAt d k r.2) = true := by
  have h := evalDimFrom_true_iff d m.entries d.nValidators 0
  simp only [Nat.zero_add] at h
  rw [← h]
  simp only [validateDim, evalRows]
  cases hr : evalDimFrom d m.entries d.nValidators 0 with
  | none => simp
  | some p => obtain ⟨b, mm⟩ := p; cases b <;> simp

end OpenHTF.Meas
