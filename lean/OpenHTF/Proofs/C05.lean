import OpenHTF.Proofs.Lemmas.Exec
import OpenHTF.Proofs.Lemmas.ExecGrow
/-
C05 — phase result → outcome mapping, repeat limit, run_if. For every behaviour oracle, every
combination of options, every position (in/out of subtest) and every executor state.
-/
namespace OpenHTF.Exec

/-- the default repeat limit in the source is 3 (regenerated constant) -/
theorem c05_default_repeat_limit : Gen.c05_defaultRepeatLimit = 3 := by decide

/-- all diagnosers run exactly once per invocation that was neither skipped nor repeated — also when
    one of them raises -/
theorem c05_diagnosers_all_run_once (cfg : Cfg) (o : Opts) (inSub isLast : Bool) (inv : Inv) :
    (finalizeInvocation cfg o inSub isLast inv).diagsRun = Spec.diagnosersRun inSub inv := by
  unfold finalizeInvocation Spec.diagnosersRun
  simp only [runDiagnosers_eq]
  generalize hr1 : finalizeMeasurements (threadResult inSub inv.raw) inv.meas = r1
  have hpre : ∀ (hl : Bool), ((prediagnosis cfg o r1 hl inv.meas).2 == .pr .rep
      || (prediagnosis cfg o r1 hl inv.meas).2 == .pr .skip) = (r1 == .pr .rep || r1 == .pr .skip) := by
    intro hl
    unfold prediagnosis
    cases r1 with
    | pr r =>
      cases r <;> cases hl <;> cases measurementsPass cfg inv.meas <;> cases o.stopOnMeasFail <;>
        simp [Res.isTerminal] <;> decide
    | exc b => simp [Res.isTerminal]
    | timeout => simp [Res.isTerminal]
  rw [hpre]
  split <;> rfl

/-- Each invocation yields a record whose outcome is the documented function of what happened. -/
theorem c05_outcome_table (cfg : Cfg) (o : Opts) (inSub isLast : Bool) (inv : Inv) :
    (finalizeInvocation cfg o inSub isLast inv).outcome = Spec.phaseOutcome cfg o inSub isLast inv :=
  outcome_table cfg o inSub isLast inv

/-- the record outcome is ERROR exactly when the executor sees a terminal result -/
theorem c05_error_iff_terminal (cfg : Cfg) (o : Opts) (inSub isLast : Bool) (inv : Inv) :
    (finalizeInvocation cfg o inSub isLast inv).outcome = .error ↔
    (finalizeInvocation cfg o inSub isLast inv).effective.isTerminal = true :=
  error_iff_terminal cfg o inSub isLast inv

/-- Each invocation of a body yields exactly one record; a body is invoked at most repeat_limit times
    (default 3) per execution of its phase node. -/
theorem c05_one_record_per_invocation_at_most_limit (cfg : Cfg) (p : Phase) (sub : Option Nat) (st : St) :
    ∃ recs : List PhaseRec, (executePhase cfg p sub st).1.phases = st.phases ++ recs ∧
      (executePhase cfg p sub st).1.bodyCalls = st.bodyCalls ++ List.replicate recs.length p.id ∧
      recs.length ≤ repeatLimit cfg p.opts ∧ ∀ r ∈ recs, r.id = p.id :=
  loop_shape cfg p sub _ _ 1 st

/-- a body is only re-invoked for REPEAT, repeat_on_timeout after a timeout, or (non-terminal outcome)
    force_repeat / repeat_on_measurement_fail after a FAIL record -/
theorem c05_reinvoked_only_for (o : Opts) (eff : Res) (phases : List PhaseRec) (h : shouldRepeat o eff phases = true) :
    eff = .pr .rep ∨ (eff = .timeout ∧ o.repeatOnTimeout = true) ∨
    (eff.isTerminal = false ∧ (o.forceRepeat = true ∨
      (o.repeatOnMeasFail = true ∧ ∃ r, phases.getLast? = some r ∧ r.outcome = .fail))) := by
  unfold shouldRepeat at h
  split at h
  · rename_i h1; simp at h1; exact Or.inr (Or.inl h1)
  · split at h
    · rename_i h2; simp at h2; exact Or.inl h2
    · split at h
      · simp at h
      · rename_i h3
        right; right
        refine ⟨by simpa using h3, ?_⟩
        split at h
        · rename_i h4; exact Or.inl h4
        · split at h
          · rename_i h5
            right
            refine ⟨h5, ?_⟩
            cases hl : phases.getLast? with
            | none => simp [hl] at h
            | some r => simp [hl] at h; exact ⟨r, rfl, h⟩
          · simp at h

/-- a false run_if: the body is never invoked and no record is written -/
theorem c05_runif_false_no_body_no_record (cfg : Cfg) (p : Phase) (sub : Option Nat) (isLast : Bool) (st : St)
    (f : Nat → Option Bool) (hri : p.opts.runIf = some f) (hf : f (count st.runIfCalls p.id) = some false) :
    let r := executePhaseOnce cfg p sub isLast st
    r.1.phases = st.phases ∧ r.1.bodyCalls = st.bodyCalls ∧ r.2 = .pr .skip ∧
    r.1.events = st.events ++ [.runIf p.id (count st.runIfCalls p.id)] := by
  simp [executePhaseOnce, hri, hf]

/-- ... for the whole invocation loop, whatever the options (force_repeat, repeat_on_measurement_fail with a FAIL record
    of an EARLIER phase in last position, ...): one false run_if ends the loop - it is evaluated once, the body is
    never invoked, no record is written and the executor sees SKIP. (False on the tree before the `fix:` commit
    d4399cb4: there the loop went on, re-evaluated run_if and could run the body.) -/
theorem c05_runif_false_ends_the_loop (cfg : Cfg) (hc : 0 < cfg.defaultRepeatLimit) (p : Phase) (sub : Option Nat) (st : St)
    (f : Nat → Option Bool) (hri : p.opts.runIf = some f) (hf : f (count st.runIfCalls p.id) = some false) :
    let r := executePhase cfg p sub st
    r.1.phases = st.phases ∧ r.1.bodyCalls = st.bodyCalls ∧ r.1.runIfCalls = st.runIfCalls ++ [p.id] ∧ r.2 = .pr .skip := by
  obtain ⟨k, hk⟩ : ∃ k, repeatLimit cfg p.opts = k + 1 := ⟨repeatLimit cfg p.opts - 1, by have := repeatLimit_pos cfg p.opts hc; omega⟩
  simp only [executePhase, hk, executePhaseLoop]
  have h1 := c05_runif_false_no_body_no_record cfg p sub (decide (1 ≥ k + 1)) st f hri hf
  simp only at h1
  have hlen : ¬ (st.phases.length < (executePhaseOnce cfg p sub (decide (1 ≥ k + 1)) st).1.phases.length) := by
    rw [h1.1]; omega
  simp only [hlen, decide_false, Bool.false_and, Bool.false_eq_true, if_false]
  refine ⟨h1.1, h1.2.1, ?_, h1.2.2.1⟩
  simp [executePhaseOnce, hri, hf]

/-- non-vacuity of the above: force_repeat, run_if false once and true afterwards - evaluated once, nothing run -/
example : (let p : Phase := { id := 7, opts := { forceRepeat := true, runIf := some (fun k => some (decide (k ≥ 1))) }, beh := fun _ => { raw := .ret .cont } }
    ((executePhase {} p none {}).1.runIfCalls, (executePhase {} p none {}).1.bodyCalls)) = ([7], []) := by decide

/-- non-vacuity: a phase that REPEATs twice and then passes is invoked three times with the default limit -/
example : ((executePhase {} { id := 7, beh := fun k => if k < 2 then { raw := .ret .rep } else { raw := .ret .cont } } none {}).1.phases.map
    (·.outcome)) = [.skip, .skip, .pass] := by decide

end OpenHTF.Exec
