import OpenHTF.Proofs.Lemmas.Exec
/-
C05 — phase result → outcome mapping, repeat limit, run_if. For every behaviour oracle, every
combination of options, every position (in/out of subtest) and every executor state.
-/
namespace OpenHTF.Exec

/-- the default repeat limit in the source is 3 (regenerated constant) -/
theorem c05_default_repeat_limit : Gen.c05_defaultRepeatLimit = 3 := by decide

/-- all diagnosers run exactly once per invocation that was neither skipped nor repeated — also when
    one of them raises -/
theorem c05_diagnosers_all_run_once (cfg : Cfg) (o : Opts) (inSub isLast : Bool) (inv : Inv) :
    (finalizeInvocation cfg o inSub isLast inv).diagsRun = Spec.diagnosersRun inSub inv := by
  unfold finalizeInvocation Spec.diagnosersRun
  simp only [runDiagnosers_eq]
  generalize hr1 : finalizeMeasurements (threadResult inSub inv.raw) inv.meas = r1
  have hpre : ∀ (hl : Bool), ((prediagnosis cfg o r1 hl inv.meas).2 == .pr .rep
      || (prediagnosis cfg o r1 hl inv.meas).2 == .pr .skip) = (r1 == .pr .rep || r1 == .pr .skip) := by
    intro hl
    unfold prediagnosis
    cases r1 with
    | pr r =>
      cases r <;> cases hl <;> cases measurementsPass cfg inv.meas <;> cases o.stopOnMeasFail <;>
        simp [Res.isTerminal] <;> decide
    | exc b => simp [Res.isTerminal]
    | timeout => simp [Res.isTerminal]
  rw [hpre]
  split <;> rfl

/-- Each invocation yields a record whose outcome is the documented function of what happened. -/
theorem c05_outcome_table (cfg : Cfg) (o : Opts) (inSub isLast : Bool) (inv : Inv) :
    (finalizeInvocation cfg o inSub isLast inv).outcome = Spec.phaseOutcome cfg o inSub isLast inv :=
  outcome_table cfg o inSub isLast inv

/-- the record outcome is ERROR exactly when the executor sees a terminal result -/
theorem c05_error_iff_terminal (cfg : Cfg) (o : Opts) (inSub isLast : Bool) (inv : Inv) :
    (finalizeInvocation cfg o inSub isLast inv).outcome = .error ↔
    (finalizeInvocation cfg o inSub isLast inv).effective.isTerminal = true :=
  error_iff_terminal cfg o inSub isLast inv

/-- Each invocation of a body yields exactly one record; a body is invoked at most repeat_limit times
    (default 3) per execution of its phase node. -/
theorem c05_one_record_per_invocation_at_most_limit (cfg : Cfg) (p : Phase) (sub : Option Nat) (st : St) :
    ∃ recs : List PhaseRec, (executePhase cfg p sub st).1.phases = st.phases ++ recs ∧
      (executePhase cfg p sub st).1.bodyCalls = st.bodyCalls ++ List.replicate recs.length p.id ∧
      recs.length ≤ repeatLimit cfg p.opts ∧ ∀ r ∈ recs, r.id = p.id :=
  loop_shape cfg p sub _ _ 1 st

/-- a body is only re-invoked for REPEAT, repeat_on_timeout after a timeout, or (non-terminal outcome)
    force_repeat / repeat_on_measurement_fail after a FAIL record -/
theorem c05_reinvoked_only_for (o : Opts) (eff : Res) (phases : List PhaseRec) (h : shouldRepeat o eff phases = true) :
    eff = .pr .rep ∨ (eff = .timeout ∧ o.repeatOnTimeout = true) ∨
    (eff.isTerminal = false ∧ (o.forceRepeat = true ∨
      (o.repeatOnMeasFail = true ∧ ∃ r, phases.getLast? = some r ∧ r.outcome = .fail))) := by
  unfold shouldRepeat at h
  split at h
  · rename_i h1; simp at h1; exact Or.inr (Or.inl h1)
  · split at h
    · rename_i h2; simp at h2; exact Or.inl h2
    · split at h
      · simp at h
      · rename_i h3
        right; right
        refine ⟨by simpa using h3, ?_⟩
        split at h
        · rename_i h4; exact Or.inl h4
        · split at h
          · rename_i h5
            right
            refine ⟨h5, ?_⟩
            cases hl : phases.getLast? with
            | none => simp [hl] at h
            | some r => simp [hl] at h; exact ⟨r, rfl, h⟩
          · simp at h

/-- a false run_if: the body is never invoked and no record is written -/
theorem c05_runif_false_no_body_no_record (cfg : Cfg) (p : Phase) (sub : Option Nat) (isLast : Bool) (st : St)
    (f : Nat → Option Bool) (hri : p.opts.runIf = some f) (hf : f (count st.runIfCalls p.id) = some false) :
    let r := executePhaseOnce cfg p sub isLast st
    r.1.phases = st.phases ∧ r.1.bodyCalls = st.bodyCalls ∧ r.2 = .pr .skip ∧
    r.1.events = st.events ++ [.runIf p.id (count st.runIfCalls p.id)] := by
  simp [executePhaseOnce, hri, hf]

/-- non-vacuity: a phase that REPEATs twice and then passes is invoked three times with the default limit -/
example : ((executePhase {} { id := 7, beh := fun k => if k < 2 then { raw := .ret .rep } else { raw := .ret .cont } } none {}).1.phases.map
    (·.outcome)) = [.skip, .skip, .pass] := by decide

end OpenHTF.Exec
