import OpenHTF.Model.Fastboot
/-
C16 — fastboot: theorems for every device response script, every command/argument string, every
image and every positive chunk size.
-/
namespace OpenHTF.Fastboot

/-- The coded response loop computes exactly the declarative state machine "INFO* then one final". -/
theorem c16_accept_eq_spec (e : Hdr) (rs : List Resp) :
    (accept e rs).1 = (Spec.accept e rs).1 ∧ (accept e rs).2.1 = (Spec.accept e rs).2 := by
  induction rs with
  | nil => simp [accept, Spec.accept]
  | cons r rs ih =>
    cases hh : r.hdr with
    | info =>
      have h1 : (accept e (r :: rs)).1 = (Hdr.info, r.text) :: (accept e rs).1 := by simp [accept, hh]
      have h2 : (accept e (r :: rs)).2.1 = (accept e rs).2.1 := by simp [accept, hh]
      rw [h1, h2, ih.1, ih.2]
      simp only [Spec.accept, List.takeWhile_cons, List.dropWhile_cons, hh, beq_self_eq_true, if_true, List.map_cons]
      cases hd : List.dropWhile (fun x => x.hdr == Hdr.info) rs with
      | nil => simp
      | cons q qs =>
        cases hq : q.hdr <;> simp [hq]
        all_goals (split <;> simp)
    | okay =>
      cases e <;> simp [accept, Spec.accept, hh]
    | data =>
      cases e <;> simp [accept, Spec.accept, hh]
    | fail => simp [accept, Spec.accept, hh]
    | other => simp [accept, Spec.accept, hh]

/-- What each terminating response does, after any number of INFO packets (all forwarded, in order):
    FAIL raises with the device text, an out-of-place OKAY/DATA is a state mismatch, any other header
    an invalid response, the expected one returns its payload. -/
theorem c16_accept_decides (e : Hdr) (infos : List Resp) (r : Resp) (rest : List Resp)
    (hi : ∀ x ∈ infos, x.hdr = .info) (he : e = .okay ∨ e = .data) :
    let res := accept e (infos ++ r :: rest)
    (res.1.filter (·.1 == .info) = (infos ++ (if r.hdr = .info then [r] else [])).map (fun x => (Hdr.info, x.text)) ∨ r.hdr = .info) ∧
    (r.hdr = .fail → res.2.1 = .error (.remoteFailure r.text)) ∧
    (r.hdr = .other → res.2.1 = .error .invalidResponse) ∧
    ((r.hdr = .okay ∨ r.hdr = .data) → r.hdr ≠ e → res.2.1 = .error .stateMismatch) ∧
    (r.hdr = e → res.2.1 = .ok r.text ∧ res.2.2 = rest) := by
  induction infos with
  | nil =>
    simp only [List.nil_append]
    cases hh : r.hdr <;> rcases he with rfl | rfl <;> simp [accept, hh]
  | cons i is ih =>
    have hi' : ∀ x ∈ is, x.hdr = .info := fun x hx => hi x (List.mem_cons_of_mem _ hx)
    have hii : i.hdr = .info := hi i List.mem_cons_self
    have := ih hi'
    simp only [List.cons_append, accept, hii]
    obtain ⟨h0, h1, h2, h3, h4⟩ := this
    refine ⟨?_, h1, h2, h3, h4⟩
    rcases h0 with h0 | h0
    · left; simp [h0]
    · right; exact h0

/-! #### the chunked write -/

theorem writeLoop_eq_chunks (c : Nat) (hc : 0 < c) :
    ∀ (data : List Nat) (fuel : Nat), data.length < fuel →
      writeLoop c fuel data data.length = Spec.chunks c data := by
  intro data
  induction data using Spec.chunks.induct c with
  | case1 img h =>
    intro fuel hf
    rcases h with h | h
    · omega
    · subst h
      cases fuel with
      | zero => simp at hf
      | succ f => unfold Spec.chunks; simp [writeLoop]
  | case2 img h ih =>
    intro fuel hf
    have hne : img ≠ [] := fun e => h (Or.inr e)
    have hlen : img.length ≠ 0 := fun e => hne (List.length_eq_zero_iff.mp e)
    cases fuel with
    | zero => simp at hf
    | succ f =>
      rw [Spec.chunks]
      simp only [h, dite_false]
      simp only [writeLoop]
      have : (img.length : Int) ≠ 0 := by omega
      simp only [this, if_false]
      congr 1
      have hl : ((img.length : Int) - ((List.take c img).length : Int)) = ((List.drop c img).length : Int) := by
        simp only [List.length_take, List.length_drop]; omega
      rw [hl]
      apply ih
      simp only [List.length_drop]; omega

/-- The coded loop (remaining-length counter, `read(chunk)`) produces the consecutive pieces. -/
theorem c16_write_eq_chunks (c : Nat) (hc : 0 < c) (data : List Nat) : write c data = Spec.chunks c data :=
  writeLoop_eq_chunks c hc data _ (Nat.lt_succ_self _)

/-- exactly the image, in order -/
theorem c16_chunks_concat (c : Nat) (hc : 0 < c) (img : List Nat) : (write c img).flatten = img := by
  rw [c16_write_eq_chunks c hc]
  induction img using Spec.chunks.induct c with
  | case1 img h =>
    rcases h with h | h
    · omega
    · subst h; unfold Spec.chunks; simp
  | case2 img h ih => unfold Spec.chunks; simp [h, ih]

/-- no chunk larger than the configured chunk size, and no empty chunk -/
theorem c16_chunks_le (c : Nat) (hc : 0 < c) (img : List Nat) :
    ∀ ch ∈ write c img, ch.length ≤ c ∧ 0 < ch.length := by
  rw [c16_write_eq_chunks c hc]
  induction img using Spec.chunks.induct c with
  | case1 img h => unfold Spec.chunks; simp [h]
  | case2 img h ih =>
    unfold Spec.chunks; simp only [h, dite_false, List.mem_cons]
    intro ch hch
    rcases hch with rfl | hch
    · have hne : img ≠ [] := fun e => h (Or.inr e)
      have : img.length ≠ 0 := fun e => hne (List.length_eq_zero_iff.mp e)
      simp only [List.length_take]; omega
    · exact ih ch hch

/-- progress reports are the cumulative byte counts (prefix sums of the chunk lengths) -/
theorem c16_progress_prefix_sums (cs : List (List Nat)) (cur : Nat) :
    progress cur cs = (List.range cs.length).map (fun i => cur + ((cs.take (i + 1)).map List.length).sum) := by
  induction cs generalizing cur with
  | nil => simp [progress]
  | cons c cs ih =>
    simp only [progress, List.length_cons]
    rw [List.range_succ_eq_map, List.map_cons, List.map_map, ih]
    congr 1
    simp
    intro a _
    omega

/-- the last progress report is the image size -/
theorem c16_progress_total (c : Nat) (hc : 0 < c) (img : List Nat) (hne : img ≠ []) :
    (progress 0 (write c img)).getLast? = some img.length := by
  have hfl := c16_chunks_concat c hc img
  generalize write c img = cs at hfl
  have key : ∀ (cs : List (List Nat)) (cur : Nat), cs ≠ [] →
      (progress cur cs).getLast? = some (cur + cs.flatten.length) := by
    intro cs
    induction cs with
    | nil => intro _ h; exact absurd rfl h
    | cons c cs ih =>
      intro cur _
      cases cs with
      | nil => simp [progress]
      | cons d ds =>
        have := ih (cur + c.length) (by simp)
        simp only [progress] at this ⊢
        rw [List.getLast?_cons_cons, this]
        simp [Nat.add_assoc]
  have hcs : cs ≠ [] := by intro e; subst e; simp_all
  rw [key cs 0 hcs, hfl]; simp

/-- every command (with or without argument) that is non-empty and fits the chunk size is one packet -/
theorem c16_single_packet_command (c : Nat) (cmd : List Nat) (arg : Option (List Nat))
    (hne : cmd ≠ []) (hfit : (cmdString cmd arg).length ≤ c) :
    sendCommand c cmd arg = [cmdString cmd arg] := by
  unfold sendCommand
  generalize hs : cmdString cmd arg = s at *
  have hsne : s ≠ [] := by
    subst hs; cases arg <;> simp [cmdString, hne]
  have hlen : 0 < s.length := List.length_pos_iff.mpr hsne
  have hc : 0 < c := by omega
  rw [c16_write_eq_chunks c hc]
  unfold Spec.chunks
  have h1 : ¬ (c = 0 ∨ s = []) := by intro h; rcases h with h | h; omega; exact hsne h
  simp only [h1, dite_false]
  have ht : s.take c = s := List.take_of_length_le hfit
  have hd : s.drop c = [] := List.drop_of_length_le hfit
  rw [ht, hd]
  unfold Spec.chunks
  simp

theorem hexDigit_roundtrip (d : Nat) (h : d < 16) : unhexDigit (hexDigit d) = some d := by
  unfold hexDigit unhexDigit
  split <;> (split <;> (try split) <;> (try split)) <;> first | (congr 1; omega) | omega

/-- the download size is announced as 8 hex digits and reads back as the same number -/
theorem c16_hex8_roundtrip (n : Nat) (h : n < 4294967296) : (hex8 n).length = 8 ∧ unhex8 (hex8 n) = some n := by
  refine ⟨by simp [hex8], ?_⟩
  have hd : ∀ d, d < 16 → unhexDigit (hexDigit d) = some d := hexDigit_roundtrip
  simp only [unhex8, hex8, List.map_cons, List.map_nil, List.take_succ_cons, List.take_zero,
    hd _ (Nat.mod_lt _ (by decide : 0 < 16))]
  congr 1
  omega

/-- a download sends `download:<8 hex digits>` and then, only if the device answered DATA with exactly
    the image size, exactly the image in chunks; otherwise nothing but the command packet is sent. -/
theorem c16_download_bytes (c : Nat) (img : List Nat) (rs : List Resp) :
    let cmdPk := sendCommand c downloadWord (some (hex8 img.length))
    let out := download c img rs
    ((∃ t, (accept .data rs).2.1 = .ok t ∧ unhex8 t = some img.length) →
        out.packets = cmdPk ++ write c img ∧ out.progress = progress 0 (write c img)) ∧
    ((¬ ∃ t, (accept .data rs).2.1 = .ok t ∧ unhex8 t = some img.length) →
        out.packets = cmdPk ∧ (∀ t, out.result ≠ .ok t) ∧ out.progress = []) := by
  intro cmdPk out
  constructor
  · rintro ⟨t, ht, hu⟩
    simp only [out, download, ht, hu]
    simp [cmdPk]
  · intro hn
    simp only [out, download]
    cases hx : (accept Hdr.data rs).2.1 with
    | error e => simp [cmdPk]
    | ok t =>
      cases hu : unhex8 t with
      | none => simp [hu, cmdPk]
      | some sz =>
        have : sz ≠ img.length := by
          intro e; exact hn ⟨t, hx, by rw [hu, e]⟩
        simp [hu, this, cmdPk]

/-- a refused size is a transfer error -/
theorem c16_size_mismatch_is_transfer_error (c : Nat) (img : List Nat) (rs : List Resp) (t : List Nat) (sz : Nat)
    (ht : (accept .data rs).2.1 = .ok t) (hu : unhex8 t = some sz) (hne : sz ≠ img.length) :
    (download c img rs).result = .error .transfer := by
  simp [download, ht, hu, hne]

/-- non-vacuity: a script on which the download goes through -/
example : (download 4 [1,2,3,4,5,6,7,8,9] [⟨.info, [1]⟩, ⟨.data, hex8 9⟩, ⟨.okay, [7]⟩]).packets.length = 8 ∧
    (download 4 [1,2,3,4,5,6,7,8,9] [⟨.info, [1]⟩, ⟨.data, hex8 9⟩, ⟨.okay, [7]⟩]).progress = [4, 8, 9] := by decide

end OpenHTF.Fastboot
