import OpenHTF.Model.Plugs
import OpenHTF.Proofs.Lemmas.Exec
/-
C08 — plug lifecycle. For every test program, every assignment of plugs, every constructor/tearDown
fault pattern and every iteration order of the plug-type set.
-/
namespace OpenHTF.Plugs
open OpenHTF.Exec


def ctors (c : Nat) (evs : List Ev) : Nat := evs.count (.plugCtor c)
def tears (c : Nat) (evs : List Ev) : Nat := evs.count (.plugTearDown c)

/-- before any tearDown: live instances are distinct and each class was constructed once iff it is live -/
def Pre (s : PSt) : Prop :=
  s.live.Nodup ∧ ∀ c, ctors c s.events = (if c ∈ s.live then 1 else 0) ∧ tears c s.events = 0
/-- after the tearDown: nothing is live, every constructed instance was torn down exactly once -/
def Post (s : PSt) : Prop :=
  s.live = [] ∧ ∀ c, ctors c s.events = tears c s.events ∧ ctors c s.events ≤ 1

theorem count_map_tear (c : Nat) (l : List Nat) : (l.map Ev.plugTearDown).count (.plugTearDown c) = l.count c := by
  induction l with
  | nil => rfl
  | cons x xs ih =>
    simp only [List.map_cons, List.count_cons, ih]
    by_cases h : x = c <;> simp [h]
theorem count_map_tear_ctor (c : Nat) (l : List Nat) : (l.map Ev.plugTearDown).count (.plugCtor c) = 0 := by
  induction l with
  | nil => rfl
  | cons x xs ih => simp [List.count_cons, ih]

theorem tearDown_post (s : PSt) (h : Pre s) : Post (tearDownPlugs s) := by
  obtain ⟨hn, hc⟩ := h
  refine ⟨rfl, fun c => ?_⟩
  simp only [tearDownPlugs, ctors, tears, List.count_append, count_map_tear, count_map_tear_ctor]
  have h1 := (hc c).1; have h2 := (hc c).2
  simp only [ctors, tears] at h1 h2
  rw [h1, h2]
  have hcount := hn.count (a := c)
  by_cases hm : c ∈ s.live <;> simp [hm, hcount]

theorem tearDown_post_again (s : PSt) (h : Post s) : Post (tearDownPlugs s) ∧ (tearDownPlugs s).events = s.events := by
  obtain ⟨hl, hc⟩ := h
  have e : (tearDownPlugs s).events = s.events := by simp [tearDownPlugs, hl]
  exact ⟨⟨rfl, by rw [e]; exact hc⟩, e⟩

theorem init_pre (b : PlugBeh) : ∀ (cs : List Nat) (s : PSt), Pre s →
    ((initializePlugs cs b s).2 = false → Pre (initializePlugs cs b s).1) ∧
    ((initializePlugs cs b s).2 = true → Post (initializePlugs cs b s).1)
  | [], s, h => by simp [initializePlugs, h]
  | c :: cs, s, h => by
    simp only [initializePlugs]
    split
    · exact init_pre b cs s h
    · rename_i hnot
      split
      · -- constructor raises: everything constructed so far is torn down
        refine ⟨by simp, fun _ => ?_⟩
        apply tearDown_post
        obtain ⟨hn, hc⟩ := h
        refine ⟨hn, fun x => ?_⟩
        simp only [ctors, tears, List.count_append, List.count_singleton]
        have := hc x
        simp only [ctors, tears] at this
        simp [this.1, this.2]
      · apply init_pre b cs
        obtain ⟨hn, hc⟩ := h
        have hnm : c ∉ s.live := by simpa using hnot
        refine ⟨List.nodup_append.mpr ⟨hn, by simp, by intro a ha b hb; simp at hb; subst hb; exact fun e => hnm (e ▸ ha)⟩, fun x => ?_⟩
        have := hc x
        simp only [ctors, tears, List.count_append, List.count_singleton, List.mem_append, List.mem_singleton] at this ⊢
        by_cases hx : x = c
        · subst hx; simp [this.1, this.2, hnm]
        · have hx' : ¬ (Ev.plugCtor c == Ev.plugCtor x) = true := by simp; exact fun e => hx e.symm
          simp [this.1, this.2, hx, hx']

theorem exec_count_zero (es : List Ev) (h : ∀ e ∈ es, isExecEv e = true) (c : Nat) :
    es.count (.plugCtor c) = 0 ∧ es.count (.plugTearDown c) = 0 := by
  constructor <;> (apply List.count_eq_zero_of_not_mem; intro hm; have := h _ hm; simp [isExecEv] at this)

theorem sync_events (p : PSt) (a b : St) (h : Ext a b) :
    ∃ es, (sync p a b).events = p.events ++ es ∧ (sync p a b).live = p.live ∧ ∀ e ∈ es, isExecEv e = true := by
  obtain ⟨es, he, hq⟩ := h
  exact ⟨es, by simp [sync, he], rfl, hq⟩

theorem Pre.sync {p : PSt} (hp : Pre p) (a b : St) (h : Ext a b) : Pre (sync p a b) := by
  obtain ⟨es, he, hl, hq⟩ := sync_events p a b h
  obtain ⟨hn, hc⟩ := hp
  refine ⟨by rw [hl]; exact hn, fun c => ?_⟩
  have z := exec_count_zero es hq c
  simp only [ctors, tears, he, hl, List.count_append, z.1, z.2, Nat.add_zero]
  exact hc c

theorem Post.sync {p : PSt} (hp : Post p) (a b : St) (h : Ext a b) : Post (sync p a b) := by
  obtain ⟨es, he, hl, hq⟩ := sync_events p a b h
  obtain ⟨hn, hc⟩ := hp
  refine ⟨by rw [hl]; exact hn, fun c => ?_⟩
  have z := exec_count_zero es hq c
  simp only [ctors, tears, he, List.count_append, z.1, z.2, Nat.add_zero]
  exact hc c

theorem nonplug_count (es : List Ev) (h : ∀ e ∈ es, (∃ j, e = .testDiag j) ∨ (∃ j, e = .callback j)) (c : Nat) :
    es.count (.plugCtor c) = 0 ∧ es.count (.plugTearDown c) = 0 := by
  constructor <;> (apply List.count_eq_zero_of_not_mem; intro hm; rcases h _ hm with ⟨j, e⟩ | ⟨j, e⟩ <;> simp at e)

theorem finishRun_counts (cbs : List Bool) (p : PSt) (st : St) (h : Pre p ∨ Post p) :
    (∀ c, tears c (finishRun cbs p st).events = ctors c (finishRun cbs p st).events ∧ ctors c (finishRun cbs p st).events ≤ 1) ∧
    (finishRun cbs p st).liveAfter = [] := by
  have hpost : Post (tearDownPlugs p) := by
    rcases h with h | h
    · exact tearDown_post p h
    · exact (tearDown_post_again p h).1
  obtain ⟨hl, hc⟩ := hpost
  refine ⟨fun c => ?_, hl⟩
  have z := nonplug_count ((List.range cbs.length).map Ev.callback) (by
    intro e he; simp only [List.mem_map] at he; obtain ⟨j, _, rfl⟩ := he; exact Or.inr ⟨j, rfl⟩) c
  simp only [finishRun, ctors, tears, List.count_append, z.1, z.2, Nat.add_zero]
  have := hc c
  simp only [ctors, tears] at this
  exact ⟨this.1.symm, this.2⟩

theorem pre_init : Pre ({} : PSt) := ⟨List.nodup_nil, fun c => by simp [ctors, tears]⟩

theorem runStart_state (cfg : Cfg) (r : Run) :
    (Pre (runStart cfg r).1 ∨ Post (runStart cfg r).1) ∧ ((runStart cfg r).2.2 = false → Pre (runStart cfg r).1) := by
  unfold runStart
  cases r.test.testStart with
  | none => exact ⟨Or.inl pre_init, fun _ => pre_init⟩
  | some ph =>
    simp only
    have hi := init_pre r.beh r.startPlugs {} pre_init
    split
    · rename_i hf; exact ⟨Or.inr (hi.2 hf), by simp⟩
    · rename_i hf
      have hp := hi.1 (by simpa using hf)
      have hs := hp.sync {} (executePhase cfg ph none {}).1 (loop_ext cfg ph none _ _ 1 {})
      split
      · exact ⟨Or.inl hs, by simp⟩
      · exact ⟨Or.inl hs, fun _ => hs⟩

/-- C08: in every run, whatever the plug constructors, phases, diagnosers and tearDowns do, each plug
    class is constructed at most once, every constructed instance has tearDown called exactly once, and
    nothing is left alive when execute() returns. -/
theorem c08_ctor_at_most_once_teardown_exactly_once (cfg : Cfg) (r : Run) :
    (∀ c, tears c (execute cfg r).events = ctors c (execute cfg r).events ∧ ctors c (execute cfg r).events ≤ 1) ∧
    (execute cfg r).liveAfter = [] := by
  unfold execute
  simp only
  have hs := runStart_state cfg r
  split
  · exact finishRun_counts _ _ _ hs.1
  · rename_i hgo
    have hs := hs.2 (by simpa using hgo)
    have hi := init_pre r.beh r.allPlugs (runStart cfg r).1 hs
    split
    · rename_i hf; exact finishRun_counts _ _ _ (Or.inr (hi.2 hf))
    · rename_i hf
      have hp := hi.1 (by simpa using hf)
      have hsync := hp.sync (runStart cfg r).2.1 (execAb cfg r.test.nodes none (runStart cfg r).2.1).1
        (exec_ext.execAb_ext cfg r.test.nodes none _)
      apply finishRun_counts
      left
      obtain ⟨hn, hc⟩ := hsync
      refine ⟨hn, fun c => ?_⟩
      have z := nonplug_count (testDiagEvents r.test.testDiags.length) (by
        intro e he; simp only [testDiagEvents, List.mem_map] at he; obtain ⟨j, _, rfl⟩ := he; exact Or.inl ⟨j, rfl⟩) c
      simp only [ctors, tears, List.count_append, z.1, z.2, Nat.add_zero]
      exact hc c

def isTear : Ev → Bool | .plugTearDown _ => true | _ => false
def isCallback : Ev → Bool | .callback _ => true | _ => false

/-- once a tearDown has been called, only further tearDowns and then output callbacks follow:
    no phase body, no diagnoser, no plug constructor -/
def okAfterTear : List Ev → Bool
  | [] => true
  | e :: es => (if isTear e then es.all (fun x => isTear x || isCallback x) else true) && okAfterTear es

theorem okAfterTear_append_noTear (a b : List Ev) (h : ∀ e ∈ a, isTear e = false) :
    okAfterTear (a ++ b) = okAfterTear b := by
  induction a with
  | nil => rfl
  | cons x xs ih =>
    have hx := h x List.mem_cons_self
    simp only [List.cons_append, okAfterTear, hx, Bool.false_eq_true, if_false, Bool.true_and]
    exact ih (fun e he => h e (List.mem_cons_of_mem _ he))

theorem okAfterTear_tail (t cb : List Ev) (ht : ∀ e ∈ t, isTear e = true) (hc : ∀ e ∈ cb, isCallback e = true) :
    okAfterTear (t ++ cb) = true := by
  induction t with
  | nil =>
    simp only [List.nil_append]
    induction cb with
    | nil => rfl
    | cons x xs ih =>
      have hx := hc x List.mem_cons_self
      have : isTear x = false := by cases x <;> simp_all [isTear, isCallback]
      simp only [okAfterTear, this, Bool.false_eq_true, if_false, Bool.true_and]
      exact ih (fun e he => hc e (List.mem_cons_of_mem _ he))
  | cons x xs ih =>
    simp only [List.cons_append, okAfterTear, Bool.and_eq_true]
    refine ⟨?_, ih (fun e he => ht e (List.mem_cons_of_mem _ he))⟩
    split
    · rw [List.all_eq_true]
      intro e he
      rcases List.mem_append.mp he with h | h
      · simp [ht e (List.mem_cons_of_mem _ h)]
      · simp [hc e h]
    · rfl

theorem noTear_of_count (evs : List Ev) (h : ∀ c, tears c evs = 0) : ∀ e ∈ evs, isTear e = false := by
  intro e he
  cases e with
  | plugTearDown c =>
    exfalso
    have := h c
    simp only [tears] at this
    exact (List.count_eq_zero.mp this) he
  | _ => rfl

theorem callbacks_are (n : Nat) : ∀ e ∈ (List.range n).map Ev.callback, isCallback e = true := by
  intro e he; simp only [List.mem_map] at he; obtain ⟨j, _, rfl⟩ := he; rfl
theorem tears_are (l : List Nat) : ∀ e ∈ l.map Ev.plugTearDown, isTear e = true := by
  intro e he; simp only [List.mem_map] at he; obtain ⟨j, _, rfl⟩ := he; rfl

/-- the event shape the two kinds of plug state lead to -/
def GoodLog (p : PSt) : Prop :=
  (∀ e ∈ p.events, isTear e = false) ∨
  (p.live = [] ∧ ∃ a t, p.events = a ++ t ∧ (∀ e ∈ a, isTear e = false) ∧ (∀ e ∈ t, isTear e = true))

theorem finishRun_ok (cbs : List Bool) (p : PSt) (st : St) (h : GoodLog p) : okAfterTear (finishRun cbs p st).events = true := by
  simp only [finishRun, tearDownPlugs]
  rcases h with h | ⟨hl, a, t, he, ha, ht⟩
  · rw [List.append_assoc, okAfterTear_append_noTear _ _ h]
    exact okAfterTear_tail _ _ (tears_are _) (callbacks_are _)
  · rw [hl, he]
    simp only [List.map_nil, List.append_nil]
    rw [List.append_assoc, okAfterTear_append_noTear _ _ ha]
    exact okAfterTear_tail _ _ ht (callbacks_are _)

theorem Pre.good {p : PSt} (h : Pre p) : GoodLog p := Or.inl (noTear_of_count _ (fun c => (h.2 c).2))

/-- a failing constructor leaves: (no tearDown so far) ++ [ctorFailed] ++ tearDowns, nothing alive -/
theorem init_fail_good (b : PlugBeh) : ∀ (cs : List Nat) (s : PSt), Pre s → (initializePlugs cs b s).2 = true →
    GoodLog (initializePlugs cs b s).1
  | [], s, h, hf => by simp [initializePlugs] at hf
  | c :: cs, s, h, hf => by
    simp only [initializePlugs] at hf ⊢
    split
    · rename_i hc; simp only [hc, if_true] at hf; exact init_fail_good b cs s h hf
    · rename_i hc
      simp only [hc, Bool.false_eq_true, if_false] at hf
      split
      · refine Or.inr ⟨rfl, s.events ++ [.plugCtorFailed c], s.live.map Ev.plugTearDown, by simp [tearDownPlugs], ?_, tears_are _⟩
        intro e he
        rcases List.mem_append.mp he with h1 | h1
        · exact noTear_of_count _ (fun c => (h.2 c).2) e h1
        · simp at h1; subst h1; rfl
      · rename_i hr
        simp only [hr, Bool.false_eq_true, if_false] at hf
        apply init_fail_good b cs _ _ hf
        have hc' : c ∉ s.live := by simpa using hc
        have := (init_pre b [c] s h).1 (by simp [initializePlugs, hc', hr])
        simpa [initializePlugs, hc', hr] using this

theorem GoodLog.sync_post {p : PSt} (h : GoodLog p) (a b : St) (hx : Ext a b) (hpre : Pre p) : GoodLog (sync p a b) :=
  (hpre.sync a b hx).good

/-- C08: plug tearDown comes after the last phase and the last diagnoser and before the output
    callbacks; once tearDown started nothing else of the test runs — on every path (constructor failure
    of the k-th plug, terminal test_start, any phase outcome). -/
theorem c08_teardown_after_phases_before_callbacks (cfg : Cfg) (r : Run) : okAfterTear (execute cfg r).events = true := by
  unfold execute
  simp only
  have hs := runStart_state cfg r
  split
  · -- straight to the teardown after test_start (terminal, or its plug constructor failed)
    apply finishRun_ok
    unfold runStart at *
    cases hts : r.test.testStart with
    | none => simp only [hts]; exact pre_init.good
    | some ph =>
      simp only [hts] at hs ⊢
      have hi := init_pre r.beh r.startPlugs {} pre_init
      split
      · rename_i hf; exact init_fail_good r.beh r.startPlugs {} pre_init hf
      · rename_i hf
        have hp := hi.1 (by simpa using hf)
        have hsy := hp.sync {} (executePhase cfg ph none {}).1 (loop_ext cfg ph none _ _ 1 {})
        split <;> exact hsy.good
  · rename_i hgo
    have hpre := hs.2 (by simpa using hgo)
    have hi := init_pre r.beh r.allPlugs (runStart cfg r).1 hpre
    split
    · rename_i hf; exact finishRun_ok _ _ _ (init_fail_good r.beh r.allPlugs _ hpre hf)
    · rename_i hf
      have hp := hi.1 (by simpa using hf)
      have hsync := hp.sync (runStart cfg r).2.1 (execAb cfg r.test.nodes none (runStart cfg r).2.1).1
        (exec_ext.execAb_ext cfg r.test.nodes none _)
      apply finishRun_ok
      left
      intro e he
      rcases List.mem_append.mp he with h1 | h1
      · exact noTear_of_count _ (fun c => (hsync.2 c).2) e h1
      · simp only [testDiagEvents, List.mem_map] at h1; obtain ⟨j, _, rfl⟩ := h1; rfl

theorem init_ignores_teardown_beh (b : PlugBeh) (td : Nat → TearDownBeh) :
    ∀ (cs : List Nat) (s : PSt), initializePlugs cs { b with tearDown := td } s = initializePlugs cs b s
  | [], s => rfl
  | c :: cs, s => by
    simp only [initializePlugs]
    split
    · exact init_ignores_teardown_beh b td cs s
    · split
      · rfl
      · exact init_ignores_teardown_beh b td cs _

/-- C08: a tearDown that raises, or hangs and is abandoned after plug_teardown_timeout_s, changes
    neither the outcome nor anything else of the run, nor the other plugs' tearDown: the whole result
    is independent of how the tearDowns behave. -/
theorem c08_teardown_fault_isolated (cfg : Cfg) (r : Run) (td : Nat → TearDownBeh) :
    execute cfg { r with beh := { r.beh with tearDown := td } } = execute cfg r := by
  simp only [execute, runStart, init_ignores_teardown_beh]

/-- C08: a plug constructor failure (after a non-terminal test_start) gives outcome ERROR with no
    further phase executed: the executor state is the one test_start left, plus the failure. -/
theorem c08_ctor_failure_error_no_phase (cfg : Cfg) (r : Run) (hgo : (runStart cfg r).2.2 = false)
    (hfail : (initializePlugs r.allPlugs r.beh (runStart cfg r).1).2 = true) :
    (execute cfg r).st = setLast (runStart cfg r).2.1 (.exc false) ∧
    ((runStart cfg r).2.1.last = none → (execute cfg r).outcome = .error) := by
  constructor
  · simp [execute, hgo, hfail, finishRun]
  · intro hl
    simp [execute, hgo, hfail, finishRun, finalize, setLast, hl]

/-- C08: `initialize_plugs(types)` constructs only classes from `types`: while test_start runs only
    the plugs test_start needs exist -/
theorem c08_init_constructs_only_requested (b : PlugBeh) : ∀ (cs : List Nat) (s : PSt) (c : Nat),
    c ∈ (initializePlugs cs b s).1.live → c ∈ s.live ∨ c ∈ cs
  | [], s, c, h => Or.inl (by simpa [initializePlugs] using h)
  | x :: cs, s, c, h => by
    simp only [initializePlugs] at h
    split at h
    · rcases c08_init_constructs_only_requested b cs s c h with h1 | h1
      · exact Or.inl h1
      · exact Or.inr (List.mem_cons_of_mem _ h1)
    · split at h
      · simp [tearDownPlugs] at h
      · rcases c08_init_constructs_only_requested b cs _ c h with h1 | h1
        · simp only [List.mem_append, List.mem_singleton] at h1
          rcases h1 with h1 | h1
          · exact Or.inl h1
          · exact Or.inr (by rw [h1]; exact List.mem_cons_self)
        · exact Or.inr (List.mem_cons_of_mem _ h1)

/-- non-vacuity: the second of three plugs fails to construct: the first is torn down once, no phase runs -/
example :
    let r : Run := { test := { nodes := [.phase { id := 1, beh := fun _ => { raw := .ret .cont } }] },
                     allPlugs := [5, 6, 7], beh := { ctorRaises := fun c => c == 6, tearDown := fun _ => .ok }, callbacks := [false] }
    (execute {} r).events = [.plugCtor 5, .plugCtorFailed 6, .plugTearDown 5, .callback 0] ∧ (execute {} r).outcome = .error := by
  decide +kernel

end OpenHTF.Plugs
