import OpenHTF.Model.AdbConn
/-
C15 — ADB connection lifecycle: handshake, stream ids, open/close. For every device reply sequence,
every number of keys, every id-limit and every set of live ids.
-/
namespace OpenHTF.AdbConn

theorem readUntil_mem (w : Bool) : ∀ (rs : List Reply) (r : Reply) (rest : List Reply),
    readUntil w rs = some (r, rest) → r ∈ rs ∧ (∀ x ∈ rest, x ∈ rs) ∧ r ≠ .noise
  | [], r, rest, h => by simp [readUntil] at h
  | x :: xs, r, rest, h => by
    cases x with
    | cnxn m ok =>
      simp only [readUntil, Option.some.injEq, Prod.mk.injEq] at h
      obtain ⟨rfl, rfl⟩ := h
      exact ⟨List.mem_cons_self, fun y hy => List.mem_cons_of_mem _ hy, by simp⟩
    | authToken t =>
      simp only [readUntil] at h
      split at h
      · simp only [Option.some.injEq, Prod.mk.injEq] at h
        obtain ⟨rfl, rfl⟩ := h
        exact ⟨List.mem_cons_self, fun y hy => List.mem_cons_of_mem _ hy, by simp⟩
      · have := readUntil_mem w xs r rest h
        exact ⟨List.mem_cons_of_mem _ this.1, fun y hy => List.mem_cons_of_mem _ (this.2.1 y hy), this.2.2⟩
    | authOther =>
      simp only [readUntil] at h
      split at h
      · simp only [Option.some.injEq, Prod.mk.injEq] at h
        obtain ⟨rfl, rfl⟩ := h
        exact ⟨List.mem_cons_self, fun y hy => List.mem_cons_of_mem _ hy, by simp⟩
      · have := readUntil_mem w xs r rest h
        exact ⟨List.mem_cons_of_mem _ this.1, fun y hy => List.mem_cons_of_mem _ (this.2.1 y hy), this.2.2⟩
    | noise =>
      simp only [readUntil] at h
      have := readUntil_mem w xs r rest h
      exact ⟨List.mem_cons_of_mem _ this.1, fun y hy => List.mem_cons_of_mem _ (this.2.1 y hy), this.2.2⟩

/-- what holds of the key loop: connected only through a CNXN of the script, signatures only of TOKEN
    challenges of the script, keys used in order, the public key of the first key at most once and only
    after all keys were tried -/
def LoopOk (nkeys : Nat) (rs0 : List Reply) (k0 : Nat) (sent0 : List Sent) (out : List Sent × ConnResult) : Prop :=
  (∀ m, out.2 = .connected m → Reply.cnxn m true ∈ rs0) ∧
  ∃ sigs : List Sent, ∃ pk : List Sent,
    out.1 = sent0 ++ sigs ++ pk ∧
    (∃ toks : List Nat, sigs = toks.zipIdx.map (fun (t, i) => Sent.signature (k0 + i) t) ∧ ∀ t ∈ toks, Reply.authToken t ∈ rs0) ∧
    (pk = [] ∨ (pk = [.publicKey 0] ∧ k0 + sigs.length = nkeys))

theorem sigs_shift (k : Nat) (t : Nat) (toks : List Nat) :
    Sent.signature k t :: toks.zipIdx.map (fun (p : Nat × Nat) => Sent.signature (k + 1 + p.2) p.1) =
      (t :: toks).zipIdx.map (fun (p : Nat × Nat) => Sent.signature (k + p.2) p.1) := by
  have h : ∀ (n : Nat) (l : List Nat), l.zipIdx (n + 1) = (l.zipIdx n).map (fun p => (p.1, p.2 + 1)) := by
    intro n l
    induction l generalizing n with
    | nil => rfl
    | cons x xs ih => simp [List.zipIdx_cons, ih]
  simp only [List.zipIdx_cons, List.map_cons, Nat.add_zero, List.cons.injEq, true_and]
  rw [show (0 + 1) = 0 + 1 from rfl, h 0 toks]
  simp [List.map_map, Function.comp_def, Nat.add_assoc, Nat.add_comm 1]

theorem keyLoop_ok (nkeys : Nat) : ∀ (d k : Nat), nkeys - k = d → ∀ (msg : Reply) (rs : List Reply) (sent : List Sent) (rs0 : List Reply),
    k ≤ nkeys → msg ∈ rs0 → (∀ x ∈ rs, x ∈ rs0) → LoopOk nkeys rs0 k sent (keyLoop nkeys k msg rs sent) := by
  intro d
  induction d with
  | zero =>
    intro k hd msg rs sent rs0 hk hmsg hrs
    have hkn : k = nkeys := by omega
    unfold keyLoop
    have hnlt : ¬ k < nkeys := by omega
    simp only [hnlt, dite_false]
    cases hr : readUntil false rs with
    | none => exact ⟨by simp, [], [.publicKey 0], by simp, ⟨[], by simp, by simp⟩, Or.inr ⟨rfl, by simp [hkn]⟩⟩
    | some p =>
      obtain ⟨r, rest⟩ := p
      have hm := readUntil_mem false rs r rest hr
      refine ⟨?_, [], [.publicKey 0], by simp, ⟨[], by simp, by simp⟩, Or.inr ⟨rfl, by simp [hkn]⟩⟩
      intro m' hc
      cases r with
      | cnxn m ok =>
        cases ok <;> simp [connectedOf] at hc
        subst hc; exact hrs _ hm.1
      | _ => simp [connectedOf] at hc
  | succ d ih =>
    intro k hd msg rs sent rs0 hk hmsg hrs
    have hlt : k < nkeys := by omega
    unfold keyLoop
    simp only [hlt, dite_true]
    cases msg with
    | cnxn m ok => exact ⟨by simp, [], [], by simp, ⟨[], by simp, by simp⟩, Or.inl rfl⟩
    | authOther => exact ⟨by simp, [], [], by simp, ⟨[], by simp, by simp⟩, Or.inl rfl⟩
    | noise => exact ⟨by simp, [], [], by simp, ⟨[], by simp, by simp⟩, Or.inl rfl⟩
    | authToken t =>
      simp only
      cases hr : readUntil true rs with
      | none =>
        exact ⟨by simp, [.signature k t], [], by simp, ⟨[t], by simp, by simpa using hmsg⟩, Or.inl rfl⟩
      | some p =>
        obtain ⟨r, rest⟩ := p
        have hm := readUntil_mem true rs r rest hr
        have next : ∀ (msg' : Reply), msg' ∈ rs0 →
            LoopOk nkeys rs0 k sent (keyLoop nkeys (k + 1) msg' rest (sent ++ [.signature k t])) := by
          intro msg' hmsg'
          have := ih (k + 1) (by omega) msg' rest (sent ++ [.signature k t]) rs0 (by omega) hmsg'
            (fun x hx => hrs x (hm.2.1 x hx))
          obtain ⟨h1, sigs, pk, he, ⟨toks, hs, ht⟩, hp⟩ := this
          refine ⟨h1, .signature k t :: sigs, pk, by rw [he]; simp, ⟨t :: toks, ?_, ?_⟩, ?_⟩
          · rw [hs]; exact sigs_shift k t toks
          · intro x hx; rcases List.mem_cons.mp hx with rfl | hx
            · simpa using hmsg
            · exact ht x hx
          · rcases hp with hp | ⟨hp, hl⟩
            · exact Or.inl hp
            · exact Or.inr ⟨hp, by simp only [List.length_cons]; omega⟩
        cases r with
        | cnxn m ok =>
          simp only
          refine ⟨?_, [.signature k t], [], by simp, ⟨[t], by simp, by simpa using hmsg⟩, Or.inl rfl⟩
          intro m' hc
          cases ok <;> simp [connectedOf] at hc
          subst hc; exact hrs _ hm.1
        | noise => exact absurd rfl hm.2.2
        | authToken t2 => simp only; exact next _ (hrs _ hm.1)
        | authOther => simp only; exact next _ (hrs _ hm.1)

/-- C15 handshake: connect() returns a connection only after a CNXN of the device (taking maxdata from
    it, with a well-formed banner); it signs only TOKEN challenges the device sent; it tries the keys in
    order; it offers the first public key at most once and only after every key was tried; everything
    else ends in an auth, protocol or timeout error. -/
theorem c15_handshake (nkeys : Nat) (rs : List Reply) :
    let out := connect nkeys rs
    (∀ m, out.2 = .connected m → Reply.cnxn m true ∈ rs) ∧
    ∃ sigs pk, out.1 = [.cnxn] ++ sigs ++ pk ∧
      (∃ toks : List Nat, sigs = toks.zipIdx.map (fun (t, i) => Sent.signature i t) ∧ ∀ t ∈ toks, Reply.authToken t ∈ rs) ∧
      (pk = [] ∨ (pk = [.publicKey 0] ∧ sigs.length = nkeys)) := by
  intro out
  simp only [out, connect]
  cases hr : readUntil true rs with
  | none => exact ⟨by simp, [], [], by simp, ⟨[], by simp, by simp⟩, Or.inl rfl⟩
  | some p =>
    obtain ⟨r, rest⟩ := p
    have hm := readUntil_mem true rs r rest hr
    cases r with
    | cnxn m ok =>
      refine ⟨?_, [], [], by simp, ⟨[], by simp, by simp⟩, Or.inl rfl⟩
      intro m' hc
      cases ok <;> simp [connectedOf] at hc
      subst hc; exact hm.1
    | noise => exact absurd rfl hm.2.2
    | authToken t =>
      simp only
      split
      · exact ⟨by simp, [], [], by simp, ⟨[], by simp, by simp⟩, Or.inl rfl⟩
      · have := keyLoop_ok nkeys (nkeys - 0) 0 rfl (.authToken t) rest [.cnxn] rs (by omega) hm.1 hm.2.1
        obtain ⟨h1, sigs, pk, he, ⟨toks, hs, ht⟩, hp⟩ := this
        exact ⟨h1, sigs, pk, he, ⟨toks, by simpa using hs, ht⟩, by simpa using hp⟩
    | authOther =>
      simp only
      split
      · exact ⟨by simp, [], [], by simp, ⟨[], by simp, by simp⟩, Or.inl rfl⟩
      · have := keyLoop_ok nkeys (nkeys - 0) 0 rfl .authOther rest [.cnxn] rs (by omega) hm.1 hm.2.1
        obtain ⟨h1, sigs, pk, he, ⟨toks, hs, ht⟩, hp⟩ := this
        exact ⟨h1, sigs, pk, he, ⟨toks, by simpa using hs, ht⟩, by simpa using hp⟩

/-- unrelated packets before CNXN are ignored -/
theorem c15_noise_ignored_before_cnxn (nkeys : Nat) (rs : List Reply) : connect nkeys (.noise :: rs) = connect nkeys rs := by
  simp [connect, readUntil]

/-! #### the handshake deadline -/

theorem readUntilE_none (w : Bool) : ∀ rs : List Reply,
    readUntilE w none rs = (match readUntil w rs with | none => RU.exhausted | some (r, rest) => RU.got r rest none)
  | [] => by simp [readUntilE, readUntil]
  | x :: xs => by
    have ih := readUntilE_none w xs
    cases x <;> simp only [readUntilE, readUntil, tick, expired, Option.map_none] <;> (try split) <;> simp_all

theorem keyLoopE_none (nkeys : Nat) : ∀ (d k : Nat), nkeys - k = d → ∀ (msg : Reply) (rs : List Reply) (sent : List Sent),
    keyLoopE nkeys k msg rs none sent = keyLoop nkeys k msg rs sent := by
  intro d
  induction d with
  | zero =>
    intro k hd msg rs sent
    have hnlt : ¬ k < nkeys := by omega
    unfold keyLoopE keyLoop
    simp only [hnlt, dite_false]
    rw [show (if expired none = true then none else none) = (none : Option Nat) from by simp, readUntilE_none]
    cases readUntil false rs with
    | none => simp
    | some p => simp
  | succ d ih =>
    intro k hd msg rs sent
    have hlt : k < nkeys := by omega
    unfold keyLoopE keyLoop
    simp only [hlt, dite_true]
    cases msg with
    | authToken t =>
      simp only [readUntilE_none]
      cases hr : readUntil true rs with
      | none => simp
      | some p =>
        obtain ⟨r, rest⟩ := p
        cases r with
        | cnxn m ok => simp
        | authToken t' => simp only; exact ih (k + 1) (by omega) _ _ _
        | authOther => simp only; exact ih (k + 1) (by omega) _ _ _
        | noise => simp only; exact ih (k + 1) (by omega) _ _ _
    | _ => rfl

/-- a handshake whose time-out never expires is the handshake of `c15_handshake` -/
theorem connectE_never_expiring (nkeys : Nat) (rs : List Reply) : connectE nkeys none rs = connect nkeys rs := by
  unfold connectE connect
  simp only [readUntilE_none]
  cases hr : readUntil true rs with
  | none => simp
  | some p =>
    obtain ⟨r, rest⟩ := p
    cases r with
    | cnxn m ok => simp
    | authToken t => simp only; split <;> first | rfl | exact keyLoopE_none nkeys _ 0 rfl _ _ _
    | authOther => simp only; split <;> first | rfl | exact keyLoopE_none nkeys _ 0 rfl _ _ _
    | noise => simp only; split <;> first | rfl | exact keyLoopE_none nkeys _ 0 rfl _ _ _

theorem readUntilE_mem (w : Bool) : ∀ (rs : List Reply) (exp : Option Nat) (r : Reply) (rest : List Reply) (exp' : Option Nat),
    readUntilE w exp rs = .got r rest exp' → r ∈ rs ∧ (∀ x ∈ rest, x ∈ rs) ∧ r ≠ .noise ∧ (w = false → ∃ m ok, r = .cnxn m ok)
  | [], _, r, rest, exp', h => by simp [readUntilE] at h
  | x :: xs, exp, r, rest, exp', h => by
    have lift : ∀ exp2, readUntilE w exp2 xs = .got r rest exp' →
        r ∈ x :: xs ∧ (∀ y ∈ rest, y ∈ x :: xs) ∧ r ≠ .noise ∧ (w = false → ∃ m ok, r = .cnxn m ok) := by
      intro exp2 h2
      have := readUntilE_mem w xs exp2 r rest exp' h2
      exact ⟨List.mem_cons_of_mem _ this.1, fun y hy => List.mem_cons_of_mem _ (this.2.1 y hy), this.2.2⟩
    cases x with
    | cnxn m ok =>
      simp only [readUntilE, RU.got.injEq] at h
      obtain ⟨rfl, rfl, _⟩ := h
      exact ⟨List.mem_cons_self, fun y hy => List.mem_cons_of_mem _ hy, by simp, fun _ => ⟨m, ok, rfl⟩⟩
    | authToken t =>
      simp only [readUntilE] at h
      split at h
      · rename_i hw
        simp only [RU.got.injEq] at h
        obtain ⟨rfl, rfl, _⟩ := h
        exact ⟨List.mem_cons_self, fun y hy => List.mem_cons_of_mem _ hy, by simp, fun hf => by simp [hw] at hf⟩
      · split at h
        · cases h
        · exact lift _ h
    | authOther =>
      simp only [readUntilE] at h
      split at h
      · rename_i hw
        simp only [RU.got.injEq] at h
        obtain ⟨rfl, rfl, _⟩ := h
        exact ⟨List.mem_cons_self, fun y hy => List.mem_cons_of_mem _ hy, by simp, fun hf => by simp [hw] at hf⟩
      · split at h
        · cases h
        · exact lift _ h
    | noise =>
      simp only [readUntilE] at h
      split at h
      · cases h
      · exact lift _ h

theorem keyLoopE_connected (nkeys : Nat) : ∀ (d k : Nat), nkeys - k = d → ∀ (msg : Reply) (rs : List Reply) (exp : Option Nat)
    (sent : List Sent) (rs0 : List Reply) (m : Nat), (∀ x ∈ rs, x ∈ rs0) →
    (keyLoopE nkeys k msg rs exp sent).2 = .connected m → Reply.cnxn m true ∈ rs0 := by
  intro d
  induction d with
  | zero =>
    intro k hd msg rs exp sent rs0 m hrs hc
    have hnlt : ¬ k < nkeys := by omega
    unfold keyLoopE at hc
    simp only [hnlt, dite_false] at hc
    split at hc
    · cases hc
    · cases hc
    · rename_i r rest exp' hr
      have hm := readUntilE_mem false rs _ r rest exp' hr
      obtain ⟨m', ok, rfl⟩ := hm.2.2.2 rfl
      cases ok <;> simp [connectedOf] at hc
      subst hc; exact hrs _ hm.1
  | succ d ih =>
    intro k hd msg rs exp sent rs0 m hrs hc
    have hlt : k < nkeys := by omega
    unfold keyLoopE at hc
    simp only [hlt, dite_true] at hc
    cases msg with
    | authToken t =>
      simp only at hc
      split at hc
      · cases hc
      · cases hc
      · rename_i m' ok rest exp' hr
        have hm := readUntilE_mem true rs _ _ rest exp' hr
        cases ok <;> simp [connectedOf] at hc
        subst hc; exact hrs _ hm.1
      · rename_i msg' rs' exp' _ hr
        have hm := readUntilE_mem true rs _ msg' rs' exp' hr
        exact ih (k + 1) (by omega) msg' rs' exp' _ rs0 m (fun x hx => hrs _ (hm.2.1 x hx)) hc
    | cnxn _ _ => cases hc
    | authOther => cases hc
    | noise => cases hc

/-- C15 with a deadline: whenever the handshake time-out expires — in the middle of unrelated packets, between
    AUTH rounds, during the public-key wait — `connect` returns a connection only on a well-formed CNXN the
    device really sent (with that CNXN's maxdata); unrelated traffic at the deadline is never taken for the
    awaited reply -/
theorem c15_deadline_never_connects_without_cnxn (nkeys : Nat) (exp : Option Nat) (rs : List Reply) (m : Nat)
    (hc : (connectE nkeys exp rs).2 = .connected m) : Reply.cnxn m true ∈ rs := by
  unfold connectE at hc
  split at hc
  · cases hc
  · cases hc
  · rename_i m' ok rest exp' hr
    have hm := readUntilE_mem true rs _ _ rest exp' hr
    cases ok <;> simp [connectedOf] at hc
    subst hc; exact hm.1
  · rename_i msg rs' exp' _ hr
    have hm := readUntilE_mem true rs _ msg rs' exp' hr
    split at hc
    · cases hc
    · exact keyLoopE_connected nkeys _ 0 rfl msg rs' exp' _ rs m hm.2.1 hc

/-- unrelated packets until the deadline: a time-out error, not a connection and not a signature -/
example : connectE 2 (some 3) [.noise, .noise, .noise, .cnxn 4096 true] = ([.cnxn], .timeoutError) := by decide
/-- the awaited reply read while the time-out expires still counts -/
example : connectE 2 (some 2) [.noise, .cnxn 4096 true] = ([.cnxn], .connected 4096) := by decide
/-- expiry during the public-key wait -/
example : connectE 1 (some 3) [.authToken 7, .authToken 8, .noise, .cnxn 4096 true] =
    ([.cnxn, .signature 0 7, .publicKey 0], .timeoutError) := by
  simp [connectE, readUntilE, keyLoopE, tick, expired, connectedOf]

/-- C15 ids: an allocated local id is not in use, is non-zero and is below the id limit — for every
    limit, every `_last_id_used` and every set of live ids (wrap-around included) -/
theorem c15_ids_distinct_nonzero_below_limit (limit last : Nat) (live : List Nat) (i : Nat) (hl : 0 < limit)
    (h : allocId limit last live = some i) : i ∉ live ∧ 1 ≤ i ∧ i < limit := by
  unfold allocId at h
  have hf := List.find?_some h
  have hm := List.mem_of_find?_eq_some h
  refine ⟨by simpa using hf, ?_⟩
  unfold candidates at hm
  have hm' := List.mem_of_mem_take hm
  simp only [List.mem_append, List.mem_range'_1] at hm'
  have hlt : last % limit < limit := Nat.mod_lt _ hl
  rcases hm' with ⟨h1, h2⟩ | ⟨h1, h2⟩ <;> omega

/-- closing: the id is released and exactly one CLSE (with both ids) is sent when the remote id is
    known; closing again does nothing -/
theorem c15_exactly_one_clse_and_id_released (c : Conn) (l : Nat) (h : c.map.contains l = true) :
    let c1 := closeTransport c l
    c1.map.contains l = false ∧
    (∀ s, getS { c with map := c.map.filter (· != l) } l = some s → s.remote ≠ 0 → c1.sent = c.sent ++ [.clse l s.remote]) ∧
    closeTransport c1 l = c1 := by
  intro c1
  have hnot : ((c.map.filter (· != l)).contains l) = false := by
    simp [List.contains_eq_mem, List.mem_filter]
  have hmap : c1.map = c.map.filter (· != l) := by
    simp only [c1, closeTransport, h, if_true]
    split
    · split <;> rfl
    · rfl
  refine ⟨by rw [hmap]; exact hnot, ?_, ?_⟩
  · intro s hs hr
    have hb : (s.remote != 0) = true := by simpa using hr
    simp only [c1, closeTransport, h, if_true, hs, hb]
  · have : c1.map.contains l = false := by rw [hmap]; exact hnot
    unfold closeTransport
    rw [this]; simp

/-- a packet type that is illegal mid-session is a protocol error for whoever reads it -/
theorem c15_illegal_midsession_raises (l : Nat) (fuel : Nat) (c : Conn) (s : Stream) (dev : List DMsg)
    (hs : getS c l = some s) (hm : c.map.contains l = true) (hq : s.queue = []) (hd : c.dev = .illegal :: dev) :
    (readForStream l (fuel + 1) c).2 = .error .protocol := by
  have hm' : l ∈ c.map := by simpa using hm
  simp [readForStream, hs, hm', hq, hd, localOf]

/-- a stream is usable only after the device's OKAY; a CLSE reply to OPEN yields no stream -/
theorem c15_open_result (s : Stream) (m : DMsg) (hp : s.state = .pending) (hr : s.remote = 0) (he : s.expectingOkay = true) :
    (∀ s', handleMessage s m false = .ok s' → s'.state = .open → ∃ r lo, m = .okay r lo) ∧
    (∀ r lo, m = .clse r lo → ∃ s', handleMessage s m false = .ok s' ∧ s'.state = .closed) := by
  constructor
  · intro s' h hs
    cases m with
    | okay r lo => exact ⟨r, lo, rfl⟩
    | wrte r lo d => simp [handleMessage] at h
    | clse r lo => simp [handleMessage] at h; rw [← h] at hs; simp at hs
    | illegal => simp [handleMessage] at h
  · intro r lo hm; subst hm; exact ⟨_, rfl, rfl⟩

/-- drain, then closed: data already buffered for a stream is handed out by the next read whatever has happened to the
    stream since (local close, the device's CLSE, id released): `read(0)` gives all of it, `read(n)` its first n bytes -/
theorem c15_buffered_data_is_handed_out_first (c : Conn) (l len fuel : Nat) (s : Stream) (h : getS c l = some s)
    (hb : s.buf ≠ []) (hl : len ≤ s.buf.length) :
    (readStream l len (fuel + 1) c).2 = .ok (if len = 0 then s.buf else s.buf.take len) := by
  have hne : s.buf.isEmpty = false := by cases hbuf : s.buf <;> simp_all
  simp only [readStream, h, hne, Bool.not_false, Bool.true_and, decide_eq_true_eq, hl, if_true]
  split <;> rfl

/-- … and what a `read(n)` leaves over stays buffered -/
theorem c15_read_leaves_the_rest_buffered (c : Conn) (l len fuel : Nat) (s : Stream) (h : getS c l = some s)
    (hb : s.buf ≠ []) (hl : len ≤ s.buf.length) (hpos : 0 < len) :
    (readStream l len (fuel + 1) c).1 = putS c { s with buf := s.buf.drop len } := by
  have hne : s.buf.isEmpty = false := by cases hbuf : s.buf <;> simp_all
  have h0 : len ≠ 0 := by omega
  simp [readStream, h, hne, hl, h0]

theorem find_map_replace (xs : List Stream) (l : Nat) (t t' : Stream)
    (ht : xs.find? (fun x => x.local_ == l) = some t) (ht' : t'.local_ = l) :
    (xs.map (fun x => if x.local_ == t'.local_ then t' else x)).find? (fun x => x.local_ == l) = some t' := by
  induction xs with
  | nil => simp at ht
  | cons x xs ih =>
    simp only [List.map_cons, List.find?_cons] at ht ⊢
    by_cases hx : x.local_ = l
    · simp [hx, ht']
    · have hx' : (x.local_ == l) = false := by simpa using hx
      have hx2 : (x.local_ == t'.local_) = false := by simpa [ht'] using hx
      rw [hx'] at ht
      simp only [hx2, Bool.false_eq_true, if_false, hx']
      exact ih ht

/-- closing a stream locally does not touch its read buffer -/
theorem c15_close_keeps_buffer (c : Conn) (l : Nat) (s : Stream) (h : getS c l = some s) :
    ∃ s', getS (closeStream c l) l = some s' ∧ s'.buf = s.buf := by
  have hl : s.local_ = l := by
    have := List.find?_some h
    simpa using this
  have key : ∀ (c' : Conn) (t : Stream), getS c' l = some t → ∀ t' : Stream, t'.local_ = l →
      getS (putS c' t') l = some t' := by
    intro c' t ht t' ht'
    exact find_map_replace c'.streams l t t' ht ht'
  have ct : ∀ (c' : Conn), getS (closeTransport c' l) l = getS c' l := by
    intro c'
    unfold closeTransport
    split
    · simp only [getS]
      split
      · split <;> rfl
      · rfl
    · rfl
  unfold closeStream
  rw [h]
  simp only
  split
  · exact ⟨s, h, rfl⟩
  · refine ⟨{ s with state := .closed }, ?_, rfl⟩
    rw [ct]
    exact key c s h _ hl

/-- non-vacuity: two keys, both rejected, public key offered once, then accepted -/
example : connect 2 [.noise, .authToken 7, .authToken 8, .authToken 9, .noise, .cnxn 4096 true] =
    ([.cnxn, .signature 0 7, .signature 1 8, .publicKey 0], .connected 4096) := by
  simp [connect, readUntil, keyLoop, connectedOf]

end OpenHTF.AdbConn
