import OpenHTF.Model.Validators
/-
C07 — built-in validators: theorems for every limit tuple and every probe value.
-/
namespace OpenHTF.Validators

/-- limits the property quantifies over: absent, or a number that is not NaN (ints, floats incl. ±inf,
    bools, numeric strings with `type=`) -/
def Lim.wf : Lim → Bool
  | .none => true
  | .num v => v.numeric
  | .conv v => v.numeric
def Range.wf (r : Range) : Bool := r.min.wf && r.max.wf && r.mmin.wf && r.mmax.wf

theorem le?_numeric (a b : V) (ha : a.numeric = true) (hb : b.numeric = true) : le? a b = some (a.leq b) := by
  cases a <;> cases b <;> simp_all [V.numeric, le?, V.leq, V.key]
  all_goals rfl
theorem lt?_numeric (a b : V) (ha : a.numeric = true) (hb : b.numeric = true) : lt? a b = some (!(b.leq a)) := by
  cases a <;> cases b <;> simp_all [V.numeric, lt?, V.leq, V.key]
  rename_i x y
  by_cases h : x < y
  · have : ¬ y ≤ x := by omega
    simp [h, this]
  · have : y ≤ x := by omega
    simp [h, this]
theorem lt?_str_left (b : V) : lt? .str b = Option.none := by cases b <;> rfl
theorem lt?_str_right (a : V) : lt? a .str = Option.none := by cases a <;> rfl

theorem wf_val (l : Lim) (h : l.wf = true) (hn : l.isNone = false) : l.val.numeric = true := by
  cases l <;> simp_all [Lim.wf, Lim.isNone, Lim.val]

theorem below?_numeric (l : Lim) (v : V) (hl : l.wf = true) (hv : v.numeric = true) :
    below? l v = some (!(l.isNone || l.val.leq v)) := by
  unfold below?
  cases hn : l.isNone
  · simp [lt?_numeric _ _ hv (wf_val l hl hn)]
  · simp
theorem above?_numeric (l : Lim) (v : V) (hl : l.wf = true) (hv : v.numeric = true) :
    above? l v = some (!(l.isNone || v.leq l.val)) := by
  unfold above?
  cases hn : l.isNone
  · simp [lt?_numeric _ _ (wf_val l hl hn) hv]
  · simp

/-- `in_range` accepts exactly the values inside the limits: numeric, not NaN, min ≤ v ≤ max with both
    bounds inclusive; and it never raises on a numeric value. (At least one bound is given: the
    constructor rejects a range without bounds.) -/
theorem c07_inrange_iff (r : Range) (hwf : r.wf = true) (hb : (r.min.isNone && r.max.isNone) = false) (v : V) :
    (inRange r v = .accept ↔ Spec.inside r v = true) ∧ (v.numeric = true → inRange r v ≠ .raises) := by
  simp only [Range.wf, Bool.and_eq_true] at hwf
  obtain ⟨⟨⟨h1, h2⟩, _⟩, _⟩ := hwf
  by_cases hv : v.numeric = true
  · have hnn : v ≠ .none := by intro e; subst e; simp [V.numeric] at hv
    have hnan : isNan v = some false := by cases v <;> simp_all [V.numeric, isNan]
    simp only [inRange, hnn, hnan, if_false, below?_numeric _ _ h1 hv, above?_numeric _ _ h2 hv, Spec.inside, hv,
      Bool.true_and, Bool.false_eq_true]
    cases hA : (r.min.isNone || r.min.val.leq v) <;> cases hB : (r.max.isNone || v.leq r.max.val) <;> simp
  · have hs : Spec.inside r v = false := by simp [Spec.inside, hv]
    refine ⟨?_, fun h => absurd h hv⟩
    rw [hs]
    cases v <;> simp_all [V.numeric, inRange, isNan]

/-- None and NaN never pass a numeric range -/
theorem c07_none_nan_never_pass (r : Range) :
    inRange r .none = .reject ∧ inRange r .nan = .reject ∧
    inRangeMarginal r .none = .reject ∧ inRangeMarginal r .nan = .reject := by
  simp [inRange, inRangeMarginal, isNan]

theorem between?_numeric (a v b : V) (ha : a.numeric = true) (hv : v.numeric = true) (hb : b.numeric = true) :
    between? a v b = some (a.leq v && v.leq b) := by
  unfold between?
  rw [le?_numeric a v ha hv, le?_numeric v b hv hb]
  cases a.leq v <;> simp

/-- a passing value is marginal exactly when it lies between a bound and that bound's marginal limit
    (inclusive), for every range the constructor accepts -/
theorem c07_marginal_iff_band (r : Range) (hwf : r.wf = true) (hc : ctorRejects r = false) (v : V)
    (hacc : inRange r v = .accept) :
    (inRangeMarginal r v = .accept ↔ Spec.inBand r v = true) ∧ inRangeMarginal r v ≠ .raises := by
  have hb : (r.min.isNone && r.max.isNone) = false := by
    simp only [ctorRejects, Bool.or_eq_false_iff] at hc; exact hc.1.1.1.1.1.1
  have hv : v.numeric = true := by
    have := (c07_inrange_iff r hwf hb v).1.mp hacc
    simp only [Spec.inside, Bool.and_eq_true] at this
    exact this.1.1
  have hmm : r.mmin.isNone = false → r.min.isNone = false := by
    intro h; simp only [ctorRejects, Bool.or_eq_false_iff] at hc
    have := hc.1.1.1.1.2; simp [h] at this; exact this
  have hmx : r.mmax.isNone = false → r.max.isNone = false := by
    intro h; simp only [ctorRejects, Bool.or_eq_false_iff] at hc
    have := hc.1.1.1.2; simp [h] at this; exact this
  simp only [Range.wf, Bool.and_eq_true] at hwf
  obtain ⟨⟨⟨h1, h2⟩, h3⟩, h4⟩ := hwf
  have hnn : v ≠ .none := by intro e; subst e; simp [V.numeric] at hv
  have hnan : isNan v = some false := by cases v <;> simp_all [V.numeric, isNan]
  have e1 : band? r.mmin r.min.val v r.mmin.val = some (!r.mmin.isNone && r.min.val.leq v && v.leq r.mmin.val) := by
    unfold band?
    cases h : r.mmin.isNone
    · simp [between?_numeric _ _ _ (wf_val _ h1 (hmm h)) hv (wf_val _ h3 h)]
    · simp
  have e2 : band? r.mmax r.mmax.val v r.max.val = some (!r.mmax.isNone && r.mmax.val.leq v && v.leq r.max.val) := by
    unfold band?
    cases h : r.mmax.isNone
    · simp [between?_numeric _ _ _ (wf_val _ h4 h) hv (wf_val _ h2 (hmx h))]
    · simp
  simp only [inRangeMarginal, hnn, hnan, if_false, e1, e2, Spec.inBand, Bool.false_eq_true]
  cases (!r.mmin.isNone && r.min.val.leq v && v.leq r.mmin.val) <;>
    cases (!r.mmax.isNone && r.mmax.val.leq v && v.leq r.max.val) <;> simp

/-- the inconsistent limit tuples, stated with the order on numbers (strings are exempt: they may be
    templates for `with_args`) -/
def Spec.inconsistent (r : Range) : Bool :=
  let gt (a b : Lim) := a.isNumber && b.isNumber && !(a.val.leq b.val)
  (r.min.isNone && r.max.isNone) || gt r.min r.max || (!r.mmin.isNone && r.min.isNone) ||
  (!r.mmax.isNone && r.max.isNone) || gt r.min r.mmin || gt r.mmax r.max || gt r.mmin r.mmax

theorem gtNum_spec (a b : Lim) (ha : a.wf = true) (hb : b.wf = true) :
    gtNum a b = (a.isNumber && b.isNumber && !(a.val.leq b.val)) := by
  unfold gtNum
  cases a <;> cases b <;> simp_all [Lim.isNumber, Lim.wf, Lim.val]
  rename_i x y
  rw [lt?_numeric y x hb ha]
  cases x.leq y <;> simp

/-- construction rejects exactly the inconsistent numeric limit tuples: min > max, a marginal limit
    without its bound or outside it, marginal minimum above marginal maximum, no bound at all -/
theorem c07_ctor_rejects_iff_inconsistent (r : Range) (hwf : r.wf = true) :
    ctorRejects r = Spec.inconsistent r := by
  simp only [Range.wf, Bool.and_eq_true] at hwf
  obtain ⟨⟨⟨h1, h2⟩, h3⟩, h4⟩ := hwf
  simp only [ctorRejects, Spec.inconsistent, gtNum_spec _ _ h1 h2, gtNum_spec _ _ h1 h3, gtNum_spec _ _ h4 h2,
    gtNum_spec _ _ h3 h4]

/-- `equals(number)` is the degenerate range: it accepts exactly that number (no NaN, no None) -/
theorem c07_equals_number (n : Int) (v : V) :
    inRange ⟨.num (.fin n), .num (.fin n), .none, .none⟩ v = .accept ↔ v = .fin n := by
  cases v <;> simp [inRange, isNan, below?, above?, Lim.isNone, Lim.val, lt?]
  rename_i z
  by_cases h1 : z < n
  · simp [h1]; omega
  · by_cases h2 : n < z
    · simp [h1, h2]; omega
    · simp [h1, h2]; omega

theorem allM_numeric (f : V → Option Bool) (g : V → Bool) (vs : List V)
    (h : ∀ v ∈ vs, f v = some (g v)) : allM f vs = some (vs.all g) := by
  induction vs with
  | nil => rfl
  | cons x xs ih =>
    have hx := h x List.mem_cons_self
    have := ih (fun v hv => h v (List.mem_cons_of_mem _ hv))
    simp only [allM, hx, List.all_cons]
    cases g x <;> simp [this]

theorem le?_nan_left (b : V) (hb : b.numeric = true) : le? .nan b = some false := by
  cases b <;> simp_all [V.numeric, le?]
theorem le?_nan_right (a : V) (ha : a.numeric = true) : le? a .nan = some false := by
  cases a <;> simp_all [V.numeric, le?]

/-- `all_in_range` accepts a list exactly when every element is inside the limits (NaN elements never
    are); it does not raise on lists of numbers -/
theorem c07_allinrange_iff (r : Range) (hwf : r.wf = true) (hb : (r.min.isNone && r.max.isNone) = false)
    (vs : List V) (hvs : ∀ v ∈ vs, v.numeric = true ∨ v = .nan) :
    allInRange r vs = .accept ↔ ∀ v ∈ vs, Spec.inside r v = true := by
  simp only [Range.wf, Bool.and_eq_true] at hwf
  obtain ⟨⟨⟨h1, h2⟩, _⟩, _⟩ := hwf
  have hmax : r.max.isNone = false → allM (fun v => le? v r.max.val) vs = some (vs.all (fun v => v.numeric && v.leq r.max.val)) := by
    intro hn
    apply allM_numeric
    intro v hv
    rcases hvs v hv with h | h
    · simp [le?_numeric _ _ h (wf_val _ h2 hn), h]
    · subst h; simp [le?_nan_left _ (wf_val _ h2 hn), V.numeric]
  have hmin : r.min.isNone = false → allM (fun v => le? r.min.val v) vs = some (vs.all (fun v => v.numeric && r.min.val.leq v)) := by
    intro hn
    apply allM_numeric
    intro v hv
    rcases hvs v hv with h | h
    · simp [le?_numeric _ _ (wf_val _ h1 hn) h, h]
    · subst h; simp [le?_nan_right _ (wf_val _ h1 hn), V.numeric]
  unfold allInRange
  cases hn1 : r.min.isNone <;> cases hn2 : r.max.isNone <;> simp_all [Spec.inside, List.all_eq_true]
  constructor
  · intro h v hv; exact ⟨h.1 v hv, h.2 v hv⟩
  · intro h; exact ⟨fun v hv => (h v hv).1, fun v hv => (h v hv).2⟩

/-! #### percent tolerance (exact arithmetic) -/

/-- the tolerance is symmetric around the expected value, also for negative expected values -/
theorem c07_percent_symmetric (c : Pct) (d : Int) : pctAccept c (c.e + d) = pctAccept c (c.e - d) := by
  unfold pctAccept
  have h1 : 100 * (c.e + d - c.e) = 100 * d := by omega
  have h2 : 100 * (c.e - d - c.e) = -(100 * d) := by omega
  rw [h1, h2, Int.natAbs_neg]

/-- acceptance is the closed interval e ± |e·p|/100 (stated without division) -/
theorem c07_percent_bounds (c : Pct) (v : Int) :
    pctAccept c v = true ↔
      100 * c.e - ((c.e * c.p).natAbs : Int) ≤ 100 * v ∧ 100 * v ≤ 100 * c.e + ((c.e * c.p).natAbs : Int) := by
  unfold pctAccept
  simp only [decide_eq_true_eq]
  omega

/-- a marginal value always lies inside the tolerance -/
theorem c07_percent_marginal_inside (c : Pct) (v : Int) (h : pctMarginal c v = true) : pctAccept c v = true := by
  unfold pctMarginal at h
  unfold pctAccept
  cases hm : c.mp with
  | none => simp [hm] at h
  | some m =>
    simp only [hm] at h
    split at h
    · simp at h
    · simp only [Bool.and_eq_true, decide_eq_true_eq] at h
      simp only [decide_eq_true_eq]; omega

/-- with consistent percents (0 ≤ mp < p) the marginal band is exactly the part of the tolerance at or
    beyond the marginal tolerance, boundary of the tolerance excluded -/
theorem c07_percent_marginal_iff (c : Pct) (m : Int) (v : Int) (hm : c.mp = some m) (hm0 : m ≠ 0) :
    pctMarginal c v = true ↔
      (100 * (v - c.e)).natAbs < (c.e * c.p).natAbs ∧ (c.e * m).natAbs ≤ (100 * (v - c.e)).natAbs := by
  simp [pctMarginal, hm, hm0]

/-- `WithinPercent.__call__` on the bounds it reports: the closed interval, never raising on numbers -/
theorem c07_pctcall_iff (mn mx v : V) (h1 : mn.numeric = true) (h2 : mx.numeric = true) (hv : v.numeric = true) :
    pctCall mn mx v = (if mn.leq v && v.leq mx then .accept else .reject) := by
  unfold pctCall
  rw [between?_numeric mn v mx h1 hv h2]
  cases (mn.leq v && v.leq mx) <;> simp

/-- the pivot validators: all rows pass / once a row passes all later rows pass -/
theorem c07_pivot (vs : List Bool) : pivot vs = true ↔ ∀ b ∈ vs, b = true := by
  simp [pivot, List.all_eq_true]

theorem mem_tw (p : Bool → Bool) (l : List Bool) (b : Bool) (h : b ∈ l.takeWhile p) : p b = true := by
  induction l with
  | nil => simp at h
  | cons x xs ih =>
    simp only [List.takeWhile_cons] at h
    split at h
    · rcases List.mem_cons.mp h with rfl | h'
      · assumption
      · exact ih h'
    · simp at h

theorem c07_consistent_end (vs : List Bool) :
    consistentEnd vs = true ↔ ∃ pre post, vs = pre ++ post ∧ post ≠ [] ∧ (∀ b ∈ pre, b = false) ∧ (∀ b ∈ post, b = true) := by
  unfold consistentEnd
  constructor
  · intro h
    refine ⟨vs.takeWhile (fun b => !b), vs.dropWhile (fun b => !b), (List.takeWhile_append_dropWhile).symm, ?_, ?_, ?_⟩
    · intro e; simp [e] at h
    · intro b hb; have := mem_tw _ _ _ hb; simpa using this
    · intro b hb
      cases hd : List.dropWhile (fun b => !b) vs with
      | nil => rw [hd] at hb; simp at hb
      | cons x xs =>
        rw [hd] at h hb
        simp only [List.all_eq_true, id] at h
        exact h b hb
  · rintro ⟨pre, post, rfl, hne, hpre, hpost⟩
    have : List.dropWhile (fun b => !b) (pre ++ post) = post := by
      induction pre with
      | nil =>
        cases post with
        | nil => exact absurd rfl hne
        | cons x xs =>
          have := hpost x List.mem_cons_self
          simp [this]
      | cons p ps ih =>
        have hp := hpre p List.mem_cons_self
        simp only [List.cons_append, List.dropWhile_cons, hp, Bool.not_false, if_true]
        exact ih (fun b hb => hpre b (List.mem_cons_of_mem _ hb))
    rw [this]
    cases post with
    | nil => exact absurd rfl hne
    | cons x xs => simpa [List.all_eq_true] using hpost

/-- `equals('literal')`: accepts the literal and nothing that differs by more than one trailing newline -/
theorem c07_equals_str (lit v : List Nat) : equalsStr lit v = true ↔ v = lit ∨ v = lit ++ [10] := by
  simp [equalsStr]

/-- `all_equals('literal')`: accepts exactly the lists all of whose elements are the literal -/
theorem c07_all_equals_str (lit : List Nat) (vs : List (List Nat)) :
    allEqualsStr lit vs = true ↔ ∀ v ∈ vs, v = lit := by
  simp [allEqualsStr]

/-- non-vacuity: a range the constructor accepts with both marginal bands, and a marginal passing value -/
example : ctorRejects ⟨.num (.fin 0), .num (.fin 10), .conv (.fin 2), .num (.fin 8)⟩ = false ∧
    inRange ⟨.num (.fin 0), .num (.fin 10), .conv (.fin 2), .num (.fin 8)⟩ (.fin 9) = .accept ∧
    inRangeMarginal ⟨.num (.fin 0), .num (.fin 10), .conv (.fin 2), .num (.fin 8)⟩ (.fin 9) = .accept := by decide

end OpenHTF.Validators
