import OpenHTF.Model.Conf
/-
C20 — property theorems about the configuration model. Quantified over every state / every
operation sequence (incl. nested save_and_restore), every key universe and every `KeyInfo`.
-/
namespace OpenHTF.Conf

/-- Reading a declared key yields flag, else loaded, else default, else unset. -/
theorem c20_getitem_is_lookup (s : St) (k : Key) (d : Option Val) (hd : s.decl k = some d) :
    getitem s k = Spec.lookup (s.flags k) (s.loaded k) d := by
  unfold getitem Spec.lookup
  rw [hd]
  cases s.flags k <;> cases s.loaded k <;> cases d <;> rfl

/-! #### invariants over all operation sequences (mutual structural recursion over nested ops) -/

theorem loadOne_flags (s : St) (o a : Bool) (kv : Key × Val) : (loadOne s o a kv).flags = s.flags := by
  unfold loadOne; split <;> (try split) <;> rfl
theorem loadOne_decl (s : St) (o a : Bool) (kv : Key × Val) : (loadOne s o a kv).decl = s.decl := by
  unfold loadOne; split <;> (try split) <;> rfl
theorem loadDict_flags (kvs : List (Key × Val)) (s : St) (o a : Bool) : (loadDict s kvs o a).flags = s.flags := by
  unfold loadDict
  induction kvs generalizing s with
  | nil => rfl
  | cons kv kvs ih => simp only [List.foldl_cons]; rw [ih, loadOne_flags]
theorem loadDict_decl (kvs : List (Key × Val)) (s : St) (o a : Bool) : (loadDict s kvs o a).decl = s.decl := by
  unfold loadDict
  induction kvs generalizing s with
  | nil => rfl
  | cons kv kvs ih => simp only [List.foldl_cons]; rw [ih, loadOne_decl]

theorem loadOne_file (s : St) (o a : Bool) (kv : Key × Val) : (loadOne s o a kv).file = s.file := by
  unfold loadOne; split <;> (try split) <;> rfl
theorem loadDict_file (kvs : List (Key × Val)) (s : St) (o a : Bool) : (loadDict s kvs o a).file = s.file := by
  unfold loadDict
  induction kvs generalizing s with
  | nil => rfl
  | cons kv kvs ih => simp only [List.foldl_cons]; rw [ih, loadOne_file]

theorem flagOne_keeps (s : St) (kv : Key × Val) (k : Key) (v : Val) (h : s.flags k = some v) :
    (flagOne s kv).flags k = some v := by
  unfold flagOne
  split
  · exact h
  · rename_i hn
    simp only [setK]
    split
    · rename_i hk; subst hk; simp [h] at hn
    · exact h
theorem flagOne_decl (s : St) (kv : Key × Val) : (flagOne s kv).decl = s.decl := by
  unfold flagOne; split <;> rfl
theorem flagOne_loaded (s : St) (kv : Key × Val) : (flagOne s kv).loaded = s.loaded := by
  unfold flagOne; split <;> rfl
theorem flagFold_keeps (kvs : List (Key × Val)) (s : St) (k : Key) (v : Val) (h : s.flags k = some v) :
    (kvs.foldl flagOne s).flags k = some v := by
  induction kvs generalizing s with
  | nil => exact h
  | cons kv kvs ih => simp only [List.foldl_cons]; exact ih _ (flagOne_keeps s kv k v h)
theorem flagFold_decl (kvs : List (Key × Val)) (s : St) : (kvs.foldl flagOne s).decl = s.decl := by
  induction kvs generalizing s with
  | nil => rfl
  | cons kv kvs ih => simp only [List.foldl_cons]; rw [ih, flagOne_decl]
theorem flagFold_loaded (kvs : List (Key × Val)) (s : St) : (kvs.foldl flagOne s).loaded = s.loaded := by
  induction kvs generalizing s with
  | nil => rfl
  | cons kv kvs ih => simp only [List.foldl_cons]; rw [ih, flagOne_loaded]

/-- A flag value, once given, is what every later state holds for that key (the first one wins:
    `setdefault`), whatever operations follow — loads, resets, nested save_and_restore. -/
theorem c20_flag_first_wins_forever (ki : KeyInfo) (k : Key) (v : Val) :
    ∀ (ops : List Op) (s : St), s.flags k = some v → (run ki s ops).1.flags k = some v
  | [], s, h => h
  | o :: os, s, h => by
    simp only [run]
    exact c20_flag_first_wins_forever ki k v os _ (stepF o s h)
where
  stepF : ∀ (o : Op) (s : St), s.flags k = some v → (step ki s o).1.flags k = some v
    | .declare k' d, s, h => by simp only [step]; split <;> (try split) <;> exact h
    | .load kvs o a, s, h => by simp only [step]; rw [loadDict_flags]; exact h
    | .flagValues kvs, s, h => by simp only [step]; exact flagFold_keeps kvs s k v h
    | .reset, s, h => by simp only [step]; split <;> (try rw [loadDict_flags]) <;> exact h
    | .configFile _, s, h => h
    | .setattr _ _, s, h => h
    | .saveRestore cfg inner r, s, h => by
      simp only [step]
      exact c20_flag_first_wins_forever ki k v inner _ (by rw [loadDict_flags]; exact h)

/-- Declarations are never removed or changed (keys cannot be redeclared). -/
theorem c20_decl_monotone (ki : KeyInfo) (k : Key) (d : Option Val) :
    ∀ (ops : List Op) (s : St), s.decl k = some d → (run ki s ops).1.decl k = some d
  | [], s, h => h
  | o :: os, s, h => by
    simp only [run]
    exact c20_decl_monotone ki k d os _ (stepD o s h)
where
  stepD : ∀ (o : Op) (s : St), s.decl k = some d → (step ki s o).1.decl k = some d
    | .declare k' d', s, h => by
      simp only [step]
      split
      · exact h
      · split
        · exact h
        · rename_i hn
          simp only
          split
          · rename_i hk; subst hk; simp [h] at hn
          · exact h
    | .load kvs o a, s, h => by simp only [step]; rw [loadDict_decl]; exact h
    | .flagValues kvs, s, h => by simp only [step]; rw [flagFold_decl]; exact h
    | .reset, s, h => by simp only [step]; split <;> (try rw [loadDict_decl]) <;> exact h
    | .configFile _, s, h => h
    | .setattr _ _, s, h => h
    | .saveRestore cfg inner r, s, h => by
      simp only [step]
      exact c20_decl_monotone ki k d inner _ (by rw [loadDict_decl]; exact h)

/-- Reachable-state invariant: only valid keys are ever declared. -/
def DeclValid (ki : KeyInfo) (s : St) : Prop := ∀ k, (s.decl k).isSome → ki.valid k = true

theorem declValid_run (ki : KeyInfo) :
    ∀ (ops : List Op) (s : St), DeclValid ki s → DeclValid ki (run ki s ops).1
  | [], s, h => h
  | o :: os, s, h => by
    simp only [run]
    exact declValid_run ki os _ (stepV o s h)
where
  stepV : ∀ (o : Op) (s : St), DeclValid ki s → DeclValid ki (step ki s o).1
    | .declare k' d', s, h => by
      simp only [step]
      split
      · exact h
      · rename_i hv
        split
        · exact h
        · intro k hk
          simp only at hk
          split at hk
          · rename_i e; subst e; simpa using hv
          · exact h k hk
    | .load kvs o a, s, h => by
      simp only [step]; intro k hk; rw [loadDict_decl] at hk; exact h k hk
    | .flagValues kvs, s, h => by
      simp only [step]; intro k hk; rw [flagFold_decl] at hk; exact h k hk
    | .reset, s, h => by
      simp only [step]; split
      · exact h
      · intro k hk; rw [loadDict_decl] at hk; exact h k hk
    | .configFile _, s, h => h
    | .setattr _ _, s, h => h
    | .saveRestore cfg inner r, s, h => by
      simp only [step]
      have h1 : DeclValid ki (loadDict s cfg true false) := by
        intro k hk; rw [loadDict_decl] at hk; exact h k hk
      exact declValid_run ki inner _ h1

/-- For declared keys, `key in conf`, item access, attribute access, the value holder and the
    `_asdict()` snapshot agree, in every state reachable by any operation sequence — attribute access
    under the hypothesis that the key is not also the name of an attribute of the class (finding #18:
    without it the statement is false, see `c20_attr_view_counterexample`). -/
theorem c20_views_agree (ki : KeyInfo) (ops : List Op) (k : Key)
    (hd : ((run ki {} ops).1.decl k).isSome) :
    let s := (run ki {} ops).1
    (contains s k = true ↔ ∃ v, getitem s k = .val v) ∧
    (∀ v, getitem s k = .val v ↔ asdict s k = some v) ∧
    holder s k = some (getitem s k) ∧
    (ki.method k = false → getattr ki s k = getitem s k) := by
  intro s
  have hv : ki.valid k = true := declValid_run ki ops {} (by intro k hk; simp at hk) k hd
  refine ⟨?_, ?_, ?_, ?_⟩
  · unfold contains getitem
    cases h1 : s.decl k with
    | none => simp [s, h1] at hd
    | some d => cases h2 : s.flags k <;> cases h3 : s.loaded k <;> cases d <;> simp
  · intro v
    unfold getitem asdict
    cases h1 : s.decl k with
    | none => simp [s, h1] at hd
    | some d => cases h2 : s.flags k <;> cases h3 : s.loaded k <;> cases d <;> simp
  · unfold holder
    cases h1 : s.decl k with
    | none => simp [s, h1] at hd
    | some d => rfl
  · intro hm
    simp [getattr, hm, hv]

/-- non-vacuity of `c20_views_agree`: a reachable state with a declared, loaded and flagged key -/
example : ((run ⟨fun _ => true, fun _ => false⟩ {} [.declare 0 none, .load [(0, 1)] true false,
    .flagValues [(0, 2)]]).1.decl 0).isSome = true := by decide

/-- finding #18: a declared key named like a method of the class is not readable by attribute. -/
theorem c20_attr_view_counterexample :
    let ki : KeyInfo := ⟨fun _ => true, fun k => k == 3⟩
    let s := (run ki {} [.declare 3 (some 1)]).1
    getitem s 3 = .val 1 ∧ getattr ki s 3 = .method := by decide

theorem loadOne_other (s : St) (o a : Bool) (kv : Key × Val) (k : Key) (h : kv.1 ≠ k) :
    (loadOne s o a kv).loaded k = s.loaded k := by
  unfold loadOne
  split
  · rfl
  · split
    · rfl
    · simp only [setK]; split
      · rename_i e; exact absurd e.symm h
      · rfl

/-- `_override=True`: a later load overrides earlier ones (for keys that are declared, or when
    undeclared keys are explicitly allowed). The dictionary has distinct keys. -/
theorem c20_load_override (ki : KeyInfo) (s : St) (kvs : List (Key × Val)) (a : Bool) (k : Key) (v : Val)
    (hnd : (kvs.map Prod.fst).Nodup) (hmem : (k, v) ∈ kvs) (hok : (s.decl k).isSome ∨ a = true) :
    (step ki s (.load kvs true a)).1.loaded k = some v := by
  simp only [step, loadDict]
  induction kvs generalizing s with
  | nil => simp at hmem
  | cons kv kvs ih =>
    simp only [List.foldl_cons]
    simp only [List.map_cons, List.nodup_cons] at hnd
    rcases List.mem_cons.mp hmem with e | hm
    · subst e
      -- the binding is written now and not touched by the rest (keys are distinct)
      have hrest : ∀ (l : List (Key × Val)) (t : St), (∀ x ∈ l, x.1 ≠ k) →
          (l.foldl (fun s kv => loadOne s true a kv) t).loaded k = t.loaded k := by
        intro l
        induction l with
        | nil => intro t _; rfl
        | cons x l ihl =>
          intro t hx
          simp only [List.foldl_cons]
          rw [ihl _ (fun y hy => hx y (List.mem_cons_of_mem _ hy))]
          exact loadOne_other t true a x k (hx x List.mem_cons_self)
      rw [hrest kvs _ (by
        intro x hx e
        have hm : x.1 ∈ kvs.map Prod.fst := List.mem_map_of_mem hx
        rw [e] at hm
        exact hnd.1 hm)]
      unfold loadOne
      rcases hok with hd | ha
      · cases hdk : s.decl k with
        | none => simp [hdk] at hd
        | some d => simp [setK]
      · subst ha; simp [setK]
    · apply ih _ hnd.2 hm
      rw [loadOne_decl]; exact hok

/-- `_override=False`: an already loaded value is kept. -/
theorem c20_load_no_override_keeps (ki : KeyInfo) (s : St) (kvs : List (Key × Val)) (a : Bool) (k : Key) (w : Val)
    (h : s.loaded k = some w) : (step ki s (.load kvs false a)).1.loaded k = some w := by
  simp only [step, loadDict]
  induction kvs generalizing s with
  | nil => exact h
  | cons kv kvs ih =>
    simp only [List.foldl_cons]
    apply ih
    by_cases e : kv.1 = k
    · unfold loadOne
      split
      · exact h
      · split
        · exact h
        · rename_i hn; subst e; simp [h] at hn
    · rw [loadOne_other s false a kv k e]; exact h

/-- Undeclared keys are never readable through any view. -/
theorem c20_undeclared_never_readable (ki : KeyInfo) (s : St) (k : Key) (h : s.decl k = none) :
    getitem s k = .undeclared ∧ contains s k = false ∧ holder s k = none ∧ (∀ v, getattr ki s k ≠ .val v) := by
  refine ⟨by simp [getitem, h], by simp [contains, h], by simp [holder, h], ?_⟩
  intro v
  unfold getattr
  split
  · simp
  · split
    · simp [getitem, h]
    · simp

/-- Undeclared keys are not loaded unless `_allow_undeclared`. -/
theorem c20_undeclared_not_loaded_unless_allowed (ki : KeyInfo) (s : St) (kvs : List (Key × Val)) (o : Bool) (k : Key)
    (h : s.decl k = none) : (step ki s (.load kvs o false)).1.loaded k = s.loaded k := by
  simp only [step, loadDict]
  induction kvs generalizing s with
  | nil => rfl
  | cons kv kvs ih =>
    simp only [List.foldl_cons]
    rw [ih _ (by rw [loadOne_decl]; exact h)]
    by_cases e : kv.1 = k
    · unfold loadOne; subst e; simp [h]
    · exact loadOne_other s o false kv k e

/-- `save_and_restore` restores exactly the loaded values present at call time — whatever the inline
    values and the wrapped function do (loads, resets, nested wrappers), and also when it raises. -/
theorem c20_save_restore_exact (ki : KeyInfo) (s : St) (cfg : List (Key × Val)) (inner : List Op) (raises : Bool) :
    (step ki s (.saveRestore cfg inner raises)).1.loaded = s.loaded := by
  simp only [step]

/-- `reset` drops the loaded values but neither flags nor declarations; with `--config-file` the loaded values are
    afterwards exactly what loading that file into an empty configuration gives - on the first reset and on every
    later one. -/
theorem c20_reset_drops_loaded_keeps_flags (ki : KeyInfo) (s : St) :
    let s' := (step ki s .reset).1
    (s.file = none → ∀ k, s'.loaded k = none) ∧
    (∀ kvs, s.file = some kvs → s'.loaded = (loadDict { s with loaded := fun _ => none } kvs true true).loaded) ∧
    s'.flags = s.flags ∧ s'.decl = s.decl ∧ s'.file = s.file := by
  simp only [step]
  cases h : s.file with
  | none => simp
  | some kvs => simp [loadDict_flags, loadDict_decl, loadDict_file]

/-- resetting twice is resetting once -/
theorem c20_reset_idempotent (ki : KeyInfo) (s : St) :
    (step ki (step ki s .reset).1 .reset).1.loaded = (step ki s .reset).1.loaded := by
  simp only [step]
  cases h : s.file with
  | none => simp [h]
  | some kvs =>
    have e : ({ loadDict { s with loaded := fun _ => none } kvs true true with loaded := fun _ => none } : St) =
        { s with loaded := fun _ => none } := by
      have h1 := loadDict_decl kvs { s with loaded := fun _ => none } true true
      have h2 := loadDict_flags kvs { s with loaded := fun _ => none } true true
      have h3 := loadDict_file kvs { s with loaded := fun _ => none } true true
      generalize loadDict { s with loaded := fun _ => none } kvs true true = t at *
      cases t; cases s; simp_all
    simp only [loadDict_file, h, loadDict_decl, loadDict_flags]

/-- A declared key cannot be redeclared: the state is unchanged and the caller gets an error. -/
theorem c20_no_redeclare (ki : KeyInfo) (s : St) (k : Key) (d : Option Val) (h : (s.decl k).isSome) :
    (step ki s (.declare k d)).1 = s ∧
    ((step ki s (.declare k d)).2 = [(.alreadyDeclared, s)] ∨ (step ki s (.declare k d)).2 = [(.invalidKey, s)]) := by
  simp only [step]
  split
  · exact ⟨rfl, Or.inr rfl⟩
  · simp

/-- Attribute assignment never changes a configuration value. -/
theorem c20_no_setattr (ki : KeyInfo) (s : St) (k : Key) (v : Val) :
    step ki s (.setattr k v) = (s, [(.attributeError, s)]) := by
  simp only [step]

end OpenHTF.Conf
