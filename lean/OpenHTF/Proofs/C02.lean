import OpenHTF.Proofs.Lemmas.Exec
/-
C02 — node execution follows docs/event_sequence.md. For every tree (any depth, any nesting), every
behaviour oracle, every configuration and every state the executor can be in.
-/
namespace OpenHTF.Exec
open Spec

/-- Refinement: the executor's traversal (`_execute_node` with its `in_teardown` flag, the mutable
    subtest record and `skip_teardown`) computes exactly the reading of the document by mode
    (`Spec.node`: run / skip / teardown). Same records, same call log, same return value. -/
theorem c02_refines_document (cfg : Cfg) (n : Node) (sub : Option Nat) (td : Bool) (st : St) :
    exec cfg n sub td st = Spec.node cfg n (modeOf td) sub st :=
  exec_refines cfg n sub td st

theorem c02_refines_document_sequences (cfg : Cfg) (ns : List Node) (sub : Option Nat) (st : St) :
    execAb cfg ns sub st = Spec.seq cfg ns .run sub st ∧ execTd cfg ns sub st = Spec.seq cfg ns .td sub st :=
  ⟨exec_refines.execAb_refines cfg ns sub st, exec_refines.execTd_refines cfg ns sub st⟩

/-- After a subtest has failed (outside a teardown) every node is processed as `Spec.skipNode`: phases
    are recorded as SKIP without running, branches are not run at all, groups are skipped entirely,
    the node returns CONTINUE and the subtest stays failed. -/
theorem c02_after_subtest_failure_everything_is_skipped (cfg : Cfg) (n : Node) (sub : Option Nat) (st : St)
    (hs : sub.isSome = true) (hf : st.subFail = true) :
    exec cfg n sub false st = (skipNode n sub st, .cont) ∧ (skipNode n sub st).subFail = true :=
  exec_skip cfg n sub st hs hf

/-- skipping runs nothing: no body, no run_if evaluation, no diagnoser, no diagnosis, no terminal outcome -/
theorem c02_skipping_runs_nothing : ∀ (n : Node) (sub : Option Nat) (st : St),
    (skipNode n sub st).events = st.events ∧ (skipNode n sub st).bodyCalls = st.bodyCalls ∧
    (skipNode n sub st).runIfCalls = st.runIfCalls ∧ (skipNode n sub st).store = st.store ∧
    (skipNode n sub st).last = st.last ∧ (skipNode n sub st).branches = st.branches
  | .phase p, sub, st => by simp [skipNode, skipPhase]
  | .checkpoint c, sub, st => by simp [skipNode]
  | .seq ns, sub, st => by simpa [skipNode] using list ns sub st
  | .subtest name ns, sub, st => by simpa [skipNode] using list ns (some name) st
  | .branch _ _ _, sub, st => by simp [skipNode]
  | .group s m t, sub, st => by
    have h1 := list s sub st
    have h2 := list m sub (skipList s sub st)
    have h3 := list t sub (skipList m sub (skipList s sub st))
    simp only [skipNode]
    refine ⟨by rw [h3.1, h2.1, h1.1], by rw [h3.2.1, h2.2.1, h1.2.1], by rw [h3.2.2.1, h2.2.2.1, h1.2.2.1],
      by rw [h3.2.2.2.1, h2.2.2.2.1, h1.2.2.2.1], by rw [h3.2.2.2.2.1, h2.2.2.2.2.1, h1.2.2.2.2.1],
      by rw [h3.2.2.2.2.2, h2.2.2.2.2.2, h1.2.2.2.2.2]⟩
where
  list : ∀ (ns : List Node) (sub : Option Nat) (st : St),
      (skipList ns sub st).events = st.events ∧ (skipList ns sub st).bodyCalls = st.bodyCalls ∧
      (skipList ns sub st).runIfCalls = st.runIfCalls ∧ (skipList ns sub st).store = st.store ∧
      (skipList ns sub st).last = st.last ∧ (skipList ns sub st).branches = st.branches
    | [], sub, st => by simp [skipList]
    | n :: ns, sub, st => by
      have h1 := c02_skipping_runs_nothing n sub st
      have h2 := list ns sub (skipNode n sub st)
      simp only [skipList]
      exact ⟨by rw [h2.1, h1.1], by rw [h2.2.1, h1.2.1], by rw [h2.2.2.1, h1.2.2.1], by rw [h2.2.2.2.1, h1.2.2.2.1],
        by rw [h2.2.2.2.2.1, h1.2.2.2.2.1], by rw [h2.2.2.2.2.2, h1.2.2.2.2.2]⟩

/-- A sequence stops at its first terminal node: nothing after it is executed. -/
theorem c02_sequence_stops_at_first_terminal (cfg : Cfg) (sub : Option Nat) :
    ∀ (pre : List Node) (n : Node) (post : List Node) (st st1 : St),
      execAb cfg pre sub st = (st1, .cont) → (exec cfg n sub false st1).2 = .term →
      execAb cfg (pre ++ n :: post) sub st = exec cfg n sub false st1
  | [], n, post, st, st1, h1, h2 => by
    simp only [execAb, Prod.mk.injEq] at h1
    rw [← h1.1] at h2 ⊢
    simp [execAb, h2]
  | p :: pre, n, post, st, st1, h1, h2 => by
    simp only [execAb, List.cons_append] at h1 ⊢
    split at h1
    · rename_i hne
      rw [h1] at hne; simp at hne
    · rename_i hc
      simp only [hc]
      exact c02_sequence_stops_at_first_terminal cfg sub pre n post _ st1 h1 h2

/-- FAIL_SUBTEST never escapes its subtest: whatever happens inside, the enclosing subtest's state is
    what it was, so the nodes after the subtest run normally; the subtest node is terminal only if a
    node inside it was. -/
theorem c02_fail_subtest_never_escapes (cfg : Cfg) (name : Nat) (ns : List Node) (sub : Option Nat) (td : Bool) (st : St) :
    (exec cfg (.subtest name ns) sub td st).1.subFail = st.subFail ∧
    ((exec cfg (.subtest name ns) sub td st).2 = .term →
      (if td then execTd cfg ns (some name) { st with subFail := sub.isSome && st.subFail }
       else execAb cfg ns (some name) { st with subFail := sub.isSome && st.subFail }).2 = .term) := by
  constructor
  · simp [exec]
  · intro h
    cases td <;> simpa [exec] using h

/-- the subtest record: STOP if a node inside was terminal, else FAIL if the subtest failed, else PASS;
    exactly one record per subtest node -/
theorem c02_subtest_record (cfg : Cfg) (name : Nat) (ns : List Node) (sub : Option Nat) (td : Bool) (st : St) :
    let inner := if td then execTd cfg ns (some name) { st with subFail := sub.isSome && st.subFail }
                 else execAb cfg ns (some name) { st with subFail := sub.isSome && st.subFail }
    (exec cfg (.subtest name ns) sub td st).1.subtests =
      inner.1.subtests ++ [(name, if inner.2 == .term then .stop else if inner.1.subFail then .fail else .pass)] := by
  simp only [exec]

/-- the four condition kinds are the truth tables ALL / ANY / NOT_ANY / NOT_ALL over "the diagnosis
    result has been produced by an earlier node" -/
theorem c02_condition_truth_tables (rs store : List Nat) :
    condCheck ⟨.all, rs⟩ store = rs.all (store.contains ·) ∧
    condCheck ⟨.any, rs⟩ store = rs.any (store.contains ·) ∧
    condCheck ⟨.notAny, rs⟩ store = !rs.any (store.contains ·) ∧
    condCheck ⟨.notAll, rs⟩ store = !rs.all (store.contains ·) := by
  simp [condCheck, List.all_map, List.any_map, Function.comp_def]

/-- A branch (not skipped) runs its sequence iff its condition holds on the diagnosis store, and the
    evaluation is recorded exactly once, with `branch_taken` = the condition. -/
theorem c02_branch_iff_condition (cfg : Cfg) (id : Nat) (c : DiagCond) (ns : List Node) (sub : Option Nat) (td : Bool) (st : St)
    (hrun : (!td && sub.isSome && st.subFail) = false) :
    (condCheck c st.store = false →
        exec cfg (.branch id c ns) sub td st = ({ st with branches := st.branches ++ [(id, false)] }, .cont)) ∧
    (condCheck c st.store = true →
        let inner := if td then execTd cfg ns sub st else execAb cfg ns sub st
        exec cfg (.branch id c ns) sub td st = ({ inner.1 with branches := inner.1.branches ++ [(id, true)] }, inner.2)) := by
  constructor <;> intro h <;> simp [exec, hrun, h]

/-- what "the condition of the checkpoint holds" means -/
def Triggered (c : Ckpt) (sub : Option Nat) (st : St) : Prop :=
  match c.kind with
  | .diag dc => condCheck dc st.store = true
  | .last => ∃ r, st.phases.getLast? = some r ∧ r.outcome = .fail
  | .allPrev => ∃ r ∈ st.phases, r.outcome = .fail
  | .subtestPrev => match sub with
    | some name => ∃ r ∈ st.phases, r.subtest = some name ∧ r.outcome = .fail
    | none => ∃ r ∈ st.phases, r.outcome = .fail

/-- A checkpoint (not skipped) yields its action iff its condition holds — LAST / ALL / SUBTEST previous
    phase failed, or the diagnosis condition — and each evaluation is recorded exactly once. -/
theorem c02_checkpoint_iff_condition (c : Ckpt) (sub : Option Nat) (st : St) (hne : st.phases ≠ []) :
    (checkpointResult c sub st = .pr .cont ↔ ¬ Triggered c sub st) ∧
    (evalCheckpoint c sub st).1.checkpoints = st.checkpoints ++ [(c.id, sub, checkpointResult c sub st)] := by
  constructor
  · have hne' : st.phases.isEmpty = false := by cases h : st.phases <;> simp_all
    unfold Triggered checkpointResult
    cases hk : c.kind with
    | diag dc =>
      simp only
      cases condCheck dc st.store <;> cases c.failSubtest <;> cases sub <;> simp
    | last =>
      simp only
      cases hl : st.phases.getLast? with
      | none => simp [List.getLast?_eq_none_iff] at hl; exact absurd hl hne
      | some r =>
        by_cases hr : r.outcome = .fail
        · have hb : (r.outcome == PO.fail) = true := by simp [hr]
          cases c.failSubtest <;> cases sub <;> simp [hr]
        · have hb : (r.outcome == PO.fail) = false := by simp [hr]
          cases c.failSubtest <;> cases sub <;> simp [hr, hb]
    | allPrev =>
      simp only [hne']
      by_cases h : ∃ r ∈ st.phases, r.outcome = .fail
      · have : st.phases.any (·.outcome == .fail) = true := by simpa [List.any_eq_true] using h
        cases c.failSubtest <;> cases sub <;> simp [this, h]
      · have : st.phases.any (·.outcome == .fail) = false := by
          simpa [List.any_eq_false] using h
        cases c.failSubtest <;> cases sub <;> simp [this, h]
    | subtestPrev =>
      simp only [hne']
      cases sub with
      | none =>
        by_cases h : ∃ r ∈ st.phases, r.outcome = .fail
        · have : st.phases.any (·.outcome == .fail) = true := by simpa [List.any_eq_true] using h
          cases c.failSubtest <;> simp [this, h]
        · have : st.phases.any (·.outcome == .fail) = false := by simpa [List.any_eq_false] using h
          cases c.failSubtest <;> simp [this, h]
      | some name =>
        by_cases h : ∃ r ∈ st.phases, r.subtest = some name ∧ r.outcome = .fail
        · have : st.phases.any (fun r => r.subtest == some name && r.outcome == .fail) = true := by
            simpa [List.any_eq_true] using h
          cases c.failSubtest <;> simp [this, h]
        · have : st.phases.any (fun r => r.subtest == some name && r.outcome == .fail) = false := by
            simpa [List.any_eq_false] using h
          cases c.failSubtest <;> simp [this, h]
  · simp only [evalCheckpoint, finishNode]
    split
    · simp [setLast]
    · split <;> simp

/-- in a teardown every node is executed, whatever the earlier ones returned -/
theorem c02_teardown_sequence_runs_every_node (cfg : Cfg) (n : Node) (ns : List Node) (sub : Option Nat) (st : St) :
    execTd cfg (n :: ns) sub st =
      ((execTd cfg ns sub (exec cfg n sub true st).1).1, (exec cfg n sub true st).2.max (execTd cfg ns sub (exec cfg n sub true st).1).2) := by
  simp [execTd]

/-- non-vacuity and a worked example of the rules: subtest [FAIL_SUBTEST, phase, branch, group] then a phase -/
example :
    let ok : Nat → Node := fun i => .phase { id := i, beh := fun _ => { raw := .ret .cont } }
    let st := (execAb {} [.subtest 9 [.phase { id := 1, beh := fun _ => { raw := .ret .failSub } }, ok 2,
                  .branch 5 ⟨.notAny, []⟩ [ok 3], .group [ok 4] [ok 6] [ok 7]], ok 8] none {}).1
    st.phases.map (fun r => (r.id, r.outcome)) =
      [(1, .fail), (2, .skip), (4, .skip), (6, .skip), (7, .skip), (8, .pass)] ∧
    st.branches = [] ∧ st.subtests = [(9, .fail)] ∧ st.bodyCalls = [1, 8] := by decide +kernel

end OpenHTF.Exec
