import OpenHTF.Proofs.Lemmas.Exec
import OpenHTF.Proofs.Lemmas.ExecGrow
/-
C01 — no false PASS. For every test program (any tree), every behaviour oracle, every configuration.
-/
namespace OpenHTF.Exec

theorem runTestDiagnosers_phases (st : St) (ds : List DiagRun) :
    (runTestDiagnosers st ds).phases = st.phases ∧ (st.last.isSome = true → (runTestDiagnosers st ds).last.isSome = true) ∧
    (runTestDiagnosers st ds).subtests = st.subtests := by
  unfold runTestDiagnosers
  induction ds generalizing st with
  | nil => simp
  | cons d ds ih =>
    simp only [List.foldl_cons]
    cases d with
    | results rs =>
      have := ih (addDiagnoses st rs)
      exact ⟨this.1, fun h => this.2.1 h, this.2.2⟩
    | raises =>
      cases hl : st.last with
      | none =>
        have := ih { st with last := some (.exc false) }
        simp only [hl] at this ⊢
        exact ⟨this.1, fun h => by simp at h, this.2.2⟩
      | some r =>
        simp only
        split
        · have := ih st
          exact ⟨this.1, fun _ => this.2.1 (by simp [hl]), this.2.2⟩
        · have := ih { st with last := some (.exc false) }
          exact ⟨this.1, fun _ => this.2.1 rfl, this.2.2⟩

/-- the invariant holds at the end of every run -/
theorem runTest_ErrInv (cfg : Cfg) (t : Test) : ErrInv (runTest cfg t) := by
  have h0 : ErrInv ({} : St) := by intro r hr; simp at hr
  unfold runTest
  cases hs : t.testStart with
  | none =>
    simp only
    have h1 := (exec_ErrInv.execAb_ErrInv cfg t.nodes none {}).1 h0
    have h2 := runTestDiagnosers_phases (execAb cfg t.nodes none {}).1 t.testDiags
    exact ErrInv.of_same h2.1 h2.2.1 h1
  | some p =>
    simp only
    -- test_start is a phase executed outside any subtest, without stop_on_first_failure
    have hl := loop_error cfg p none (repeatLimit cfg p.opts) (repeatLimit cfg p.opts) 1 {}
    simp only at hl
    obtain ⟨hlast, recs, hp, he⟩ := hl
    change (executePhase cfg p none {}).1.last = _ at hlast
    change (executePhase cfg p none {}).1.phases = _ ++ recs at hp
    split
    · rename_i hterm
      intro r hr hre
      simp only [setLast] at hr ⊢
      rw [hp] at hr
      simp only [List.nil_append] at hr
      right; cases (executePhase cfg p none {}).1.last <;> simp
    · rename_i hterm
      have hst : ErrInv (executePhase cfg p none {}).1 := by
        intro r hr hre
        rw [hp] at hr
        simp only [List.nil_append] at hr
        rcases he r hr hre with h1 | h1
        · exact Or.inl h1
        · exfalso
          have h2 : (executePhase cfg p none {}).2.isTerminal = true := h1
          rw [h2] at hterm; simp at hterm
      simp only [Bool.false_eq_true, if_false]
      have h1 := (exec_ErrInv.execAb_ErrInv cfg t.nodes none (executePhase cfg p none {}).1).1 hst
      have h2 := runTestDiagnosers_phases (execAb cfg t.nodes none (executePhase cfg p none {}).1).1 t.testDiags
      exact ErrInv.of_same h2.1 h2.2.1 h1

theorem runTestDiagnosers_LastTerm (st : St) (ds : List DiagRun) (h : LastTerm st) : LastTerm (runTestDiagnosers st ds) := by
  unfold runTestDiagnosers
  induction ds generalizing st with
  | nil => simpa using h
  | cons d ds ih =>
    simp only [List.foldl_cons]
    apply ih
    cases d with
    | results rs => intro r hr; exact h r (by simpa [addDiagnoses] using hr)
    | raises =>
      cases hl : st.last with
      | none => intro r hr; simp at hr; rw [← hr]; rfl
      | some x =>
        simp only
        split
        · exact h
        · intro r hr; simp at hr; rw [← hr]; rfl

theorem runTest_LastTerm (cfg : Cfg) (t : Test) : LastTerm (runTest cfg t) := by
  have h0 : LastTerm ({} : St) := by intro r hr; simp at hr
  unfold runTest
  cases hs : t.testStart with
  | none =>
    simp only
    exact runTestDiagnosers_LastTerm _ _ (execAb_LastTerm cfg t.nodes none {} h0)
  | some p =>
    simp only
    have hl := (loop_error cfg p none (repeatLimit cfg p.opts) (repeatLimit cfg p.opts) 1 {}).1
    change (executePhase cfg p none {}).1.last = _ at hl
    split
    · rename_i hterm
      intro r hr
      simp only [setLast, hl] at hr
      simp at hr
      rw [← hr]; exact hterm
    · have hst : LastTerm (executePhase cfg p none {}).1 := by
        intro r hr; rw [hl] at hr; simp at hr
      simp only [Bool.false_eq_true, if_false]
      exact runTestDiagnosers_LastTerm _ _ (execAb_LastTerm cfg t.nodes none _ hst)

/-- No false PASS. If the run's outcome is PASS (execute() returns True) then: no recorded phase is
    FAIL; no recorded phase is ERROR other than a timed-out invocation that `repeat_on_timeout` retried
    (known finding: the statement without that exemption is false, see `c01_repeat_on_timeout_counterexample`);
    no failure diagnosis exists; no subtest failed; the phase records, if any, are not all SKIP; and no
    terminal outcome (exception, timeout, STOP, plug/diagnoser failure) was recorded by the executor. -/
theorem c01_no_false_pass (cfg : Cfg) (t : Test) (hpass : outcome cfg t = .pass) :
    let st := runTest cfg t
    (∀ r ∈ st.phases, r.outcome ≠ .fail) ∧
    (∀ r ∈ st.phases, r.outcome = .error → r.result = .timeout) ∧
    (∀ d ∈ st.diagnoses, d.2 = false) ∧
    (∀ s ∈ st.subtests, s.2 ≠ .fail) ∧
    (st.phases ≠ [] → ∃ r ∈ st.phases, r.outcome ≠ .skip) ∧
    st.last = none := by
  intro st
  have hinv : ErrInv st := runTest_ErrInv cfg t
  have hlt : LastTerm st := runTest_LastTerm cfg t
  unfold outcome finalize at hpass
  have hlast : st.last = none := by
    cases hl : st.last with
    | none => rfl
    | some r =>
      exfalso
      have ht := hlt r hl
      have hst : (runTest cfg t).last = some r := hl
      rw [hst] at hpass
      cases r with
      | exc b => cases b <;> simp at hpass
      | timeout => simp at hpass
      | pr x => cases x <;> simp [Res.isTerminal] at ht <;> simp at hpass
  have hst : (runTest cfg t).last = none := hlast
  rw [hst] at hpass
  simp only at hpass
  unfold finalizeNormally at hpass
  change (if st.phases.any (·.outcome == .fail) then TO.fail
    else if !st.phases.isEmpty && st.phases.all (·.outcome == .skip) then TO.error
    else if st.diagnoses.any (·.2) then TO.fail
    else if st.subtests.any (·.2 == .fail) then TO.fail else TO.pass) = TO.pass at hpass
  split at hpass
  · simp at hpass
  · rename_i h1
    split at hpass
    · simp at hpass
    · rename_i h2
      split at hpass
      · simp at hpass
      · rename_i h3
        split at hpass
        · simp at hpass
        · rename_i h4
          refine ⟨?_, ?_, ?_, ?_, ?_, hlast⟩
          · intro r hr he
            exact h1 (List.any_eq_true.mpr ⟨r, hr, by simp [he]⟩)
          · intro r hr he
            rcases hinv r hr he with h | h
            · exact h
            · rw [hlast] at h; simp at h
          · intro d hd
            cases hd2 : d.2 with
            | false => rfl
            | true => exact absurd (List.any_eq_true.mpr ⟨d, hd, hd2⟩) h3
          · intro s hs he
            exact h4 (List.any_eq_true.mpr ⟨s, hs, by simp [he]⟩)
          · intro hne
            have hne' : st.phases.isEmpty = false := by cases h : st.phases <;> simp_all
            simp only [hne', Bool.not_false, Bool.true_and, Bool.not_eq_true] at h2
            have := List.all_eq_false.mp h2
            obtain ⟨r, hr, hr2⟩ := this
            exact ⟨r, hr, by intro e; simp [e] at hr2⟩

/-- known finding (repeat_on_timeout): a timed-out invocation is recorded as ERROR, the phase is run
    again, and the test can still PASS — so "no recorded phase is ERROR" needs the exemption above -/
theorem c01_repeat_on_timeout_counterexample :
    let p : Phase := { id := 1, opts := { repeatOnTimeout := true },
                       beh := fun k => if k = 0 then { raw := .timeout } else { raw := .ret .cont } }
    outcome {} { nodes := [.phase p] } = .pass ∧
    (runTest {} { nodes := [.phase p] }).phases.map (·.outcome) = [.error, .pass] := by decide +kernel

/-- Conversely: the remembered terminal outcome decides (exception → ERROR, or FAIL if listed in
    failure_exceptions; timeout → TIMEOUT; STOP → FAIL), else a FAIL record gives FAIL, else all-SKIP
    gives ERROR, else a failure diagnosis or a failed subtest gives FAIL. -/
theorem c01_converse (st : St) :
    (st.last = some (.exc false) → finalize st = .error) ∧
    (st.last = some (.exc true) → finalize st = .fail) ∧
    (st.last = some .timeout → finalize st = .timeout) ∧
    (st.last = some (.pr .stop) → finalize st = .fail) ∧
    (st.last = none → (∃ r ∈ st.phases, r.outcome = .fail) → finalize st = .fail) ∧
    (st.last = none → st.phases ≠ [] → (∀ r ∈ st.phases, r.outcome = .skip) → finalize st = .error) ∧
    (st.last = none → (∀ r ∈ st.phases, r.outcome ≠ .fail) → (∃ r ∈ st.phases, r.outcome ≠ .skip) →
        ((∃ d ∈ st.diagnoses, d.2 = true) ∨ (∃ s ∈ st.subtests, s.2 = .fail)) → finalize st = .fail) := by
  refine ⟨fun h => by simp [finalize, h], fun h => by simp [finalize, h], fun h => by simp [finalize, h],
    fun h => by simp [finalize, h], ?_, ?_, ?_⟩
  · rintro h ⟨r, hr, he⟩
    have : st.phases.any (·.outcome == .fail) = true := List.any_eq_true.mpr ⟨r, hr, by simp [he]⟩
    simp [finalize, h, finalizeNormally, this]
  · intro h hne hall
    have h1 : st.phases.any (·.outcome == .fail) = false := by
      rw [List.any_eq_false]; intro r hr; simp [hall r hr]
    have h2 : st.phases.all (·.outcome == .skip) = true := by
      rw [List.all_eq_true]; intro r hr; simp [hall r hr]
    have h3 : st.phases.isEmpty = false := by cases h : st.phases <;> simp_all
    simp [finalize, h, finalizeNormally, h1, h2, h3]
  · rintro h hnf ⟨r, hr, hns⟩ hd
    have h1 : st.phases.any (·.outcome == .fail) = false := by
      rw [List.any_eq_false]; intro x hx; simp [hnf x hx]
    have h2 : st.phases.all (·.outcome == .skip) = false := by
      rw [List.all_eq_false]; exact ⟨r, hr, by simp [hns]⟩
    rcases hd with ⟨d, hd, hd2⟩ | ⟨s, hs, hs2⟩
    · have h3 : st.diagnoses.any (·.2) = true := List.any_eq_true.mpr ⟨d, hd, hd2⟩
      simp [finalize, h, finalizeNormally, h1, h2, h3]
    · have h4 : st.subtests.any (·.2 == .fail) = true := List.any_eq_true.mpr ⟨s, hs, by simp [hs2]⟩
      simp [finalize, h, finalizeNormally, h1, h2, h4]

/-- the first terminal event decides: a later one does not replace it -/
theorem c01_first_terminal_decides (st : St) (a b : Res) : setLast (setLast st a) b = setLast st a := by
  unfold setLast; cases st.last <;> simp

theorem any_raise_or_fail (ds : List DiagRun) :
    ds.any (fun d => match d with | .results rs => rs.any (·.2) | .raises => true) =
      (ds.any (· == .raises) || ds.any (fun d => match d with | .results rs => rs.any (·.2) | .raises => false)) := by
  induction ds with
  | nil => rfl
  | cons d ds ih =>
    simp only [List.any_cons, ih]
    cases d with
    | raises => simp
    | results rs =>
      have : (DiagRun.results rs == DiagRun.raises) = false := by simp
      simp only [this, Bool.false_or]
      cases rs.any (·.2) <;> simp

/-- a PASS record certifies its invocation (C05 table read backwards): the body returned
    None/CONTINUE, every measurement passed (UNSET only if allowed), no diagnoser raised and no failure
    diagnosis was made -/
theorem c01_pass_record_certifies (cfg : Cfg) (o : Opts) (inSub isLast : Bool) (inv : Inv)
    (h : (finalizeInvocation cfg o inSub isLast inv).outcome = .pass) :
    inv.raw = .ret .cont ∧ measurementsPass cfg inv.meas = true ∧
    inv.diags.any (fun d => match d with | .results rs => rs.any (·.2) | .raises => true) = false := by
  rw [outcome_table] at h
  unfold Spec.phaseOutcome at h
  rw [any_raise_or_fail]
  simp only at h
  generalize measurementsPass cfg inv.meas = mp at *
  generalize inv.meas.any (· == .partialRaise) = praise at *
  generalize inv.diags.any (· == .raises) = anyRaise at *
  generalize inv.diags.any (fun d => match d with | .results rs => rs.any (·.2) | .raises => false) = failDiag at *
  cases hraw : inv.raw with
  | invalid => simp [hraw] at h
  | timeout => simp [hraw] at h
  | exc b => simp [hraw] at h
  | ret r =>
    rw [hraw] at h
    cases r <;> cases inSub <;> cases isLast <;> cases praise <;> cases anyRaise <;> cases mp <;> cases failDiag <;>
      cases hs : o.stopOnMeasFail <;> simp [hs] at h ⊢

/-- No record is ever removed or rewritten: whatever node is executed, in whatever mode, the record
    list afterwards extends the record list before. -/
theorem c01_records_only_appended (cfg : Cfg) (n : Node) (sub : Option Nat) (td : Bool) (st : St) :
    Grows st (exec cfg n sub td st).1 :=
  exec_preserves cfg (Grows st)
    (fun p sub s h => h.trans (runPhase_grows cfg p sub s))
    (fun p sub s h => h.trans ⟨[{ id := p.id, outcome := .skip, result := .pr .skip, subtest := sub }], by simp [skipPhase]⟩)
    (fun c sub s h => h.trans ⟨[], by simp [evalCheckpoint, finishNode_phases]⟩)
    (fun a b h hp _ => by obtain ⟨rs, e⟩ := h; exact ⟨rs, by rw [hp, e]⟩)
    n sub td st (Grows.refl st)


/-- Accounted (partial): when a node outside any subtest returns CONTINUE, every phase it declares unconditionally
    (`mustRun`: any depth of sequences and groups, setup / main / teardown; not below a branch or subtest; no `run_if`)
    has at least one record of its own in the run's record list. Full statement (checked by the Lean spec on every real
    observation, `Driver/C01.lean: declared-phase-unaccounted`): also phases below taken branches, inside subtests that did
    not fail, and phases whose `run_if` was evaluated true; missing here: the subtest-failure bookkeeping and the run_if
    oracle. Together with `c01_no_false_pass` (PASS ⇒ no FAIL / ERROR record): a passing run has run every such phase. -/
theorem c01_declared_phases_accounted_partial (cfg : Cfg) (hc : 0 < cfg.defaultRepeatLimit) :
    ∀ (n : Node) (td : Bool) (st : St), (exec cfg n none td st).2 = .cont →
      ∀ p ∈ mustRun n, ∃ r ∈ (exec cfg n none td st).1.phases, r.id = p.id
  | .phase q, td, st, _, p, hp => by
    simp only [mustRun] at hp
    split at hp
    · rename_i hq
      simp only [List.mem_singleton] at hp; subst hp
      simp only [exec, execPhaseNode, Option.isSome_none, Bool.and_false, Bool.false_and, Bool.false_eq_true, if_false]
      exact runPhase_leaves_record cfg hc p none st (by simpa using hq)
    · simp at hp
  | .checkpoint _, _, _, _, p, hp => by simp [mustRun] at hp
  | .subtest _ _, _, _, _, p, hp => by simp [mustRun] at hp
  | .branch _ _ _, _, _, _, p, hp => by simp [mustRun] at hp
  | .seq ns, td, st, h, p, hp => by
    simp only [mustRun] at hp
    simp only [exec] at h ⊢
    cases td
    · simp only [Bool.false_eq_true, if_false] at h ⊢; exact lAb ns st h p hp
    · simp only [if_true] at h ⊢; exact lTd ns st h p hp
  | .group s m t, td, st, h, p, hp => by
    simp only [mustRun, List.mem_append] at hp
    simp only [exec, Option.isSome_none, Bool.and_false, Bool.false_and, Bool.or_false, Bool.not_false, if_true] at h ⊢
    cases td
    · simp only [Bool.false_eq_true, if_false] at h ⊢
      split at h
      · rename_i hne; rw [h] at hne; simp at hne
      · rename_i hcont
        simp only [hcont] at ⊢
        have hcont' : (execAb cfg s none st).2 = .cont := by simpa using hcont
        obtain ⟨h2, h3⟩ := Ret.max_cont h
        rcases hp with hp | hp | hp
        · obtain ⟨r, hr, hid⟩ := lAb s st hcont' p hp
          exact ⟨r, (execTd_grows cfg t none _).mem ((execAb_grows cfg m none _).mem hr), hid⟩
        · obtain ⟨r, hr, hid⟩ := lAb m _ h2 p hp
          exact ⟨r, (execTd_grows cfg t none _).mem hr, hid⟩
        · exact lTd t _ h3 p hp
    · simp only [if_true] at h ⊢
      split at h
      · rename_i hne; rw [h] at hne; simp at hne
      · rename_i hcont
        simp only [hcont] at ⊢
        have hcont' : (execTd cfg s none st).2 = .cont := by simpa using hcont
        obtain ⟨h2, h3⟩ := Ret.max_cont h
        rcases hp with hp | hp | hp
        · obtain ⟨r, hr, hid⟩ := lTd s st hcont' p hp
          exact ⟨r, (execTd_grows cfg t none _).mem ((execTd_grows cfg m none _).mem hr), hid⟩
        · obtain ⟨r, hr, hid⟩ := lTd m _ h2 p hp
          exact ⟨r, (execTd_grows cfg t none _).mem hr, hid⟩
        · exact lTd t _ h3 p hp
where
  lAb : ∀ (ns : List Node) (st : St), (execAb cfg ns none st).2 = .cont →
      ∀ p ∈ mustRunL ns, ∃ r ∈ (execAb cfg ns none st).1.phases, r.id = p.id
    | [], _, _, p, hp => by simp [mustRunL] at hp
    | n :: ns, st, h, p, hp => by
      simp only [mustRunL, List.mem_append] at hp
      simp only [execAb] at h ⊢
      split at h
      · rename_i hne; rw [h] at hne; simp at hne
      · rename_i hcont
        have hcont' : (exec cfg n none false st).2 = .cont := by simpa using hcont
        simp only [hcont]
        rcases hp with hp | hp
        · obtain ⟨r, hr, hid⟩ := c01_declared_phases_accounted_partial cfg hc n false st hcont' p hp
          exact ⟨r, (execAb_grows cfg ns none _).mem hr, hid⟩
        · exact lAb ns _ h p hp
  lTd : ∀ (ns : List Node) (st : St), (execTd cfg ns none st).2 = .cont →
      ∀ p ∈ mustRunL ns, ∃ r ∈ (execTd cfg ns none st).1.phases, r.id = p.id
    | [], _, _, p, hp => by simp [mustRunL] at hp
    | n :: ns, st, h, p, hp => by
      simp only [mustRunL, List.mem_append] at hp
      simp only [execTd] at h ⊢
      obtain ⟨h1, h2⟩ := Ret.max_cont h
      rcases hp with hp | hp
      · obtain ⟨r, hr, hid⟩ := c01_declared_phases_accounted_partial cfg hc n true st h1 p hp
        exact ⟨r, (execTd_grows cfg ns none _).mem hr, hid⟩
      · exact lTd ns _ h2 p hp

/-- the hypotheses are satisfiable on a non-trivial tree: a group with setup, main and teardown phases returns CONTINUE
    and declares three phases -/
example :
    let ok : Phase := { id := 1, beh := fun _ => { raw := .ret .cont } }
    let n : Node := .group [.phase ok] [.phase { ok with id := 2 }, .seq [.phase { ok with id := 4 }]] [.phase { ok with id := 3 }]
    (exec {} n none false {}).2 = .cont ∧ (mustRun n).map (·.id) = [1, 2, 4, 3] ∧
      ((exec {} n none false {}).1.phases.map (·.id)) = [1, 2, 4, 3] := by decide

/-- PASS means everything declared unconditionally ran and did not fail: if the run's outcome is PASS, every phase the
    test declares outside branches and subtests and without `run_if` (any depth of sequences and groups, setup, main and
    teardown parts) has a record, and every record of it is neither FAIL nor (other than the retried timeout of the
    known finding) ERROR. -/
theorem c01_pass_means_declared_phases_ran (cfg : Cfg) (hc : 0 < cfg.defaultRepeatLimit) (t : Test)
    (hpass : outcome cfg t = .pass) :
    ∀ p ∈ mustRunL t.nodes, ∃ r ∈ (runTest cfg t).phases, r.id = p.id ∧ r.outcome ≠ .fail ∧
      (r.outcome = .error → r.result = .timeout) := by
  intro p hp
  obtain ⟨hnf, hne, _, _, _, hlast⟩ := c01_no_false_pass cfg t hpass
  suffices h : ∃ r ∈ (runTest cfg t).phases, r.id = p.id by
    obtain ⟨r, hr, hid⟩ := h
    exact ⟨r, hr, hid, hnf r hr, hne r hr⟩
  -- the traversal of the nodes starts from some state `s0` and the run ends with its result + test diagnosers
  have key : ∀ s0 : St, (runTestDiagnosers (execAb cfg t.nodes none s0).1 t.testDiags).last = none →
      ∃ r ∈ (runTestDiagnosers (execAb cfg t.nodes none s0).1 t.testDiags).phases, r.id = p.id := by
    intro s0 hl
    have hd := runTestDiagnosers_phases (execAb cfg t.nodes none s0).1 t.testDiags
    have hnone : ¬ (execAb cfg t.nodes none s0).1.last.isSome = true := by
      intro hs; have := hd.2.1 hs; rw [hl] at this; simp at this
    have hcont : (execAb cfg t.nodes none s0).2 = .cont :=
      Ret.not_term (fun ht => hnone (exec_term_last.lAb cfg t.nodes none s0 ht))
    obtain ⟨r, hr, hid⟩ := c01_declared_phases_accounted_partial.lAb cfg hc t.nodes s0 hcont p hp
    exact ⟨r, by rw [hd.1]; exact hr, hid⟩
  have hlast' : (runTest cfg t).last = none := hlast
  unfold runTest at hlast' ⊢
  cases hts : t.testStart with
  | none =>
    simp only [hts, Bool.false_eq_true, if_false] at hlast' ⊢
    exact key {} hlast'
  | some q =>
    simp only [hts] at hlast' ⊢
    by_cases hterm : (executePhase cfg q none {}).2.isTerminal = true
    · simp only [hterm, if_true] at hlast'
      have := setLast_isSome (executePhase cfg q none {}).1 (executePhase cfg q none {}).2
      rw [hlast'] at this; simp at this
    · simp only [hterm, Bool.false_eq_true, if_false] at hlast' ⊢
      exact key _ hlast'


/-- Accounted, with `run_if`: when a node outside any subtest returns CONTINUE, every phase it declares outside
    branches and subtests has a record of its own, or has a `run_if` which was evaluated (and, the node having
    returned CONTINUE, did not raise). -/
theorem c01_declared_phases_accounted_runif (cfg : Cfg) (hc : 0 < cfg.defaultRepeatLimit) :
    ∀ (n : Node) (td : Bool) (st : St), (exec cfg n none td st).2 = .cont →
      ∀ p ∈ declaredU n, Acc (exec cfg n none td st).1 p
  | .phase q, td, st, _, p, hp => by
    simp only [declaredU, List.mem_singleton] at hp; subst hp
    simp only [exec, execPhaseNode, Option.isSome_none, Bool.and_false, Bool.false_and, Bool.false_eq_true, if_false]
    exact runPhase_record_or_runIf cfg hc p none st
  | .checkpoint _, _, _, _, p, hp => by simp [declaredU] at hp
  | .subtest _ _, _, _, _, p, hp => by simp [declaredU] at hp
  | .branch _ _ _, _, _, _, p, hp => by simp [declaredU] at hp
  | .seq ns, td, st, h, p, hp => by
    simp only [declaredU] at hp
    simp only [exec] at h ⊢
    cases td
    · simp only [Bool.false_eq_true, if_false] at h ⊢; exact lAb ns st h p hp
    · simp only [if_true] at h ⊢; exact lTd ns st h p hp
  | .group s m t, td, st, h, p, hp => by
    simp only [declaredU, List.mem_append] at hp
    simp only [exec, Option.isSome_none, Bool.and_false, Bool.false_and, Bool.or_false, Bool.not_false, if_true] at h ⊢
    cases td
    · simp only [Bool.false_eq_true, if_false] at h ⊢
      split at h
      · rename_i hne; rw [h] at hne; simp at hne
      · rename_i hcont
        simp only [hcont] at ⊢
        have hcont' : (execAb cfg s none st).2 = .cont := by simpa using hcont
        obtain ⟨h2, h3⟩ := Ret.max_cont h
        rcases hp with hp | hp | hp
        · exact ((lAb s st hcont' p hp).mono (execAb_grows cfg m none _) (execAb_growsRI cfg m none _)).mono
            (execTd_grows cfg t none _) (execTd_growsRI cfg t none _)
        · exact (lAb m _ h2 p hp).mono (execTd_grows cfg t none _) (execTd_growsRI cfg t none _)
        · exact lTd t _ h3 p hp
    · simp only [if_true] at h ⊢
      split at h
      · rename_i hne; rw [h] at hne; simp at hne
      · rename_i hcont
        simp only [hcont] at ⊢
        have hcont' : (execTd cfg s none st).2 = .cont := by simpa using hcont
        obtain ⟨h2, h3⟩ := Ret.max_cont h
        rcases hp with hp | hp | hp
        · exact ((lTd s st hcont' p hp).mono (execTd_grows cfg m none _) (execTd_growsRI cfg m none _)).mono
            (execTd_grows cfg t none _) (execTd_growsRI cfg t none _)
        · exact (lTd m _ h2 p hp).mono (execTd_grows cfg t none _) (execTd_growsRI cfg t none _)
        · exact lTd t _ h3 p hp
where
  lAb : ∀ (ns : List Node) (st : St), (execAb cfg ns none st).2 = .cont →
      ∀ p ∈ declaredUL ns, Acc (execAb cfg ns none st).1 p
    | [], _, _, p, hp => by simp [declaredUL] at hp
    | n :: ns, st, h, p, hp => by
      simp only [declaredUL, List.mem_append] at hp
      simp only [execAb] at h ⊢
      split at h
      · rename_i hne; rw [h] at hne; simp at hne
      · rename_i hcont
        have hcont' : (exec cfg n none false st).2 = .cont := by simpa using hcont
        simp only [hcont]
        rcases hp with hp | hp
        · exact (c01_declared_phases_accounted_runif cfg hc n false st hcont' p hp).mono
            (execAb_grows cfg ns none _) (execAb_growsRI cfg ns none _)
        · exact lAb ns _ h p hp
  lTd : ∀ (ns : List Node) (st : St), (execTd cfg ns none st).2 = .cont →
      ∀ p ∈ declaredUL ns, Acc (execTd cfg ns none st).1 p
    | [], _, _, p, hp => by simp [declaredUL] at hp
    | n :: ns, st, h, p, hp => by
      simp only [declaredUL, List.mem_append] at hp
      simp only [execTd] at h ⊢
      obtain ⟨h1, h2⟩ := Ret.max_cont h
      rcases hp with hp | hp
      · exact (c01_declared_phases_accounted_runif cfg hc n true st h1 p hp).mono
          (execTd_grows cfg ns none _) (execTd_growsRI cfg ns none _)
      · exact lTd ns _ h2 p hp


end OpenHTF.Exec
