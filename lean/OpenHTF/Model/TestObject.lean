/-
C09 — the `Test` object across repeated / overlapping `execute()` calls (import-free, executable).
`begin` is the locked section at the top of `execute()` (refuse if an executor exists, else create it,
register in TEST_INSTANCES; the executor thread attaches the record log handler); `finish` is the
`finally` block (deregister, close = remove the handler, clear the executor). A refused `begin` raises
InvalidTestStateError before the `try`, so it is not followed by a `finish` of its own.
-/
namespace OpenHTF.TestObject

structure TS where
  running : Bool := false          -- `self._executor` is set
  registered : Bool := false       -- uid in `Test.TEST_INSTANCES`
  handlers : Nat := 0              -- record log handlers of this Test attached to the `openhtf` logger
  completed : Nat := 0             -- executes that returned
deriving DecidableEq, Repr

inductive Op | begin | finish
deriving DecidableEq, Repr

inductive Out | started | refused | returned | ignored
deriving DecidableEq, Repr

def step (s : TS) : Op → TS × Out
  | .begin =>
    if s.running then (s, .refused)
    else ({ s with running := true, registered := true, handlers := s.handlers + 1 }, .started)
  | .finish =>
    if s.running then
      ({ running := false, registered := false, handlers := s.handlers - 1, completed := s.completed + 1 }, .returned)
    else (s, .ignored)

def run (s : TS) : List Op → TS × List Out
  | [] => (s, [])
  | o :: os =>
    let r := step s o
    let r2 := run r.1 os
    (r2.1, r.2 :: r2.2)

/-- record finality, evaluated on the facts the harness reports about a returned record -/
structure RecFacts where
  hasOutcome : Bool
  start : Nat
  end_ : Option Nat
  dutIdSet : Bool
  hasName : Bool
  hasConfig : Bool
  noRunningPhase : Bool
  phases : List (Bool × Bool × Bool × Nat × Option Nat)   -- (has outcome, has result, has options, start, end)

def final (r : RecFacts) : Bool :=
  r.hasOutcome && r.dutIdSet && r.hasName && r.hasConfig && r.noRunningPhase &&
  (match r.end_ with
   | none => false
   | some e => decide (r.start ≤ e) &&
     r.phases.all (fun p => p.1 && p.2.1 && p.2.2.1 &&
       (match p.2.2.2.2 with | none => false | some pe => decide (p.2.2.2.1 ≤ pe) && decide (pe ≤ e))))

end OpenHTF.TestObject
