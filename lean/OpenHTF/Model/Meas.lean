/-
C06 — model of `openhtf/core/measurements.py` (Measurement, MeasuredValue, DimensionedMeasuredValue,
Collection) and the end-of-phase validation of `PhaseState._finalize_measurements`.
Import-free, executable. Values are naturals (indices into the harness' value pool); the transform
and the validators are parameters (tables supplied per case; theorems quantify over all of them).
-/
namespace OpenHTF.Meas

abbrev Val := Nat
abbrev Coord := List Nat

/-- what one validator says about one value -/
inductive Verdict | accept (marginal : Bool) | reject | raises
deriving DecidableEq, Repr

/-- `measurements.Outcome` -/
inductive Outcome | pass | fail | unset | partiallySet
deriving DecidableEq, Repr

structure Decl where
  arity : Option Nat                      -- none = scalar, some n = n dimensions
  transform : Val → Option Val            -- none = the transform raises
  verdicts : Val → List Verdict           -- every attached validator (plus the conditional ones whose
                                          -- diagnosis result existed at phase start), in order
  nValidators : Nat := 0                  -- their number (used for dimensioned measurements)

structure M where
  stored : Option Val := none             -- scalar: stored_value (if is_value_set)
  entries : List (Coord × Val) := []      -- dimensioned: value_dict in insertion order
  outcome : Outcome := .unset
  marginal : Bool := false
deriving DecidableEq, Repr

inductive Op
  | set (i : Nat) (v : Val)               -- `test.measurements.name = v` / `measurements[name] = v`
  | setDim (i : Nat) (c : Coord) (v : Val)   -- `test.measurements.name[c] = v`
  | setUndeclared                         -- assignment to a name that is not a measurement
  | phaseEnd                              -- `_finalize_measurements`
deriving DecidableEq, Repr

/-- what the caller (the phase body, or the phase at its end) sees -/
inductive Res | ok | notAMeasurement | invalidDimensions | raised
deriving DecidableEq, Repr

/-- Python `all(v(x) for v in validators)`: stops at the first False; an earlier raise propagates.
    `none` = raised; `some (b, marg)`: all accepted?, and (if so) did any say marginal -/
def evalAll : List Verdict → Option (Bool × Bool)
  | [] => some (true, false)
  | .reject :: _ => some (false, false)
  | .raises :: _ => none
  | .accept m :: vs => match evalAll vs with
    | none => none
    | some (false, _) => some (false, false)
    | some (true, m') => some (true, m || m')

/-- `Measurement.validate()` on a scalar value (after the `fix:` commit: `marginal` is assigned on
    every validation, not only ever set to True) -/
def validateScalar (d : Decl) (m : M) (x : Val) : M × Res :=
  match evalAll (d.verdicts x) with
  | none => ({ m with outcome := .fail, marginal := false }, .raised)
  | some (true, marg) => ({ m with outcome := .pass, marginal := marg }, .ok)
  | some (false, _) => ({ m with outcome := .fail, marginal := false }, .ok)

/-- one validator of a dimensioned measurement (dimension-pivot style: `all(sub(row[-1]) for row in value)`):
    rows in insertion order, stops at the first rejected row, a raise propagates -/
def evalRowsFor (d : Decl) (j : Nat) : List (Coord × Val) → Option (Bool × Bool)
  | [] => some (true, false)
  | (_, x) :: rows => match (d.verdicts x).getD j .raises with
    | .raises => none
    | .reject => some (false, false)
    | .accept m => match evalRowsFor d j rows with
      | none => none
      | some (false, _) => some (false, false)
      | some (true, m') => some (true, m || m')

/-- `all(v(value) for v in validators)` on a dimensioned value: validator by validator, in order -/
def evalDimFrom (d : Decl) (rows : List (Coord × Val)) : Nat → Nat → Option (Bool × Bool)
  | 0, _ => some (true, false)
  | n+1, j => match evalRowsFor d j rows with
    | none => none
    | some (false, _) => some (false, false)
    | some (true, m) => match evalDimFrom d rows n (j + 1) with
      | none => none
      | some (false, _) => some (false, false)
      | some (true, m') => some (true, m || m')

def evalRows (d : Decl) (rows : List (Coord × Val)) : Option (Bool × Bool) :=
  evalDimFrom d rows d.nValidators 0

def validateDim (d : Decl) (m : M) : M × Res :=
  match evalRows d m.entries with
  | none => ({ m with outcome := .fail, marginal := false }, .raised)
  | some (true, marg) => ({ m with outcome := .pass, marginal := marg }, .ok)
  | some (false, _) => ({ m with outcome := .fail, marginal := false }, .ok)

/-- `value_dict[coordinates] = value` of an OrderedDict: an existing key keeps its position -/
def upsert (c : Coord) (v : Val) : List (Coord × Val) → List (Coord × Val)
  | [] => [(c, v)]
  | (c', v') :: rest => if c' = c then (c, v) :: rest else (c', v') :: upsert c v rest

structure St where
  decls : List Decl
  ms : List M

def getM (s : St) (i : Nat) : M := s.ms.getD i {}
def setM (s : St) (i : Nat) (m : M) : St := { s with ms := s.ms.set i m }

def step (s : St) : Op → St × Res
  | .setUndeclared => (s, .notAMeasurement)
  | .set i v =>
    match s.decls[i]? with
    | none => (s, .notAMeasurement)
    | some d =>
      if d.arity.isSome then (s, .invalidDimensions)     -- dimensioned measurement without indices
      else match d.transform v with
        | none => (s, .raised)                            -- transform raised: nothing stored
        | some x =>
          let r := validateScalar d { getM s i with stored := some x } x
          (setM s i r.1, r.2)
  | .setDim i c v =>
    match s.decls[i]? with
    | none => (s, .notAMeasurement)
    | some d =>
      match d.arity with
      | none => (s, .invalidDimensions)                   -- indexing a scalar measurement
      | some n =>
        if c.length ≠ n then (s, .invalidDimensions)      -- wrong number of coordinates
        else match d.transform v with
          | none => (s, .raised)
          | some x =>
            let m := getM s i
            (setM s i { m with entries := upsert c x m.entries, outcome := .partiallySet }, .ok)
  | .phaseEnd =>
    -- every PARTIALLY_SET measurement is validated now; the first raising one is reported
    let rec go (ds : List Decl) (ms : List M) : List M × Res :=
      match ds, ms with
      | d :: ds, m :: ms =>
        let r := if m.outcome == .partiallySet then validateDim d m else (m, Res.ok)
        let rest := go ds ms
        (r.1 :: rest.1, if r.2 == .raised then .raised else rest.2)
      | _, ms => (ms, .ok)
    let r := go s.decls s.ms
    ({ s with ms := r.1 }, r.2)

def run (s : St) : List Op → St × List Res
  | [] => (s, [])
  | o :: os =>
    let r := step s o
    let r2 := run r.1 os
    (r2.1, r.2 :: r2.2)

def init (decls : List Decl) : St := { decls := decls, ms := decls.map (fun _ => {}) }

/-! ### Spec -/

/-- last value assigned to scalar measurement i whose assignment went through (transform did not raise) -/
def Spec.lastSet (decls : List Decl) (i : Nat) : List Op → Option Val
  | [] => none
  | o :: os =>
    match Spec.lastSet decls i os with
    | some x => some x
    | none => match o with
      | .set j v => if j = i then (match decls[i]? with
          | some d => if d.arity.isNone then d.transform v else none
          | none => none) else none
      | _ => none

def isAccept : Verdict → Bool | .accept _ => true | _ => false

/-- the outcome a recorded scalar value must have -/
def Spec.scalarOutcome (d : Decl) (x : Val) : Outcome × Bool :=
  if (d.verdicts x).all isAccept then
    (.pass, (d.verdicts x).any (fun v => v == .accept true))
  else (.fail, false)

end OpenHTF.Meas
