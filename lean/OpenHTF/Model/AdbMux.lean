/-
C14 — models of the ADB stream multiplexer (openhtf/plugs/usb/adb_protocol.py): import-free, executable.

  Mux     data plane: `AdbConnection.read_for_stream` / `_handle_message_for_stream` /
          `AdbStreamTransport.enqueue_message` / `_handle_message` / `read`; any number of streams
  chunks  `AdbStream.write` splitting into maxdata-sized WRTE messages
  Wr      `AdbStreamTransport.write`: `_expecting_okay` + `_write_lock` (one WRTE in flight)
  Wake    `AdbStreamTransport._read_messages_until_true`: reader election + condition variable
          (after the `fix:` commit that notifies after the reader lock is released)
-/
namespace OpenHTF.AdbMux

/-! ### data plane -/

inductive Cmd | okay | wrte | clse
deriving DecidableEq, Repr

structure Msg where
  cmd : Cmd
  sid : Nat                 -- arg1: the host's local stream id the message is addressed to
  data : List Nat := []
deriving DecidableEq, Repr

structure Str where
  queue : List Msg := []       -- message_queue (oldest first)
  inHand : List Msg := []      -- the message read_for_stream returned and _handle_message has not processed yet (≤ 1)
  buffer : List Nat := []      -- _read_buffer, concatenated
  delivered : List Nat := []   -- bytes handed to the application so far
  acks : Nat := 0              -- OKAY messages sent to the device for this stream
deriving DecidableEq, Repr

structure S where
  consumed : List Msg := []    -- device messages taken off the transport, oldest first
  strs : Nat → Str := fun _ => {}

inductive Act
  /-- the thread reading the transport for stream r takes a message addressed to r: a WRTE is acknowledged
      and handled (payload appended to r's buffer) -/
  | readOwn (r : Nat) (m : Msg)
  /-- ... takes a message addressed to another stream d: a WRTE is acknowledged, the message goes to d's queue -/
  | readOther (r d : Nat) (m : Msg)
  /-- read_for_stream(r) returns the head of r's queue -/
  | dequeue (r : Nat)
  /-- `_handle_message`: the message in hand is processed (a WRTE's payload joins the buffer) -/
  | handleMsg (r : Nat)
  /-- AdbStream.read returns n bytes of the buffer (n = 0: everything) -/
  | appRead (r : Nat) (n : Nat)
deriving DecidableEq, Repr

def upd (f : Nat → Str) (i : Nat) (x : Str) : Nat → Str := fun j => if j = i then x else f j

def payload (m : Msg) : List Nat := if m.cmd = .wrte then m.data else []
def payloads (l : List Msg) : List Nat := l.flatMap payload
def isWrteFor (s : Nat) (m : Msg) : Bool := decide (m.cmd = .wrte) && decide (m.sid = s)
/-- what the device wrote to stream s, in order -/
def written (s : Nat) (consumed : List Msg) : List Nat := payloads (consumed.filter (fun m => decide (m.sid = s)))

def handle (st : Str) (m : Msg) : Str := { st with buffer := st.buffer ++ payload m, inHand := [] }
def ack (st : Str) (m : Msg) : Str := if m.cmd = .wrte then { st with acks := st.acks + 1 } else st

/-- `none`: not an action of the code at this point (the reader re-checks its own queue under the connection
    reader lock before it touches the transport, so it only takes a fresh message when its queue is empty; the
    stream's reader lock makes one thread at a time hold a message between taking and handling it) -/
def step (s : S) : Act → Option S
  | .readOwn r m =>
    if m.sid = r ∧ (s.strs r).queue = [] ∧ (s.strs r).inHand = [] then
      some { consumed := s.consumed ++ [m], strs := upd s.strs r { ack (s.strs r) m with inHand := [m] } }
    else none
  | .readOther r d m =>
    if m.sid = d ∧ d ≠ r then
      let sd := ack (s.strs d) m
      some { consumed := s.consumed ++ [m], strs := upd s.strs d { sd with queue := sd.queue ++ [m] } }
    else none
  | .dequeue r =>
    match (s.strs r).queue with
    | [] => none
    | m :: rest =>
      if (s.strs r).inHand = [] then some { s with strs := upd s.strs r { s.strs r with queue := rest, inHand := [m] } } else none
  | .handleMsg r =>
    match (s.strs r).inHand with
    | [m] => some { s with strs := upd s.strs r (handle (s.strs r) m) }
    | _ => none
  | .appRead r n =>
    let st := s.strs r
    let k := if n = 0 then st.buffer.length else n
    if st.buffer = [] ∨ st.buffer.length < n then none
    else some { s with strs := upd s.strs r { st with delivered := st.delivered ++ st.buffer.take k, buffer := st.buffer.drop k } }

def run (s : S) : List Act → Option S
  | [] => some s
  | a :: as => (step s a).bind (run · as)

/-! ### chunking of writes -/

def chunks (maxdata : Nat) (data : List Nat) : List (List Nat) :=
  if h : data = [] ∨ maxdata = 0 then []
  else data.take maxdata :: chunks maxdata (data.drop maxdata)
termination_by data.length
decreasing_by
  simp only [List.length_drop]
  have : data.length ≠ 0 := by intro h0; exact h (Or.inl (List.length_eq_zero_iff.mp h0))
  omega

/-! ### one WRTE in flight -/

structure WrS where
  expecting : Bool := false      -- _expecting_okay (the OPEN's OKAY has been seen)
  lockHeld : Option Nat := none  -- _write_lock
  unacked : Nat := 0             -- WRTEs the device has received and not yet seen acknowledged... on the host side: sent, OKAY not handled
  failed : Bool := false         -- a write() gave up (timeout) with its WRTE unacknowledged: "stream in unknown state"
  pcs : Nat → Nat := fun _ => 0  -- writer w: 0 idle, 1 passed the checks, 2 holds the lock, 3 WRTE sent

inductive WrAct
  | check (w : Nat) | lock (w : Nat) | send (w : Nat) | okay | done (w : Nat) | giveUp (w : Nat)
deriving DecidableEq, Repr

def updN (f : Nat → Nat) (i x : Nat) : Nat → Nat := fun j => if j = i then x else f j

def wrStep (s : WrS) : WrAct → Option WrS
  | .check w => if s.pcs w = 0 ∧ s.expecting = false then some { s with pcs := updN s.pcs w 1 } else none
  | .lock w => if s.pcs w = 1 ∧ s.lockHeld = none then some { s with lockHeld := some w, pcs := updN s.pcs w 2 } else none
  | .send w => if s.pcs w = 2 then some { s with expecting := true, unacked := s.unacked + 1, pcs := updN s.pcs w 3 } else none
  | .okay => if 0 < s.unacked then some { s with expecting := false, unacked := s.unacked - 1 } else none
  | .done w => if s.pcs w = 3 ∧ s.expecting = false then some { s with lockHeld := none, pcs := updN s.pcs w 0 } else none
  | .giveUp w => if s.pcs w = 3 ∧ s.expecting = true then some { s with lockHeld := none, failed := true, pcs := updN s.pcs w 0 } else none

def wrRun (s : WrS) : List WrAct → Option WrS
  | [] => some s
  | a :: as => (wrStep s a).bind (wrRun · as)

/-- the variant that starts expecting the OKAY only AFTER the WRTE went out (`_send_command` first, flag second): a
    concurrent reader of the stream may handle the device's OKAY in between and finds it unexpected -/
structure WrLate where
  expecting : Bool := false
  unacked : Nat := 0
  sentNotMarked : Bool := false
  unexpectedOkay : Bool := false   -- `_handle_message` raised 'received unexpected OKAY'

inductive WrLateAct | send | mark | okay
deriving DecidableEq, Repr

def wrLateStep (s : WrLate) : WrLateAct → Option WrLate
  | .send => if s.sentNotMarked = false ∧ s.expecting = false then some { s with unacked := s.unacked + 1, sentNotMarked := true } else none
  | .mark => if s.sentNotMarked then some { s with expecting := true, sentNotMarked := false } else none
  | .okay => if 0 < s.unacked then
      (if s.expecting then some { s with expecting := false, unacked := s.unacked - 1 }
       else some { s with unexpectedOkay := true, unacked := s.unacked - 1 })
    else none

def wrLateRun : WrLate → List WrLateAct → Option WrLate
  | s, [] => some s
  | s, a :: as => (wrLateStep s a).bind (wrLateRun · as)

/-! ### reader election and wake-up (`_read_messages_until_true`) -/

structure WkS where
  readerHeld : Option Nat := none   -- `_reader_lock`
  condHeld : Option Nat := none     -- the lock of `_message_received`
  waiters : List Nat := []          -- threads inside `wait()` that have not been notified
  pending : List Nat := []          -- threads that released the reader lock and have not yet notified
  pcs : Nat → Nat := fun _ => 0

/- pcs: 0 outside (predicate false: will try again)   1 holds the condition lock
        2 reader (holds reader lock, condition lock released)   4 reader lock released, notification due
        5 holds the condition lock for the notification
        10 try-acquire of the reader lock failed (still holds the condition lock)
        6 waiting   7 notified / timed out, re-acquiring the condition lock   8 woke (holds the condition lock)
        9 returned (predicate true) -/
inductive WkAct
  | condAcq (t : Nat) | becomeReader (t : Nat) | tryFail (t : Nat) | wait (t : Nat) | readerDone (t : Nat)
  | notifyAcq (t : Nat) | notify (t : Nat) | timeout (t : Nat) | reacquire (t : Nat) | wakeRelease (t : Nat)
  | leave (t : Nat)
deriving DecidableEq, Repr

def wkStep (s : WkS) : WkAct → Option WkS
  | .condAcq t => if s.pcs t = 0 ∧ s.condHeld = none then some { s with condHeld := some t, pcs := updN s.pcs t 1 } else none
  | .becomeReader t =>
    if s.pcs t = 1 ∧ s.readerHeld = none then some { s with readerHeld := some t, condHeld := none, pcs := updN s.pcs t 2 } else none
  | .tryFail t =>
    -- the non-blocking acquire of the reader lock failed (pc 10: still holding the condition lock)
    if s.pcs t = 1 ∧ s.readerHeld ≠ none then some { s with pcs := updN s.pcs t 10 } else none
  | .wait t =>
    -- `wait()` releases the condition lock and joins the waiters atomically
    if s.pcs t = 10 then some { s with condHeld := none, waiters := t :: s.waiters, pcs := updN s.pcs t 6 } else none
  | .readerDone t =>
    -- predicate true, or a message was read and handled, or the read raised: the `finally` releases the reader lock
    if s.pcs t = 2 then some { s with readerHeld := none, pending := t :: s.pending, pcs := updN s.pcs t 4 } else none
  | .notifyAcq t => if s.pcs t = 4 ∧ s.condHeld = none then some { s with condHeld := some t, pcs := updN s.pcs t 5 } else none
  | .notify t =>
    if s.pcs t = 5 then
      some { s with condHeld := none, pending := s.pending.filter (· ≠ t), waiters := [],
                    pcs := fun j => if j = t then 0 else if j ∈ s.waiters then 7 else s.pcs j }
    else none
  | .timeout t => if s.pcs t = 6 then some { s with waiters := s.waiters.filter (· ≠ t), pcs := updN s.pcs t 7 } else none
  | .reacquire t => if s.pcs t = 7 ∧ s.condHeld = none then some { s with condHeld := some t, pcs := updN s.pcs t 8 } else none
  | .wakeRelease t => if s.pcs t = 8 then some { s with condHeld := none, pcs := updN s.pcs t 0 } else none
  | .leave t => if s.pcs t = 0 then some { s with pcs := updN s.pcs t 9 } else none

def wkRun (s : WkS) : List WkAct → Option WkS
  | [] => some s
  | a :: as => (wkStep s a).bind (wkRun · as)

end OpenHTF.AdbMux
