/-
C11 — a heap model of copy-on-derive (openhtf/util/data.py `attr_copy`, `PhaseDescriptor.wrap_or_copy /
with_args / with_plugs / load_code_info`, `PhaseNode.copy`, `_recursive_flatten`) and of the per-run copies a
test execution makes (`PhaseState.from_descriptor`, `TestState.__init__`). Objects have identities
(addresses); allocation appends to the heap. Import-free, executable.
-/
namespace OpenHTF.Heap

inductive Val
  | atom (n : Nat)
  | ref (a : Nat)
deriving DecidableEq, Repr

structure Obj where
  attrs : Bool            -- an attrs-defined object: attr_copy recurses into it; anything else gets copy.copy
  immutable : Bool := false  -- tuples, strings, functions, classes: copy.copy returns the object itself
  fields : List Val
deriving DecidableEq, Repr

structure Heap where
  objs : List Obj := []
deriving DecidableEq, Repr

def Heap.size (h : Heap) : Nat := h.objs.length
def Heap.get (h : Heap) (a : Nat) : Option Obj := h.objs[a]?
def Heap.alloc (h : Heap) (o : Obj) : Heap × Nat := (⟨h.objs ++ [o]⟩, h.objs.length)

/-- `copy.copy(value)`: a new container with the same elements (shared), or the object itself if immutable -/
def shallowCopy (h : Heap) (a : Nat) : Heap × Nat :=
  match h.get a with
  | none => (h, a)
  | some o => if o.immutable then (h, a) else h.alloc o

mutual
/-- `attr_copy(obj)` -/
def attrCopy : Nat → Heap → Nat → Heap × Nat
  | 0, h, a => (h, a)
  | fuel + 1, h, a =>
    match h.get a with
    | none => (h, a)
    | some o =>
      let r := copyFields fuel h o.fields
      r.1.alloc { o with fields := r.2 }
/-- the per-field rule of `attr_copy`: attrs values recursively, everything else `copy.copy` -/
def copyFields : Nat → Heap → List Val → Heap × List Val
  | _, h, [] => (h, [])
  | fuel, h, .atom n :: vs =>
    let r := copyFields fuel h vs
    (r.1, .atom n :: r.2)
  | fuel, h, .ref b :: vs =>
    let c : Heap × Nat :=
      match h.get b with
      | some ob => if ob.attrs then attrCopy fuel h b else shallowCopy h b
      | none => (h, b)
    let r := copyFields fuel c.1 vs
    (r.1, .ref c.2 :: r.2)
end

/-- a write through a reference -/
def Heap.setField (h : Heap) (a i : Nat) (v : Val) : Heap :=
  match h.get a with
  | none => h
  | some o => ⟨h.objs.set a { o with fields := o.fields.set i v }⟩

/-- h' extends h: every old address still holds the same object -/
def Extends (h h' : Heap) : Prop := h.objs <+: h'.objs

/-! ### the derive operations on a phase descriptor

A phase descriptor at address p is an attrs object with the fields
  0 func (immutable)  1 options (attrs)  2 plugs (list of attrs PhasePlug)  3 measurements (list of attrs
  Measurement)  4 diagnosers (list)  5 extra_kwargs (dict)  6 code_info (attrs)                              -/

inductive Derive
  | copy            -- PhaseNode.copy / wrap_or_copy / PhaseOptions.__call__ / measures / diagnose / plug / load_code_info
  | withArgs        -- with_args: copy, new options, measurements rebuilt with Measurement.with_args
  | withPlugsMatch  -- with_plugs substituting the first plug
  | withPlugsNone   -- with_plugs with only unknown names (after the fix: a copy)
deriving DecidableEq, Repr

/-- rebuild a list object with fresh copies of its (attrs) elements -/
def copyElems (fuel : Nat) (h : Heap) (l : Nat) : Heap × Nat :=
  match h.get l with
  | none => (h, l)
  | some o =>
    let r := copyFields fuel h o.fields     -- elements are attrs objects: attr_copy each
    r.1.alloc { o with fields := r.2 }

def derive (fuel : Nat) (h : Heap) (p : Nat) : Derive → Heap × Nat
  | .copy => attrCopy (fuel + 1) h p
  | .withPlugsNone => attrCopy (fuel + 1) h p
  | .withArgs =>
    let r := attrCopy (fuel + 1) h p
    match r.1.get r.2 with
    | none => r
    | some o =>
      -- new_info.measurements = [m.with_args(...) for m in self.measurements]: a new list of new measurements
      match (o.fields[3]? : Option Val) with
      | some (Val.ref ml) =>
        let m := copyElems fuel r.1 ml
        (m.1.setField r.2 3 (Val.ref m.2), r.2)
      | _ => r
  | .withPlugsMatch =>
    let r := attrCopy (fuel + 1) h p
    match r.1.get r.2 with
    | none => r
    | some o =>
      match (o.fields[2]? : Option Val), (o.fields[3]? : Option Val) with
      | some (Val.ref pl), some (Val.ref ml) =>
        let p2 := copyElems fuel r.1 pl
        let m := copyElems fuel p2.1 ml
        ((m.1.setField r.2 2 (Val.ref p2.2)).setField r.2 3 (Val.ref m.2), r.2)
      | _, _ => r

end OpenHTF.Heap
