/-
C16 — model of `openhtf/plugs/usb/fastboot_protocol.py` (import-free, executable).

Packets and strings are lists of character codes. The device is a script of responses; a read past
the end of the script is the fake transport's timeout (`exhausted`).
-/
namespace OpenHTF.Fastboot

inductive Hdr | info | okay | data | fail | other
deriving DecidableEq, Repr

structure Resp where
  hdr : Hdr
  text : List Nat          -- the bytes after the 4-byte header
deriving DecidableEq, Repr

inductive Err
  | stateMismatch | remoteFailure (text : List Nat) | invalidResponse | transfer | exhausted | badSize
deriving DecidableEq, Repr

/-- `_accept_responses(expected_header, info_cb)` as coded: loop reading one response at a time.
    Returns the callback log, the result, and the unread rest of the script. -/
def accept (expected : Hdr) : List Resp → List (Hdr × List Nat) × Except Err (List Nat) × List Resp
  | [] => ([], .error .exhausted, [])
  | r :: rs =>
    match r.hdr with
    | .info =>
      let x := accept expected rs
      ((.info, r.text) :: x.1, x.2.1, x.2.2)
    | .okay =>
      if expected ≠ .okay then ([], .error .stateMismatch, rs)
      else ([(.okay, r.text)], .ok r.text, rs)
    | .data =>
      if expected ≠ .data then ([], .error .stateMismatch, rs)
      else ([], .ok r.text, rs)
    | .fail => ([(.fail, r.text)], .error (.remoteFailure r.text), rs)
    | .other => ([], .error .invalidResponse, rs)

/-- `_write` for a source holding exactly `length` bytes: `while length: tmp = read(chunk); ...`.
    As coded, with the remaining-length counter; `fuel` bounds the loop (the real loop does not
    terminate when the source is shorter than `length`; that input is outside the property). -/
def writeLoop (chunk : Nat) : Nat → List Nat → Int → List (List Nat)
  | 0, _, _ => []
  | fuel+1, data, length =>
    if length = 0 then []
    else
      let tmp := data.take chunk
      tmp :: writeLoop chunk fuel (data.drop chunk) (length - tmp.length)

def write (chunk : Nat) (data : List Nat) : List (List Nat) :=
  writeLoop chunk (data.length + 1) data data.length

/-- cumulative progress values reported after each chunk -/
def progress : Nat → List (List Nat) → List Nat
  | _, [] => []
  | cur, c :: cs => (cur + c.length) :: progress (cur + c.length) cs

def colon : Nat := 58

/-- `'%s:%s' % (command, arg)` if an argument is given -/
def cmdString (cmd : List Nat) : Option (List Nat) → List Nat
  | none => cmd
  | some a => cmd ++ [colon] ++ a

/-- `send_command`: the command string written through `_write` -/
def sendCommand (chunk : Nat) (cmd : List Nat) (arg : Option (List Nat)) : List (List Nat) :=
  write chunk (cmdString cmd arg)

structure Out where
  packets : List (List Nat)
  cb : List (Hdr × List Nat)
  result : Except Err (List Nat)
  progress : List Nat := []
deriving Repr

/-- `FastbootCommands._simple_command` -/
def simpleCommand (chunk : Nat) (cmd : List Nat) (arg : Option (List Nat)) (resps : List Resp) : Out :=
  let x := accept .okay resps
  { packets := sendCommand chunk cmd arg, cb := x.1, result := x.2.1 }

def hexDigit (d : Nat) : Nat := if d < 10 then 48 + d else 87 + d     -- '0'..'9','a'..'f'
/-- `'%08x' % n` (for n < 2^32; longer otherwise, as in Python) -/
def hex8 (n : Nat) : List Nat :=
  [n / 268435456 % 16, n / 16777216 % 16, n / 1048576 % 16, n / 65536 % 16,
   n / 4096 % 16, n / 256 % 16, n / 16 % 16, n % 16].map hexDigit
def unhexDigit (c : Nat) : Option Nat :=
  if 48 ≤ c ∧ c ≤ 57 then some (c - 48)
  else if 97 ≤ c ∧ c ≤ 102 then some (c - 87)
  else if 65 ≤ c ∧ c ≤ 70 then some (c - 55)
  else none
/-- `struct.unpack('>I', binascii.unhexlify(text[:8]))` -/
def unhex8 (t : List Nat) : Option Nat :=
  match (t.take 8).map unhexDigit with
  | [some a, some b, some c, some d, some e, some f, some g, some h] =>
    some (a * 268435456 + b * 16777216 + c * 1048576 + d * 65536 + e * 4096 + f * 256 + g * 16 + h)
  | _ => none

def downloadWord : List Nat := [100, 111, 119, 110, 108, 111, 97, 100]   -- "download"

/-- `FastbootCommands.download` with a file-like source of known length -/
def download (chunk : Nat) (image : List Nat) (resps : List Resp) : Out :=
  let cmdPk := sendCommand chunk downloadWord (some (hex8 image.length))
  let x := accept .data resps
  match x.2.1 with
  | .error e => { packets := cmdPk, cb := x.1, result := .error e }
  | .ok sizeText =>
    match unhex8 sizeText with
    | none => { packets := cmdPk, cb := x.1, result := .error .badSize }
    | some sz =>
      if sz ≠ image.length then { packets := cmdPk, cb := x.1, result := .error .transfer }
      else
        let chunks := write chunk image
        let y := accept .okay x.2.2
        { packets := cmdPk ++ chunks, cb := x.1 ++ y.1, result := y.2.1, progress := progress 0 chunks }

/-! ### Spec: the response state machine, stated declaratively -/

/-- INFO* followed by one terminating response decides the outcome. -/
def Spec.accept (expected : Hdr) (resps : List Resp) : List (Hdr × List Nat) × Except Err (List Nat) :=
  let infos := resps.takeWhile (·.hdr == .info)
  let cbInfo := infos.map (fun r => (Hdr.info, r.text))
  match resps.dropWhile (·.hdr == .info) with
  | [] => (cbInfo, .error .exhausted)
  | r :: _ =>
    match r.hdr with
    | .fail => (cbInfo ++ [(.fail, r.text)], .error (.remoteFailure r.text))
    | .other => (cbInfo, .error .invalidResponse)
    | .info => (cbInfo, .error .exhausted)     -- unreachable
    | _ => if r.hdr = expected then (cbInfo ++ (if r.hdr = .okay then [(.okay, r.text)] else []), .ok r.text)
           else (cbInfo, .error .stateMismatch)

/-- the image cut into consecutive pieces of `c` bytes (last one shorter) -/
def Spec.chunks (c : Nat) (img : List Nat) : List (List Nat) :=
  if h : c = 0 ∨ img = [] then [] else
    img.take c :: Spec.chunks c (img.drop c)
termination_by img.length
decreasing_by
  simp only [List.length_drop]
  have : img.length ≠ 0 := by intro h0; exact h (Or.inr (List.length_eq_zero_iff.mp h0))
  omega

end OpenHTF.Fastboot
