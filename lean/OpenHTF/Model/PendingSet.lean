/-
C10 / C18 — the pending-update set of `PhaseState` (`_update_measurements`): the phase thread marks a measurement
dirty in `_notify` after storing its value; a watcher thread rendering the live view (`as_base_types`) first swaps the
set for a fresh one and then refreshes the cached rendering of every measurement in the set it took. Steps are source
lines. `ClearVariant` is the same protocol with "iterate a snapshot, then clear()" instead of the swap.
Import-free, executable.
-/
namespace OpenHTF.PendingSet

inductive WPc | idle | aliased | rendering
deriving DecidableEq, Repr

structure S where
  actual : Nat → Nat := fun _ => 0      -- value stored in the measurement object
  cached : Nat → Nat := fun _ => 0      -- value shown by the cached base-type rendering
  pend : List Nat := []                 -- the set currently bound to `self._update_measurements`
  wlist : List Nat := []                -- the set the watcher took, what is left to refresh
  wpc : WPc := .idle
  ppc : Option Nat := none              -- the phase thread stored a value for this measurement and has not yet marked it

def updN (f : Nat → Nat) (i x : Nat) : Nat → Nat := fun j => if j = i then x else f j

inductive Act
  | store (m v : Nat)     -- `measured_value.set(v)`
  | mark                  -- `self._update_measurements.add(name)` in `_notify`
  | wStart                -- `cur = self._update_measurements`   (an alias: later additions are still seen)
  | wSwap                 -- `self._update_measurements = set()`
  | wRender               -- one iteration of the loop: `self.measurements[m].as_base_types()`
  | wDone
deriving DecidableEq, Repr

def step (s : S) : Act → Option S
  | .store m v => if s.ppc = none then some { s with actual := updN s.actual m v, ppc := some m } else none
  | .mark => match s.ppc with
    | some m => some { s with pend := m :: s.pend, ppc := none }
    | none => none
  | .wStart => if s.wpc = .idle then some { s with wpc := .aliased } else none
  | .wSwap => if s.wpc = .aliased then some { s with wlist := s.pend, pend := [], wpc := .rendering } else none
  | .wRender => if s.wpc = .rendering then
      (match s.wlist with
       | m :: rest => some { s with cached := updN s.cached m (s.actual m), wlist := rest }
       | [] => none)
    else none
  | .wDone => if s.wpc = .rendering ∧ s.wlist = [] then some { s with wpc := .idle } else none

def run : S → List Act → Option S
  | s, [] => some s
  | s, a :: as => match step s a with
    | none => none
    | some s' => run s' as

/-! the variant: `for m in sorted(self._update_measurements): …` (a snapshot) followed by `.clear()` -/
inductive CAct
  | store (m v : Nat) | mark | wSnap | wRender | wClear
deriving DecidableEq, Repr

def cstep (s : S) : CAct → Option S
  | .store m v => if s.ppc = none then some { s with actual := updN s.actual m v, ppc := some m } else none
  | .mark => match s.ppc with
    | some m => some { s with pend := m :: s.pend, ppc := none }
    | none => none
  | .wSnap => if s.wpc = .idle then some { s with wlist := s.pend, wpc := .rendering } else none
  | .wRender => if s.wpc = .rendering then
      (match s.wlist with
       | m :: rest => some { s with cached := updN s.cached m (s.actual m), wlist := rest }
       | [] => none)
    else none
  | .wClear => if s.wpc = .rendering ∧ s.wlist = [] then some { s with pend := [], wpc := .idle } else none

def crun : S → List CAct → Option S
  | s, [] => some s
  | s, a :: as => match cstep s a with
    | none => none
    | some s' => crun s' as

end OpenHTF.PendingSet
