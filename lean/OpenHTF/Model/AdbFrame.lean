import OpenHTF.Gen.Constants
/-
C13 — model of `openhtf/plugs/usb/adb_message.py` (import-free, executable).
Words are naturals, byte strings are lists of naturals.
-/
namespace OpenHTF.AdbFrame

/-- `struct.pack('<I', w)` -/
def le32 (w : Nat) : List Nat := [w % 256, w / 256 % 256, w / 65536 % 256, w / 16777216 % 256]
def unle32 : List Nat → Option Nat
  | [a, b, c, d] => some (a + 256 * b + 65536 * c + 16777216 * d)
  | _ => none

/-- `sum(ord(c) << (i * 8) for i, c in enumerate(cmd))` -/
def wire (name : String) : Nat :=
  (name.toList.zipIdx.map (fun (c, i) => c.toNat * 2 ^ (8 * i))).sum

/-- the commands `make_wire_commands` is called with (regenerated from the source) -/
def cmdNames : List String := Gen.c13_wireCommands
def cmds : List Nat := cmdNames.map wire

structure Msg where
  cmd : Nat
  arg0 : Nat
  arg1 : Nat
  data : List Nat
deriving DecidableEq, Repr

/-- `data_crc32`: the byte sum, masked to 32 bits -/
def csum (d : List Nat) : Nat := d.sum % 4294967296
def magic (cmd : Nat) : Nat := cmd ^^^ 0xFFFFFFFF

/-- `AdbMessage.header` -/
def header (m : Msg) : List Nat :=
  le32 m.cmd ++ le32 m.arg0 ++ le32 m.arg1 ++ le32 m.data.length ++ le32 (csum m.data) ++ le32 (magic m.cmd)

inductive Err | protocol | integrity | readFailed
deriving DecidableEq, Repr

structure Raw where
  cmd : Nat
  arg0 : Nat
  arg1 : Nat
  len : Nat
  sum : Nat
  magic : Nat
deriving DecidableEq, Repr

/-- `struct.unpack('<6I', raw_header)`; `none` = struct.error (wrong size) -/
def parseHeader (h : List Nat) : Option Raw :=
  match h with
  | [a0,a1,a2,a3,b0,b1,b2,b3,c0,c1,c2,c3,d0,d1,d2,d3,e0,e1,e2,e3,f0,f1,f2,f3] =>
    match unle32 [a0,a1,a2,a3], unle32 [b0,b1,b2,b3], unle32 [c0,c1,c2,c3], unle32 [d0,d1,d2,d3],
          unle32 [e0,e1,e2,e3], unle32 [f0,f1,f2,f3] with
    | some a, some b, some c, some d, some e, some f => some ⟨a, b, c, d, e, f⟩
    | _, _, _, _, _, _ => none
  | _ => none

/-- `RawAdbMessage.to_adb_message(data)`: the AdbMessage constructor rejects unknown commands first -/
def toAdbMessage (r : Raw) (data : List Nat) : Except Err Msg :=
  if r.cmd ∉ cmds then .error .protocol
  else if data.length ≠ r.len ∨ csum data ≠ r.sum then .error .integrity
  else .ok ⟨r.cmd, r.arg0, r.arg1, data⟩

/-- `read_message` over a scripted transport: each `transport.read` returns the next scripted
    chunk; an exhausted script is the transport's read failure (timeout). Returns the unread rest. -/
def readMessage : List (List Nat) → Except Err Msg × List (List Nat)
  | [] => (.error .readFailed, [])
  | h :: rest =>
    if h = [] then (.error .protocol, rest)            -- 'Adb connection lost'
    else match parseHeader h with
      | none => (.error .protocol, rest)               -- struct.error
      | some r =>
        if r.len > 0 then
          match rest with
          | [] => (.error .readFailed, [])
          | d :: rest' => (toAdbMessage r d, rest')
        else (toAdbMessage r [], rest)

/-- `write_message`: two transport writes, always both, whether or not the timeout expired in between
    (the flag only selects which timeout value the second write is given) -/
def writeMessage (m : Msg) (_expiredBetween : Bool) : List (List Nat) := [header m, m.data]

/-! ### writers sharing one transport (`_writer_lock`) as a transition system -/

structure WS where
  holder : Option Nat := none
  pc : Nat → Nat := fun _ => 0       -- 0 idle, 1 holds lock, 2 header written, 3 data written
  log : List (Nat × Bool) := []      -- (thread, isHeader) per transport write

inductive WAct | acquire (i : Nat) | writeHdr (i : Nat) | writeData (i : Nat) | release (i : Nat)

def updPc (pc : Nat → Nat) (i v : Nat) : Nat → Nat := fun j => if j = i then v else pc j

def wstep (s : WS) : WAct → WS
  | .acquire i => if s.holder = none ∧ s.pc i = 0 then { s with holder := some i, pc := updPc s.pc i 1 } else s
  | .writeHdr i => if s.pc i = 1 then { s with pc := updPc s.pc i 2, log := s.log ++ [(i, true)] } else s
  | .writeData i => if s.pc i = 2 then { s with pc := updPc s.pc i 3, log := s.log ++ [(i, false)] } else s
  | .release i => if s.pc i = 3 then { s with holder := none, pc := updPc s.pc i 0 } else s

/-- log parser: `some none` = a sequence of complete header·payload pairs of one thread each,
    `some (some i)` = the same followed by a dangling header of thread i, `none` = interleaved -/
def framed : List (Nat × Bool) → Option (Option Nat)
  | [] => some none
  | [(i, true)] => some (some i)
  | (i, true) :: (j, false) :: rest => if i = j then framed rest else none
  | _ => none

/-! ### readers sharing one transport (`_reader_lock`) as a transition system

`read_message`: under the lock one transport read for the header; if the header parses and announces a
payload, one more read for the payload. Either read may raise (time-out, connection lost) and a malformed
header raises before the payload read: the lock is released at any of these points. -/

structure RS where
  holder : Option Nat := none
  pc : Nat → Nat := fun _ => 0       -- 0 idle, 1 holds lock, 2 header read and a payload is due, 3 done
  log : List (Nat × Bool) := []      -- (thread, isHeader) per transport read

inductive RAct
  | acquire (i : Nat)
  | readHdr (i : Nat) (payloadDue : Bool)    -- `payloadDue = false`: data_length = 0, or the header is rejected
  | readData (i : Nat)
  | release (i : Nat)                        -- normal return or any exception inside the `with` block

def rstep (s : RS) : RAct → RS
  | .acquire i => if s.holder = none ∧ s.pc i = 0 then { s with holder := some i, pc := updPc s.pc i 1 } else s
  | .readHdr i due => if s.pc i = 1 then { s with pc := updPc s.pc i (if due then 2 else 3), log := s.log ++ [(i, true)] } else s
  | .readData i => if s.pc i = 2 then { s with pc := updPc s.pc i 3, log := s.log ++ [(i, false)] } else s
  | .release i => if s.pc i ≠ 0 then { s with holder := none, pc := updPc s.pc i 0 } else s

/-- read-log acceptor, one step: the state is `none` after a violation, else `some h` where `h` is the
    thread whose header read was the previous entry (if the previous entry was a header read) -/
def racc : Option (Option Nat) → Nat × Bool → Option (Option Nat)
  | none, _ => none
  | some _, (i, true) => some (some i)
  | some (some j), (i, false) => if i = j then some none else none
  | some none, (_, false) => none

/-- every payload read directly follows the header read of the same thread -/
def rframed (l : List (Nat × Bool)) : Bool := (l.foldl racc (some none)).isSome

end OpenHTF.AdbFrame
