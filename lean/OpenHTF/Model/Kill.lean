import OpenHTF.Gen.Constants
/-
C12 — models of `util/threads.py` `KillableThread.run / kill / async_raise` (an interleaving transition
system: one target thread, any number of concurrent `kill()` callers) and of
`PhaseExecutorThread.join_or_die` (the deadline-polling join) over virtual time. Import-free, executable.

    run:   with self._running_lock:           tAcq            (pc 1 -> 2)
             if self._killed.is_set(): raise  tCheck          (pc 2 -> 3 body | 4 handlers)
             self._thread_proc()              body steps      (pc 3)
                                              tBodyEnd        (pc 3 -> 4, releases the lock)
           _thread_exception / _thread_finished               (pc 4: handlers)
                                              tFinish         (pc 4 -> 5, not alive any more)
    kill:  self._killed.set()                 kSet            (k 0 -> 1)
           if not self.is_alive(): return     kAlive          (k 1 -> 2 | done)
           if not _is_thread_proc_running()   kTry            (k 2 -> 3 | done)   reads lock.locked() (after the fix)
           async_raise: if not is_alive: ret  kRaiseCheck     (k 3 -> 4 | done)
                        SetAsyncExc           kRaise          (k 4 -> done; exception becomes pending)
    a pending asynchronous exception is raised in the target at its next step (`tDeliver`).
-/
namespace OpenHTF.Kill

structure T where
  pc : Nat := 0                 -- 0 created, 1 started, 2 holds the running lock, 3 body, 4 handlers, 5 finished
  killed : Bool := false        -- the `_killed` event
  pending : Bool := false       -- an asynchronous ThreadTerminationError is pending
  bodyRan : Bool := false       -- ghost: `_thread_proc` was entered
  raisedInBody : Bool := false      -- ghost: the async exception surfaced inside `_thread_proc`
  raisedInHandlers : Bool := false  -- ghost: ... inside the exception/finish handlers
  killedBeforeStart : Bool := false -- ghost: `_killed` was already set when the thread was started
  raises : Nat := 0             -- ghost: number of SetAsyncExc calls that took effect
deriving DecidableEq, Repr

structure K where
  pc : Nat := 0                 -- 0 not called, 1 flag set, 2 alive, 3 body seen running, 4 about to raise, 9 returned
  afterBody : Bool := false     -- ghost: this kill() was requested when the body had already returned (or never ran)
deriving DecidableEq, Repr

structure S where
  t : T := {}
  ks : Nat → K := fun _ => {}

inductive Act
  | start | tAcq | tCheck | tBody | tBodyEnd | tHandler | tFinish | tDeliver
  | kSet (k : Nat) | kAlive (k : Nat) | kTry (k : Nat) | kRaiseCheck (k : Nat) | kRaise (k : Nat)
deriving DecidableEq, Repr

def updK (ks : Nat → K) (i : Nat) (k : K) : Nat → K := fun j => if j = i then k else ks j

def alive (t : T) : Bool := decide (1 ≤ t.pc) && decide (t.pc < 5)

/-- the running lock is held by the target exactly while pc ∈ {2, 3}; a killer only reads it (`locked()`), see
    `ProbeS` below for the try-acquire probe the code used before -/
def lockHeld (t : T) : Bool := decide (t.pc = 2) || decide (t.pc = 3)

def step (s : S) : Act → Option S
  | .start => if s.t.pc = 0 then some { s with t := { s.t with pc := 1, killedBeforeStart := s.t.killed } } else none
  | .tAcq => if s.t.pc = 1 ∧ s.t.pending = false then some { s with t := { s.t with pc := 2 } } else none
  | .tCheck =>
    if s.t.pc = 2 ∧ s.t.pending = false then
      (if s.t.killed then some { s with t := { s.t with pc := 4 } }
       else some { s with t := { s.t with pc := 3, bodyRan := true } })
    else none
  | .tBody => if s.t.pc = 3 ∧ s.t.pending = false then some s else none
  | .tBodyEnd => if s.t.pc = 3 ∧ s.t.pending = false then some { s with t := { s.t with pc := 4 } } else none
  | .tHandler => if s.t.pc = 4 ∧ s.t.pending = false then some s else none
  | .tFinish => if s.t.pc = 4 ∧ s.t.pending = false then some { s with t := { s.t with pc := 5 } } else none
  | .tDeliver =>
    -- the pending exception surfaces at the target's next step, wherever it is
    if s.t.pending = true ∧ 1 ≤ s.t.pc ∧ s.t.pc < 5 then
      (if s.t.pc = 3 then some { s with t := { s.t with pending := false, pc := 4, raisedInBody := true } }
       else if s.t.pc = 4 then some { s with t := { s.t with pending := false, raisedInHandlers := true } }
       else -- before the body (pc 1 or 2): the thread unwinds to its handlers without entering the body
         some { s with t := { s.t with pending := false, pc := 4 } })
    else none
  | .kSet k =>
    if (s.ks k).pc = 0 then
      some { t := { s.t with killed := true },
             ks := updK s.ks k { pc := 1, afterBody := decide (4 ≤ s.t.pc) } }
    else none
  | .kAlive k =>
    if (s.ks k).pc = 1 then some { s with ks := updK s.ks k { s.ks k with pc := if alive s.t then 2 else 9 } } else none
  | .kTry k =>
    if (s.ks k).pc = 2 then some { s with ks := updK s.ks k { s.ks k with pc := if lockHeld s.t then 3 else 9 } } else none
  | .kRaiseCheck k =>
    if (s.ks k).pc = 3 then some { s with ks := updK s.ks k { s.ks k with pc := if alive s.t then 4 else 9 } } else none
  | .kRaise k =>
    if (s.ks k).pc = 4 then
      some { t := if alive s.t then { s.t with pending := true, raises := s.t.raises + 1 } else s.t,
             ks := updK s.ks k { s.ks k with pc := 9 } }
    else none

def run (s : S) : List Act → Option S
  | [] => some s
  | a :: as => (step s a).bind (run · as)

def replay (s : S) (k : Nat) : List Act → Except Nat S
  | [] => .ok s
  | a :: as => match step s a with
    | some s' => replay s' (k + 1) as
    | none => .error k

/-! ### `join_or_die` over virtual time

Virtual time advances only while every thread is blocked (the semantics the property is quantified
over): the body of the phase occupies `[0, d)` (`d = none`: it never returns) and, once it has returned,
the phase thread stores its outcome and exits within the same instant. The executor polls: while
`now < deadline`, join for at most `interval` and at most until the deadline. All quantities are in one integer unit. -/

inductive JoinResult
  | own          -- the phase thread's recorded outcome is returned
  | timeout      -- PhaseExecutionOutcome(None); the thread is killed / abandoned
deriving DecidableEq, Repr

/-- loop left: is there a recorded outcome? (checked BEFORE is_alive) -/
def joinExit (now : Nat) (d : Option Nat) (tie : Bool) : JoinResult × Nat :=
  match d with
  | some dv => if dv < now ∨ (dv = now ∧ tie = true) then (.own, now) else (.timeout, now)
  | none => (.timeout, now)

/-- `h`: how long the phase thread stays alive after its body returned and its outcome was stored (exception /
    finish handlers, logging, profiler); `tie`: at an instant at which the join times out and the thread event
    happens simultaneously, who is scheduled first. Each join waits for at most `interval` and (after the
    `fix:` commit) never beyond the deadline. -/
def joinLoop (fuel : Nat) (now deadline interval : Nat) (d : Option Nat) (h : Nat) (tie : Bool) : JoinResult × Nat :=
  match fuel with
  | 0 => joinExit now d tie
  | fuel + 1 =>
    if now < deadline then
      let wake := min (now + interval) deadline
      match d with
      | some dv =>
        -- join() returns early when the thread exits, at dv + h
        if dv + h < wake ∨ (dv + h = wake ∧ tie = true) then (.own, max now (dv + h))
        else joinLoop fuel wake deadline interval d h tie
      | none => joinLoop fuel wake deadline interval d h tie
    else joinExit now d tie

/-- `join_or_die` for a phase with `timeout_s` (or the default), started at time 0 -/
def joinOrDie (timeout interval : Nat) (d : Option Nat) (h : Nat) (tie : Bool) : JoinResult × Nat :=
  joinLoop (timeout + 1) 0 timeout interval d h tie

def effectiveTimeoutS (timeoutS : Option Nat) : Nat := timeoutS.getD OpenHTF.Gen.c12_defaultPhaseTimeoutS

/-! ### the lock probe of `kill()`: reading `locked()` (as `kTry` above, after the `fix:` commit) versus
try-acquire + release (before it). The lock: `none` = free, `some 0` = held by the target thread,
`some (k+1)` = held by killer `k` for the duration of its probe. -/

structure ProbeS where
  owner : Option Nat := none
  sawRunning : Nat → Option Bool := fun _ => none     -- what each killer's probe concluded

inductive ProbeAct
  | tryAcquire (k : Nat)      -- `self._running_lock.acquire(False)`
  | release (k : Nat)         -- `self._running_lock.release()` after a successful probe
deriving DecidableEq, Repr

def probeStep (s : ProbeS) : ProbeAct → ProbeS
  | .tryAcquire k =>
    if (s.sawRunning k).isSome then s
    else if s.owner = none then { owner := some (k + 1), sawRunning := fun j => if j = k then some false else s.sawRunning j }
    else { s with sawRunning := fun j => if j = k then some true else s.sawRunning j }
  | .release k => if s.owner = some (k + 1) then { s with owner := none } else s

/-- the probe that only reads the lock -/
def lockedProbe (owner : Option Nat) : Bool := owner.isSome

end OpenHTF.Kill
