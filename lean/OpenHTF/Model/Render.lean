/-
C10 — model of the base-type rendering: `util/data.py::convert_to_base_types` on the value family of
the property, and the incremental caches of MeasuredValue / DimensionedMeasuredValue / Measurement
(`_cached_value`, `_cached_basetype_values`, `_cached`). Import-free, executable.
-/
namespace OpenHTF.Render

inductive NonFinite | nan | posInf | negInf
deriving DecidableEq, Repr

inductive PyVal where
  | none
  | bool (b : Bool)
  | int (z : Int)
  | nonfinite (f : NonFinite)
  | str (s : String)
  | enum (name : String)
  | list (l : List PyVal)
  | tuple (l : List PyVal)
  | dict (kvs : List (String × PyVal))
deriving Repr

def reprNF : NonFinite → String | .nan => "nan" | .posInf => "inf" | .negInf => "-inf"

mutual
/-- `convert_to_base_types(obj, json_safe=js)`; the dict branch calls itself without forwarding
    `json_safe`, i.e. with the default True -/
def convert (js : Bool) : PyVal → PyVal
  | .none => .none
  | .bool b => .bool b
  | .int z => .int z
  | .nonfinite f => if js then .str (reprNF f) else .nonfinite f
  | .str s => .str s
  | .enum n => .str n
  | .list l => .list (convertList js l)
  | .tuple l => .tuple (convertList js l)
  | .dict kvs => .dict (convertKvs kvs)
def convertList (js : Bool) : List PyVal → List PyVal
  | [] => []
  | v :: vs => convert js v :: convertList js vs
def convertKvs : List (String × PyVal) → List (String × PyVal)
  | [] => []
  | (k, v) :: kvs => (k, convert true v) :: convertKvs kvs
end

mutual
/-- only dict/list/tuple/str/int/bool/None (and non-finite floats) -/
def isBase : PyVal → Bool
  | .enum _ => false
  | .list l => allBase l
  | .tuple l => allBase l
  | .dict kvs => allBaseKvs kvs
  | _ => true
def allBase : List PyVal → Bool
  | [] => true
  | v :: vs => isBase v && allBase vs
def allBaseKvs : List (String × PyVal) → Bool
  | [] => true
  | (_, v) :: kvs => isBase v && allBaseKvs kvs
end

mutual
/-- no NaN / Infinity leaf -/
def finite : PyVal → Bool
  | .nonfinite _ => false
  | .list l => allFinite l
  | .tuple l => allFinite l
  | .dict kvs => allFiniteKvs kvs
  | _ => true
def allFinite : List PyVal → Bool
  | [] => true
  | v :: vs => finite v && allFinite vs
def allFiniteKvs : List (String × PyVal) → Bool
  | [] => true
  | (_, v) :: kvs => finite v && allFiniteKvs kvs
end

/-! ### measurement caches -/

structure MeasState where
  dimensioned : Bool
  stored : Option PyVal := none                      -- MeasuredValue.stored_value (if set)
  cachedValue : Option PyVal := none                 -- MeasuredValue._cached_value
  entries : List (List PyVal × PyVal) := []          -- value_dict (coordinates, value), insertion order
  cachedRows : Option (List PyVal) := some []        -- _cached_basetype_values; none = invalidated
  outcome : String := "UNSET"
  cachedOutcome : String := "UNSET"                  -- Measurement._cached['outcome']
  cachedMeasured : Option PyVal := none              -- Measurement._cached['measured_value'] (if present)
deriving Repr

inductive Op
  | set (v : PyVal) (outcome : String)               -- scalar assignment (already transformed value) + validate()
  | setDim (c : List PyVal) (v : PyVal)              -- dimensioned assignment (already transformed value)
  | validate (outcome : String)                      -- end-of-phase validation
  | read                                             -- `as_base_types()` (live view / record rendering)
deriving Repr

def upsert (c : List PyVal) (v : PyVal) (eqc : List PyVal → List PyVal → Bool) :
    List (List PyVal × PyVal) → List (List PyVal × PyVal) × Bool
  | [] => ([(c, v)], false)
  | (c', v') :: rest =>
    if eqc c' c then ((c, v) :: rest, true)
    else let r := upsert c v eqc rest; ((c', v') :: r.1, r.2)

/-- rows as rendered from scratch: `convert_to_base_types(coordinates + (value,))` per entry -/
def freshRows (entries : List (List PyVal × PyVal)) : List PyVal :=
  entries.map (fun e => convert true (.tuple (e.1 ++ [e.2])))

/-- `basetype_value()` -/
def basetypeValue (m : MeasState) : Option PyVal × MeasState :=
  if m.dimensioned then
    match m.cachedRows with
    | some rows => (if m.entries.isEmpty then none else some (.list rows), m)
    | none =>
      let rows := freshRows m.entries
      (if m.entries.isEmpty then none else some (.list rows), { m with cachedRows := some rows })
  else (if m.stored.isSome then m.cachedValue else none, m)

def step (eqc : List PyVal → List PyVal → Bool) (m : MeasState) : Op → MeasState
  | .set v o =>
    { m with stored := some v, cachedValue := some (convert true v), outcome := o, cachedOutcome := o }
  | .setDim c v =>
    let r := upsert c v eqc m.entries
    let rows := if r.2 then none else m.cachedRows.map (· ++ [convert true (.tuple (c ++ [v]))])
    { m with entries := r.1, cachedRows := rows, outcome := "PARTIALLY_SET", cachedOutcome := "PARTIALLY_SET" }
  | .validate o => { m with outcome := o, cachedOutcome := o }
  | .read =>
    let r := basetypeValue m
    match r.1 with
    | some v => { r.2 with cachedMeasured := some v }
    | none => r.2

/-- what a from-scratch rendering of the in-memory objects gives -/
def renderFresh (m : MeasState) : String × Option PyVal :=
  (m.outcome,
   if m.dimensioned then (if m.entries.isEmpty then none else some (.list (freshRows m.entries)))
   else m.stored.map (convert true))

/-- what the cached dict holds -/
def renderCached (m : MeasState) : String × Option PyVal := (m.cachedOutcome, m.cachedMeasured)

end OpenHTF.Render
