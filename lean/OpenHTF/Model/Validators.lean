/-
C07 — model of the built-in validators in `openhtf/util/validators.py` (import-free, executable).

Numbers are exact: the harness turns every float/int of a case into an integer by scaling the whole
case with a common power-of-two denominator (order comparisons are scale invariant), so model and code
decide the same exact rationals. No floating point appears in the model.
-/
namespace OpenHTF.Validators

/-- a probe value -/
inductive V
  | none                       -- Python None
  | nan
  | negInf
  | posInf
  | fin (z : Int)              -- any finite int/float/bool, scaled
  | str                        -- a non-numeric value (string)
deriving DecidableEq, Repr

/-- a declared limit -/
inductive Lim
  | none                       -- not given
  | num (v : V)                -- a number (int/float/bool)
  | conv (v : V)               -- a numeric string together with `type=`: converted before comparing
deriving DecidableEq, Repr

def Lim.isNone : Lim → Bool | .none => true | _ => false
/-- the limit as used in comparisons (`converter(self._minimum)`) -/
def Lim.val : Lim → V | .none => .none | .num v => v | .conv v => v
/-- `isinstance(limit, numbers.Number)` on the raw limit (strings are not) -/
def Lim.isNumber : Lim → Bool | .num _ => true | _ => false

/-- outcome of evaluating a validator: Python `True`, `False`, or an exception -/
inductive R | accept | reject | raises
deriving DecidableEq, Repr

/-- Python `a <= b` for numbers (IEEE: anything with NaN is false); `none` = TypeError -/
def le? : V → V → Option Bool
  | .nan, .nan | .nan, .negInf | .nan, .posInf | .nan, .fin _ => some false
  | .negInf, .nan | .posInf, .nan | .fin _, .nan => some false
  | .negInf, .negInf | .negInf, .posInf | .negInf, .fin _ => some true
  | .posInf, .posInf => some true
  | .posInf, .negInf | .posInf, .fin _ => some false
  | .fin _, .negInf => some false
  | .fin _, .posInf => some true
  | .fin a, .fin b => some (decide (a ≤ b))
  | _, _ => Option.none
/-- Python `a < b` -/
def lt? : V → V → Option Bool
  | .nan, .nan | .nan, .negInf | .nan, .posInf | .nan, .fin _ => some false
  | .negInf, .nan | .posInf, .nan | .fin _, .nan => some false
  | .negInf, .negInf => some false
  | .negInf, .posInf | .negInf, .fin _ => some true
  | .posInf, .posInf | .posInf, .negInf | .posInf, .fin _ => some false
  | .fin _, .negInf => some false
  | .fin _, .posInf => some true
  | .fin a, .fin b => some (decide (a < b))
  | _, _ => Option.none

structure Range where
  min : Lim
  max : Lim
  mmin : Lim
  mmax : Lim
deriving DecidableEq, Repr

/-- `a > b` on raw numeric limits, as the constructor evaluates it (`false` unless both numbers) -/
def gtNum (a b : Lim) : Bool :=
  a.isNumber && b.isNumber && (lt? b.val a.val == some true)

/-- `InRange.__init__` / `AllInRangeValidator.__init__`: `true` = raises ValueError -/
def ctorRejects (r : Range) : Bool :=
  (r.min.isNone && r.max.isNone) ||
  gtNum r.min r.max ||
  (!r.mmin.isNone && r.min.isNone) ||
  (!r.mmax.isNone && r.max.isNone) ||
  gtNum r.min r.mmin ||
  gtNum r.mmax r.max ||
  gtNum r.mmin r.mmax

/-- `math.isnan(value)` (guarded against OverflowError): raises TypeError on a non-number -/
def isNan : V → Option Bool | .nan => some true | .str => Option.none | .none => Option.none | _ => some false

/-- `self._minimum is not None and value < self.minimum` (`none` = the comparison raises) -/
def below? (l : Lim) (v : V) : Option Bool := if l.isNone then some false else lt? v l.val
/-- `self._maximum is not None and value > self.maximum` -/
def above? (l : Lim) (v : V) : Option Bool := if l.isNone then some false else lt? l.val v

/-- `InRange.__call__` -/
def inRange (r : Range) (v : V) : R :=
  if v = .none then .reject
  else match isNan v with
  | Option.none => .raises
  | some true => .reject
  | some false =>
    match below? r.min v with
    | Option.none => .raises
    | some true => .reject
    | some false =>
      match above? r.max v with
      | Option.none => .raises
      | some true => .reject
      | some false => .accept

/-- Python chained comparison `a <= v <= b` -/
def between? (a v b : V) : Option Bool :=
  match le? a v with
  | Option.none => Option.none
  | some false => some false
  | some true => le? v b

/-- `self._marginal_x is not None and lo <= value <= hi` -/
def band? (marg : Lim) (lo v hi : V) : Option Bool := if marg.isNone then some false else between? lo v hi

/-- `InRange.is_marginal` -/
def inRangeMarginal (r : Range) (v : V) : R :=
  if v = .none then .reject
  else match isNan v with
  | Option.none => .raises
  | some true => .reject
  | some false =>
    match band? r.mmin r.min.val v r.mmin.val with
    | Option.none => .raises
    | some true => .accept
    | some false =>
      match band? r.mmax r.mmax.val v r.max.val with
      | Option.none => .raises
      | some true => .accept
      | some false => .reject

/-- Python `all(f(x) for x in xs)` with a possibly raising `f` (stops at the first False) -/
def allM (f : V → Option Bool) : List V → Option Bool
  | [] => some true
  | x :: xs => match f x with
    | Option.none => Option.none
    | some false => some false
    | some true => allM f xs

/-- `AllInRangeValidator.__call__`: maximum is checked over all values first, then minimum -/
def allInRange (r : Range) (vs : List V) : R :=
  match (if r.max.isNone then some true else allM (fun v => le? v r.max.val) vs) with
  | Option.none => .raises
  | some wmax =>
    match (if r.min.isNone then some true else allM (fun v => le? r.min.val v) vs) with
    | Option.none => .raises
    | some wmin => if wmin && wmax then .accept else .reject

/-- percent tolerance with exact bounds: `|100·(v−e)| ≤ |e·p|` (no division) -/
structure Pct where
  e : Int
  p : Int        -- percent ≥ 0
  mp : Option Int
deriving DecidableEq, Repr

def pctRejects (c : Pct) : Bool :=
  decide (c.p < 0) || (match c.mp with | some m => decide (m ≥ c.p) | Option.none => false)

def pctAccept (c : Pct) (v : Int) : Bool := decide ((100 * (v - c.e)).natAbs ≤ (c.e * c.p).natAbs)

/-- `WithinPercent.is_marginal` in exact arithmetic: strictly inside the tolerance and at or beyond
    the marginal tolerance; a marginal percent of 0 (falsy) means no marginal band -/
def pctMarginal (c : Pct) (v : Int) : Bool :=
  match c.mp with
  | Option.none => false
  | some m =>
    if m = 0 then false
    else decide ((100 * (v - c.e)).natAbs < (c.e * c.p).natAbs) && decide ((c.e * m).natAbs ≤ (100 * (v - c.e)).natAbs)

/-- `WithinPercent.__call__` given the bounds the object reports (`minimum <= value <= maximum`) -/
def pctCall (min max v : V) : R :=
  match between? min v max with
  | Option.none => .raises
  | some true => .accept
  | some false => .reject

/-- `DimensionPivot`: every row's value passes the sub-validator -/
def pivot (verdicts : List Bool) : Bool := verdicts.all id
/-- `ConsistentEndDimensionPivot`: some row passes, and from the first passing row on all pass -/
def consistentEnd (verdicts : List Bool) : Bool :=
  match verdicts.dropWhile (fun b => !b) with
  | [] => false
  | rest => rest.all id

/-- `equals('literal')` = `matches_regex('^' + re.escape(literal) + '$')` on `str(value)`:
    `$` also matches before one trailing newline -/
def equalsStr (lit v : List Nat) : Bool := v == lit || v == lit ++ [10]
/-- `all_equals('literal')` on a list of strings (after the `fix:` commit: every element is compared with the literal) -/
def allEqualsStr (lit : List Nat) (vs : List (List Nat)) : Bool := vs.all (· == lit)
/-- `matches_regex(re.escape(lit))`: `match` anchors at the start only -/
def matchesLiteralPrefix (lit v : List Nat) : Bool := lit.isPrefixOf v

/-! ### Spec -/

/-- a numeric, comparable value (not None, not NaN, not a string) -/
def V.numeric : V → Bool | .fin _ | .negInf | .posInf => true | _ => false

/-- total order on numeric values, written independently of `le?` -/
def V.key : V → Int × Int     -- (class, payload): -1 = -inf, 0 = finite, 1 = +inf
  | .negInf => (-1, 0) | .posInf => (1, 0) | .fin z => (0, z) | _ => (0, 0)
def V.leq (a b : V) : Bool := decide (a.key.1 < b.key.1) || (decide (a.key.1 = b.key.1) && decide (a.key.2 ≤ b.key.2))

/-- inside the declared limits, both bounds inclusive -/
def Spec.inside (r : Range) (v : V) : Bool :=
  v.numeric && (r.min.isNone || r.min.val.leq v) && (r.max.isNone || v.leq r.max.val)

/-- between a bound and that bound's marginal limit, inclusive -/
def Spec.inBand (r : Range) (v : V) : Bool :=
  (!r.mmin.isNone && r.min.val.leq v && v.leq r.mmin.val) ||
  (!r.mmax.isNone && r.mmax.val.leq v && v.leq r.max.val)

end OpenHTF.Validators
