import OpenHTF.Gen.Constants
/-
C15 — model of `AdbConnection.connect`, stream-id allocation and the open/close life cycle of a
stream (openhtf/plugs/usb/adb_protocol.py), single host thread. Import-free, executable.
-/
namespace OpenHTF.AdbConn

/-! ### connect -/

/-- what the device sends next during the handshake -/
inductive Reply
  | cnxn (maxdata : Nat) (bannerOk : Bool)   -- CNXN; the banner has the form systemtype:serial:banner or not
  | authToken (token : Nat)                  -- AUTH with arg0 = AUTH_TOKEN
  | authOther                                -- AUTH with another arg0
  | noise                                    -- any other well-formed packet (ignored before CNXN)
deriving DecidableEq, Repr

/-- what the host sends -/
inductive Sent
  | cnxn
  | signature (key : Nat) (token : Nat)      -- AUTH SIGNATURE: key `key` signed challenge `token`
  | publicKey (key : Nat)                    -- AUTH RSAPUBLICKEY with the public key of key `key`
deriving DecidableEq, Repr

inductive ConnResult
  | connected (maxdata : Nat)
  | authError | protocolError | timeoutError
deriving DecidableEq, Repr

/-- `read_until(expected)`: skip packets that are not expected; an exhausted script is the transport's
    read timeout. Returns the matching reply and the rest. `wantAuth` = AUTH is among the expected. -/
def readUntil (wantAuth : Bool) : List Reply → Option (Reply × List Reply)
  | [] => none
  | r :: rs =>
    match r with
    | .cnxn _ _ => some (r, rs)
    | .authToken _ | .authOther => if wantAuth then some (r, rs) else readUntil wantAuth rs
    | .noise => readUntil wantAuth rs

def connectedOf : Reply → ConnResult
  | .cnxn m ok => if ok then .connected m else .protocolError      -- malformed banner
  | _ => .protocolError

/-- the key loop: `msg` is the pending AUTH message -/
def keyLoop (nkeys : Nat) : (k : Nat) → (msg : Reply) → List Reply → List Sent → List Sent × ConnResult
  | k, msg, rs, sent =>
    if h : k < nkeys then
      match msg with
      | .authToken t =>
        let sent := sent ++ [.signature k t]
        match readUntil true rs with
        | none => (sent, .timeoutError)
        | some (.cnxn m ok, _) => (sent, connectedOf (.cnxn m ok))
        | some (msg', rs') => keyLoop nkeys (k + 1) msg' rs' sent
      | _ => (sent, .protocolError)                -- 'Bad AUTH response'
    else
      -- every signature was rejected: offer the first public key once, wait for CNXN only
      let sent := sent ++ [.publicKey 0]
      match readUntil false rs with
      | none => (sent, .authError)                 -- read timeout -> DeviceAuthError
      | some (r, _) => (sent, connectedOf r)
termination_by k _ _ _ => nkeys - k

/-- `AdbConnection.connect(transport, rsa_keys)` -/
def connect (nkeys : Nat) (replies : List Reply) : List Sent × ConnResult :=
  match readUntil true replies with
  | none => ([.cnxn], .timeoutError)
  | some (.cnxn m ok, _) => ([.cnxn], connectedOf (.cnxn m ok))
  | some (msg, rs) =>
    if nkeys = 0 then ([.cnxn], .authError)
    else keyLoop nkeys 0 msg rs [.cnxn]

/-! ### connect with a handshake deadline

`exp = some n`: the handshake time-out (`timeout_ms`) expires while the `n`-th message from now is being
read (`none`: never). `read_until` returns a message of an expected kind even when the time-out has expired
meanwhile, reads at least one message, and raises AdbTimeoutError as soon as an unexpected message has been
read with the time-out expired. The public-key phase starts a fresh time-out (`auth_timeout_ms`). -/

def tick (exp : Option Nat) : Option Nat := exp.map (· - 1)
def expired (exp : Option Nat) : Bool := exp == some 0

inductive RU
  | got (r : Reply) (rest : List Reply) (exp : Option Nat)
  | exhausted                    -- the transport's read time-out
  | expiredNoise                 -- AdbTimeoutError: unrelated packets until the time-out expired
deriving DecidableEq, Repr

def readUntilE (wantAuth : Bool) : Option Nat → List Reply → RU
  | _, [] => .exhausted
  | exp, r :: rs =>
    match r with
    | .cnxn _ _ => .got r rs (tick exp)
    | .authToken _ | .authOther =>
      if wantAuth then .got r rs (tick exp) else if expired (tick exp) then .expiredNoise else readUntilE wantAuth (tick exp) rs
    | .noise => if expired (tick exp) then .expiredNoise else readUntilE wantAuth (tick exp) rs

def keyLoopE (nkeys : Nat) : (k : Nat) → (msg : Reply) → List Reply → Option Nat → List Sent → List Sent × ConnResult
  | k, msg, rs, exp, sent =>
    if h : k < nkeys then
      match msg with
      | .authToken t =>
        let sent := sent ++ [.signature k t]
        match readUntilE true exp rs with
        | .exhausted | .expiredNoise => (sent, .timeoutError)
        | .got (.cnxn m ok) _ _ => (sent, connectedOf (.cnxn m ok))
        | .got msg' rs' exp' => keyLoopE nkeys (k + 1) msg' rs' exp' sent
      | _ => (sent, .protocolError)
    else
      let sent := sent ++ [.publicKey 0]
      -- a fresh PolledTimeout: if the handshake time-out has already expired, this one does not expire
      match readUntilE false (if expired exp then none else exp) rs with
      | .exhausted => (sent, .authError)
      | .expiredNoise => (sent, .timeoutError)
      | .got r _ _ => (sent, connectedOf r)
termination_by k _ _ _ _ => nkeys - k

def connectE (nkeys : Nat) (exp : Option Nat) (replies : List Reply) : List Sent × ConnResult :=
  match readUntilE true exp replies with
  | .exhausted | .expiredNoise => ([.cnxn], .timeoutError)
  | .got (.cnxn m ok) _ _ => ([.cnxn], connectedOf (.cnxn m ok))
  | .got msg rs exp' =>
    if nkeys = 0 then ([.cnxn], .authError)
    else keyLoopE nkeys 0 msg rs exp' [.cnxn]

/-! ### local stream ids -/

def probes : Nat := 64

/-- `_make_stream_transport`: candidates `(last % limit) + 1, …` wrapping from `limit - 1` to 1, at most
    64 of them; the first one not in the map -/
def candidates (limit last : Nat) : List Nat :=
  let start := last % limit + 1
  ((List.range' start (limit - start)) ++ (List.range' 1 (start - 1))).take probes

def allocId (limit last : Nat) (live : List Nat) : Option Nat :=
  (candidates limit last).find? (fun i => !live.contains i)

/-! ### stream life cycle (single host thread) -/

inductive SState | pending | open | closed
deriving DecidableEq, Repr

/-- device → host packets after the handshake -/
inductive DMsg
  | okay (remote local_ : Nat)
  | wrte (remote local_ : Nat) (data : Nat)
  | clse (remote local_ : Nat)
  | illegal                                  -- CNXN / AUTH / OPEN / SYNC mid-session
deriving DecidableEq, Repr

/-- host → device packets -/
inductive HMsg
  | open_ (local_ : Nat)
  | okay (local_ remote : Nat)
  | clse (local_ remote : Nat)
deriving DecidableEq, Repr

structure Stream where
  local_ : Nat
  remote : Nat := 0                          -- 0 = not yet known
  state : SState := .pending
  queue : List DMsg := []
  buf : List Nat := []
  expectingOkay : Bool := true               -- `_expecting_okay`: set while an OKAY (to OPEN or WRTE) is outstanding
deriving DecidableEq, Repr

structure Conn where
  limit : Nat
  last : Nat := 0
  map : List Nat := []                       -- local ids in `_stream_transport_map`
  streams : List Stream := []                -- every stream object ever created (also closed ones)
  sent : List HMsg := []
  dev : List DMsg                            -- what the device will send, in order
deriving Repr

inductive Err | protocol | closed | timeout | unavailable
deriving DecidableEq, Repr

def getS (c : Conn) (l : Nat) : Option Stream := c.streams.find? (·.local_ == l)
def putS (c : Conn) (s : Stream) : Conn :=
  { c with streams := c.streams.map (fun x => if x.local_ == s.local_ then s else x) }

/-- `close_stream_transport`: release the id; answer with one CLSE if the remote id is known -/
def closeTransport (c : Conn) (l : Nat) : Conn :=
  if c.map.contains l then
    let c := { c with map := c.map.filter (· != l) }
    match getS c l with
    | some s => if s.remote != 0 then { c with sent := c.sent ++ [.clse l s.remote] } else c
    | none => c
  else c

def localOf : DMsg → Option Nat
  | .okay _ l | .wrte _ l _ | .clse _ l => some l
  | .illegal => none

/-- `read_for_stream(s)`: a message for stream `l` — from its queue, else from the device, routing other
    streams' messages to their queues (acknowledging WRTE, answering CLSE) -/
def readForStream (l : Nat) : Nat → Conn → Conn × Except Err DMsg
  | 0, c => (c, .error .timeout)
  | fuel+1, c =>
    match getS c l with
    | none => (c, .error .closed)
    | some s =>
      if !c.map.contains l then
        match s.queue with
        | m :: q => (putS c { s with queue := q }, .ok m)
        | [] => (c, .error .closed)
      else match s.queue with
        | m :: q => (putS c { s with queue := q }, .ok m)
        | [] =>
          match c.dev with
          | [] => (c, .error .timeout)
          | m :: dev =>
            let c := { c with dev := dev }
            match localOf m with
            | none => (c, .error .protocol)
            | some lm =>
              if lm = l then
                match m with
                | .wrte _ _ _ =>
                  if s.remote = 0 then (c, .error .protocol)
                  else ({ c with sent := c.sent ++ [.okay l s.remote] }, .ok m)
                | .clse _ _ => (closeTransport c l, .ok m)
                | _ => (c, .ok m)
              else
                if c.map.contains lm then
                  match getS c lm with
                  | none => readForStream l fuel c
                  | some d =>
                    match m with
                    | .clse _ _ =>
                      let c := closeTransport c lm
                      readForStream l fuel (putS c { d with queue := d.queue ++ [m] })
                    | .wrte _ _ _ =>
                      if d.remote = 0 then (c, .error .protocol)     -- 'send before OKAY'
                      else readForStream l fuel (putS { c with sent := c.sent ++ [.okay lm d.remote] } { d with queue := d.queue ++ [m] })
                    | .okay r _ =>
                      if d.remote = 0 then readForStream l fuel (putS c { d with remote := r, state := .open, queue := d.queue ++ [m] })
                      else if d.remote ≠ r then (c, .error .protocol)
                      else readForStream l fuel (putS c { d with queue := d.queue ++ [m] })
                    | .illegal => (c, .error .protocol)
                else readForStream l fuel c      -- unknown local id: warning, ignored

/-- `_handle_message` -/
def handleMessage (s : Stream) (m : DMsg) (handleWrte : Bool) : Except Err Stream :=
  match m with
  | .okay r _ =>
    if s.remote ≠ 0 ∧ s.remote ≠ r then .error .protocol
    else if !s.expectingOkay then .error .protocol                  -- 'received unexpected OKAY'
    else .ok { s with remote := (if s.remote = 0 then r else s.remote), state := (if s.remote = 0 then .open else s.state),
                      expectingOkay := false }
  | .clse _ _ => .ok { s with state := .closed }
  | .wrte _ _ d => if handleWrte then .ok { s with buf := s.buf ++ [d] } else .error .protocol
  | .illegal => .error .protocol

inductive OpenResult | stream (local_ : Nat) | noStream | error (e : Err)
deriving DecidableEq, Repr

/-- `open_stream` -/
def openStream (c : Conn) : Conn × OpenResult :=
  match allocId c.limit c.last c.map with
  | none => (c, .error .unavailable)
  | some l =>
    let c := { c with last := l, map := c.map ++ [l], streams := c.streams.filter (·.local_ != l) ++ [{ local_ := l }],
                      sent := c.sent ++ [.open_ l] }
    let r := readForStream l (c.dev.length + 1) c
    match r.2 with
    | .error e => (r.1, .error e)
    | .ok m =>
      match getS r.1 l with
      | none => (r.1, .error .closed)
      | some s =>
        match handleMessage s m false with
        | .error e => (r.1, .error e)
        | .ok s' => (putS r.1 s', if s'.state == .open then .stream l else .noStream)

/-- `AdbStream.close()` -/
def closeStream (c : Conn) (l : Nat) : Conn :=
  match getS c l with
  | none => c
  | some s =>
    if s.state == .closed then c
    else closeTransport (putS c { s with state := .closed }) l

/-- `AdbStream.read(length)`: `length = 0` = all available data (at least one byte), else exactly `length` bytes;
    buffered data is handed out first (also after the stream was closed: drain, then closed), otherwise messages
    for this stream are read until enough data arrived; what is left over stays buffered for the next read -/
def readStream (l : Nat) (len : Nat := 0) : Nat → Conn → Conn × Except Err (List Nat)
  | 0, c => (c, .error .timeout)
  | fuel+1, c =>
    match getS c l with
    | none => (c, .error .closed)
    | some s =>
      if !s.buf.isEmpty && s.buf.length ≥ len then
        (if len = 0 then (putS c { s with buf := [] }, .ok s.buf)
         else (putS c { s with buf := s.buf.drop len }, .ok (s.buf.take len)))
      else
        let r := readForStream l (c.dev.length + 1) c
        match r.2 with
        | .error e => (r.1, .error e)
        | .ok m =>
          match getS r.1 l with
          | none => (r.1, .error .closed)
          | some s1 =>
            match handleMessage s1 m true with
            | .error e => (r.1, .error e)
            | .ok s2 => readStream l len fuel (putS r.1 s2)

end OpenHTF.AdbConn
